/-
  Helper lemmas for C10 (encoding reversible and order-preserving).
-/
import KB.Coder
namespace KB
open Generated

/-- A key is over the documented alphabet iff every byte is greater than the split byte. -/
def Alphabet (k : Bytes) : Prop := ∀ b ∈ k, splitByte < b

instance (k : Bytes) : Decidable (Alphabet k) := by unfold Alphabet; infer_instance

/-- The heart of order preservation: two keys over the alphabet, each followed by the split
byte and arbitrary tails, compare like the keys, and like the tails when the keys are equal. -/
theorem cmp_split (s : Nat) (k1 k2 t1 t2 : Bytes)
    (h1 : ∀ b ∈ k1, s < b) (h2 : ∀ b ∈ k2, s < b) :
    cmp (k1 ++ s :: t1) (k2 ++ s :: t2) = if k1 = k2 then cmp t1 t2 else cmp k1 k2 := by
  induction k1 generalizing k2 with
  | nil =>
    cases k2 with
    | nil => simp [cmp_cons_cons]
    | cons y ys =>
      have : s < y := h2 y (by simp)
      simp [cmp_cons_cons, this]
  | cons x xs ih =>
    cases k2 with
    | nil =>
      have : s < x := h1 x (by simp)
      have h' : ¬ x < s := by omega
      simp [cmp_cons_cons, this, h']
    | cons y ys =>
      simp only [List.cons_append, cmp_cons_cons, List.cons.injEq]
      by_cases hxy : x < y
      · have : x ≠ y := by omega
        simp [hxy, this]
      · by_cases hyx : y < x
        · have : x ≠ y := by omega
          simp [hxy, hyx, this]
        · have : x = y := by omega
          subst this
          simp only [hxy, if_false, true_and]
          exact ih ys (fun b hb => h1 b (by simp [hb])) (fun b hb => h2 b (by simp [hb]))

theorem encode_cmp {k1 k2 : Bytes} {r1 r2 : Nat} (h1 : Alphabet k1) (h2 : Alphabet k2)
    (hr1 : r1 < 2 ^ 64) (hr2 : r2 < 2 ^ 64) :
    cmp (encode k1 r1) (encode k2 r2) = if k1 = k2 then compare r1 r2 else cmp k1 k2 := by
  unfold encode
  rw [cmp_append_left, cmp_split splitByte k1 k2 _ _ h1 h2, cmp_be64 hr1 hr2]

theorem encode_length (k : Bytes) (r : Nat) : (encode k r).length = magic.length + k.length + 9 := by
  simp [encode, be64]; omega

theorem magic_length : magic.length = 4 := by decide

theorem decode_encode (k : Bytes) (r : Nat) (hr : r < 2 ^ 64) : decode (encode k r) = .ok k r := by
  have hlen := encode_length k r
  have hm := magic_length
  unfold decode
  have h1 : ¬ (encode k r).length < minKeyLength := by unfold minKeyLength; omega
  have h2 : (encode k r).take magic.length = magic := by simp [encode]
  have h4 : (encode k r).getD ((encode k r).length - 9) 0 = splitByte := by
    have : (encode k r).length - 9 = magic.length + k.length := by omega
    rw [this]
    simp [encode, List.getD_eq_getElem?_getD, List.getElem?_append_right]
  have h6 : ((encode k r).drop magic.length).take ((encode k r).length - 9 - magic.length) = k := by
    have : (encode k r).length - 9 - magic.length = k.length := by omega
    rw [this]; simp [encode]
  have h7 : (encode k r).drop ((encode k r).length - 8) = be64 r := by
    have : (encode k r).length - 8 = magic.length + (k.length + 1) := by omega
    rw [this]
    simp only [encode]
    rw [List.drop_append]
    have e : (k ++ splitByte :: be64 r) = (k ++ [splitByte]) ++ be64 r := by simp
    rw [e, List.drop_append]
    simp
  rw [List.getD_eq_getElem?_getD] at h4
  simp [h1, h2, h4, h6, h7, fromBE_be64 hr]

/-- `Decode` is total since /repo 5ace897: no input makes it index out of range. -/
theorem decode_never_panics (ik : Bytes) : decode ik ≠ .panic := by
  unfold decode
  repeat' split
  all_goals simp

/-- ... every key is classified: decoded, or reported as not an internal key. -/
theorem decode_total (ik : Bytes) : decode ik = .err ∨ ∃ k r, decode ik = .ok k r := by
  cases h : decode ik with
  | ok k r => exact .inr ⟨k, r, rfl⟩
  | err => exact .inl rfl
  | panic => exact absurd h (decode_never_panics ik)

/-- a key too short to hold magic, split byte and revision is reported -/
theorem decode_short {ik : Bytes} (h : ik.length < 13) : decode ik = .err := by
  have : ik.length < minKeyLength := by unfold minKeyLength; rw [magic_length]; omega
  simp [decode, this]

/-- what decodes is at least 13 bytes long -/
theorem decode_ok_length {ik k : Bytes} {r : Nat} (h : decode ik = .ok k r) : 13 ≤ ik.length := by
  by_cases hl : ik.length < 13
  · rw [decode_short hl] at h; cases h
  · omega

/-- On every key the repaired `Decode` answers what the old one answered — wherever the old one answered. -/
theorem decode_eq_old {ik : Bytes} (h : decodeOld ik ≠ .panic) : decode ik = decodeOld ik := by
  have hm := magic_length
  unfold decodeOld at h
  unfold decode decodeOld minKeyLength
  by_cases h1 : ik.length < magic.length
  · simp [h1] at h
  · by_cases h2 : (ik.take magic.length != magic) = true
    · simp only [h1, h2, if_true, if_false]
      split <;> rfl
    · by_cases h3 : ik.length < 9
      · simp [h1, h2, h3] at h
      · by_cases h4 : (ik.getD (ik.length - 9) 0 != splitByte) = true
        · simp only [h1, h2, h3, h4, if_true, if_false]
          split <;> rfl
        · by_cases h5 : ik.length - 9 < magic.length
          · simp only [h1, h2, h3, h4, h5, if_true, if_false] at h
            exact absurd rfl h
          · have h6 : ¬ ik.length < magic.length + 1 + 8 := by omega
            simp only [h1, h2, h3, h4, h5, h6, if_false]

theorem encode_inj {k1 k2 : Bytes} {r1 r2 : Nat} (hr1 : r1 < 2 ^ 64) (hr2 : r2 < 2 ^ 64)
    (h : encode k1 r1 = encode k2 r2) : k1 = k2 ∧ r1 = r2 := by
  have e1 := decode_encode k1 r1 hr1
  have e2 := decode_encode k2 r2 hr2
  rw [h, e2] at e1
  injection e1 with a b
  exact ⟨a.symm, b.symm⟩

/-! ### prefixEnd -/

theorem ble_all255 {bs k : Bytes} (hb : ∀ b ∈ bs, b = 255) (hk : ∀ b ∈ k, b < 256) :
    ble bs k = true ↔ hasPrefix k bs = true := by
  induction bs generalizing k with
  | nil => cases k <;> simp [ble, hasPrefix]
  | cons x xs ih =>
    have hx : x = 255 := hb x (by simp)
    subst hx
    cases k with
    | nil => simp [ble, hasPrefix]
    | cons y ys =>
      have hy : y < 256 := hk y (by simp)
      have ih' := ih (k := ys) (fun b h => hb b (by simp [h])) (fun b h => hk b (by simp [h]))
      simp only [ble, cmp_cons_cons, hasPrefix] at *
      by_cases h : y = 255
      · subst h; simpa using ih'
      · have h1 : ¬ 255 < y := by omega
        have h2 : y < 255 := by omega
        simp [h1, h2, h]

theorem prefixEndAux_none {p : Bytes} (hp : ∀ b ∈ p, b < 256) (h : prefixEndAux p = none) :
    ∀ b ∈ p, b = 255 := by
  induction p with
  | nil => simp
  | cons x xs ih =>
    simp only [prefixEndAux] at h
    split at h
    · simp at h
    · rename_i hn
      split at h
      · simp at h
      · intro b hb
        simp only [List.mem_cons] at hb
        rcases hb with rfl | hb
        · have := hp b (by simp); omega
        · exact ih (fun b h => hp b (by simp [h])) hn b hb

theorem prefix_end_exact_aux {p e k : Bytes} (hp : ∀ b ∈ p, b < 256) (hk : ∀ b ∈ k, b < 256)
    (he : prefixEndAux p = some e) :
    hasPrefix k p = true ↔ (ble p k = true ∧ blt k e = true) := by
  induction p generalizing e k with
  | nil => simp [prefixEndAux] at he
  | cons x xs ih =>
    have hx : x < 256 := hp x (by simp)
    have hxs : ∀ b ∈ xs, b < 256 := fun b h => hp b (by simp [h])
    simp only [prefixEndAux] at he
    cases k with
    | nil => simp [hasPrefix, ble]
    | cons y ys =>
      have hys : ∀ b ∈ ys, b < 256 := fun b h => hk b (by simp [h])
      split at he
      · rename_i e' he'
        injection he with he; subst he
        have ih' := ih (e := e') (k := ys) hxs hys he'
        simp only [hasPrefix, ble, blt, cmp_cons_cons, Bool.and_eq_true, beq_iff_eq] at *
        by_cases h1 : x < y
        · have : ¬ y < x := by omega
          have : y ≠ x := by omega
          simp [h1, *]
        · by_cases h2 : y < x
          · have : y ≠ x := by omega
            simp [h1, h2, *]
          · have : y = x := by omega
            subst this
            simp [h1, ih']
      · rename_i hn
        split at he
        · rename_i hlt
          injection he with he; subst he
          have hall := prefixEndAux_none hxs hn
          have hb := ble_all255 (k := ys) hall hys
          simp only [hasPrefix, ble, blt, cmp_cons_cons, Bool.and_eq_true, beq_iff_eq] at *
          by_cases h1 : x < y
          · have h3 : ¬ y < x + 1 := by omega
            have h4 : y ≠ x := by omega
            by_cases h5 : x + 1 < y
            · simp [h1, h3, h4, h5]
            · have : y = x + 1 := by omega
              subst this
              cases ys <;> simp [h4]
          · by_cases h2 : y < x
            · have : y ≠ x := by omega
              simp [h1, h2, this]
            · have : y = x := by omega
              subst this
              simp [hb]
        · simp at he

theorem prefixEndAux_all255 {p : Bytes} (h : ∀ b ∈ p, b = 255) : prefixEndAux p = none := by
  induction p with
  | nil => rfl
  | cons x xs ih =>
    have hx := h x (by simp)
    simp [prefixEndAux, ih (fun b hb => h b (by simp [hb])), hx]

/-! ### range bounds (`encodeBound` = `backend.encodeRangeBound`, /repo 23c8b93: a raw bound is cut at its FIRST
byte at or below the key/revision separator) -/

/-- The byte at or below which `encodeRangeBound` cuts a bound (a constant local to the Go function, regenerated)
is the coder's split byte, and the function has the shape the model mirrors (regenerated shape fact). -/
theorem rangeBoundSeparator_eq : rangeBoundSeparator = splitByte := by decide

theorem cutLow_none_iff {b : Bytes} : cutLow b = none ↔ Alphabet b := by
  induction b with
  | nil => simp [cutLow, Alphabet]
  | cons x xs ih =>
    have hA : Alphabet (x :: xs) ↔ (splitByte < x ∧ Alphabet xs) := by
      simp [Alphabet]
    rw [hA, ← ih]
    simp only [cutLow, rangeBoundSeparator_eq]
    by_cases h : x ≤ splitByte
    · have : ¬ splitByte < x := by omega
      simp [h, this]
    · have : splitByte < x := by omega
      simp [h, this]

/-- What the loop finds: the bound is `P ++ c :: rest` with `P` over the alphabet and `c` at or below the
separator (`P = raw[:i]`, `c = raw[i]` for the first such `i`). -/
theorem cutLow_some {b P : Bytes} (h : cutLow b = some P) :
    Alphabet P ∧ ∃ c rest, b = P ++ c :: rest ∧ c ≤ splitByte := by
  induction b generalizing P with
  | nil => simp [cutLow] at h
  | cons x xs ih =>
    simp only [cutLow, rangeBoundSeparator_eq] at h
    by_cases hx : x ≤ splitByte
    · simp only [hx, if_true, Option.some.injEq] at h
      subst h
      exact ⟨by simp [Alphabet], x, xs, rfl, hx⟩
    · simp only [hx, if_false] at h
      cases hc : cutLow xs with
      | none => rw [hc] at h; simp at h
      | some Q =>
        rw [hc] at h
        simp only [Option.map_some, Option.some.injEq] at h
        subst h
        obtain ⟨hQ, c, rest, e, hcle⟩ := ih hc
        refine ⟨?_, c, rest, by rw [e]; rfl, hcle⟩
        intro y hy
        simp only [List.mem_cons] at hy
        rcases hy with rfl | hy
        · omega
        · exact hQ y hy

theorem cutLow_append {P : Bytes} (hP : Alphabet P) {c : Nat} (hc : c ≤ splitByte) (rest : Bytes) :
    cutLow (P ++ c :: rest) = some P := by
  induction P with
  | nil => simp [cutLow, rangeBoundSeparator_eq, hc]
  | cons x xs ih =>
    have hx : ¬ x ≤ splitByte := by have := hP x (by simp); omega
    have := ih (fun y hy => hP y (by simp [hy]))
    simp [cutLow, rangeBoundSeparator_eq, hx, this]

/-- A bound over the alphabet has no byte to cut at: it is encoded as before (the index key). -/
theorem encodeBound_of_alphabet {b : Bytes} (hb : Alphabet b) : encodeBound b = encode b 0 := by
  simp [encodeBound, cutLow_none_iff.mpr hb]

/-- A bound with a byte at or below the separator is encoded just after every version of what stands in front
of the first such byte. -/
theorem encodeBound_cut {P : Bytes} (hP : Alphabet P) {c : Nat} (hc : c ≤ splitByte) (rest : Bytes) :
    encodeBound (P ++ c :: rest) = encode P (2 ^ 64 - 1) ++ [0] := by
  simp [encodeBound, cutLow_append hP hc rest]

/-- The bound "just after K". -/
theorem encodeBound_succ {K : Bytes} (hK : Alphabet K) : encodeBound (K ++ [0]) = encode K (2 ^ 64 - 1) ++ [0] :=
  encodeBound_cut hK (by decide) []

/-- Every bound is a key over the alphabet, or has a first low byte with a key over the alphabet in front. -/
theorem bound_cases (b : Bytes) :
    (Alphabet b ∧ encodeBound b = encode b 0) ∨
    (∃ P c rest, Alphabet P ∧ c ≤ splitByte ∧ b = P ++ c :: rest ∧ encodeBound b = encode P (2 ^ 64 - 1) ++ [0]) := by
  cases h : cutLow b with
  | none => exact .inl ⟨cutLow_none_iff.mp h, encodeBound_of_alphabet (cutLow_none_iff.mp h)⟩
  | some P =>
    obtain ⟨hP, c, rest, e, hc⟩ := cutLow_some h
    exact .inr ⟨P, c, rest, hP, hc, e, by rw [e]; exact encodeBound_cut hP hc rest⟩

/-- `K ++ [0]` is the immediate successor of `K` in `bytes.Compare` order (all byte strings):
`k < K ++ [0]` iff `k ≤ K`. -/
theorem cmp_succ_lt_iff (k K : Bytes) : cmp k (K ++ [0]) = .lt ↔ cmp k K ≠ .gt := by
  induction K generalizing k with
  | nil =>
    cases k with
    | nil => simp
    | cons x xs =>
      by_cases hx : 0 < x
      · simp [cmp_cons_cons, hx]
      · have : x = 0 := by omega
        subst this
        cases xs <;> simp [cmp_cons_cons]
  | cons y ys ih =>
    cases k with
    | nil => simp
    | cons x xs =>
      simp only [List.cons_append, cmp_cons_cons]
      by_cases h1 : x < y
      · simp [h1]
      · by_cases h2 : y < x
        · simp [h1, h2]
        · simp only [h1, h2, if_false]
          exact ih xs

theorem blt_succ_iff (k K : Bytes) : blt k (K ++ [0]) = true ↔ ble k K = true := by
  rw [blt_iff, ble_iff, cmp_succ_lt_iff]

theorem ble_succ_iff (k K : Bytes) : ble (K ++ [0]) k = true ↔ blt K k = true := by
  rw [← not_blt_iff_ble, blt_iff, ← cmp_gt_iff]
  have := blt_succ_iff k K
  rw [blt_iff, ble_iff] at this
  cases h : blt k (K ++ [0])
  · simp only [true_iff]
    have h' : ¬ cmp k (K ++ [0]) = .lt := by simpa [blt] using h
    rw [this] at h'
    cases hc : cmp k K <;> simp_all
  · simp only [Bool.true_eq_false, false_iff]
    have h' : cmp k (K ++ [0]) = .lt := by simpa [blt] using h
    rw [this] at h'
    exact h'

/-- AMONG KEYS OVER THE ALPHABET every bound `P ++ c :: rest` with a low byte `c` is "just after `P`": a key `k`
over the alphabet is below it iff `k ≤ P` (whatever `c ≤ separator` and `rest` are). -/
theorem cmp_cut_lt_iff {k : Bytes} (hk : Alphabet k) (P : Bytes) {c : Nat} (hc : c ≤ splitByte) (rest : Bytes) :
    cmp k (P ++ c :: rest) = .lt ↔ cmp k P ≠ .gt := by
  induction P generalizing k with
  | nil =>
    cases k with
    | nil => simp
    | cons x xs =>
      have hx : splitByte < x := hk x (by simp)
      have h1 : ¬ x < c := by omega
      have h2 : c < x := by omega
      simp [cmp_cons_cons, h1, h2]
  | cons y ys ih =>
    cases k with
    | nil => simp
    | cons x xs =>
      simp only [List.cons_append, cmp_cons_cons]
      by_cases h1 : x < y
      · simp [h1]
      · by_cases h2 : y < x
        · simp [h1, h2]
        · simp only [h1, h2, if_false]
          exact ih (fun b hb => hk b (by simp [hb]))

/-- equal length, not greater, and a non-empty tail on the right: smaller -/
theorem cmp_append_right_lt {a b t : Bytes} (hl : a.length = b.length) (h : cmp a b ≠ .gt) (ht : t ≠ []) :
    cmp a (b ++ t) = .lt := by
  induction a generalizing b with
  | nil =>
    cases b with
    | nil => cases t with
      | nil => exact absurd rfl ht
      | cons _ _ => rfl
    | cons _ _ => simp at hl
  | cons x xs ih =>
    cases b with
    | nil => simp at hl
    | cons y ys =>
      simp only [List.cons_append, cmp_cons_cons] at h ⊢
      by_cases h1 : x < y
      · simp [h1]
      · by_cases h2 : y < x
        · simp [h1, h2] at h
        · simp only [h1, h2, if_false] at h ⊢
          exact ih (by simpa using hl) h

/-- The heart of the repaired bound: against "just after every version of K" a record of `k` compares like `k`
against `K`, a record of `K` itself (whatever its revision) sorting BEFORE it. -/
theorem encode_cmp_after {k K : Bytes} {r : Nat} (hk : Alphabet k) (hK : Alphabet K) (hr : r < 2 ^ 64) :
    cmp (encode k r) (encode K (2 ^ 64 - 1) ++ [0]) = if cmp k K = .gt then .gt else .lt := by
  have e : encode K (2 ^ 64 - 1) ++ [0] = magic ++ (K ++ splitByte :: (be64 (2 ^ 64 - 1) ++ [0])) := by
    simp [encode]
  rw [e]
  unfold encode
  rw [cmp_append_left, cmp_split splitByte k K _ _ hk hK]
  by_cases h : k = K
  · subst h
    have hle : cmp (be64 r) (be64 (2 ^ 64 - 1)) ≠ .gt := by
      rw [cmp_be64 hr (by decide), Nat.compare_ne_gt]
      omega
    simp [cmp_append_right_lt (by simp [be64]) hle (by simp : ([0] : Bytes) ≠ [])]
  · have hne : cmp k K ≠ .eq := fun hc => h (cmp_eq_iff.mp hc)
    simp only [h, if_false]
    cases hc : cmp k K <;> simp_all

theorem encode_cmp_succ {k K : Bytes} {r : Nat} (hk : Alphabet k) (hK : Alphabet K) (hr : r < 2 ^ 64) :
    cmp (encode k r) (encodeBound (K ++ [0])) = if cmp k K = .gt then .gt else .lt := by
  rw [encodeBound_succ hK]; exact encode_cmp_after hk hK hr

/-- THE BOUND LEMMA: against ANY raw bound `b` (arbitrary bytes) a record of a key `k` over the alphabet sorts
below the encoded bound iff the raw key is below the raw bound. -/
theorem encode_lt_bound_iff {k : Bytes} {r : Nat} (hk : Alphabet k) (hr : r < 2 ^ 64) (b : Bytes) :
    cmp (encode k r) (encodeBound b) = .lt ↔ cmp k b = .lt := by
  rcases bound_cases b with ⟨hb, e⟩ | ⟨P, c, rest, hP, hc, rfl, e⟩
  · rw [e, encode_cmp hk hb hr (by decide)]
    by_cases h : k = b
    · subst h
      simp [Nat.compare_eq_lt]
    · simp [h]
  · rw [e, encode_cmp_after hk hP hr, cmp_cut_lt_iff hk P hc rest]
    cases cmp k P <;> simp

/-! #### the order of encoded bounds -/

/-- the key a bound is encoded around: the bound itself, or what stands in front of its first low byte -/
def boundKey (b : Bytes) : Bytes := (cutLow b).getD b

theorem boundKey_alphabet (b : Bytes) : Alphabet (boundKey b) := by
  unfold boundKey
  cases h : cutLow b with
  | none => exact cutLow_none_iff.mp h
  | some P => exact (cutLow_some h).1

theorem cmp_prefix_ne_gt (P t : Bytes) : cmp P (P ++ t) ≠ .gt := by
  have := cmp_append_left P [] t
  rw [List.append_nil] at this
  rw [this]
  cases t <;> simp

/-- the key of a bound is at or below the bound (a prefix of it) -/
theorem boundKey_le (b : Bytes) : cmp (boundKey b) b ≠ .gt := by
  unfold boundKey
  cases h : cutLow b with
  | none => simp
  | some P =>
    obtain ⟨_, c, rest, e, _⟩ := cutLow_some h
    simp only [Option.getD_some]
    rw [e]
    exact cmp_prefix_ne_gt P _

/-- a key over the alphabet is below a bound iff it is below (bound over the alphabet) or at or below (bound with
a low byte) the key of the bound -/
theorem lt_bound_iff {k : Bytes} (hk : Alphabet k) (b : Bytes) :
    cmp k b = .lt ↔ (if (cutLow b).isSome then cmp k (boundKey b) ≠ .gt else cmp k (boundKey b) = .lt) := by
  unfold boundKey
  cases h : cutLow b with
  | none => simp
  | some P =>
    obtain ⟨_, c, rest, e, hc⟩ := cutLow_some h
    simp only [Option.isSome_some, if_true, Option.getD_some]
    rw [e]
    exact cmp_cut_lt_iff hk P hc rest

/-- How two encoded bounds compare: by their keys; with the same key, "the index key" sorts before "just after
every version". -/
theorem encodeBound_cmp (a b : Bytes) :
    cmp (encodeBound a) (encodeBound b) =
      if boundKey a = boundKey b then
        (match (cutLow a).isSome, (cutLow b).isSome with
          | false, true => .lt
          | true, false => .gt
          | _, _ => .eq)
      else cmp (boundKey a) (boundKey b) := by
  have hA := boundKey_alphabet a
  have hB := boundKey_alphabet b
  have e0 : ∀ X : Bytes, encode X 0 = magic ++ (X ++ splitByte :: be64 0) := fun X => rfl
  have e1 : ∀ X : Bytes, encode X (2 ^ 64 - 1) ++ [0] = magic ++ (X ++ splitByte :: (be64 (2 ^ 64 - 1) ++ [0])) := by
    intro X; simp [encode]
  have hlt : cmp (be64 0) (be64 (2 ^ 64 - 1) ++ [0]) = .lt :=
    cmp_append_right_lt (by simp [be64]) (by rw [cmp_be64 (by decide) (by decide)]; decide) (by simp)
  have hgt : cmp (be64 (2 ^ 64 - 1) ++ [0]) (be64 0) = .gt := cmp_gt_iff.mpr hlt
  unfold boundKey at *
  unfold encodeBound
  cases ha : cutLow a with
  | none =>
    cases hb : cutLow b with
    | none =>
      rw [ha] at hA; rw [hb] at hB
      simp only [Option.getD_none] at hA hB ⊢
      rw [e0, e0, cmp_append_left, cmp_split splitByte a b _ _ hA hB]
      simp
    | some Q =>
      rw [ha] at hA; rw [hb] at hB
      simp only [Option.getD_none, Option.getD_some] at hA hB ⊢
      rw [e0, e1, cmp_append_left, cmp_split splitByte a Q _ _ hA hB, hlt]
      simp
  | some P =>
    cases hb : cutLow b with
    | none =>
      rw [ha] at hA; rw [hb] at hB
      simp only [Option.getD_none, Option.getD_some] at hA hB ⊢
      rw [e1, e0, cmp_append_left, cmp_split splitByte P b _ _ hA hB, hgt]
      simp
    | some Q =>
      rw [ha] at hA; rw [hb] at hB
      simp only [Option.getD_some] at hA hB ⊢
      rw [e1, e1, cmp_append_left, cmp_split splitByte P Q _ _ hA hB]
      simp

/-- raw bounds in order have their keys in order -/
theorem boundKey_mono {a b : Bytes} (hab : cmp a b = .lt) : cmp (boundKey a) (boundKey b) ≠ .gt := by
  intro hgt
  -- the key of `a` (over the alphabet) is not below `b` ...
  have h1 : ¬ cmp (boundKey a) b = .lt := by
    rw [lt_bound_iff (boundKey_alphabet a) b]
    split
    · simp [hgt]
    · simp [hgt]
  -- ... although it is at or below `a`, which is below `b`
  have h2 : ble (boundKey a) a = true := ble_iff.mpr (boundKey_le a)
  have := blt_of_ble_of_blt h2 (blt_iff.mpr hab)
  exact h1 (blt_iff.mp this)

/-- ENCODED BOUNDS ARE ORDERED LIKE THE RAW BOUNDS, weakly: `a < b` gives `encodeBound a ≤ encodeBound b` for
ARBITRARY byte strings; they are EQUAL exactly when both have a low byte behind the same key (`P ++ [1]` and
`P ++ [2]`: no key over the alphabet lies between them, `encodeBound_eq_no_key_between`). -/
theorem encodeBound_lt_or_eq {a b : Bytes} (hab : cmp a b = .lt) :
    cmp (encodeBound a) (encodeBound b) = .lt ∨
      (encodeBound a = encodeBound b ∧ ∃ P, cutLow a = some P ∧ cutLow b = some P) := by
  have hm := boundKey_mono hab
  rw [encodeBound_cmp]
  by_cases hK : boundKey a = boundKey b
  · simp only [hK, if_true]
    cases ha : cutLow a with
    | none =>
      cases hb : cutLow b with
      | none =>
        -- both over the alphabet with the same key: a = b
        exfalso
        simp only [boundKey, ha, hb, Option.getD_none] at hK
        rw [hK] at hab; simp at hab
      | some Q => exact .inl rfl
    | some P =>
      cases hb : cutLow b with
      | none =>
        -- b is the key of a: a is above b
        exfalso
        simp only [boundKey, ha, hb, Option.getD_none, Option.getD_some] at hK
        have h1 := boundKey_le a
        simp only [boundKey, ha, Option.getD_some] at h1
        rw [hK] at h1
        rw [cmp_swap b a] at hab
        cases hc : cmp b a <;> simp_all
      | some Q =>
        simp only [boundKey, ha, hb, Option.getD_some] at hK
        subst hK
        refine .inr ⟨?_, P, rfl, rfl⟩
        simp [encodeBound, ha, hb]
  · simp only [hK, if_false]
    have hne : cmp (boundKey a) (boundKey b) ≠ .eq := fun h => hK (cmp_eq_iff.mp h)
    cases hc : cmp (boundKey a) (boundKey b) <;> simp_all

theorem encodeBound_mono {a b : Bytes} (hab : cmp a b = .lt) : cmp (encodeBound a) (encodeBound b) ≠ .gt := by
  rcases encodeBound_lt_or_eq hab with h | ⟨h, _⟩
  · simp [h]
  · simp [h]

/-- strictly ordered as soon as one of the two bounds is over the alphabet (what 146f0bb-era statements had) -/
theorem encodeBound_lt {a b : Bytes} (h : Alphabet a ∨ Alphabet b) (hab : cmp a b = .lt) :
    cmp (encodeBound a) (encodeBound b) = .lt := by
  rcases encodeBound_lt_or_eq hab with h' | ⟨_, P, ha, hb⟩
  · exact h'
  · rcases h with h | h
    · rw [cutLow_none_iff.mpr h] at ha; cases ha
    · rw [cutLow_none_iff.mpr h] at hb; cases hb

/-- two bounds are encoded alike iff they are equal or both have a low byte behind the same key -/
theorem encodeBound_eq_iff (a b : Bytes) :
    encodeBound a = encodeBound b ↔ (a = b ∨ ∃ P, cutLow a = some P ∧ cutLow b = some P) := by
  constructor
  · intro h
    have hc := encodeBound_cmp a b
    rw [h, cmp_refl] at hc
    by_cases hK : boundKey a = boundKey b
    · simp only [hK, if_true] at hc
      cases ha : cutLow a with
      | none =>
        cases hb : cutLow b with
        | none => left; simpa [boundKey, ha, hb] using hK
        | some Q => simp [ha, hb] at hc
      | some P =>
        cases hb : cutLow b with
        | none => simp [ha, hb] at hc
        | some Q =>
          right
          simp only [boundKey, ha, hb, Option.getD_some] at hK
          exact ⟨P, rfl, by rw [hK]⟩
    · simp only [hK, if_false] at hc
      exact absurd (cmp_eq_iff.mp hc.symm) hK
  · rintro (rfl | ⟨P, ha, hb⟩)
    · rfl
    · simp [encodeBound, ha, hb]

end KB
