/- Helper lemmas about KB.MemTTL (the ttl timers of the in-memory engine), used by KB.Props.C17Mem. -/
import KB.MemTTL
import KB.Lemmas.Engine
import KB.Props.C11
namespace KB.MemTTL
open KB

/-! ### association lists -/

theorem alookup_aerase_self {α : Type} (l : List (Bytes × α)) (k : Bytes) : alookup (aerase l k) k = none := by
  induction l with
  | nil => rfl
  | cons x rest ih =>
    obtain ⟨k0, v0⟩ := x
    by_cases h : k0 = k
    · subst h; simpa [aerase] using ih
    · have : (k0 == k) = false := by simpa using h
      simp only [aerase, List.filter_cons, this, Bool.not_false, if_true, alookup, h, if_false]
      exact ih

theorem alookup_aerase_ne {α : Type} (l : List (Bytes × α)) {k k' : Bytes} (h : k ≠ k') :
    alookup (aerase l k') k = alookup l k := by
  induction l with
  | nil => rfl
  | cons x rest ih =>
    obtain ⟨k0, v0⟩ := x
    by_cases h0 : k0 = k'
    · subst h0
      have hne : ¬ k0 = k := fun e => h e.symm
      simpa [aerase, alookup, hne] using ih
    · have : (k0 == k') = false := by simpa using h0
      simp only [aerase, List.filter_cons, this, Bool.not_false, if_true, alookup]
      by_cases h1 : k0 = k
      · simp [h1]
      · simp only [h1, if_false]; exact ih

theorem alookup_aset_self {α : Type} (l : List (Bytes × α)) (k : Bytes) (v : α) : alookup (aset l k v) k = some v := by
  simp [aset, alookup]

theorem alookup_aset_ne {α : Type} (l : List (Bytes × α)) {k k' : Bytes} (v : α) (h : k ≠ k') :
    alookup (aset l k' v) k = alookup l k := by
  have hne : ¬ k' = k := fun e => h e.symm
  simp only [aset, alookup, hne, if_false]
  exact alookup_aerase_ne l h

/-! ### the cache of a batch -/

theorem lastWrite_eq_none_iff (ws : List (Bytes × Write)) (k : Bytes) :
    lastWrite ws k = none ↔ ws.any (fun kw => kw.1 == k) = false := by
  induction ws with
  | nil => simp [lastWrite]
  | cons x rest ih =>
    obtain ⟨k0, w0⟩ := x
    simp only [lastWrite, List.any_cons, Bool.or_eq_false_iff]
    cases h : lastWrite rest k with
    | some w' =>
      have : ¬ (rest.any (fun kw => kw.1 == k) = false) := fun e => by simp [ih.2 e] at h
      simp [this]
    | none =>
      have := ih.1 h
      by_cases h0 : k0 = k <;> simp [h0, this]

/-- the cache holds, for every key, the last write of the batch on it -/
theorem alookup_mkCache (ws : List (Bytes × Write)) (k : Bytes) : alookup (mkCache ws) k = lastWrite ws k := by
  induction ws with
  | nil => rfl
  | cons x rest ih =>
    obtain ⟨k0, w0⟩ := x
    simp only [mkCache, lastWrite]
    by_cases hany : rest.any (fun kw => kw.1 == k0) = true
    · simp only [hany, if_true, ih]
      cases h : lastWrite rest k with
      | some w' => rfl
      | none =>
        by_cases h0 : k0 = k
        · subst h0
          rw [(lastWrite_eq_none_iff rest k0).1 h] at hany
          exact absurd hany (by simp)
        · simp [h0]
    · have hany' : rest.any (fun kw => kw.1 == k0) = false := Bool.eq_false_iff.2 hany
      simp only [hany', Bool.false_eq_true, if_false, alookup]
      by_cases h0 : k0 = k
      · subst h0
        simp [(lastWrite_eq_none_iff rest k0).2 hany']
      · simp only [h0, if_false, ih]
        cases lastWrite rest k <;> rfl

/-! ### what one key looks like: its value and the deadline the store remembers for it -/

def view (s : State) (k : Bytes) : Option Bytes × Option Nat := (s.store.get k, alookup s.expireAt k)

/-- what a write leaves for its key, at clock `now` -/
def effectOf (now : Nat) : Write → Option Bytes × Option Nat
  | .del => (none, none)
  | .put v ttl => (some v, if ttl = 0 then none else some (now + ttl))

@[simp] theorem applyWrite_now (s : State) (kw : Bytes × Write) : (applyWrite s kw).now = s.now := by
  obtain ⟨k, w⟩ := kw
  cases w with
  | del => rfl
  | put v ttl => simp only [applyWrite]; split <;> rfl

theorem applyWrite_sorted (s : State) (kw : Bytes × Write) (hs : s.store.Sorted) : (applyWrite s kw).store.Sorted := by
  obtain ⟨k, w⟩ := kw
  cases w with
  | del => exact Store.erase_sorted _ hs _
  | put v ttl => simp only [applyWrite]; split <;> exact Store.put_sorted _ hs _ _

theorem view_applyWrite (s : State) (hs : s.store.Sorted) (k' : Bytes) (w : Write) (k : Bytes) :
    view (applyWrite s (k', w)) k = if k = k' then effectOf s.now w else view s k := by
  cases w with
  | del =>
    by_cases h : k = k'
    · subst h; simp [applyWrite, view, effectOf, Store.get_erase _ hs, alookup_aerase_self]
    · simp [applyWrite, view, Store.get_erase _ hs, h, alookup_aerase_ne _ h]
  | put v ttl =>
    by_cases ht : ttl = 0
    · by_cases h : k = k'
      · subst h; simp [applyWrite, view, effectOf, ht, Store.get_put _ hs, alookup_aerase_self]
      · simp [applyWrite, view, ht, Store.get_put _ hs, h, alookup_aerase_ne _ h]
    · by_cases h : k = k'
      · subst h; simp [applyWrite, view, effectOf, ht, Store.get_put _ hs, alookup_aset_self]
      · simp [applyWrite, view, ht, Store.get_put _ hs, h, alookup_aset_ne _ _ h]

theorem applyWrite_timers_mono (s : State) (kw : Bytes × Write) {x : Bytes × Nat} (hx : x ∈ s.timers) :
    x ∈ (applyWrite s kw).timers := by
  obtain ⟨k, w⟩ := kw
  cases w with
  | del => exact hx
  | put v ttl =>
    simp only [applyWrite]; split
    · exact hx
    · exact List.mem_append_left _ hx

/-! ### the invariant -/

/-- Well-formedness of the engine state, kept by every step from the empty store. -/
structure TTLInv (s : State) : Prop where
  /-- the skip list is sorted -/
  sorted : s.store.Sorted
  /-- a deadline is remembered only for a key that has a value -/
  present : ∀ k d, alookup s.expireAt k = some d → (s.store.get k).isSome = true
  /-- the timer of every remembered deadline is still armed (so the value WILL be removable) -/
  armed : ∀ k d, alookup s.expireAt k = some d → (k, d) ∈ s.timers

theorem TTLInv.init : TTLInv {} := ⟨trivial, by intro k d h; simp [alookup] at h, by intro k d h; simp [alookup] at h⟩

theorem TTLInv.applyWrite {s : State} (h : TTLInv s) (kw : Bytes × Write) : TTLInv (applyWrite s kw) := by
  obtain ⟨k', w⟩ := kw
  have hv := view_applyWrite s h.sorted k' w
  refine ⟨applyWrite_sorted s _ h.sorted, ?_, ?_⟩
  · intro k d hd
    have hvk := hv k
    by_cases hk : k = k'
    · simp only [hk, if_true] at hvk
      have h1 : (MemTTL.applyWrite s (k', w)).store.get k' = (effectOf s.now w).1 := by rw [← hvk]; rfl
      have h2 : alookup (MemTTL.applyWrite s (k', w)).expireAt k' = (effectOf s.now w).2 := by rw [← hvk]; rfl
      subst hk
      rw [h1]; rw [h2] at hd
      cases w with
      | del => simp [effectOf] at hd
      | put v ttl => simp [effectOf]
    · simp only [hk, if_false] at hvk
      have h1 : (MemTTL.applyWrite s (k', w)).store.get k = s.store.get k := by
        have := congrArg Prod.fst hvk; exact this
      have h2 : alookup (MemTTL.applyWrite s (k', w)).expireAt k = alookup s.expireAt k := by
        have := congrArg Prod.snd hvk; exact this
      rw [h1]; rw [h2] at hd
      exact h.present k d hd
  · intro k d hd
    have hvk := hv k
    by_cases hk : k = k'
    · simp only [hk, if_true] at hvk
      have h2 : alookup (MemTTL.applyWrite s (k', w)).expireAt k' = (effectOf s.now w).2 := by rw [← hvk]; rfl
      subst hk
      rw [h2] at hd
      cases w with
      | del => simp [effectOf] at hd
      | put v ttl =>
        by_cases ht : ttl = 0
        · simp [effectOf, ht] at hd
        · simp only [effectOf, ht, if_false, Option.some.injEq] at hd
          subst hd
          simp [MemTTL.applyWrite, ht]
    · simp only [hk, if_false] at hvk
      have h2 : alookup (MemTTL.applyWrite s (k', w)).expireAt k = alookup s.expireAt k := by
        have := congrArg Prod.snd hvk; exact this
      rw [h2] at hd
      exact applyWrite_timers_mono s _ (h.armed k d hd)

theorem TTLInv.foldl_applyWrite {s : State} (h : TTLInv s) (c : List (Bytes × Write)) : TTLInv (c.foldl MemTTL.applyWrite s) := by
  induction c generalizing s with
  | nil => exact h
  | cons x rest ih => exact ih (h.applyWrite x)

theorem foldl_applyWrite_now (s : State) (c : List (Bytes × Write)) : (c.foldl applyWrite s).now = s.now := by
  induction c generalizing s with
  | nil => rfl
  | cons x rest ih => simp [List.foldl_cons, ih]

@[simp] theorem commitWrites_now (s : State) (ws : List (Bytes × Write)) : (commitWrites s ws).now = s.now :=
  foldl_applyWrite_now s _

/-- What a committed batch leaves for a key: the effect of its LAST write on the key, nothing if it has none. -/
theorem view_commitWrites (s : State) (h : TTLInv s) (ws : List (Bytes × Write)) (k : Bytes) :
    view (commitWrites s ws) k = match lastWrite ws k with
      | none => view s k
      | some w => effectOf s.now w := by
  unfold commitWrites
  induction ws generalizing s with
  | nil => rfl
  | cons x rest ih =>
    obtain ⟨k0, w0⟩ := x
    simp only [mkCache, lastWrite]
    by_cases hany : rest.any (fun kw => kw.1 == k0) = true
    · simp only [hany, if_true, ih s h]
      cases hl : lastWrite rest k with
      | some w' => rfl
      | none =>
        by_cases h0 : k0 = k
        · subst h0
          rw [(lastWrite_eq_none_iff rest k0).1 hl] at hany
          exact absurd hany (by simp)
        · simp [h0]
    · have hany' : rest.any (fun kw => kw.1 == k0) = false := Bool.eq_false_iff.2 hany
      simp only [hany', Bool.false_eq_true, if_false, List.foldl_cons]
      rw [ih _ (h.applyWrite (k0, w0)), applyWrite_now]
      cases hl : lastWrite rest k with
      | some w' => rfl
      | none =>
        simp only [view_applyWrite s h.sorted]
        by_cases h0 : k0 = k
        · subst h0; simp
        · have : ¬ k = k0 := fun e => h0 e.symm
          simp [h0, this]

theorem commitWrites_timers_mono (s : State) (ws : List (Bytes × Write)) {x : Bytes × Nat} (hx : x ∈ s.timers) :
    x ∈ (commitWrites s ws).timers := by
  unfold commitWrites
  generalize mkCache ws = c
  induction c generalizing s with
  | nil => exact hx
  | cons y rest ih => exact ih _ (applyWrite_timers_mono s y hx)

/-! ### timers -/

theorem mem_eraseIdx_or {α : Type} (l : List α) (i : Nat) {x : α} (hx : x ∈ l) :
    x ∈ l.eraseIdx i ∨ l[i]? = some x := by
  induction l generalizing i with
  | nil => simp at hx
  | cons y rest ih =>
    cases i with
    | zero =>
      rcases List.mem_cons.1 hx with rfl | hx
      · exact .inr (by simp)
      · exact .inl (by simpa using hx)
    | succ j =>
      rcases List.mem_cons.1 hx with rfl | hx
      · exact .inl (by simp)
      · rcases ih j hx with h | h
        · exact .inl (by simp [h])
        · exact .inr (by simpa using h)

@[simp] theorem fire_now (s : State) (i : Nat) : (fire s i).now = s.now := by
  unfold fire
  split
  · rfl
  · split
    · rfl
    · split <;> rfl

/-- what a firing timer does to a key: nothing, unless it is the key's own timer with the key's current deadline -/
theorem view_fire (s : State) (hs : s.store.Sorted) (i : Nat) (k : Bytes) :
    view (fire s i) k = view s k ∨
    (∃ d, s.timers[i]? = some (k, d) ∧ d ≤ s.now ∧ alookup s.expireAt k = some d ∧ view (fire s i) k = (none, none)) := by
  unfold fire
  split
  · exact .inl rfl
  · rename_i k0 d heq
    split
    · exact .inl rfl
    · rename_i hnow
      split
      · rename_i hexp
        by_cases hk : k = k0
        · subst hk
          refine .inr ⟨d, heq, by omega, hexp, ?_⟩
          simp [view, Store.get_erase _ hs, alookup_aerase_self]
        · exact .inl (by simp [view, Store.get_erase _ hs, hk, alookup_aerase_ne _ hk])
      · exact .inl rfl

theorem TTLInv.fire {s : State} (h : TTLInv s) (i : Nat) : TTLInv (fire s i) := by
  unfold MemTTL.fire
  split
  · exact h
  · rename_i k0 d heq
    split
    · exact h
    · split
      · rename_i hexp
        refine ⟨Store.erase_sorted _ h.sorted _, ?_, ?_⟩
        · intro k d' hd
          by_cases hk : k = k0
          · subst hk; simp [alookup_aerase_self] at hd
          · simp only [alookup_aerase_ne _ hk] at hd
            simp only [Store.get_erase _ h.sorted, hk, if_false]
            exact h.present k d' hd
        · intro k d' hd
          by_cases hk : k = k0
          · subst hk; simp [alookup_aerase_self] at hd
          · simp only [alookup_aerase_ne _ hk] at hd
            rcases mem_eraseIdx_or s.timers i (h.armed k d' hd) with hm | hm
            · exact hm
            · rw [heq] at hm
              simp only [Option.some.injEq, Prod.mk.injEq] at hm
              exact absurd hm.1.symm hk
      · rename_i hexp
        refine ⟨h.sorted, h.present, ?_⟩
        intro k d' hd
        rcases mem_eraseIdx_or s.timers i (h.armed k d' hd) with hm | hm
        · exact hm
        · rw [heq] at hm
          simp only [Option.some.injEq, Prod.mk.injEq] at hm
          obtain ⟨rfl, rfl⟩ := hm
          exact absurd hd hexp

/-! ### steps and runs -/

theorem TTLInv.step {s : State} (h : TTLInv s) (op : Op) : TTLInv (step s op) := by
  cases op with
  | commit ws => exact h.foldl_applyWrite _
  | advance dt => exact ⟨h.sorted, h.present, h.armed⟩
  | fire i => exact h.fire i

theorem TTLInv.runFrom {s : State} (h : TTLInv s) (ops : List Op) : TTLInv (runFrom s ops) := by
  unfold MemTTL.runFrom
  induction ops generalizing s with
  | nil => exact h
  | cons op rest ih => exact ih (h.step op)

theorem step_now_mono (s : State) (op : Op) : s.now ≤ (step s op).now := by
  cases op with
  | commit ws => simp [step]
  | advance dt => simp [step]
  | fire i => simp [step]

theorem runFrom_now_mono (s : State) (ops : List Op) : s.now ≤ (runFrom s ops).now := by
  unfold runFrom
  induction ops generalizing s with
  | nil => exact Nat.le_refl _
  | cons op rest ih => exact Nat.le_trans (step_now_mono s op) (ih _)

theorem runFrom_append (s : State) (a b : List Op) : runFrom s (a ++ b) = runFrom (runFrom s a) b := by
  simp [runFrom, List.foldl_append]

theorem runFrom_cons (s : State) (op : Op) (ops : List Op) : runFrom s (op :: ops) = runFrom (step s op) ops := rfl

/-- A step that does not write `k` leaves `k` as it is, unless it is `k`'s own due timer firing. -/
theorem view_step_nowrite (s : State) (h : TTLInv s) (op : Op) (k : Bytes) (hw : op.writes k = false) :
    view (step s op) k = view s k ∨
    (∃ d, alookup s.expireAt k = some d ∧ d ≤ s.now ∧ view (step s op) k = (none, none)) := by
  cases op with
  | commit ws =>
    left
    have := view_commitWrites s h ws k
    rw [(lastWrite_eq_none_iff ws k).2 hw] at this
    exact this
  | advance dt => exact .inl rfl
  | fire i =>
    rcases view_fire s h.sorted i k with hv | ⟨d, _, h2, h3, h4⟩
    · exact .inl hv
    · exact .inr ⟨d, h3, h2, h4⟩

/-- A key's fate while nobody writes it: it keeps its value and deadline, or it has been removed by its own
timer — which cannot happen before the deadline, and not at all without one. -/
theorem view_runFrom_nowrite (s : State) (h : TTLInv s) (ops : List Op) (k : Bytes)
    (hw : ∀ op ∈ ops, op.writes k = false) :
    view (runFrom s ops) k = view s k ∨
    (∃ d, (view s k).2 = some d ∧ d ≤ (runFrom s ops).now ∧ view (runFrom s ops) k = (none, none)) := by
  induction ops generalizing s with
  | nil => exact .inl rfl
  | cons op rest ih =>
    have hop := hw op (List.mem_cons_self ..)
    have hrest : ∀ o ∈ rest, o.writes k = false := fun o ho => hw o (List.mem_cons_of_mem _ ho)
    rw [runFrom_cons]
    rcases view_step_nowrite s h op k hop with h1 | ⟨d, h1, h2, h3⟩
    · rcases ih (MemTTL.step s op) (h.step op) hrest with h4 | ⟨d, h4, h5, h6⟩
      · exact .inl (h4.trans h1)
      · exact .inr ⟨d, by rw [← h1]; exact h4, h5, h6⟩
    · right
      refine ⟨d, h1, Nat.le_trans h2 (Nat.le_trans (step_now_mono s op) (runFrom_now_mono _ _)), ?_⟩
      rcases ih (MemTTL.step s op) (h.step op) hrest with h4 | ⟨d', h4, _, _⟩
      · exact h4.trans h3
      · rw [h3] at h4; simp at h4

theorem run_split (pre post : List Op) (ws : List (Bytes × Write)) :
    run (pre ++ .commit ws :: post) = runFrom (commitWrites (run pre) ws) post := by
  simp [run, runFrom, List.foldl_append, step]

/-- THE tracking lemma. After a batch whose last write on `k` is `w`, committed at clock `t`, and any number of
later steps none of which writes `k`: the key still looks exactly as that write left it, or it had a deadline, the
deadline has come, and the key is gone (value and remembered deadline together). -/
theorem view_after_last_write (pre post : List Op) (ws : List (Bytes × Write)) (k : Bytes) (w : Write)
    (hlast : lastWrite ws k = some w) (hpost : ∀ op ∈ post, op.writes k = false) :
    view (run (pre ++ .commit ws :: post)) k = effectOf (run pre).now w ∨
    (∃ d, (effectOf (run pre).now w).2 = some d ∧ d ≤ (run (pre ++ .commit ws :: post)).now ∧
      view (run (pre ++ .commit ws :: post)) k = (none, none)) := by
  have hinv : TTLInv (run pre) := TTLInv.init.runFrom pre
  have h1 : view (commitWrites (run pre) ws) k = effectOf (run pre).now w := by
    rw [view_commitWrites _ hinv, hlast]
  have hinv1 : TTLInv (commitWrites (run pre) ws) := hinv.step (.commit ws)
  rw [run_split]
  rcases view_runFrom_nowrite _ hinv1 post k hpost with h | ⟨d, h2, h3, h4⟩
  · exact .inl (h.trans h1)
  · exact .inr ⟨d, by rw [← h1]; exact h2, h3, h4⟩

/-- the key's own due timer, fired: the key is absent afterwards whatever it was before -/
theorem fire_own_timer (s : State) (hs : s.store.Sorted) (i : Nat) (k : Bytes) (d : Nat)
    (ht : s.timers[i]? = some (k, d)) (hd : d ≤ s.now)
    (hview : view s k = (none, none) ∨ alookup s.expireAt k = some d) :
    (fire s i).store.get k = none := by
  have hnow : ¬ s.now < d := by omega
  unfold fire
  simp only [ht, hnow, if_false]
  rcases hview with hv | hv
  · have h1 : s.store.get k = none := congrArg Prod.fst hv
    have h2 : alookup s.expireAt k = none := congrArg Prod.snd hv
    simp [h2, h1]
  · simp [hv, Store.get_erase _ hs]

/-! ### the batch operations of KB.Engine as cache entries -/

theorem get_foldl_effect (s : Store) (hs : s.Sorted) (ops : List (BOp × Nat)) (k : Bytes) :
    ((ops.map (·.1)).foldl C11.effect s).Sorted ∧
    ((ops.map (·.1)).foldl C11.effect s).get k =
      match lastWrite (ops.map (fun o => writeOf o.2 o.1)) k with
      | none => s.get k
      | some w => (effectOf 0 w).1 := by
  induction ops generalizing s with
  | nil => exact ⟨hs, rfl⟩
  | cons x rest ih =>
    obtain ⟨op, ttl⟩ := x
    have hs' : (C11.effect s op).Sorted := by
      cases op <;> first | exact Store.put_sorted _ hs _ _ | exact Store.erase_sorted _ hs _
    obtain ⟨ih1, ih2⟩ := ih (C11.effect s op) hs'
    refine ⟨ih1, ?_⟩
    simp only [List.map_cons, List.foldl_cons, lastWrite]
    rw [ih2]
    cases hl : lastWrite (rest.map (fun o => writeOf o.2 o.1)) k with
    | some w => rfl
    | none =>
      cases op with
      | pine k0 v0 =>
        by_cases h0 : k0 = k
        · subst h0; simp [writeOf, C11.effect, Store.get_put _ hs, effectOf]
        · have : ¬ k = k0 := fun e => h0 e.symm
          simp [writeOf, C11.effect, Store.get_put _ hs, h0, this]
      | cas k0 v0 o0 =>
        by_cases h0 : k0 = k
        · subst h0; simp [writeOf, C11.effect, Store.get_put _ hs, effectOf]
        · have : ¬ k = k0 := fun e => h0 e.symm
          simp [writeOf, C11.effect, Store.get_put _ hs, h0, this]
      | put k0 v0 =>
        by_cases h0 : k0 = k
        · subst h0; simp [writeOf, C11.effect, Store.get_put _ hs, effectOf]
        · have : ¬ k = k0 := fun e => h0 e.symm
          simp [writeOf, C11.effect, Store.get_put _ hs, h0, this]
      | del k0 =>
        by_cases h0 : k0 = k
        · subst h0; simp [writeOf, C11.effect, Store.get_erase _ hs, effectOf]
        · have : ¬ k = k0 := fun e => h0 e.symm
          simp [writeOf, C11.effect, Store.get_erase _ hs, h0, this]
      | delcur k0 v0 =>
        by_cases h0 : k0 = k
        · subst h0; simp [writeOf, C11.effect, Store.get_erase _ hs, effectOf]
        · have : ¬ k = k0 := fun e => h0 e.symm
          simp [writeOf, C11.effect, Store.get_erase _ hs, h0, this]

end KB.MemTTL
