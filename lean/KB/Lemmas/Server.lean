/-
  Lemmas for KB.Server's follower read-sync LTS: induction over reachable states, monotonicity of the
  follower's read revision under the monotone store, and the three inductive invariants used by KB.Props.C18
  (code as it is, any interleaving; code as it is, non-overlapping reads; code as it is + the proposed
  repair, any interleaving).
-/
import KB.Server
namespace KB.Server

set_option linter.unusedSimpArgs false

theorem run_append {vt : Variant} {s s' : State} {tr : List Step} {st : Step}
    (h : run vt s tr = some s') : run vt s (tr ++ [st]) = step vt s' st := by
  induction tr generalizing s with
  | nil => simp [run] at h; subst h; simp only [List.nil_append, run]; cases step vt s st <;> simp [run]
  | cons a rest ih =>
    simp only [run, List.cons_append] at h ⊢
    cases hs : step vt s a with
    | none => simp [hs] at h
    | some s1 => simp [hs] at h ⊢; exact ih h

/-- Invariants are established by the initial state and preserved by steps. -/
theorem reachable_induction {vt : Variant} {P : State → Prop} (h0 : ∀ n, P (init n))
    (hs : ∀ s s' st, P s → step vt s st = some s' → P s') : ∀ s, Reachable vt s → P s := by
  intro s ⟨n, tr, hr⟩
  suffices ∀ tr s0 s, P s0 → run vt s0 tr = some s → P s from this tr (init n) s (h0 n) hr
  intro tr
  induction tr with
  | nil => intro s0 s hp h; simp [run] at h; subst h; exact hp
  | cons a rest ih =>
    intro s0 s hp h
    simp only [run] at h
    cases hst : step vt s0 a with
    | none => simp [hst] at h
    | some s1 => simp [hst] at h; exact ih s1 s (hs s0 s1 a hp hst) h

/-- With the monotone store (`tso.Commit` since db7d4ff) no step lowers the follower's read revision. -/
theorem followerRev_step_mono {vt : Variant} (hm : vt.monotoneSet = true) {s s' : State} {st : Step}
    (h : step vt s st = some s') : s.followerRev ≤ s'.followerRev := by
  cases st <;> simp only [step] at h
  case leaderCommit => simp at h; subst h; exact Nat.le_refl _
  case setRev r =>
    split at h <;> simp at h
    · subst h; simp only [hm, if_true]; exact Nat.le_max_left _ _
    · subst h; exact Nat.le_refl _
  all_goals (split at h <;> simp at h <;> subst h <;> exact Nat.le_refl _)

theorem followerRev_run_mono {vt : Variant} (hm : vt.monotoneSet = true) {tr : List Step} {s s' : State}
    (h : run vt s tr = some s') : s.followerRev ≤ s'.followerRev := by
  induction tr generalizing s with
  | nil => simp [run] at h; subst h; exact Nat.le_refl _
  | cons a rest ih =>
    simp only [run] at h
    cases hst : step vt s a with
    | none => simp [hst] at h
    | some s1 => simp [hst] at h; exact Nat.le_trans (followerRev_step_mono hm hst) (ih h)

/-- Invariant of the code as it is (monotone store, late joiners served), any interleaving.  `stored_le`:
the follower's read revision is ≥ every value stored so far; `served_ge`: a read is served at a revision ≥
what it stored itself. -/
structure InvAsIs (s : State) : Prop where
  begin_le : ∀ r, (s.reads r).phase ≠ .idle → (s.reads r).beginRev ≤ s.leaderRev
  wait : ∀ r v, (s.reads r).phase = .waiting → (s.reads r).late = false → s.flight = .answered (some v) →
    (s.reads r).beginRev ≤ v
  got : ∀ r v, (s.reads r).phase = .got (some v) → (s.reads r).late = false → (s.reads r).beginRev ≤ v
  own : ∀ r v, (s.reads r).fetched = some v → (s.reads r).late = false → (s.reads r).beginRev ≤ v
  fetched : ∀ r, (s.reads r).phase = .synced ∨ (∃ v, (s.reads r).phase = .served v) → (s.reads r).fetched ≠ none
  nofetch : ∀ r, (s.reads r).fetched ≠ none → (s.reads r).phase = .synced ∨ ∃ v, (s.reads r).phase = .served v
  stored_le : ∀ r v, (s.reads r).fetched = some v → v ≤ s.followerRev
  served_ge : ∀ r v w, (s.reads r).phase = .served v → (s.reads r).fetched = some w → w ≤ v

theorem invAsIs_step {s s' : State} {st : Step} (h : step asIs s st = some s') (hi : InvAsIs s) : InvAsIs s' := by
  obtain ⟨h1, h2, h3, h4, h5, h6, h7, h8⟩ := hi
  cases st with
  | leaderCommit =>
    simp only [step] at h
    simp at h; subst h
    constructor <;> intro i <;> grind
  | readBegin r =>
    simp only [step] at h
    split at h <;> simp at h
    subst h
    constructor <;> intro i <;> simp only [upd] <;> grind
  | fetchStart r =>
    simp only [step] at h
    split at h <;> simp at h
    subst h
    constructor <;> intro i <;> simp only [upd] <;> grind
  | fetchJoin r =>
    simp only [step] at h
    split at h <;> simp at h
    all_goals (subst h; constructor <;> intro i <;> simp only [upd] <;> grind)
  | leaderAnswer b =>
    simp only [step] at h
    split at h <;> simp at h
    subst h
    constructor <;> intro i <;> grind
  | fetchReply =>
    simp only [step] at h
    split at h <;> simp at h
    subst h
    constructor <;> intro i <;> simp only [deliver, asIs] <;> grind
  | setRev r =>
    simp only [step] at h
    split at h <;> simp at h
    all_goals (subst h; constructor <;> intro i <;> simp only [upd, asIs] <;> grind)
  | readServe r =>
    simp only [step] at h
    split at h <;> simp at h
    subst h
    constructor <;> intro i <;> simp only [upd] <;> grind

theorem invAsIs_reachable : ∀ s, Reachable asIs s → InvAsIs s :=
  reachable_induction (fun n => by constructor <;> simp [init]) (fun _ _ _ hp h => invAsIs_step h hp)

/-- From the invariant: a served read that did not join an already answered fetch is fresh. -/
theorem InvAsIs.freshOwn {s : State} (hi : InvAsIs s) : FreshOwn s := by
  intro r v hv hl
  have hf := hi.fetched r (Or.inr ⟨v, hv⟩)
  cases hw : (s.reads r).fetched with
  | none => exact absurd hw hf
  | some w => exact Nat.le_trans (hi.own r w hw hl) (hi.served_ge r v w hv hw)

/-- … and while it is between its store and its backend read the follower's read revision is fresh for it. -/
theorem InvAsIs.syncedOwn {s : State} (hi : InvAsIs s) (r : Nat) (hp : (s.reads r).phase = .synced)
    (hl : (s.reads r).late = false) : (s.reads r).beginRev ≤ s.followerRev := by
  have hf := hi.fetched r (Or.inl hp)
  cases hw : (s.reads r).fetched with
  | none => exact absurd hw hf
  | some w => exact Nat.le_trans (hi.own r w hw hl) (hi.stored_le r w hw)

/-- Invariant of non-overlapping executions of the code as it is. -/
structure InvSeq (s : State) : Prop where
  one : ∀ r r', active (s.reads r) = true → active (s.reads r') = true → r = r'
  flightOwner : s.flight ≠ .none → ∃ r, (s.reads r).phase = .waiting
  nolate : ∀ r, (s.reads r).late = false
  begin_le : ∀ r, (s.reads r).phase ≠ .idle → (s.reads r).beginRev ≤ s.leaderRev
  wait : ∀ r v, (s.reads r).phase = .waiting → s.flight = .answered (some v) → (s.reads r).beginRev ≤ v
  got : ∀ r v, (s.reads r).phase = .got (some v) → (s.reads r).beginRev ≤ v
  synced : ∀ r, (s.reads r).phase = .synced → (s.reads r).beginRev ≤ s.followerRev
  served : ∀ r v, (s.reads r).phase = .served v → (s.reads r).beginRev ≤ v

theorem invSeq_init (n : Nat) : InvSeq (init n) := by
  constructor <;> simp [init, active]

theorem invSeq_other {s s' : State} {st : Step} (hne : ∀ r, st ≠ .readBegin r)
    (h : step asIs s st = some s') (hi : InvSeq s) : InvSeq s' := by
  obtain ⟨h1, h2, h3, h4, h5, h6, h7, h8⟩ := hi
  cases st with
  | leaderCommit =>
    simp only [step] at h
    simp at h; subst h
    constructor <;> grind
  | readBegin r => exact absurd rfl (hne r)
  | fetchStart r =>
    simp only [step] at h
    split at h <;> simp at h
    subst h
    constructor
    · intro i j; simp only [upd, active]; have := h1 i j; simp only [active] at this; grind
    · intro _; exact ⟨r, by simp [upd]⟩
    all_goals (intro i <;> simp only [upd] <;> grind)
  | fetchJoin r =>
    -- impossible: the read in `begun` and the owner of the flight would both be active
    simp only [step] at h
    split at h <;> simp at h
    all_goals
      (rename_i hph hfl
       obtain ⟨o, ho⟩ := h2 (by simp [hfl])
       have := h1 r o (by simp [active, hph]) (by simp [active, ho])
       subst this
       simp [hph] at ho)
  | leaderAnswer b =>
    simp only [step] at h
    split at h <;> simp at h
    rename_i hfl
    subst h
    constructor
    · exact h1
    · intro _; exact h2 (by simp [hfl])
    all_goals grind
  | fetchReply =>
    simp only [step] at h
    split at h <;> simp at h
    subst h
    constructor
    · intro i j; simp only [deliver, asIs, active]; have := h1 i j; simp only [active] at this; grind
    · simp
    all_goals (intro i <;> simp only [deliver, asIs] <;> grind)
  | setRev r =>
    simp only [step] at h
    split at h <;> simp at h
    all_goals
      (rename_i hph
       subst h
       constructor
       · intro i j; simp only [upd, active]; have := h1 i j; simp only [active] at this; grind
       · intro hf
         obtain ⟨o, ho⟩ := h2 hf
         exact ⟨o, by simp only [upd]; grind⟩
       · intro i; simp only [upd]; grind
       · intro i; simp only [upd]; grind
       · intro i; simp only [upd]; grind
       · intro i; simp only [upd]; grind
       · intro i; simp only [upd, asIs]
         have := h1 i r; simp only [active] at this; grind
       · intro i; simp only [upd]; grind)
  | readServe r =>
    simp only [step] at h
    split at h <;> simp at h
    rename_i hph
    subst h
    constructor
    · intro i j; simp only [upd, active]; have := h1 i j; simp only [active] at this; grind
    · intro hf
      obtain ⟨o, ho⟩ := h2 hf
      exact ⟨o, by simp only [upd]; grind⟩
    all_goals (intro i <;> simp only [upd] <;> grind)

theorem invSeq_begin {s s' : State} {r : Nat} (hq : ∀ i, active (s.reads i) = false)
    (h : step asIs s (.readBegin r) = some s') (hi : InvSeq s) : InvSeq s' := by
  obtain ⟨h1, h2, h3, h4, h5, h6, h7, h8⟩ := hi
  simp only [step] at h
  split at h <;> simp at h
  subst h
  constructor
  · intro i j; simp only [upd]
    have hi := hq i; have hj := hq j
    grind
  · intro hf
    obtain ⟨o, ho⟩ := h2 hf
    have := hq o
    simp [active, ho] at this
  all_goals (intro i <;> simp only [upd] <;> grind)

theorem invSeq_reachable : ∀ s, ReachableSeq asIs s → InvSeq s := by
  intro s hs
  induction hs with
  | init n => exact invSeq_init n
  | «begin» r _ hq hst ih => exact invSeq_begin hq hst ih
  | other st _ hne hst ih => exact invSeq_other hne hst ih

structure InvFixed (s : State) : Prop where
  begin_le : ∀ r, (s.reads r).phase ≠ .idle → (s.reads r).beginRev ≤ s.leaderRev
  wait : ∀ r v, (s.reads r).phase = .waiting → (s.reads r).late = false → s.flight = .answered (some v) →
    (s.reads r).beginRev ≤ v
  got : ∀ r v, (s.reads r).phase = .got (some v) → (s.reads r).beginRev ≤ v
  synced : ∀ r, (s.reads r).phase = .synced → (s.reads r).beginRev ≤ s.followerRev
  served : ∀ r v, (s.reads r).phase = .served v → (s.reads r).beginRev ≤ v

theorem invFixed_step {s s' : State} {st : Step} (h : step fixed s st = some s') (hi : InvFixed s) : InvFixed s' := by
  obtain ⟨h1, h2, h3, h4, h5⟩ := hi
  cases st with
  | leaderCommit =>
    simp only [step] at h
    simp at h; subst h
    constructor <;> intro i <;> grind
  | readBegin r =>
    simp only [step] at h
    split at h <;> simp at h
    subst h
    constructor <;> intro i <;> simp only [upd] <;> grind
  | fetchStart r =>
    simp only [step] at h
    split at h <;> simp at h
    subst h
    constructor <;> intro i <;> simp only [upd] <;> grind
  | fetchJoin r =>
    simp only [step] at h
    split at h <;> simp at h
    all_goals (subst h; constructor <;> intro i <;> simp only [upd] <;> grind)
  | leaderAnswer b =>
    simp only [step] at h
    split at h <;> simp at h
    subst h
    constructor <;> intro i <;> grind
  | fetchReply =>
    simp only [step] at h
    split at h <;> simp at h
    subst h
    constructor <;> intro i <;> simp only [deliver, fixed] <;> grind
  | setRev r =>
    simp only [step] at h
    split at h <;> simp at h
    all_goals (subst h; constructor <;> intro i <;> simp only [upd, fixed] <;> grind)
  | readServe r =>
    simp only [step] at h
    split at h <;> simp at h
    subst h
    constructor <;> intro i <;> simp only [upd] <;> grind

theorem invFixed_reachable : ∀ s, Reachable fixed s → InvFixed s :=
  reachable_induction (fun n => by constructor <;> simp [init]) (fun _ _ _ hp h => invFixed_step h hp)

end KB.Server
