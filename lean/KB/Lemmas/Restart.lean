/- Helper lemmas for C15. -/
import KB.Props.C02Store
import KB.Props.C01
namespace KB
end KB
