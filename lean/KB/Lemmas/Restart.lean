/- Helper lemmas for C15. -/
import KB.Props.C02Store
import KB.Props.C01
namespace KB

/-! ### the dealt counter never falls below its initial value, and neither does any begin stamp -/

/-- every begin stamp (of requests in flight and of finished ones) is at least `ts`, and so is the counter -/
structure LowInv (ts : Nat) (v : View) : Prop where
  dl : ts ≤ v.dealt
  cl : ∀ c ∈ v.clients, ts ≤ c.beginDealt
  dn : ∀ d ∈ v.done, ts ≤ d.beginDealt

theorem LowInv.closed (ts : Nat) : Closed (LowInv ts) where
  dealTo := by
    intro v c pc h _ hc _ _
    obtain ⟨dl, cl, dn⟩ := h
    constructor <;> simp only [View.setPc, View.setC, View.deal, mem_setPc] <;> grind
  move := by
    intro v c pc h hc _ _ _
    obtain ⟨dl, cl, dn⟩ := h
    constructor <;> simp only [View.setPc, View.setC, mem_setPc] <;> grind
  report := by
    intro v c w h hc _ fb
    obtain ⟨dl, cl, dn⟩ := h
    constructor <;> simp only [View.setPc, View.setC, View.push, mem_setPc] <;> split <;> grind
  ret := by
    intro v c r fb h hc _ res
    obtain ⟨dl, cl, dn⟩ := h
    constructor <;> simp only [View.fin, mem_fin, List.mem_append, List.mem_singleton] <;> grind
  consume := by
    intro v w h _ _
    obtain ⟨dl, cl, dn⟩ := h
    constructor <;> simp only [View.consume] <;> grind
  rdeal := by
    intro v h _ _
    obtain ⟨dl, cl, dn⟩ := h
    constructor <;> simp only [View.deal, View.setR] <;> grind
  rpush := by
    intro v w h _
    obtain ⟨dl, cl, dn⟩ := h
    constructor <;> simp only [View.setR, View.push] <;> split <;> grind
  spawn := by
    intro v id h _ kind
    obtain ⟨dl, cl, dn⟩ := h
    constructor <;> simp only [View.spawn, List.mem_append, List.mem_singleton] <;> grind
  drop := by
    intro v c h _ _
    obtain ⟨dl, cl, dn⟩ := h
    constructor <;> simp only [View.drop, mem_fin] <;> grind

theorem LowInv.init {g : G} (h3 : g.clients = []) (h4 : g.done = []) : LowInv g.dealt g.view := by
  constructor <;> simp [G.view, h3, h4]

/-! ### both filters of `visible` coincide when the bound dominates every stored revision -/

theorem visible_eq_of_all_le {recs : List Rec} {R R' : Nat} (h : ∀ r ∈ recs, r.rev ≤ R ∧ r.rev ≤ R') (k : Bytes) :
    visible R recs k = visible R' recs k := by
  unfold visible
  congr 1
  apply List.filter_congr
  intro r hr
  have := h r hr
  simp [this.1, this.2]

/-- a record of a decoded store is found in any other decoding of the same store, provided its revision
fits 8 bytes -/
theorem rec_of_encodeStore_eq {recs recs' : List Rec} (h : encodeStore recs = encodeStore recs')
    {r : Rec} (hr : r ∈ recs) (hb : r.rev < 2 ^ 64) (hb' : ∀ r' ∈ recs', r'.rev < 2 ^ 64) :
    ∃ r' ∈ recs', r'.key = r.key ∧ r'.rev = r.rev := by
  have hm : (encode r.key r.rev, r.val) ∈ encodeStore recs := List.mem_map.mpr ⟨r, hr, rfl⟩
  rw [h] at hm
  obtain ⟨r', hr', e⟩ := List.mem_map.mp hm
  simp only [Prod.mk.injEq] at e
  obtain ⟨e1, e2⟩ := encode_inj (hb' r' hr') hb e.1
  exact ⟨r', hr', e1, e2⟩

end KB
