/-
  KB.Sys — the interleaving transition system of the write path: any number of client requests
  (create / update / delete, arbitrary expected revisions), each a small state machine whose steps
  are the atomic actions of pkg/backend/txn.go and creator/naive.go (one `tso.Deal`, one engine
  batch commit, one engine snapshot read, one store into the per-revision slot), the retry loop
  (`retry()` / `overwrite()` of retry/retry.go, itself two steps: its read of the key's latest value
  together with the `tso.Deal` that follows, and its compare-and-swap commit together with the
  notification of the sequencer and the pop of its queue), and the sequencer
  (`collectStorageWriteEvents`) which consumes slot `committed + 1`.
  Steps of different requests and of the retry loop interleave arbitrarily; a schedule is a list of actions.
  The creator (`CreateWithTTL`) as it is since /repo eb6d1d1: put-if-absent (`createCommit`), [read of the record when the
  conflict does not carry it: `createReread`], then the bounded loop — compare-and-swap against the deletion record seen
  (`createOver rev old att`), on a failed condition read the record again (`createRecheck rev att`): gone → put-if-absent
  again (`createRetry`), still a deletion below `rev` → next compare-and-swap against the record as it is now (at most 4
  in all), anything else → failed condition. `Cfg.creatorNoReeval` = the creator before that fix (refutations only).
  Ghost state (never read by a step): the log of successful commits and of finished requests, and for every finished
  request the piece of the log that was applied while it was in flight (`begins`, `spans`).
-/
import KB.Backend
import KB.Spec
namespace KB
open Generated

inductive ReqKind where
  | create (key val : Bytes)
  | update (key val : Bytes) (exp : Nat)      -- exp = 0 is routed to the create path, as in Backend.Update
  | delete (key : Bytes) (exp : Nat)
  deriving Repr, DecidableEq

def ReqKind.key : ReqKind → Bytes
  | .create k _ => k
  | .update k _ _ => k
  | .delete k _ => k

/-- Program counter of an in-flight request. -/
inductive Pc where
  | start                                  -- nothing done yet
  | createCommit (rev : Nat)               -- dealt; about to commit [putIfAbsent idx, put ver]
  | createReread (rev : Nat)               -- conflict without value (Idx ≠ 0): about to read the index
  | createRetry (rev : Nat)                -- index vanished: about to commit the create batch again
  | createOver (rev : Nat) (old : Bytes) (att : Nat)  -- tombstoned index seen: about to commit [cas idx old→rev, put ver]; `att` = loop counter `attempt`
  | createRecheck (rev : Nat) (att : Nat)  -- that cas failed its condition: about to read the index again (compacted away? rewritten by a repair?)
  | updateCommit (rev : Nat)               -- dealt, no drift: about to commit [cas idx exp→rev, put ver]
  | deleteDeal (old : Option (Bytes × Nat)) -- latest read; about to deal
  | deleteCommit (rev : Nat) (oldVal : Bytes) (modRev : Nat)
  | readLatest (rev : Nat) (fallback : Option (Bytes × Bytes × Nat)) -- condition failed: about to read the latest for the response
  deriving Repr, DecidableEq

structure Client where
  id : Nat
  kind : ReqKind
  pc : Pc
  /-- ghost: value of the dealt counter when the request began -/
  beginDealt : Nat
  deriving Repr, DecidableEq

/-- Final response of a request (ghost log). -/
structure Done where
  id : Nat
  kind : ReqKind
  res : WriteRes
  /-- revision this request dealt (0 = none) -/
  rev : Nat
  beginDealt : Nat
  /-- ghost: dealt counter when the request returned -/
  endDealt : Nat
  deriving Repr, DecidableEq

/-- What a successful write was conditioned on (ghost). -/
inductive Expect where
  | absent            -- create: index absent, or tombstoned with an older revision
  | rev (n : Nat)     -- update / delete / rewrite: index = live (or, for a delete's rewrite, deleted) at exactly n
  deriving Repr, DecidableEq

/-- Ghost log entry for a batch the engine applied. -/
structure WLog where
  key : Bytes
  rev : Nat
  val : Option Bytes      -- none = deletion
  exp : Expect
  deriving Repr, DecidableEq

/-- The retry loop between the two storage calls of `overwrite()`: the queue node it is repairing
(`node.event`, captured at the top of `retry()`), the fresh revision it took from the TSO and the value it
read (and is about to rewrite). -/
structure RetryPc where
  w : WEvent
  rev : Nat
  val : Bytes
  deriving Repr, DecidableEq

/-- Ghost: the part of `wlog` that was applied while a finished request was in flight
(`wlog[beginLog, endLog)`); `rev` = the revision the request dealt (unique: `C02.deal_unique`). -/
structure Span where
  id : Nat
  rev : Nat
  beginLog : Nat
  endLog : Nat
  deriving Repr, DecidableEq

structure G where
  cfg : Cfg := {}
  store : Store := []
  dealt : Nat := 0
  committed : Nat := 0
  /-- filled slots of `watchEventsRingBuffer`, keyed by revision -/
  slots : List WEvent := []
  retryQ : List WEvent := []
  /-- the retry loop is between its read and its commit (none: it is at the top of `retry()`) -/
  retryPc : Option RetryPc := none
  clients : List Client := []
  /-- events handed to the watch pipeline, in order (ghost view of ring + watchChan) -/
  emitted : List Event := []
  -- ghost
  hist : List HWrite := []          -- batches the engine applied (incl. "unknown outcome, applied"), in commit order
  wlog : List WLog := []            -- the same, with the condition each was committed under
  done : List Done := []
  begins : List (Nat × Nat) := []   -- (request id, length of `wlog` when it began), newest first
  spans : List Span := []           -- one entry per finished request, in the order of `done`
  /-- requests answered without having been dealt a revision (`tso.Deal` refused: window full), `rev = 0` -/
  refused : List Done := []
  deriving Repr

inductive Action where
  | begin (id : Nat) (kind : ReqKind)
  | step (id : Nat) (f : Fault)
  | seq                              -- sequencer consumes slot committed+1 if filled
  | retry (f : Fault)                -- retry loop processes the head of its queue: `retryRead`, then `retryCommit f`
  | retryRead                        -- retry loop: read the latest value of the head's key (and deal a revision)
  | retryCommit (f : Fault)          -- retry loop: commit the rewrite, tell the sequencer, pop / keep the head
  deriving Repr, DecidableEq

def G.client (g : G) (id : Nat) : Option Client := g.clients.find? (·.id == id)

def G.setClient (g : G) (c : Client) : G :=
  { g with clients := g.clients.map (fun x => if x.id == c.id then c else x) }

/-- ghost: length of `wlog` when the request now running under `id` began -/
def G.beginOf (g : G) (id : Nat) : Nat := ((g.begins.find? (·.1 == id)).map (·.2)).getD 0

def G.finish (g : G) (c : Client) (res : WriteRes) (rev : Nat) : G :=
  { g with clients := g.clients.filter (·.id != c.id),
           done := g.done ++ [{ id := c.id, kind := c.kind, res := res, rev := rev,
                                beginDealt := c.beginDealt, endDealt := g.dealt }],
           spans := g.spans ++ [{ id := c.id, rev := rev, beginLog := g.beginOf c.id, endLog := g.wlog.length }] }

/-- `tso.Deal` refuses (since /repo 624b477): the revision it would deal, `dealt + 1`, is a whole ring ahead of the
committed one, `dealt + 1 - committed ≥ MaxInFlight` (= the slot ring of the sequencer): it would have no slot.
(`dealt ≥ committed` always holds here: `C04.committed_le_dealt`.) `Cfg.dealUnguarded` = the `Deal` before the fix. -/
def windowFullAt (cfg : Cfg) (dealt committed : Nat) : Bool :=
  !cfg.dealUnguarded && decide (dealt + 1 - committed ≥ cfg.ringLen)

def G.windowFull (g : G) : Bool := windowFullAt g.cfg g.dealt g.committed

/-- A request returns without a revision: nothing is dealt, nothing reported (`notify` ignores revision 0). -/
def G.refuse (g : G) (c : Client) (res : WriteRes) : G :=
  { g with clients := g.clients.filter (·.id != c.id),
           refused := g.refused ++ [{ id := c.id, kind := c.kind, res := res, rev := 0,
                                      beginDealt := c.beginDealt, endDealt := g.dealt }] }

/-- `notify`: fill the slot of `rev` (revision 0 fills nothing). -/
def G.notify (g : G) (w : WEvent) : G :=
  if w.rev == 0 then g else { g with slots := g.slots ++ [w] }

def mkW (rev prevRev : Nat) (valid : Bool) (verb : Verb) (key val : Bytes) (unc : Bool := false) : WEvent :=
  { rev := rev, prevRev := prevRev, valid := valid, verb := verb, key := key, val := val, uncertain := unc }

/-- record a successful commit in the ghost history -/
def G.logWrite (g : G) (key : Bytes) (rev : Nat) (val : Option Bytes) (exp : Expect := .absent) : G :=
  { g with hist := g.hist ++ [{ key := key, rev := rev, val := val }],
           wlog := g.wlog ++ [{ key := key, rev := rev, val := val, exp := exp }] }

/-- Did the engine apply the batch? (true for success and for "unknown outcome, applied") -/
def applied (r : CommitRes) (f : Fault) : Bool := r == .ok || (r == .uncertain && f == .uncApplied)

def createOps (key val : Bytes) (rev : Nat) : List BOp :=
  [BOp.pine (idxKey key) (be8 rev), BOp.put (encode key rev) val]

def createVerb (k : ReqKind) : Verb := match k with
  | .create _ _ => .create
  | .update _ _ e => if e == 0 then .create else .put
  | .delete _ _ => .delete

/-- Finish a create-path request after its last commit with outcome `r`. For `Update` with
expected revision 0 a failed condition goes on to read the latest value. -/
def finishCreate (g : G) (c : Client) (key val : Bytes) (rev : Nat) (r : CommitRes) : G :=
  let g := g.notify (mkW rev 0 (r == .ok) .create key val (r == .uncertain))
  match r with
  | .ok => g.finish c (.ok rev) rev
  | .conflict _ _ =>
    match c.kind with
    | .update _ _ _ => g.setClient { c with pc := .readLatest rev none }
    | _ => g.finish c (.condFailed rev none) rev
  | r => g.finish c (.error (commitErr r)) rev

/-- Decide what to do with the index value seen by a conflicting create (`att = 0`: the value its put-if-absent
ran into; `att > 0`: the value read again after `att` failed compare-and-swaps, fix eb6d1d1): a deletion record
older than this revision is overwritten by compare-and-swap (loop body, attempt `att`); a deletion record at or
above this revision is an ERROR since fix 42e5238 (`tombAbove`: the key is absent, the condition did not fail, nothing
can be written below the record), a live record a failed condition. A value that does not parse is `parseErr` the first time, the failed compare-and-swap's `err` later. -/
def createSawIndex (g : G) (c : Client) (key val : Bytes) (rev : Nat) (old : Bytes) (att : Nat := 0) : G :=
  match parseRevision old with
  | none => finishCreate g c key val rev (if att == 0 then .err else .conflict none none)
  | some (prevRev, tomb) =>
    if tomb && prevRev < rev then g.setClient { c with pc := .createOver rev old att }
    else finishCreate g c key val rev (tombAbove g.cfg tomb)

/-- The steps that call `tso.Deal`: the first step of a create / update, the second of a delete. -/
def dealSite (c : Client) : Bool :=
  match c.pc, c.kind with
  | .start, .create _ _ => true
  | .start, .update _ _ _ => true
  | .deleteDeal _, .delete _ _ => true
  | _, _ => false

/-- What a request whose `Deal` was refused answers: an error — except the delete of a missing key, which ignores the
error of its `mustDeal` and answers "not found" under header 0. -/
def refusal (c : Client) : WriteRes :=
  match c.pc with
  | .deleteDeal none => .notFound 0
  | _ => .error .other

/-- One atomic step of client `c` once `Deal` (if the step calls it) has handed out `dealt + 1`
(fault `f` applies if the step is a commit). -/
def stepClientCore (g : G) (c : Client) (f : Fault) : G :=
  let cf := g.cfg
  match c.pc, c.kind with
  -- ---- create path (Create, and Update with expected revision 0)
  | .start, .create _ _ =>
    let rev := g.dealt + 1
    { g with dealt := rev }.setClient { c with pc := .createCommit rev }
  | .start, .update key val exp =>
    let rev := g.dealt + 1
    let g := { g with dealt := rev }
    if exp == 0 then g.setClient { c with pc := .createCommit rev }
    else if rev ≤ exp then
      (g.notify (mkW rev exp false .put key val)).finish c (.error .drift) rev
    else g.setClient { c with pc := .updateCommit rev }
  | .createCommit rev, k =>
    let (key, val) := match k with
      | .create k v => (k, v)
      | .update k v _ => (k, v)
      | .delete k _ => (k, [])
    let (r, st) := doCommit cf g.store (createOps key val rev) f
    let g := { g with store := st }
    let g := if applied r f then g.logWrite key rev (some val) else g
    match r with
    | .conflict idx cv =>
      if idx == some 0 then createSawIndex g c key val rev (cv.getD [])
      else g.setClient { c with pc := .createReread rev }
    | r => finishCreate g c key val rev r
  | .createReread rev, k =>
    let (key, val) := match k with
      | .create k v => (k, v)
      | .update k v _ => (k, v)
      | .delete k _ => (k, [])
    match g.store.get (idxKey key) with
    | some old => createSawIndex g c key val rev old
    | none => g.setClient { c with pc := .createRetry rev }
  | .createRetry rev, k =>
    let (key, val) := match k with
      | .create k v => (k, v)
      | .update k v _ => (k, v)
      | .delete k _ => (k, [])
    let (r, st) := doCommit cf g.store (createOps key val rev) f
    let g := { g with store := st }
    let g := if applied r f then g.logWrite key rev (some val) else g
    finishCreate g c key val rev r
  | .createOver rev old att, k =>
    let (key, val) := match k with
      | .create k v => (k, v)
      | .update k v _ => (k, v)
      | .delete k _ => (k, [])
    let (r, st) := doCommit cf g.store [BOp.cas (idxKey key) (be8 rev) old, BOp.put (encode key rev) val] f
    let g := { g with store := st }
    let g := if applied r f then g.logWrite key rev (some val) else g
    match r with
    | .conflict _ _ => g.setClient { c with pc := .createRecheck rev att }
    | r => finishCreate g c key val rev r
  | .createRecheck rev att, k =>
    let (key, val) := match k with
      | .create k v => (k, v)
      | .update k v _ => (k, v)
      | .delete k _ => (k, [])
    -- the record is read again: gone (compacted) -> put-if-absent again (c592466); still there -> since eb6d1d1
    -- it is looked at (at most 4 compare-and-swaps: `attempt >= 3` gives up); before, it meant a failed condition
    match g.store.get (idxKey key) with
    | some cur =>
      if cf.creatorNoReeval || att ≥ 3 then finishCreate g c key val rev (.conflict none none)
      else createSawIndex g c key val rev cur (att + 1)
    | none => g.setClient { c with pc := .createRetry rev }
  -- ---- guarded update
  | .updateCommit rev, .update key val exp =>
    let (r, st) := doCommit cf g.store [BOp.cas (idxKey key) (be8 rev) (be8 exp), BOp.put (encode key rev) val] f
    let g := { g with store := st }
    let g := if applied r f then g.logWrite key rev (some val) (.rev exp) else g
    let g := g.notify (mkW rev exp (r == .ok) .put key val (r == .uncertain))
    match r with
    | .ok => g.finish c (.ok rev) rev
    | .conflict _ _ => g.setClient { c with pc := .readLatest rev none }
    | r => g.finish c (.error (commitErr r)) rev
  -- ---- delete
  | .start, .delete key _ =>
    match bget cf g.store key 0 with
    | .notFound _ => g.setClient { c with pc := .deleteDeal none }
    | .found v m => g.setClient { c with pc := .deleteDeal (some (v, m)) }
  | .deleteDeal none, .delete key _ =>
    let rev := g.dealt + 1
    let g := { g with dealt := rev }
    (g.notify (mkW rev 0 false .delete key [])).finish c (.notFound rev) rev
  | .deleteDeal (some (oldVal, modRev)), .delete key exp =>
    let rev := g.dealt + 1
    let g := { g with dealt := rev }
    let inval := mkW rev modRev false .delete key oldVal
    if exp > 0 && rev ≤ exp then (g.notify inval).finish c (.error .drift) rev
    else if exp > 0 && exp != modRev then
      (g.notify inval).setClient { c with pc := .readLatest rev (some (key, oldVal, modRev)) }
    else if rev ≤ modRev then (g.notify inval).finish c (.error .other) rev
    else g.setClient { c with pc := .deleteCommit rev oldVal modRev }
  | .deleteCommit rev oldVal modRev, .delete key _ =>
    let (r, st) := doCommit cf g.store
      [BOp.cas (idxKey key) (be8 rev ++ [0]) (be8 modRev), BOp.put (encode key rev) tombstone] f
    let g := { g with store := st }
    let g := if applied r f then g.logWrite key rev none (.rev modRev) else g
    let g := g.notify (mkW rev modRev (r == .ok) .delete key oldVal (r == .uncertain))
    match r with
    | .ok => g.finish c (.ok rev) rev
    | .conflict _ _ => g.setClient { c with pc := .readLatest rev (some (key, oldVal, modRev)) }
    | r => g.finish c (.error (commitErr r)) rev
  -- ---- condition failed: read the latest value for the response
  | .readLatest rev fb, k =>
    match bget cf g.store k.key 0 with
    | .found v m => g.finish c (.condFailed (max rev m) (some (k.key, v, m))) rev
    | .notFound _ => g.finish c (.condFailed rev fb) rev
  -- unreachable pc/kind combinations: no-op
  | _, _ => g

/-- One atomic step of client `c`: a step that deals a revision is refused while the window is full. -/
def stepClient (g : G) (c : Client) (f : Fault) : G :=
  if dealSite c && g.windowFull then g.refuse c (refusal c) else stepClientCore g c f

/-- The sequencer: consume slot `committed + 1` when it is filled. -/
def stepSeq (g : G) : G :=
  match g.slots.find? (fun w => w.rev == g.committed + 1) with
  | none => g
  | some w =>
    let g := { g with slots := g.slots.filter (fun x => x.rev != w.rev) }
    let rq := if !w.valid && w.uncertain then g.retryQ ++ [w] else g.retryQ
    let em := if w.valid then g.emitted ++ [mkEvent w] else g.emitted
    { g with committed := w.rev, dealt := max g.dealt w.rev, retryQ := rq, emitted := em }

/-- First half of one `retry()` (up to `tso.Deal` in `overwrite`): read the latest value of the head's key
through the backend getter. No version, or the newest version is not the queued revision any more: nothing to
repair, the head is popped. Otherwise a fresh revision is taken from the TSO and the loop goes on to its commit
(`retryPc`). From here until `retryCommit` other requests may run. -/
def stepRetryRead (g : G) : G :=
  match g.retryPc with
  | some _ => g
  | none =>
    match g.retryQ with
    | [] => g
    | w :: rest =>
      match getInternal g.cfg g.store w.key 0 with
      | none => { g with retryQ := rest }
      | some (val, modRev) =>
        if val.length == 0 || modRev != w.rev then { g with retryQ := rest }
        -- `Deal` refused: `overwrite` returns (0, err), `retry()` keeps the head and tries again at the next tick
        else if g.windowFull then g
        else { g with dealt := g.dealt + 1, retryPc := some { w := w, rev := g.dealt + 1, val := val } }

/-- Second half: commit `[CAS(revKey, new, prev), Put(objKey_new, val)]`, report the new revision to the
sequencer (valid iff the commit succeeded; `uncertain` iff its outcome is unknown) and pop the head iff the
rewrite succeeded or failed its condition (a changed key); a storage error / unknown outcome keeps it
(fixes 35be7da, f99b060). -/
def stepRetryCommit (g : G) (f : Fault) : G :=
  match g.retryPc with
  | none => g
  | some p =>
    let w := p.w
    let flag : Bytes := if isTomb p.val then [0] else []
    let (r, st) := doCommit g.cfg g.store
      [BOp.cas (idxKey w.key) (be8 p.rev ++ flag) (be8 w.rev ++ flag), BOp.put (encode w.key p.rev) p.val] f
    let g := { g with store := st, retryPc := none,
                      retryQ := if r == CommitRes.ok || r.isCas then g.retryQ.drop 1 else g.retryQ }
    let g := if applied r f then g.logWrite w.key p.rev (if isTomb p.val then none else some p.val) (.rev w.rev) else g
    g.notify { w with rev := p.rev, valid := r == .ok, uncertain := r == .uncertain }

/-- One whole `retry()` without anything in between (a retry loop that is already between its two steps just
finishes). -/
def stepRetry (g : G) (f : Fault) : G := stepRetryCommit (stepRetryRead g) f

def act (g : G) : Action → G
  | .begin id kind =>
    if (g.client id).isSome then g
    else { g with clients := g.clients ++ [{ id := id, kind := kind, pc := .start, beginDealt := g.dealt }],
                  begins := (id, g.wlog.length) :: g.begins }
  | .step id f =>
    match g.client id with
    | none => g
    | some c => stepClient g c f
  | .seq => stepSeq g
  | .retry f => stepRetry g f
  | .retryRead => stepRetryRead g
  | .retryCommit f => stepRetryCommit g f

def run (g : G) (sched : List Action) : G := sched.foldl act g

/-- Everything reachable from `g0` by some schedule. -/
def Reachable (g0 g : G) : Prop := ∃ sched, run g0 sched = g

end KB
