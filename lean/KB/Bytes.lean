/-
  KB.Bytes — byte strings as `List Nat` (a byte is a `Nat`; `< 256` is an explicit
  hypothesis only where the Go code depends on it), `bytes.Compare`, big-endian
  fixed-width integers.  Core-only (no Mathlib) so that the driver links.
-/
namespace KB

abbrev Bytes := List Nat

/-- `bytes.Compare`. -/
def cmp : Bytes → Bytes → Ordering
  | [], [] => .eq
  | [], _ :: _ => .lt
  | _ :: _, [] => .gt
  | a :: as, b :: bs => if a < b then .lt else if b < a then .gt else cmp as bs

def blt (a b : Bytes) : Bool := cmp a b == .lt
def ble (a b : Bytes) : Bool := cmp a b != .gt

@[simp] theorem cmp_nil_nil : cmp [] [] = .eq := rfl
@[simp] theorem cmp_nil_cons (b : Nat) (bs : Bytes) : cmp [] (b :: bs) = .lt := rfl
@[simp] theorem cmp_cons_nil (a : Nat) (as : Bytes) : cmp (a :: as) [] = .gt := rfl
theorem cmp_cons_cons (a b : Nat) (as bs : Bytes) :
    cmp (a :: as) (b :: bs) = if a < b then .lt else if b < a then .gt else cmp as bs := rfl

@[simp] theorem cmp_refl (a : Bytes) : cmp a a = .eq := by
  induction a with
  | nil => rfl
  | cons x xs ih => simp [cmp_cons_cons, ih]

theorem cmp_eq_iff {a b : Bytes} : cmp a b = .eq ↔ a = b := by
  induction a generalizing b with
  | nil => cases b <;> simp
  | cons x xs ih =>
    cases b with
    | nil => simp
    | cons y ys =>
      simp only [cmp_cons_cons]
      by_cases h1 : x < y
      · simp [h1]; omega
      · by_cases h2 : y < x
        · simp [h1, h2]; omega
        · have : x = y := by omega
          subst this
          simp [ih]

theorem cmp_swap (a b : Bytes) : cmp b a = (cmp a b).swap := by
  induction a generalizing b with
  | nil => cases b <;> rfl
  | cons x xs ih =>
    cases b with
    | nil => rfl
    | cons y ys =>
      simp only [cmp_cons_cons]
      by_cases h1 : x < y
      · have : ¬ y < x := by omega
        simp [h1, this]
      · by_cases h2 : y < x
        · simp [h1, h2]
        · simp [h1, h2, ih]

theorem cmp_gt_iff {a b : Bytes} : cmp a b = .gt ↔ cmp b a = .lt := by
  rw [cmp_swap a b]; cases cmp a b <;> simp

theorem cmp_lt_trans {a b c : Bytes} (h1 : cmp a b = .lt) (h2 : cmp b c = .lt) : cmp a c = .lt := by
  induction a generalizing b c with
  | nil =>
    cases c with
    | nil => cases b <;> simp at h1 h2
    | cons _ _ => rfl
  | cons x xs ih =>
    cases b with
    | nil => simp at h1
    | cons y ys =>
      cases c with
      | nil => simp at h2
      | cons z zs =>
        simp only [cmp_cons_cons] at *
        by_cases hxy : x < y
        · by_cases hyz : y < z
          · have : x < z := by omega
            simp [this]
          · by_cases hzy : z < y
            · simp [hyz, hzy] at h2
            · have : y = z := by omega
              subst this; simp [hxy]
        · by_cases hyx : y < x
          · simp [hxy, hyx] at h1
          · have : x = y := by omega
            subst this
            simp only [hxy, if_false] at h1
            by_cases hyz : x < z
            · simp [hyz]
            · by_cases hzy : z < x
              · simp [hyz, hzy] at h2
              · simp only [hyz, hzy, if_false] at h2 ⊢
                exact ih h1 h2

theorem cmp_append_left (p a b : Bytes) : cmp (p ++ a) (p ++ b) = cmp a b := by
  induction p with
  | nil => rfl
  | cons x xs ih => simp [cmp_cons_cons, ih]

theorem blt_iff {a b : Bytes} : blt a b = true ↔ cmp a b = .lt := by simp [blt]
theorem ble_iff {a b : Bytes} : ble a b = true ↔ cmp a b ≠ .gt := by simp [ble]

theorem ble_iff_lt_or_eq {a b : Bytes} : ble a b = true ↔ (cmp a b = .lt ∨ a = b) := by
  rw [ble_iff, ← cmp_eq_iff]; cases cmp a b <;> simp

theorem not_blt_iff_ble {a b : Bytes} : blt a b = false ↔ ble b a = true := by
  rw [ble_iff, cmp_swap a b]
  simp only [blt]; cases cmp a b <;> simp

theorem ble_trans {a b c : Bytes} (h1 : ble a b = true) (h2 : ble b c = true) : ble a c = true := by
  rw [ble_iff_lt_or_eq] at *
  rcases h1 with h1 | h1
  · rcases h2 with h2 | h2
    · exact .inl (cmp_lt_trans h1 h2)
    · subst h2; exact .inl h1
  · subst h1; exact h2

theorem blt_of_blt_of_ble {a b c : Bytes} (h1 : blt a b = true) (h2 : ble b c = true) : blt a c = true := by
  rw [blt_iff] at *; rw [ble_iff_lt_or_eq] at h2
  rcases h2 with h2 | h2
  · exact cmp_lt_trans h1 h2
  · subst h2; exact h1

theorem blt_of_ble_of_blt {a b c : Bytes} (h1 : ble a b = true) (h2 : blt b c = true) : blt a c = true := by
  rw [blt_iff] at *; rw [ble_iff_lt_or_eq] at h1
  rcases h1 with h1 | h1
  · exact cmp_lt_trans h1 h2
  · subst h1; exact h2

/-- `bytes.HasPrefix`. -/
def hasPrefix : Bytes → Bytes → Bool
  | _, [] => true
  | [], _ :: _ => false
  | a :: as, p :: ps => a == p && hasPrefix as ps

theorem hasPrefix_iff {k p : Bytes} : hasPrefix k p = true ↔ ∃ t, k = p ++ t := by
  induction p generalizing k with
  | nil => simp [hasPrefix]
  | cons x xs ih =>
    cases k with
    | nil => simp [hasPrefix]
    | cons y ys =>
      simp only [hasPrefix, Bool.and_eq_true, beq_iff_eq, ih, List.cons_append, List.cons.injEq]
      constructor
      · rintro ⟨rfl, t, rfl⟩; exact ⟨t, rfl, rfl⟩
      · rintro ⟨t, rfl, rfl⟩; exact ⟨rfl, t, rfl⟩

/-- `bytes.Contains(s, sub)`. -/
def containsSub : Bytes → Bytes → Bool
  | [], sub => sub.isEmpty
  | a :: as, sub => hasPrefix (a :: as) sub || containsSub as sub

/-! ### big-endian fixed width -/

/-- `n` big-endian base-256 digits of `x` (most significant first); digits of
`x mod 256^n`, as `binary.BigEndian.PutUint64` for `n = 8`. -/
def beN : Nat → Nat → Bytes
  | 0, _ => []
  | n + 1, x => (x / 256 ^ n % 256) :: beN n x

def fromBE (b : Bytes) : Nat := b.foldl (fun acc d => acc * 256 + d) 0

def be64 (x : Nat) : Bytes := beN 8 x

@[simp] theorem beN_length (n x : Nat) : (beN n x).length = n := by
  induction n with
  | zero => rfl
  | succ n ih => simp [beN, ih]

theorem beN_lt (n x : Nat) : ∀ d ∈ beN n x, d < 256 := by
  induction n with
  | zero => simp [beN]
  | succ n ih =>
    intro d hd
    simp only [beN, List.mem_cons] at hd
    rcases hd with rfl | hd
    · exact Nat.mod_lt _ (by decide)
    · exact ih d hd

theorem beN_mod (n x : Nat) : beN n (x % 256 ^ n) = beN n x := by
  induction n generalizing x with
  | zero => rfl
  | succ n ih =>
    simp only [beN]
    congr 1
    · rw [Nat.pow_succ, Nat.mod_mul_right_div_self, Nat.mod_mod]
    · rw [← ih (x % 256 ^ (n + 1)), ← ih x]
      congr 1
      rw [Nat.pow_succ]
      exact Nat.mod_mul_right_mod _ _ _

theorem foldl_fromBE (acc : Nat) (b : Bytes) :
    b.foldl (fun acc d => acc * 256 + d) acc = acc * 256 ^ b.length + fromBE b := by
  induction b generalizing acc with
  | nil => simp [fromBE]
  | cons d ds ih =>
    simp only [List.foldl_cons, List.length_cons, fromBE]
    rw [ih, ih (0 * 256 + d)]
    simp [Nat.pow_succ, Nat.add_mul, Nat.mul_assoc, Nat.mul_comm 256, Nat.add_assoc]

theorem fromBE_beN (n x : Nat) : fromBE (beN n x) = x % 256 ^ n := by
  induction n generalizing x with
  | zero => simp [beN, fromBE, Nat.mod_one]
  | succ n ih =>
    simp only [beN, fromBE, List.foldl_cons]
    rw [foldl_fromBE, ih, beN_length]
    have h : 256 ^ (n + 1) = 256 ^ n * 256 := Nat.pow_succ ..
    rw [h, Nat.mod_mul, Nat.zero_mul, Nat.zero_add, Nat.add_comm, Nat.mul_comm]

theorem fromBE_be64 {x : Nat} (h : x < 2 ^ 64) : fromBE (be64 x) = x := by
  have : (256 : Nat) ^ 8 = 2 ^ 64 := by decide
  rw [be64, fromBE_beN, this, Nat.mod_eq_of_lt h]

/-- Fixed-width big-endian order is numeric order. -/
theorem cmp_beN (n x y : Nat) (hx : x < 256 ^ n) (hy : y < 256 ^ n) :
    cmp (beN n x) (beN n y) = compare x y := by
  induction n generalizing x y with
  | zero =>
    simp at hx hy; subst hx; subst hy; simp [beN]
  | succ n ih =>
    simp only [beN, cmp_cons_cons]
    have hp : 0 < 256 ^ n := Nat.pow_pos (by decide)
    have hx' : x / 256 ^ n < 256 := by
      rw [Nat.div_lt_iff_lt_mul hp]; rw [Nat.pow_succ, Nat.mul_comm] at hx; omega
    have hy' : y / 256 ^ n < 256 := by
      rw [Nat.div_lt_iff_lt_mul hp]; rw [Nat.pow_succ, Nat.mul_comm] at hy; omega
    rw [Nat.mod_eq_of_lt hx', Nat.mod_eq_of_lt hy']
    have ex := Nat.div_add_mod x (256 ^ n)
    have ey := Nat.div_add_mod y (256 ^ n)
    have mx := Nat.mod_lt x hp
    have my := Nat.mod_lt y hp
    by_cases h1 : x / 256 ^ n < y / 256 ^ n
    · simp only [h1, if_true]
      have : x < y := by
        have : 256 ^ n * (x / 256 ^ n + 1) ≤ 256 ^ n * (y / 256 ^ n) := Nat.mul_le_mul_left _ h1
        rw [Nat.mul_add, Nat.mul_one] at this
        omega
      simp [compare, compareOfLessAndEq, this]
    · by_cases h2 : y / 256 ^ n < x / 256 ^ n
      · simp only [h1, h2, if_true, if_false]
        have : y < x := by
          have : 256 ^ n * (y / 256 ^ n + 1) ≤ 256 ^ n * (x / 256 ^ n) := Nat.mul_le_mul_left _ h2
          rw [Nat.mul_add, Nat.mul_one] at this
          omega
        have h3 : ¬ x < y := by omega
        have h4 : x ≠ y := by omega
        simp [compare, compareOfLessAndEq, h3, h4]
      · simp only [h1, h2, if_false]
        have heq : x / 256 ^ n = y / 256 ^ n := by omega
        rw [← beN_mod n x, ← beN_mod n y, ih _ _ mx my]
        rw [heq] at ex
        simp only [compare, compareOfLessAndEq]
        by_cases hl : x % 256 ^ n < y % 256 ^ n
        · have : x < y := by omega
          simp [hl, this]
        · by_cases he : x % 256 ^ n = y % 256 ^ n
          · have : x = y := by omega
            simp [this]
          · have h5 : ¬ x < y := by omega
            have h6 : x ≠ y := by omega
            simp [hl, he, h5, h6]

theorem cmp_be64 {x y : Nat} (hx : x < 2 ^ 64) (hy : y < 2 ^ 64) :
    cmp (be64 x) (be64 y) = compare x y := by
  have : (256 : Nat) ^ 8 = 2 ^ 64 := by decide
  exact cmp_beN 8 x y (this ▸ hx) (this ▸ hy)

theorem be64_inj {x y : Nat} (hx : x < 2 ^ 64) (hy : y < 2 ^ 64) (h : be64 x = be64 y) : x = y := by
  rw [← fromBE_be64 hx, ← fromBE_be64 hy, h]

end KB
