/-
  KB.CompactFault — a compaction request during which the SCANNER's read of the compaction record fails with a
  transient engine error (scanner.go `checkCompactRace(compact = true)`; the first read of the record, in
  backend.setCompactRecord, is the one that raises it and has its own error return).

  Code since the `fix:` commit "the scanner leaves the compaction record alone when it cannot read it": the failed read
  ends the scan of that border pair before anything is written ("try next time"); the request has been noted in the
  compaction history (`logCompactHistory` runs first), the other border pairs are compacted as usual, and Compact
  still answers with the revision (backend.compact ignores the scanner's result).
  Code before it (`old := true`): a failed read fell through to the UNCONDITIONAL Put of the request's revision, so an
  older compaction request (which setCompactRecord had rightly left alone) lowered the floor and re-opened reads
  below it over data already compacted (KB.Props.C08Fault `recfault_old_lowers_floor`).

  Core-only.
-/
import KB.Backend
namespace KB

/-- `scanner.Compact` over one border pair whose read of the compaction record fails: history noted, nothing else. -/
def compactRangeRF (s : BState) (rev : Nat) : BState := { s with marks := s.marks ++ [(rev, s.now)] }

/-- The same before the fix: the record is overwritten with the request's revision, then the pair is scanned. -/
def compactRangeRFOld (c : Cfg) (s : BState) (start stop : Bytes) (rev : Nat) (mask : Nat → DelOutcome)
    (calls : Nat) : BState × Nat × Bool :=
  compactRange c { s with store := s.store.put (compactKeyOf c) (be8 rev) } start stop rev mask calls

/-- the loop over the border pairs; the read of the record fails in pair number `k` (from 0) -/
def compactFoldRF (c : Cfg) (s : BState) (r : Nat) (mask : Nat → DelOutcome) (k : Nat) (old : Bool) :
    BState × Nat × Bool × Nat :=
  (pairs (compactBorders c)).foldl (fun (acc : BState × Nat × Bool × Nat) b =>
      if acc.2.2.2 == k then
        if old then
          let (s', calls, p) := compactRangeRFOld c acc.1 b.1 b.2 r mask acc.2.1
          (s', calls, acc.2.2.1 || p, acc.2.2.2 + 1)
        else (compactRangeRF acc.1 r, acc.2.1, acc.2.2.1, acc.2.2.2 + 1)
      else
        let (s', calls, p) := compactRange c acc.1 b.1 b.2 r mask acc.2.1
        (s', calls, acc.2.2.1 || p, acc.2.2.2 + 1)) (s, 0, false, 0)

/-- `Backend.Compact` with the scanner's read of the record failing once, in border pair `k`. -/
def doCompactRF (c : Cfg) (s : BState) (rev : Nat) (mask : Nat → DelOutcome) (k : Nat) (old : Bool := false) :
    ScanRes Nat × BState :=
  let cur := s.committed
  let rev := if rev == 0 || rev > cur then cur else rev
  let rev := match s.retryQ.head? with
    | some w => min (w.rev - 1) rev
    | none => rev
  let stored := s.store.get (compactKeyOf c)
  let store :=
    match stored with
    | some v => if v.length > 0 && fromBE (v.take 8) > rev then s.store else s.store.put (compactKeyOf c) (be8 rev)
    | none => s.store.put (compactKeyOf c) (be8 rev)
  let s := { s with store := store }
  let res := compactFoldRF c s rev mask k old
  (if res.2.2.1 then .panic else .ok rev, res.1)

end KB
