/-
  KB.TsoCas — the revision allocator `naiveTSO` (/repo/pkg/backend/tso/tso.go) at ATOMIC-INSTRUCTION
  granularity: a labelled transition system whose steps are the single `sync/atomic` operations of the
  three routines, interleaved arbitrarily between any number of goroutines.

  Shared state: the two registers `committed` (`committedRevision`) and `deal` (`dealRevision`).
  A thread is a program counter with its locals (`Pc`); one `step tid` executes ONE atomic instruction of
  thread `tid` (sequentially consistent, as Go's sync/atomic is). An execution is a list of thread ids; a
  step of a finished (or absent) thread is a no-op.

    Deal            `dealLoadD`: dealt := deal                                         (atomic.LoadUint64)
                    `dealLoadC dealt`: c := committed                                  (atomic.LoadUint64)
                    `dealCas dealt c`: if dealt ≥ c ∧ dealt + 1 - c ≥ W: refuse (`dealRefused dealt c`,
                                  ErrTooManyInFlight); else if deal = dealt then deal := dealt + 1 and return
                                  it (`dealDone (dealt+1)`, CompareAndSwapUint64 succeeded); else back to `dealLoadD`
                    (since 624b477; `W` = `State.window`, the real value is the regenerated
                    `KB.Generated.tsoMaxInFlight` = the backend's slot ring `watchersChanCapacity`)
    GetRevision     `getLoad`  : returns committed                                     (atomic.LoadUint64)
    Commit r        `loadC r`  : cur := committed                                      (atomic.LoadUint64)
                    `casC r cur`: if cur ≥ r go on; else if committed = cur then committed := r, go on
                                  (atomic.CompareAndSwapUint64 succeeded); else back to `loadC r`
                    `loadD r`, `casD r cur`: the same on `deal`; then `commitDone r`.

  The thread-local tests (`cur >= revision` in Commit, the window check in Deal) are folded into the CAS step
  that follows them (they touch no shared state: when they decide, the step changes nothing but the program
  counter). "The moment of the check" of a Deal is therefore its `dealCas` step; the values it checks are the
  ones it loaded, kept in the program counter (and in `dealRefused`, as ghost, when it refuses).

  The routines Deal and Commit had BEFORE their repairs are part of the LTS as well, for the refutations:
    `dealAddOld`             deal := deal + 1, returns the new value: ONE atomic.AddUint64, no window (before 624b477)
    `oldStoreC r`            committed := r unconditionally            (before db7d4ff)
    `midLoadC r`/`midCasC`   the repaired loop on committed, followed by the OLD tail
                             (the code between db7d4ff and 55a7cb8)
    `oldLoadD r`, `oldCasD r cur`  cur := deal; if cur < r then ONE compare-and-swap, its result ignored
                             (before 55a7cb8)

  Which routine the source has today is not assumed but REGENERATED: `KB.Generated.tsoCommitShape` etc.
  (harness/cmd/kbextract/order.go) must equal `expectedShape` below (`KB.C18Cas.source_matches_lts`).

  Not modelled: `Init` (two plain stores). No Init runs concurrently with the routines: nothing in /repo's
  non-test code calls it (`KB.Generated.tsoInitCallSites = 0`, part of `source_matches_lts`); a node's
  registers start from the zero value of `NewTSO()` and are raised by Commit. Revisions are `Nat`:
  wrap-around of the uint64 registers (2^64 revisions) is out of scope.
-/
namespace KB.TsoCas

/-- Program counter + locals of one goroutine inside one call. -/
inductive Pc where
  | dealLoadD
  | dealLoadC (dealt : Nat)
  | dealCas (dealt c : Nat)
  | dealDone (v : Nat)
  | dealRefused (dealt c : Nat)
  | dealAddOld
  | getLoad
  | getDone (v : Nat)
  | loadC (r : Nat)
  | casC (r cur : Nat)
  | loadD (r : Nat)
  | casD (r cur : Nat)
  | commitDone (r : Nat)
  | oldStoreC (r : Nat)
  | midLoadC (r : Nat)
  | midCasC (r cur : Nat)
  | oldLoadD (r : Nat)
  | oldCasD (r cur : Nat)
  | oldDone (r : Nat)
  deriving DecidableEq, Repr

structure State where
  /-- `MaxInFlight`: how far the dealt revision may run ahead of the committed one (a constant of the run). -/
  window : Nat
  committed : Nat
  deal : Nat
  threads : List Pc
  deriving DecidableEq, Repr

/-- One atomic instruction of a thread at `pc`, on registers `c` (committed) and `d` (deal), window `W`:
new registers and new program counter. -/
def stepPc (W c d : Nat) : Pc → Nat × Nat × Pc
  | .dealLoadD => (c, d, .dealLoadC d)
  | .dealLoadC dealt => (c, d, .dealCas dealt c)
  | .dealCas dealt c0 =>
      if c0 ≤ dealt ∧ W ≤ dealt + 1 - c0 then (c, d, .dealRefused dealt c0)
      else if d = dealt then (c, dealt + 1, .dealDone (dealt + 1))
      else (c, d, .dealLoadD)
  | .dealAddOld => (c, d + 1, .dealDone (d + 1))
  | .getLoad => (c, d, .getDone c)
  | .loadC r => (c, d, .casC r c)
  | .casC r cur =>
      if r ≤ cur then (c, d, .loadD r)
      else if c = cur then (r, d, .loadD r)
      else (c, d, .loadC r)
  | .loadD r => (c, d, .casD r d)
  | .casD r cur =>
      if r ≤ cur then (c, d, .commitDone r)
      else if d = cur then (c, r, .commitDone r)
      else (c, d, .loadD r)
  | .oldStoreC r => (r, d, .oldLoadD r)
  | .midLoadC r => (c, d, .midCasC r c)
  | .midCasC r cur =>
      if r ≤ cur then (c, d, .oldLoadD r)
      else if c = cur then (r, d, .oldLoadD r)
      else (c, d, .midLoadC r)
  | .oldLoadD r => (c, d, .oldCasD r d)
  | .oldCasD r cur =>
      if cur < r ∧ d = cur then (c, r, .oldDone r) else (c, d, .oldDone r)
  | .dealDone v => (c, d, .dealDone v)
  | .dealRefused a b => (c, d, .dealRefused a b)
  | .getDone v => (c, d, .getDone v)
  | .commitDone r => (c, d, .commitDone r)
  | .oldDone r => (c, d, .oldDone r)

/-- Thread `tid` executes one atomic instruction (no-op when there is no such thread). -/
def step (s : State) (tid : Nat) : State :=
  match s.threads[tid]? with
  | none => s
  | some pc =>
      let o := stepPc s.window s.committed s.deal pc
      { window := s.window, committed := o.1, deal := o.2.1, threads := s.threads.set tid o.2.2 }

/-- An execution: the schedule is the list of thread ids that move, in order. -/
def run (s : State) (sched : List Nat) : State := sched.foldl step s

/-- The calls a goroutine can make on the allocator (current code). -/
inductive Call where
  | deal
  | get
  | commit (r : Nat)
  deriving DecidableEq, Repr

def Call.entry : Call → Pc
  | .deal => .dealLoadD
  | .get => .getLoad
  | .commit r => .loadC r

/-- Any number of goroutines, each at the entry of its call, on registers with arbitrary contents, window `W`. -/
def init (W c d : Nat) (calls : List Call) : State :=
  { window := W, committed := c, deal := d, threads := calls.map Call.entry }

/-- Program counters of the CURRENT routines only. -/
def Pc.current : Pc → Bool
  | .dealAddOld | .oldStoreC _ | .midLoadC _ | .midCasC _ _ | .oldLoadD _ | .oldCasD _ _ | .oldDone _ => false
  | _ => true

/-- Thread is inside a `Deal` call whose (successful) add has not executed yet. -/
def Pc.dealing : Pc → Bool
  | .dealLoadD | .dealLoadC _ | .dealCas _ _ | .dealAddOld => true
  | _ => false

/-- Thread `t` is inside (or has finished) a current `Commit r`. -/
def Pc.inCommit (r : Nat) : Pc → Bool
  | .loadC r' | .casC r' _ | .loadD r' | .casD r' _ => r' == r
  | _ => false

/-- What the LTS assumes of the source, as the extractor normalises it (harness/cmd/kbextract/order.go):
`Commit`'s body is exactly two "raise to at least `revision`" loops
`for { cur := atomic.LoadUint64(&n.F); if cur >= revision || atomic.CompareAndSwapUint64(&n.F, cur, revision) { break } }`,
first on `committedRevision` (`loadC`/`casC`), then on `dealRevision` (`loadD`/`casD`). -/
def expectedShape : List String := ["raiseLoop:committedRevision", "raiseLoop:dealRevision"]

/-- `Deal`'s body as the extractor normalises it: one `for { … }` holding exactly
`dealt := atomic.LoadUint64(&n.dealRevision)` (`dealLoadD`), `committed := atomic.LoadUint64(&n.committedRevision)`
(`dealLoadC`), `if dealt >= committed && dealt+1-committed >= MaxInFlight { return 0, ErrTooManyInFlight }` and
`if atomic.CompareAndSwapUint64(&n.dealRevision, dealt, dealt+1) { return dealt + 1, nil }` (both `dealCas`). -/
def expectedDealShape : List String :=
  ["loop{", "load:dealRevision", "load:committedRevision", "refuseIfWindowFull:MaxInFlight", "casIncReturn:dealRevision", "}"]

/-- Shape of the one-instruction Deal `dealAddOld` (before 624b477). -/
def oldDealShape : List String := ["returnAdd1:dealRevision"]

/-- Shape of the routine `oldStoreC; oldLoadD; oldCasD` (before db7d4ff). -/
def oldShape : List String := ["store:committedRevision", "load:dealRevision", "casIfBelow:dealRevision"]

/-- Shape of the routine `midLoadC/midCasC; oldLoadD; oldCasD` (between db7d4ff and 55a7cb8). -/
def midShape : List String := ["raiseLoop:committedRevision", "load:dealRevision", "casIfBelow:dealRevision"]

end KB.TsoCas
