/-
  KB.EngineTxn — the TiKV adapter's `Commit` at the granularity of ONE optimistic transaction attempt
  (pkg/storage/tikv/batch.go `commitOnce` / `Commit`, pkg/storage/tikv/tikv.go `BeginBatchWrite`).

  `KB.commit` (KB.Engine) is sequential and atomic. Here the store additionally remembers WHEN things were
  written: the commit timestamps of the write records of every key, and the ROLLBACK records ("marks") that an
  abandoned transaction leaves behind (its caller went away during prewrite and client-go cleaned up, or another
  transaction resolved its lock after the ttl). A transaction has a start timestamp and reads from the snapshot
  at that timestamp; its prewrite meets a WRITE CONFLICT iff some record of a key it writes - a committed write
  or a rollback mark - is at or above its start timestamp (mocktikv `checkConflictValue`: "it's a write conflict
  here, even if the value is a rollback one"; TiKV does the same).

  * `commitOnce`           one attempt: the steps of the batch on the snapshot, then the conflict check, then the
                           buffered mutations are applied
  * `commitOnceAsResult`   `Commit` BEFORE /repo 182e06c: one attempt, every write conflict reported as the bare
                           `storage.ErrCASFailed` ("condition failed")
  * `commitLoop`/`commitRetry`  `Commit` as it is now: on a write conflict begin a new transaction and run the steps
                           again, at most `maxConflictRetry` more times; what other clients do between two
                           attempts is a parameter (`Env`); a conflict that persists over every attempt is an
                           ERROR (/repo ce077f1), `commitLoop182` = the loop before that commit (bare `ErrCASFailed`)
-/
import KB.Engine

deriving instance DecidableEq for Except

namespace KB

/-- the key an operation writes; every conditional operation writes the key it examines -/
def BOp.key : BOp → Bytes
  | .pine k _ => k
  | .cas k _ _ => k
  | .put k _ => k
  | .del k => k
  | .delcur k _ => k

/-- the mutation an operation whose condition holds leaves in the transaction's buffer, applied to a store -/
def BOp.mutate (s : Store) : BOp → Store
  | .pine k v => s.put k v
  | .cas k new _ => s.put k new
  | .put k v => s.put k v
  | .del k => s.erase k
  | .delcur k _ => s.erase k

/-- A TiKV store as far as a committing transaction can tell. -/
structure TStore where
  /-- newest committed value of every live key -/
  data : Store := []
  /-- write records: (key, commit timestamp), one per committed mutation -/
  writes : List (Bytes × Nat) := []
  /-- rollback records: (key, start timestamp of the transaction that was rolled back). The LOCK of a prewritten
  transaction that never commits is counted here too, from its prewrite on: client-go answers an optimistic prewrite
  that meets the lock of a YOUNGER transaction with a write conflict at once (prewrite.go: "this transaction will
  certainly fail due to a WriteConflict error"), and a transaction that is younger than the lock waits for its ttl
  and turns it into the rollback record -/
  marks : List (Bytes × Nat) := []
  /-- the newest timestamp the oracle has handed out -/
  clock : Nat := 0
  deriving Repr, DecidableEq

/-- An optimistic transaction: its start timestamp and the snapshot its reads are served from. -/
structure Txn where
  start : Nat
  snap : Store
  deriving Repr, DecidableEq

/-- `KVStore.Begin()`: a fresh timestamp; reads see what is committed now. -/
def TStore.begin (s : TStore) : TStore × Txn :=
  ({ s with clock := s.clock + 1 }, { start := s.clock + 1, snap := s.data })

/-- some record of `k` in `l` carries a timestamp at or above `ts` -/
def newerRec (l : List (Bytes × Nat)) (ts : Nat) (k : Bytes) : Bool :=
  l.any (fun r => r.1 == k && decide (ts ≤ r.2))

/-- prewrite: a WRITE record or a ROLLBACK mark of a written key at or above the start timestamp -/
def writeConflict (s : TStore) (t : Txn) (ops : List BOp) : Bool :=
  ops.any (fun op => newerRec s.writes t.start op.key || newerRec s.marks t.start op.key)

/-- the conflict check as it would be if only committed data counted (what callers of `ErrCASFailed` assume) -/
def dataConflict (s : TStore) (t : Txn) (ops : List BOp) : Bool :=
  ops.any (fun op => newerRec s.writes t.start op.key)

inductive TxnRes where
  | ok
  /-- a step of the batch failed on the snapshot: `*storage.Conflict` (or not-found) -/
  | failed (e : CommitErr)
  /-- `tikverr.IsErrWriteConflict` -/
  | writeConflict
  /-- /repo ce077f1: every attempt of `Commit` met a write conflict ("write conflict persisted over N attempts"):
  a plain error -/
  | persistentConflict
  deriving Repr, DecidableEq

/-- `batch.commitOnce`: run the steps (reads from the snapshot, writes into the buffer); a failing step ends the
attempt with its error and nothing was sent. Otherwise prewrite + commit: on a write conflict nothing is applied and
client-go's cleanup leaves a rollback mark of THIS transaction on its keys; else the buffered mutations become
visible at a fresh commit timestamp. -/
def commitOnce (q : Quirks) (s : TStore) (t : Txn) (ops : List BOp) : TStore × TxnRes :=
  match commit q t.snap ops with
  | .error e => (s, .failed e)
  | .ok _ =>
    if writeConflict s t ops then
      ({ s with marks := s.marks ++ ops.map (fun op => (op.key, t.start)) }, .writeConflict)
    else
      ({ data := ops.foldl BOp.mutate s.data
         writes := s.writes ++ ops.map (fun op => (op.key, s.clock + 1))
         marks := s.marks
         clock := s.clock + 1 }, .ok)

/-- the bare `storage.ErrCASFailed` (no `*storage.Conflict`): "condition failed" -/
def CommitErr.casFailed : CommitErr := .conflict none none

/-- the errors of the adapter's `Commit`: a failed condition (`errors.Is(err, storage.ErrCASFailed)`, with or without
a `*storage.Conflict`; or not-found on the pre-fix adapter), or some other error -/
inductive AdapterErr where
  | cond (e : CommitErr)
  | other
  deriving Repr, DecidableEq

/-- what the adapter hands to its caller -/
def TxnRes.asResult : TxnRes → Except AdapterErr Unit
  | .ok => .ok ()
  | .failed e => .error (.cond e)
  | .writeConflict => .error (.cond CommitErr.casFailed)
  | .persistentConflict => .error .other

/-- the answer of the sequential engine model `KB.commit` in the same vocabulary -/
def seqResult : Except CommitErr Store → Except AdapterErr Unit
  | .ok _ => .ok ()
  | .error e => .error (.cond e)

/-- `Commit` before /repo 182e06c: one attempt; a write conflict IS the answer "condition failed". -/
def commitOnceAsResult (q : Quirks) (s : TStore) (t : Txn) (ops : List BOp) : TStore × Except AdapterErr Unit :=
  let r := commitOnce q s t ops
  (r.1, r.2.asResult)

/-- pkg/storage/tikv/batch.go `maxConflictRetry` -/
def maxConflictRetry : Nat := 8

/-- what other clients do to the store while the re-run with `fuel` re-runs left after it is open: between its
`begin` and its prewrite (each attempt itself is atomic here) -/
abbrev Env := Nat → TStore → TStore

/-- `Commit`'s loop as it is now (/repo 182e06c + ce077f1): `(store, result, number of attempts made)`. With `fuel`
re-runs left: an attempt that meets a write conflict is followed by `begin` and (after the others' moves) another
attempt; any other outcome is the answer; a conflict with no re-run left is the ERROR `persistentConflict`. -/
def commitLoop (q : Quirks) (env : Env) : Nat → TStore → Txn → List BOp → TStore × TxnRes × Nat
  | 0, s, t, ops =>
    let r := commitOnce q s t ops
    if r.2 = .writeConflict then (r.1, .persistentConflict, 1) else (r.1, r.2, 1)
  | fuel + 1, s, t, ops =>
    let r := commitOnce q s t ops
    if r.2 = .writeConflict then
      let bt := r.1.begin
      let r' := commitLoop q env fuel (env fuel bt.1) bt.2 ops
      (r'.1, r'.2.1, r'.2.2 + 1)
    else (r.1, r.2, 1)

/-- the loop of /repo 182e06c alone (before ce077f1): the last attempt's write conflict is still handed out - as the
bare `ErrCASFailed` -/
def commitLoop182 (q : Quirks) (env : Env) : Nat → TStore → Txn → List BOp → TStore × TxnRes × Nat
  | 0, s, t, ops =>
    let r := commitOnce q s t ops
    (r.1, r.2, 1)
  | fuel + 1, s, t, ops =>
    let r := commitOnce q s t ops
    if r.2 = .writeConflict then
      let bt := r.1.begin
      let r' := commitLoop182 q env fuel (env fuel bt.1) bt.2 ops
      (r'.1, r'.2.1, r'.2.2 + 1)
    else (r.1, r.2, 1)

/-- nobody else moves -/
def Env.idle : Env := fun _ s => s

/-- `Commit` as it is now, with nobody else writing while it runs. -/
def commitRetry (q : Quirks) (s : TStore) (t : Txn) (ops : List BOp) : TStore × TxnRes :=
  let r := commitLoop q Env.idle maxConflictRetry s t ops
  (r.1, r.2.1)

/-- A client that begins a transaction, is prewritten and goes away: the transaction is rolled back, a rollback
mark at its start timestamp stays on every key it wrote; the client is told nothing definite (`none`: the adapter
answers `ErrUncertainResult`). A batch whose steps fail is never prewritten and is answered with that error. -/
def abandon (q : Quirks) (s : TStore) (ops : List BOp) : TStore × Option CommitErr :=
  let bt := s.begin
  match commit q bt.2.snap ops with
  | .error e => (bt.1, some e)
  | .ok _ => ({ bt.1 with marks := bt.1.marks ++ ops.map (fun op => (op.key, bt.2.start)) }, none)

/-- every timestamp in the store was handed out by the oracle -/
def TStore.WF (s : TStore) : Prop :=
  (∀ r ∈ s.writes, r.2 ≤ s.clock) ∧ (∀ r ∈ s.marks, r.2 ≤ s.clock)

/-- the snapshot property of a transaction that is open on `s`: a key whose committed value differs from the
snapshot has a write record above the start timestamp -/
def Txn.ValidOn (t : Txn) (s : TStore) : Prop :=
  t.start ≤ s.clock ∧ ∀ k, t.snap.get k ≠ s.data.get k → newerRec s.writes t.start k = true

end KB
