/-
  KB.Engine — reference model of `storage.KvStorage` (pkg/storage/interface.go) together with
  the adapter deviations (`Quirks`) of memkv / badger / tikv that are visible through the
  interface.  Store = association list sorted strictly ascending by key.
-/
import KB.Bytes
namespace KB

abbrev Store := List (Bytes × Bytes)

inductive LimitMode where
  | ignore    -- memkv: limit is ignored
  | exact     -- badger: at most `limit`
  | plusOne   -- tikv: at most `limit + 1`
  deriving Repr, DecidableEq

structure Quirks where
  /-- added to a `Conflict.Idx` (tikv's closure list starts with the begin-error thunk). -/
  idxOffset : Nat := 0
  /-- CAS on a missing key answers `ErrKeyNotFound` (tikv) instead of a conflict. -/
  casMissingNotFound : Bool := false
  /-- the value carried by a CAS conflict is the *expected* value (memkv) not the stored one. -/
  casConflictValExpected : Bool := false
  /-- reverse iterator does not check the end bound on its first element (tikv). -/
  revFirstUnchecked : Bool := false
  limitMode : LimitMode := .exact
  supportTTL : Bool := true
  /-- compare-and-delete failure is a bare `ErrCASFailed` (memkv) rather than a `Conflict`. -/
  delCurBareCas : Bool := false
  /-- a scan reads from the snapshot of the timestamp taken when the scan STARTED (tikv) rather than from
  the state when its iterator is created (memkv, badger) -/
  snapshotAtTs : Bool := false
  deriving Repr

def Quirks.memkv : Quirks := { casConflictValExpected := true, limitMode := .ignore, delCurBareCas := true }
def Quirks.badger : Quirks := {}
/-- tikv after the two `fix:` commits (CAS on a missing key is a conflict; the first element of a
reverse iteration is bound-checked). The pre-fix adapter is `Quirks.tikvOld`. -/
def Quirks.tikv : Quirks := { idxOffset := 1, limitMode := .plusOne, supportTTL := false, snapshotAtTs := true }
def Quirks.tikvOld : Quirks :=
  { idxOffset := 1, casMissingNotFound := true, revFirstUnchecked := true, limitMode := .plusOne,
    supportTTL := false }

/-! ### sorted association list -/

def Store.get : Store → Bytes → Option Bytes
  | [], _ => none
  | (k, v) :: rest, key =>
    match cmp key k with
    | .lt => none
    | .eq => some v
    | .gt => Store.get rest key

def Store.put : Store → Bytes → Bytes → Store
  | [], key, val => [(key, val)]
  | (k, v) :: rest, key, val =>
    match cmp key k with
    | .lt => (key, val) :: (k, v) :: rest
    | .eq => (k, val) :: rest
    | .gt => (k, v) :: Store.put rest key val

def Store.erase : Store → Bytes → Store
  | [], _ => []
  | (k, v) :: rest, key =>
    match cmp key k with
    | .lt => (k, v) :: rest
    | .eq => rest
    | .gt => (k, v) :: Store.erase rest key

def Store.Sorted : Store → Prop
  | [] => True
  | [_] => True
  | (k1, _) :: (k2, v2) :: rest => cmp k1 k2 = .lt ∧ Store.Sorted ((k2, v2) :: rest)

/-! ### batches -/

inductive BOp where
  | pine (k v : Bytes)          -- PutIfNotExist
  | cas (k new old : Bytes)     -- CAS
  | put (k v : Bytes)
  | del (k : Bytes)
  | delcur (k v : Bytes)        -- DelCurrent(iter) with iter at (k, v): delete iff value still v
  deriving Repr, DecidableEq

inductive CommitErr where
  /-- condition failed at op `idx` (already offset by the engine's `idxOffset`; `none` = bare
  `ErrCASFailed` without a `Conflict`), carrying `val` (the `Conflict.Val`, `none` = nil). -/
  | conflict (idx : Option Nat) (val : Option Bytes)
  | notFound
  deriving Repr, DecidableEq

/-- Apply one op to the transaction's working copy. -/
def applyOp (q : Quirks) (s : Store) (idx : Nat) : BOp → Except CommitErr Store
  | .pine k v =>
    match s.get k with
    | some old => .error (.conflict (some (idx + q.idxOffset)) (some old))
    | none => .ok (s.put k v)
  | .cas k new old =>
    match s.get k with
    | none => if q.casMissingNotFound then .error .notFound
              else .error (.conflict (some (idx + q.idxOffset)) none)
    | some cur =>
      if cur = old then .ok (s.put k new)
      else .error (.conflict (some (idx + q.idxOffset))
                     (some (if q.casConflictValExpected then old else cur)))
  | .put k v => .ok (s.put k v)
  | .del k => .ok (s.erase k)
  | .delcur k v =>
    match s.get k with
    | none => .error (.conflict (if q.delCurBareCas then none else some (idx + q.idxOffset)) none)
    | some cur =>
      if cur = v then .ok (s.erase k)
      else .error (.conflict (if q.delCurBareCas then none else some (idx + q.idxOffset)) (some cur))

def applyOps (q : Quirks) (s : Store) (idx : Nat) : List BOp → Except CommitErr Store
  | [] => .ok s
  | op :: ops =>
    match applyOp q s idx op with
    | .error e => .error e
    | .ok s' => applyOps q s' (idx + 1) ops

/-- `BatchWrite.Commit`: all or nothing; later ops see earlier ops of the same batch. -/
def commit (q : Quirks) (s : Store) (ops : List BOp) : Except CommitErr Store := applyOps q s 0 ops

/-! ### iteration -/

def applyLimit (q : Quirks) (limit : Nat) (l : List (Bytes × Bytes)) : List (Bytes × Bytes) :=
  if limit = 0 then l else
  match q.limitMode with
  | .ignore => l
  | .exact => l.take limit
  | .plusOne => l.take (limit + 1)

/-- Ascending: keys in `[start, end)`. -/
def iterAsc (s : Store) (start stop : Bytes) : List (Bytes × Bytes) :=
  s.filter (fun kv => ble start kv.1 && blt kv.1 stop)

/-- Descending: keys `≤ start` and `> end`, largest first; with `revFirstUnchecked` the first
element at or below `start` is yielded even when it is `≤ end`. -/
def iterDesc (q : Quirks) (s : Store) (start stop : Bytes) : List (Bytes × Bytes) :=
  let below := (s.filter (fun kv => ble kv.1 start)).reverse
  if q.revFirstUnchecked then
    match below with
    | [] => []
    | first :: rest => first :: rest.takeWhile (fun kv => blt stop kv.1)
  else below.takeWhile (fun kv => blt stop kv.1)

/-- `KvStorage.Iter(start, end, ts, limit)`: direction from `Compare(start, end)`. -/
def iterate (q : Quirks) (s : Store) (start stop : Bytes) (limit : Nat) : List (Bytes × Bytes) :=
  applyLimit q limit (if cmp start stop = .lt then iterAsc s start stop
    else if cmp start stop = .gt then iterDesc q s start stop else [])

/-- `GetPartitions` for an engine whose region borders are `splits` (sorted ascending). With no
split inside `(start, end)` there is one partition `[start, end)`. -/
def partitions (splits : List Bytes) (start stop : Bytes) : List (Bytes × Bytes) :=
  let inner := splits.filter (fun b => blt start b && blt b stop)
  let borders := start :: inner ++ [stop]
  borders.zip (borders.drop 1)

end KB
