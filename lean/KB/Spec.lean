/-
  KB.Spec — the abstract MVCC specification the model is proved against: sorted decoded records,
  "newest version ≤ R", snapshots, event application.  Deliberately tiny and readable.
-/
import KB.Scan
namespace KB

/-- strict `(key, revision)` order on decoded records -/
def recLt (a b : Rec) : Prop := cmp a.key b.key = .lt ∨ (a.key = b.key ∧ a.rev < b.rev)

instance (a b : Rec) : Decidable (recLt a b) := by unfold recLt; infer_instance

/-- a decoded store: strictly sorted by `(key, revision)` — what C10 gives for an encoded store -/
def SortedRecs (l : List Rec) : Prop := l.Pairwise recLt

instance (l : List Rec) : Decidable (SortedRecs l) := by unfold SortedRecs; infer_instance

/-- every record carries the internal key it was decoded from -/
def WellKeyed (l : List Rec) : Prop := ∀ r ∈ l, r.ik = encode r.key r.rev

instance (l : List Rec) : Decidable (WellKeyed l) := by unfold WellKeyed; infer_instance

/-- the newest version (revision > 0) with revision ≤ R of raw key `k`; for a sorted store this is
the last matching record -/
def visible (R : Nat) (recs : List Rec) (k : Bytes) : Option Rec :=
  (recs.filter (fun r => r.key == k && decide (0 < r.rev) && decide (r.rev ≤ R))).getLast?

/-- MVCC point read at R: newest version ≤ R unless it is a deletion -/
def readAt (R : Nat) (recs : List Rec) (k : Bytes) : Option (Bytes × Nat) :=
  match visible R recs k with
  | some r => if isTomb r.val then none else some (r.val, r.rev)
  | none => none

/-- the encoded engine contents of a decoded store -/
def encodeStore (recs : List Rec) : Store := recs.map (fun r => (encode r.key r.rev, r.val))

/-! ### events over snapshots (C06) -/

/-- a snapshot as a client holds it: key ↦ (value, mod revision), as an association list -/
abbrev Snap := List (Bytes × Bytes × Nat)

def Snap.del (s : Snap) (k : Bytes) : Snap := s.filter (fun e => e.1 != k)
def Snap.set (s : Snap) (k v : Bytes) (r : Nat) : Snap := (s.del k) ++ [(k, v, r)]
def Snap.get (s : Snap) (k : Bytes) : Option (Bytes × Nat) := (s.find? (fun e => e.1 == k)).map (·.2)

/-- A successful write as recorded in a history: `val = none` is a deletion. -/
structure HWrite where
  key : Bytes
  rev : Nat
  val : Option Bytes
  deriving Repr, DecidableEq

/-- apply one successful write (= one watch event) to a client snapshot -/
def Snap.apply (s : Snap) (w : HWrite) : Snap :=
  match w.val with
  | some v => s.set w.key v w.rev
  | none => s.del w.key

/-- the snapshot at revision R of a history (writes in increasing revision order): apply all writes ≤ R -/
def snapshotAt (h : List HWrite) (R : Nat) : Snap :=
  (h.filter (fun w => w.rev ≤ R)).foldl Snap.apply []

/-- the events a watch from `lo` delivers up to `hi` -/
def eventsBetween (h : List HWrite) (lo hi : Nat) : List HWrite :=
  h.filter (fun w => lo ≤ w.rev && w.rev ≤ hi)

end KB
