/-
  Driver suite `sched`: scheduled (gated) executions of the write path. The script starts client
  requests and advances them one storage call at a time; the same lines drive the real backend behind
  the gating storage wrapper (harness suite `backend`, ops start/step). The transition function is
  KB.Sys.act — the object the C01/C02/C04/C09 theorems are about; the sequencer is run eagerly after
  every action, as the free-running goroutine does.
  The async retry loop: un-stepped (`retry [f=]` = `Action.retry f`, one whole `retry()`), or — cfg
  `retrysteps=1` — stepped as pseudo client `R`: `retry` releases it to its first storage call (`at R iter`),
  `step R` = `Action.retryRead` (`at R commit`, or `done R retry unnecessary`), `step R [f=]` =
  `Action.retryCommit f` (`done R retry success|failed_put|unknown_put`), with client requests in between.
  Un-stepped requests (`create` / `update` / `delete [f=..]`) run all the steps of a fresh client back to back.
-/
import KB.Sys
import KB.Driver.Util
import KB.Driver.Suites
namespace KB.Driver.Sched
open KB KB.Driver

/-- A read request run as a stepped client: `Backend.List` samples the committed revision once, before
its storage calls (floor check = gate `get`, then the scan = gate `iter`); `Backend.Get` samples it, then
one descending iteration (gate `iter`). -/
inductive PendingRead where
  | list (a b : Bytes) (reqRev hdr0 lim : Nat) (stage : Nat) (snap : Option Store)   -- stage 0: at get, 1: at iter
  | get (k : Bytes) (rev hdr0 : Nat)
  /-- the scan has run (its answer is `line`); the compaction record is looked at once more: gate get -/
  | recheck (reqRev : Nat) (line : String)
  deriving Repr

/-- A compaction run as a stepped client (one compaction range, one partition): `setCompactRecord` (read
the record: gate get; CAS / put-if-absent: gate commit, skipped when the stored record is larger), then
`scanner.Compact`: timestamp, `checkCompactRace(compact)` (read: gate get; put: gate commit, skipped when the
stored record is at least the revision), then the worker's iterator (gate iter) and its deletes. -/
structure PendingCompact where
  rev : Nat
  stage : Nat                 -- 0 get, 1 commit, 2 get, 3 commit, 4 iter
  v0 : Option Bytes := none   -- what setCompactRecord read
  snap : Option Store := none -- tikv: the scan's snapshot is the one of the timestamp taken before stage 2
  mask : List (String × String) := []
  deriving Repr

structure State where
  g : G := {}
  compacts : List (Nat × PendingCompact) := []
  marks : List (Nat × Nat) := []
  /-- (oldVal, modRev) a delete carried when it committed, for rendering its response -/
  delOld : List (Nat × Bytes × Nat) := []
  reads : List (Nat × PendingRead) := []
  /-- cfg retrysteps=1: the retry loop's storage calls are stepped -/
  retrySteps : Bool := false
  /-- the retry loop: 0 = at the top of `retry()` (parked at the hook gate when its queue is not empty),
  1 = released, at its read (`at R iter`), 2 = at its commit (`at R commit`) -/
  rStage : Nat := 0
  /-- watchers: (id, prefix, number of emitted events already looked at, start revision) -/
  watchers : List (Nat × Bytes × Nat × Nat) := []
  /-- next identifier of an un-stepped request -/
  nextId : Nat := 1000000
  deriving Repr

def init : State := {}

/-- gate name of the storage call a client is parked at; none = its next step is not a storage call -/
def gateOf (c : Client) : Option String :=
  match c.pc, c.kind with
  | .start, .delete _ _ => some "iter"
  | .start, _ => none
  | .createCommit _, _ => some "commit"
  | .createReread _, _ => some "get"
  | .createRetry _, _ => some "commit"
  | .createOver _ _ _, _ => some "commit"
  | .createRecheck _ _, _ => some "get"
  | .updateCommit _, _ => some "commit"
  | .deleteDeal _, _ => none
  | .deleteCommit _ _ _, _ => some "commit"
  | .readLatest _ _, _ => some "iter"

def seqAll (g : G) : Nat → G
  | 0 => g
  | n + 1 =>
    let g' := stepSeq g
    if g'.committed == g.committed then g else seqAll g' n

/-- run the non-storage steps of client `id` until it is parked at a storage call or has returned -/
def settle (g : G) (id : Nat) : Nat → G
  | 0 => g
  | n + 1 =>
    match g.client id with
    | none => g
    | some c =>
      match gateOf c with
      | some _ => g
      | none => settle (act g (.step id .none)) id n

def verbOf : ReqKind → String
  | .create _ _ => "create"
  | .update _ _ _ => "update"
  | .delete _ _ => "delete"

def doneLine (st : State) (d : Done) : String :=
  match d.kind, d.res with
  | .delete k _, .ok rev =>
    match st.delOld.find? (·.1 == d.id) with
    | some (_, v, m) => s!"delete ok {rev} {kvStr (k, v, m)}"
    | none => s!"delete ok {rev} -"
  | k, r => writeLine (verbOf k) r

/-- after an action on client `id`: where is it now? (a request whose `Deal` was refused — the sequencer's window is full,
KB.Sys `G.refuse` — has returned without a revision: it is the newest entry of `refused`; the harness cannot get there,
100000 requests in flight, so these lines are never compared) -/
def report (st : State) (id : Nat) (cid : String) (nDoneBefore : Nat) : String :=
  match st.g.client id with
  | some c => s!"at {cid} {(gateOf c).getD "?"}"
  | none =>
    match (st.g.done.drop nDoneBefore).find? (·.id == id) with
    | some d => s!"done {cid} {doneLine st d}"
    | none =>
      match st.g.refused.getLast? with
      | some d => if d.id == id then s!"done {cid} {doneLine st d}" else s!"step {cid} no-such-client"
      | none => s!"step {cid} no-such-client"

def parseReq (toks : List String) : Option ReqKind :=
  match toks with
  | ["create", k, v] => some (.create (unhx k) (unhx v))
  | ["update", k, v, e] => some (.update (unhx k) (unhx v) (atou e))
  | ["delete", k, e] => some (.delete (unhx k) (atou e))
  | _ => none

def viewB (g : G) : BState :=
  { store := g.store, dealt := g.dealt, committed := g.committed, ring := Ring.new 1, retryQ := g.retryQ }

/-- An un-stepped request: all the steps of client `id`, back to back (the sequencer eager in between). The fault
directives are consumed, in order, by the commits whose conditions hold (a commit whose condition fails answers
with the engine's own verdict and leaves the directive pending). -/
def runSeq (st : State) (id : Nat) : Nat → List Fault → State
  | 0, _ => st
  | n + 1, fs =>
    match st.g.client id with
    | none => st
    | some c =>
      let holds := gateOf c == some "commit" && (act st.g (.step id Fault.none)).wlog.length != st.g.wlog.length
      let (f, fs') := if holds then nextFault fs else (Fault.none, fs)
      let delOld := match c.pc with
        | .deleteCommit _ v m => (id, v, m) :: st.delOld.filter (·.1 != id)
        | _ => st.delOld
      let g := act st.g (.step id f)
      let g := seqAll g (g.dealt - g.committed + 1)
      runSeq { st with g := g, delOld := delOld } id n fs'

/-- the line `retry.go` classifies a finished `retry()` with (its `state` metric tag), from the slot it filled -/
def repairState (g : G) (rev : Nat) : String :=
  match g.slots.find? (·.rev == rev), g.emitted.find? (·.rev == rev) with
  | some s, _ => if s.valid then "success" else if s.uncertain then "unknown_put" else "failed_put"
  | none, some _ => "success"
  | none, none => if g.retryQ.any (·.rev == rev) then "unknown_put" else "failed_put"

def stepBase (st : State) (toks : List String) : State × String :=
  let (pos, opts) := parseOpts toks
  match pos with
  | "cfg" :: _ =>
    let s0 := initSuite "backend" opts
    ({ g := { cfg := s0.cfg, dealt := s0.b.dealt, committed := s0.b.committed },
       retrySteps := opt opts "retrysteps" == some "1" }, "cfg ok")
  | ["gated", x] => (st, s!"gated {x}")
  | ["start", cid, "list", a, b, r, lim] =>
    -- validation happens before any storage call
    let reqRev := if atou r == 0 then st.g.committed else atou r
    if (unhx b).isEmpty || cmp (unhx a) (unhx b) != .lt then (st, s!"done {cid} list err invalid")
    else if atou lim > 0 then
      -- the limited path: timestamp, floor check (get), one worker (iter)
      ({ st with reads := (widOf cid, .list (unhx a) (unhx b) reqRev st.g.committed (atou lim) 0 (if st.g.cfg.q.snapshotAtTs then some st.g.store else none)) :: st.reads }, s!"at {cid} get")
    else ({ st with reads := (widOf cid, .list (unhx a) (unhx b) reqRev st.g.committed 0 0 (if st.g.cfg.q.snapshotAtTs then some st.g.store else none)) :: st.reads }, s!"at {cid} get")
  | ["start", cid, "compact", r] =>
    let cur := st.g.committed
    let rev := if atou r == 0 || atou r > cur then cur else atou r
    let rev := match st.g.retryQ.head? with
      | some w => min (w.rev - 1) rev
      | none => rev
    ({ st with compacts := (widOf cid, { rev := rev, stage := 0, mask := opts }) :: st.compacts }, s!"at {cid} get")
  | ["start", cid, "get", k, r] =>
    ({ st with reads := (widOf cid, .get (unhx k) (relRev st.g.committed r) st.g.committed) :: st.reads }, s!"at {cid} iter")
  | "start" :: cid :: req =>
    match parseReq req with
    | none => (st, s!"start {cid} bad-op")
    | some kind =>
      let id := widOf cid
      let n := st.g.done.length
      let g := act st.g (.begin id kind)
      let g := settle g id 8
      let g := seqAll g (g.dealt - g.committed + 1)
      let st := { st with g := g }
      (st, report st id cid n)
  | ["step", cid] =>
    let id := widOf cid
    match st.compacts.find? (·.1 == id) with
    | some (_, pc) =>
      let c := st.g.cfg
      let ck := compactKeyOf c
      let rest := st.compacts.filter (·.1 != id)
      let toScan (g : G) (pc : PendingCompact) : PendingCompact :=
        { pc with stage := 2, snap := if c.q.snapshotAtTs then some g.store else none }
      match pc.stage with
      | 0 =>
        let v0 := st.g.store.get ck
        match v0 with
        | some v =>
          if v.length > 0 && fromBE (v.take 8) > pc.rev then
            ({ st with compacts := (id, toScan st.g { pc with v0 := v0 }) :: rest, marks := st.marks ++ [(pc.rev, 0)] }, s!"at {cid} get")
          else ({ st with compacts := (id, { pc with stage := 1, v0 := v0 }) :: rest }, s!"at {cid} commit")
        | none => ({ st with compacts := (id, { pc with stage := 1, v0 := none }) :: rest }, s!"at {cid} commit")
      | 1 =>
        let ok := match pc.v0 with
          | some v => if v.length > 0 then st.g.store.get ck == some v else (st.g.store.get ck).isNone
          | none => (st.g.store.get ck).isNone
        if !ok then ({ st with compacts := rest }, s!"done {cid} compact err other")
        else
          let g := { st.g with store := st.g.store.put ck (be8 pc.rev) }
          ({ st with g := g, compacts := (id, toScan g pc) :: rest, marks := st.marks ++ [(pc.rev, 0)] }, s!"at {cid} get")
      | 2 =>
        match st.g.store.get ck with
        | some v =>
          if v.length ≥ 8 && fromBE (v.take 8) ≥ pc.rev then
            ({ st with compacts := (id, { pc with stage := 4 }) :: rest }, s!"at {cid} iter")
          else ({ st with compacts := (id, { pc with stage := 3 }) :: rest }, s!"at {cid} commit")
        | none => ({ st with compacts := (id, { pc with stage := 3 }) :: rest }, s!"at {cid} commit")
      | 3 =>
        let g := { st.g with store := st.g.store.put ck (be8 pc.rev) }
        ({ st with g := g, compacts := (id, { pc with stage := 4 }) :: rest }, s!"at {cid} iter")
      | _ =>
        -- the worker: iterate the scan's snapshot, then run its deletes against the live store
        let view := pc.snap.getD st.g.store
        match pairs (compactBorders c) with
        | (a, b) :: _ =>
          match decodeRecs (iterate c.q view a b 0) with
          | none => ({ st with compacts := rest }, s!"done {cid} compact PANIC")
          | some recs =>
            let acts := workerActs { R := pc.rev, compact := true, timeout := 0, supportTTL := c.q.supportTTL,
                                     eventsPfx := eventsPrefixOf c } recs
            let cs := runDeletes (parseMask pc.mask) { store := st.g.store } acts
            ({ st with g := { st.g with store := cs.store }, compacts := rest }, s!"done {cid} compact {pc.rev}")
        | [] => ({ st with compacts := rest }, s!"done {cid} compact {pc.rev}")
    | none =>
    match st.reads.find? (·.1 == id) with
    | some (_, .list a b reqRev hdr0 lim 0 snap) =>
      -- the floor check ran: refused below the floor, else on to the scan
      if belowFloor st.g.cfg st.g.store reqRev then
        ({ st with reads := st.reads.filter (·.1 != id) }, s!"done {cid} list err belowfloor")
      else
        ({ st with reads := (id, PendingRead.list a b reqRev hdr0 lim 1 snap) :: st.reads.filter (·.1 != id) }, s!"at {cid} iter")
    | some (_, .list a b reqRev hdr0 lim _ snap) =>
      -- the data comes from the scan's snapshot (tikv: taken at the start of the scan) — except that the floor
      -- record is read live
      let view : BState := { viewB st.g with committed := hdr0, store := snap.getD st.g.store }
      match doList st.g.cfg view a b reqRev lim with
      | .ok res =>
        let line := s!"list {res.hdr} {if res.more then 1 else 0} {kvsStr res.kvs}"
        ({ st with reads := (id, PendingRead.recheck reqRev line) :: st.reads.filter (·.1 != id) }, s!"at {cid} get")
      | .error .belowFloor =>
        -- the record moved after this read's first look at it: the scan itself does not look again, the data it reads
        -- (whatever the compaction left) is thrown away by the second look
        ({ st with reads := (id, PendingRead.recheck reqRev "list err belowfloor") :: st.reads.filter (·.1 != id) }, s!"at {cid} get")
      | .error e => ({ st with reads := st.reads.filter (·.1 != id) }, s!"done {cid} list err {errStr e}")
      | .panic => ({ st with reads := st.reads.filter (·.1 != id) }, s!"done {cid} list PANIC")
    | some (_, .recheck reqRev line) =>
      -- a compaction accepted since the first look removes nothing this read needed only if the record still admits it
      if belowFloor st.g.cfg st.g.store reqRev then
        ({ st with reads := st.reads.filter (·.1 != id) }, s!"done {cid} list err belowfloor")
      else ({ st with reads := st.reads.filter (·.1 != id) }, s!"done {cid} {line}")
    | some (_, .get k rev hdr0) =>
      let view : BState := { viewB st.g with committed := hdr0 }
      let (hdr, kv) := doGet st.g.cfg view k rev
      ({ st with reads := st.reads.filter (·.1 != id) }, s!"done {cid} get {hdr} {okvStr kv}")
    | none =>
    match st.g.client id with
    | none => (st, s!"step {cid} no-such-client")
    | some c =>
      let f := match opt opts "f" with
        | some s => parseFault s
        | none => Fault.none
      let delOld := match c.pc with
        | .deleteCommit _ v m => (id, v, m) :: st.delOld.filter (·.1 != id)
        | _ => st.delOld
      let n := st.g.done.length
      let g := act st.g (.step id f)
      let g := settle g id 8
      let g := seqAll g (g.dealt - g.committed + 1)
      let st := { st with g := g, delOld := delOld }
      (st, report st id cid n)
  | ["floor"] =>
    match st.g.store.get (compactKeyOf st.g.cfg) with
    | some v => (st, s!"floor {hx v}")
    | none => (st, "floor -")
  | ["rev"] => (st, s!"rev {st.g.committed}")
  | ["dump"] => (st, s!"dump {dumpStr st.g.store}")
  | ["get", k, r] =>
    let (hdr, kv) := doGet st.g.cfg (viewB st.g) (unhx k) (relRev st.g.committed r)
    (st, s!"get {hdr} {okvStr kv}")
  | ["list", a, b, r, lim] =>
    match doList st.g.cfg (viewB st.g) (unhx a) (unhx b) (atou r) (atou lim) with
    | .ok res => (st, s!"list {res.hdr} {if res.more then 1 else 0} {kvsStr res.kvs}")
    | .error e => (st, s!"list err {errStr e}")
    | .panic => (st, "list PANIC")
  | ["compact", r] =>
    let (res, b) := doCompact st.g.cfg (viewB st.g) (atou r) (parseMask opts)
    let st := { st with g := { st.g with store := b.store } }
    match res with
    | .ok hdr => (st, s!"compact {hdr}")
    | .error e => (st, s!"compact err {errStr e}")
    | .panic => (st, "compact PANIC")
  | ["raw", "put", k, v] => ({ st with g := { st.g with store := st.g.store.put (unhx k) (unhx v) } }, "raw ok")
  | ["raw", "del", k] => ({ st with g := { st.g with store := st.g.store.erase (unhx k) } }, "raw ok")
  | "echo" :: _ => (st, " ".intercalate toks)
  | t :: _ => (st, s!"{t} bad-op")
  | [] => (st, "bad-op")

def stepWrite (st : State) (verb : String) (pos : List String) (opts : List (String × String)) : State × String :=
  match parseReq pos with
  | none => (st, s!"{verb} bad-op")
  | some kind =>
    let id := st.nextId
    let n := st.g.done.length
    let g := act st.g (.begin id kind)
    let st := runSeq { st with g := g, nextId := id + 1 } id 16 (parseFaults opts)
    match (st.g.done.drop n).find? (·.id == id) with
    | some d => (st, doneLine st d)
    | none =>
      match st.g.refused.getLast? with
      | some d => if d.id == id then (st, doneLine st d) else (st, s!"{verb} stuck")
      | none => (st, s!"{verb} stuck")

def step (st : State) (toks : List String) : State × String :=
  let (pos, opts) := parseOpts toks
  match pos with
  | ["arm", h] => (st, s!"arm {h}")
  | ["disarm", h] => (st, s!"disarm {h}")
  | ["await", "retry.step"] =>
    (st, s!"await retry.step {if st.g.retryQ.isEmpty || st.rStage != 0 then 0 else 1}")
  | ["retry"] =>
    if st.g.retryQ.isEmpty || st.rStage != 0 then (st, "retry none")
    else if st.retrySteps then ({ st with rStage := 1 }, "at R iter")
    else
      let f := match parseFaults opts with
        | f :: _ => f
        | [] => Fault.none
      let g := act st.g (.retry f)
      let g := seqAll g (g.dealt - g.committed + 1)
      ({ st with g := g }, "retry ok")
  | ["step", "R"] =>
    if st.rStage == 1 && opt opts "f" == some "rd" then
      -- the repair's READ fails (a transient engine error): `retry()` ends as "failed_get", the head stays queued and is
      -- looked at again at the next tick - nothing is concluded from a read that did not answer
      ({ st with rStage := 0 }, "done R retry failed_get")
    else if st.rStage == 1 then
      let g := act st.g .retryRead
      match g.retryPc with
      | some _ => ({ st with g := g, rStage := 2 }, "at R commit")
      | none =>
        -- (`Deal` refused - window full: `retry()` ends as after a failed read, the head stays; not reachable by the harness)
        let lbl := if st.g.windowFull && g.retryQ.length == st.g.retryQ.length then "failed_get" else "unnecessary"
        let g := seqAll g (g.dealt - g.committed + 1)
        ({ st with g := g, rStage := 0 }, s!"done R retry {lbl}")
    else if st.rStage == 2 then
      let f := match opt opts "f" with
        | some x => parseFault x
        | none => Fault.none
      let rev := (st.g.retryPc.map (·.rev)).getD 0
      let g := act st.g (.retryCommit f)
      let g := seqAll g (g.dealt - g.committed + 1)
      ({ st with g := g, rStage := 0 }, s!"done R retry {repairState g rev}")
    else (st, "step R no-such-client")
  | ["watch", id, p, r] =>
    -- from `now` (0), or from revision r: the cached events from r on are replayed, later ones below r are dropped
    let start := atou r
    let seen := if start == 0 then st.g.emitted.length else (st.g.emitted.filter (·.rev < start)).length
    ({ st with watchers := (widOf id, unhx p, seen, start) :: st.watchers.filter (·.1 != widOf id) }, s!"watch {id} ok")
  | ["drain", id] =>
    match st.watchers.find? (·.1 == widOf id) with
    | none => (st, s!"events {id} nowatch")
    | some (_, pfx, seen, start) =>
      let evs := (st.g.emitted.drop seen).filter (fun e => hasPrefix e.key pfx && e.rev ≥ start)
      ({ st with watchers := (widOf id, pfx, st.g.emitted.length, start) :: st.watchers.filter (·.1 != widOf id) },
       s!"events {id} {joinOr (evs.map evStr) ","} closed=0")
  | ["create", _, _] => stepWrite st "create" pos opts
  | ["update", _, _, _] => stepWrite st "update" pos opts
  | ["delete", _, _] => stepWrite st "delete" pos opts
  | _ => stepBase st toks

end KB.Driver.Sched
