/- The driver's suites: one `step` function per harness suite. -/
import KB.Driver.Util
import KB.MemTTL
import KB.EngineTxn
import KB.CompactFault
namespace KB.Driver
open KB

structure SuiteState where
  cfg : Cfg := {}
  b : BState := { ring := Ring.new 16 }
  /-- the engine suite's engine: the store with its ttl bookkeeping (KB.MemTTL; clock in milliseconds) -/
  mem : MemTTL.State := {}
  ring : Ring := Ring.new 8
  dellog : List DelCall := []
  /-- engine suite, TiKV transactions (KB.EngineTxn): write records, rollback marks, the timestamp oracle, and the
  batches begun by `bbegin` that are still open (id, transaction, operations with their ttl) -/
  twrites : List (Bytes × Nat) := []
  tmarks : List (Bytes × Nat) := []
  tclock : Nat := 0
  topen : List (String × Txn × List (BOp × Nat)) := []
  /-- a writer started by `astart` is held at its commit RPC -/
  theld : Bool := false
  /-- `storm <n> <ops>`: before each of the first n prewrites of the next `bcommit` a writer of `ops` is abandoned -/
  tstorm : Nat × List BOp := (0, [])
  /-- the next range read / count / stream meets a transient engine error on its read of the compaction record -/
  getFault : Bool := false
  /-- `getfault skip=<n>`: the n point reads before the failing one are served -/
  getFaultSkip : Nat := 0
  /-- revisions delivered so far on the (single) native watch stream of the script -/
  bseen : List Nat := []
  /-- a partition's iterator fails persistently: range reads / counts answer with an error until cleared -/
  scanFault : Bool := false
  deriving Repr

def quirksOf (name : String) : Quirks :=
  let base := if name.startsWith "metrics-" then (name.drop 8).toString else name
  match base with
  | "badger" => Quirks.badger
  | "tikv" => Quirks.tikv
  | _ => Quirks.memkv

def initSuite (_suite : String) (opts : List (String × String)) : SuiteState :=
  let q := quirksOf ((opt opts "engine").getD "memkv")
  let splits := hexList ((opt opts "splits").getD "-") ++ hexList ((opt opts "regions").getD "-")
  let cache := match opt opts "cache" with
    | some v => if atou v == 0 then Generated.historyCapacity else atou v
    | none => 1024
  let cfg : Cfg := {
    q := q
    pfx := unhx ((opt opts "prefix").getD "-")
    skipped := hexList ((opt opts "skipped").getD "-")
    cacheSize := cache
    splits := splits
    etcdCompat := (opt opts "compat") != some "0"
    ttl := ((opt opts "ttl").map atou).getD 3600000
    shuffle := (opt opts "splits").isSome && (opt opts "splits") != some "-" }
  let init := ((opt opts "init").map atou).getD 1000
  { cfg := cfg
    b := { ring := Ring.new cache, dealt := init, committed := init }
    mem := {}
    ring := Ring.new (((opt opts "cap").map atou).getD 8) }

/-! ### coder suite -/

def cmpStr : Ordering → String
  | .lt => "lt"
  | .eq => "eq"
  | .gt => "gt"

def stepCoder (toks : List String) : String :=
  match toks with
  | ["enc", k, r] => s!"enc {hx (encode (unhx k) (atou r))}"
  | ["dec", ik] =>
    match decode (unhx ik) with
    | .ok k r => s!"dec ok {hx k} {r}"
    | .err => "dec err"
    | .panic => "dec panic"
  | ["pend", p] => s!"pend {hx (prefixEnd (unhx p))}"
  | ["prev", b] =>
    match parseRevision (unhx b) with
    | none => "prev err"
    | some (r, true) => s!"prev del {r}"
    | some (r, false) => s!"prev live {r}"
  | ["cmp", a, b] => s!"cmp {cmpStr (cmp (unhx a) (unhx b))}"
  | ["cmpenc", k1, r1, k2, r2] =>
    s!"cmpenc {cmpStr (cmp (encode (unhx k1) (atou r1)) (encode (unhx k2) (atou r2)))}"
  | ["hasprefix", k, p] => s!"hasprefix {if hasPrefix (unhx k) (unhx p) then 1 else 0}"
  | t :: _ => s!"{t} bad-op"
  | [] => "bad-op"

/-! ### engine suite -/

def commitLine : Except CommitErr Store → String
  | .ok _ => "ok"
  | .error (.conflict (some i) v) => s!"cf {i} {match v with | some b => hx b | none => "nil"}"
  | .error (.conflict none _) => "cf bare nil"
  | .error .notFound => "nf"

/-- the engine suite's store -/
def SuiteState.eng (st : SuiteState) : Store := st.mem.store

/-- a batch operation with the ttl (seconds) handed to it: optional last field of pine / cas / put -/
def parseBOp (s : String) : Option (BOp × Nat) :=
  match s.splitOn ":" with
  | ["pine", k, v] => some (.pine (unhx k) (unhx v), 0)
  | ["pine", k, v, t] => some (.pine (unhx k) (unhx v), atou t)
  | ["cas", k, n, o] => some (.cas (unhx k) (unhx n) (unhx o), 0)
  | ["cas", k, n, o, t] => some (.cas (unhx k) (unhx n) (unhx o), atou t)
  | ["put", k, v] => some (.put (unhx k) (unhx v), 0)
  | ["put", k, v, t] => some (.put (unhx k) (unhx v), atou t)
  | ["del", k] => some (.del (unhx k), 0)
  | _ => none

/-- Every write of the engine suite goes through Commit's loop (KB.MemTTL.commitWrites): a batch whose conditions
hold, as the list of its operations with their ttl in seconds. One second is 1000 units of the model clock; an
engine without native ttl ignores it. -/
def engCommit (st : SuiteState) (ops : List (BOp × Nat)) : SuiteState :=
  let unit := if st.cfg.q.supportTTL then 1000 else 0
  { st with mem := MemTTL.step st.mem (.commit (ops.map (fun o => MemTTL.writeOf (o.2 * unit) o.1)))
            -- every commit is a transaction of its own: one write record per key at a fresh commit timestamp
            twrites := st.twrites ++ ops.map (fun o => (o.1.key, st.tclock + 2))
            tclock := st.tclock + 2 }

/-- the engine suite's store as a TiKV store (KB.EngineTxn) -/
def SuiteState.tstore (st : SuiteState) : TStore :=
  { data := st.eng, writes := st.twrites, marks := st.tmarks, clock := st.tclock }

/-- `delcur:<k>` = compare-and-delete of the record an iterator opened now stands on -/
def parseBOpAt (eng : Store) (s : String) : Option (BOp × Nat) :=
  match s.splitOn ":" with
  | ["delcur", k] => (eng.get (unhx k)).map (fun v => (.delcur (unhx k) v, 0))
  | _ => parseBOp s

def iterStr (l : List (Bytes × Bytes)) : String := joinOr (l.map (fun kv => s!"{hx kv.1}={hx kv.2}")) ","

/-- FNV-1a 64 over the strings, each followed by a 0 byte (as the harness does) -/
def fnv64 (strs : List String) : Nat :=
  strs.foldl (fun h s =>
    let h := s.toUTF8.foldl (fun h b => ((h ^^^ b.toNat) * 1099511628211) % 18446744073709551616) h
    ((h ^^^ 0) * 1099511628211) % 18446744073709551616) 14695981039346656037

def hex16 (n : Nat) : String :=
  String.ofList ((List.range 16).reverse.map (fun i => hexDigit (n / 16 ^ i % 16)))

def digestHex (strs : List String) : String := hex16 (fnv64 strs)

/-- Time in the engine suite: `sleep <ms>` advances the model clock by `ms`; before EVERY operation all timers whose
deadline has come fire (`MemTTL.fireDue`). Real timers fire "soon after" their deadline and real operations take
a little time: the scripts keep at least 250 ms between every operation and every armed deadline, so that at every
operation exactly the timers the model has fired have really fired. -/
def stepEngine (st0 : SuiteState) (toks : List String) : SuiteState × String :=
  let st := { st0 with mem := MemTTL.fireDue st0.mem }
  let q := st.cfg.q
  let (pos, opts) := parseOpts toks
  match pos with
  | "batch" :: ops =>
    let bops := ops.filterMap parseBOp
    let r := commit q st.eng (bops.map (·.1))
    match r with
    | .ok _ => (engCommit st bops, s!"batch {commitLine r}")
    | .error _ => (st, s!"batch {commitLine r}")
  | "bbegin" :: id :: ops =>
    -- BeginBatchWrite: the transaction (start timestamp, snapshot) begins here
    let bt := st.tstore.begin
    ({ st with tclock := bt.1.clock, topen := (id, bt.2, ops.filterMap (parseBOpAt st.eng)) :: st.topen }, s!"bbegin {id}")
  | ["bcommit", id] =>
    match st.topen.find? (·.1 == id) with
    | none => (st, "bcommit no-such-batch")
    | some (_, t, bops) =>
      let st := { st with topen := st.topen.filter (·.1 != id) }
      -- `Commit` as it is: the loop of KB.EngineTxn (`commitRetry` when nobody interferes). With a storm armed, an
      -- abandoned writer gets in before the prewrite of each of the first n attempts: before the first one (the
      -- transaction is open since `bbegin`), and between the re-begin and the prewrite of re-runs 1 .. n-1 (`Env`)
      let (n, aops) := st.tstorm
      let st := { st with tstorm := (0, []) }
      -- (an attempt whose steps fail on its snapshot sends no prewrite: nobody gets in before it)
      let stepsOk (snap : Store) : Bool := match commit q snap (bops.map (·.1)) with | .ok _ => true | .error _ => false
      let s0 := if n > 0 && stepsOk t.snap then (abandon q st.tstore aops).1 else st.tstore
      let env : Env := fun fuel s =>
        if maxConflictRetry - fuel < n && stepsOk s.data then (abandon q s aops).1 else s
      let r3 := commitLoop q env maxConflictRetry s0 t (bops.map (·.1))
      let r : TStore × TxnRes := (r3.1, r3.2.1)
      match r.2 with
      | .ok =>
        -- the data goes through the suite's own commit path (ttl bookkeeping); it must be what the transaction wrote
        let st' := engCommit st bops
        if st'.eng == r.1.data then ({ st' with twrites := r.1.writes, tmarks := r.1.marks, tclock := r.1.clock }, "bcommit ok")
        else (st', "bcommit MODEL-INCONSISTENT")
      | .failed e => ({ st with tmarks := r.1.marks, tclock := r.1.clock }, s!"bcommit {commitLine (.error e)}")
      | .writeConflict => ({ st with tmarks := r.1.marks, tclock := r.1.clock }, "bcommit cf bare nil")
      -- "write conflict persisted over 9 attempts": a plain error (classify: other)
      | .persistentConflict => ({ st with tmarks := r.1.marks, tclock := r.1.clock }, "bcommit err other")
  | "storm" :: n :: ops =>
    ({ st with tstorm := (atou n, (ops.filterMap (parseBOpAt st.eng)).map (·.1)) }, "storm ok")
  | "abandon" :: ops =>
    let r := abandon q st.tstore ((ops.filterMap (parseBOpAt st.eng)).map (·.1))
    let st := { st with tmarks := r.1.marks, tclock := r.1.clock }
    match r.2 with
    | none => (st, "abandon err uncertain")
    | some e => (st, s!"abandon {commitLine (.error e)}")
  | "astart" :: ops =>
    -- a writer whose commit RPC is slow: prewritten, then stuck. Whoever needs its keys waits for the lock ttl and
    -- rolls it back: for everybody else it is an abandoned writer (`abandon`); it learns so at `afinish`
    let r := abandon q st.tstore ((ops.filterMap (parseBOpAt st.eng)).map (·.1))
    let st := { st with tmarks := r.1.marks, tclock := r.1.clock }
    match r.2 with
    | none => ({ st with theld := true }, "astart held")
    | some e => (st, s!"astart {commitLine (.error e)}")
  | ["afinish"] =>
    if st.theld then ({ st with theld := false }, "afinish err other") else (st, "afinish none")
  | ["sleep", ms] => ({ st with mem := MemTTL.step st.mem (.advance (atou ms)) }, "slept")
  | ["bigbatch", _, _] =>
    -- one batch whose last operation fails its condition: all or nothing (`commit` is `Except`-valued: a failed
    -- batch returns no store at all), whatever its size
    (st, "bigbatch failed visible=0")
  | ["get", k] =>
    match st.eng.get (unhx k) with
    | some v => (st, s!"get {hx v}")
    | none => (st, "get nf")
  | ["iter", a, b, lim] => (st, s!"iter {iterStr (iterate q st.eng (unhx a) (unhx b) (atou lim))}")
  | ["del", k] => (engCommit st [(.del (unhx k), 0)], "del ok")
  | ["itdel", a, b, n] =>
    match (iterate q st.eng (unhx a) (unhx b) 0)[atou n]? with
    | none => (st, "itdel eof")
    | some (k, v) =>
      let st1 := match opt opts "rewrite" with
        | some rw => engCommit st [(.put k (unhx rw), 0)]
        | none => if opt opts "remove" == some "1" then engCommit st [(.del k, 0)] else st
      let eng := st1.eng
      -- badger compares versions: a rewrite (even with the same bytes) fails the delete
      let r := match opt opts "rewrite" with
        | some _ => if q.delCurBareCas then commit q eng [.delcur k v]   -- memkv compares values
                    else if q.idxOffset == 0 then .error (.conflict (some 0) (eng.get k))  -- badger: version changed
                    else commit q eng [.delcur k v]                       -- tikv compares values
        | none => commit q eng [.delcur k v]
      match r with
      | .ok _ => (engCommit st1 [(.delcur k v, 0)], s!"itdel {hx k} {commitLine r}")
      | .error _ => (st1, s!"itdel {hx k} {commitLine r}")
  | ["load", n, p, v] =>
    let st' := (List.range (atou n)).foldl (fun e i =>
      engCommit e [(.put (unhx p ++ [48 + i / 1000 % 10, 48 + i / 100 % 10, 48 + i / 10 % 10, 48 + i % 10]) (unhx v), 0)]) st
    (st', "load ok")
  | "iterw" :: a :: b :: _k :: ops =>
    -- the iterator reads from the snapshot taken when it was created; the batch lands afterwards
    let elems := iterate q st.eng (unhx a) (unhx b) 0
    let st' := engCommit st (ops.filterMap (fun op =>
      match op.splitOn ":" with
      | ["put", k, v] => some (.put (unhx k) (unhx v), 0)
      | ["del", k] => some (.del (unhx k), 0)
      | _ => none))
    let strs := elems.map (fun kv => s!"{hx kv.1}={hx kv.2}")
    (st', s!"iterw n={strs.length} digest={digestHex strs}")
  | ["dump"] => (st, s!"dump {dumpStr st.eng}")
  | ["parts", a, b] =>
    let ps := partitions st.cfg.splits (unhx a) (unhx b)
    (st, s!"parts {joinOr (ps.map (fun p => s!"{hx p.1}..{hx p.2}")) ","}")
  | ["ttl"] => (st, s!"ttl {if q.supportTTL then 1 else 0}")
  | t :: _ => (st, s!"{t} bad-op")
  | [] => (st, "bad-op")

/-! ### ring suite -/

def stepRing (st : SuiteState) (toks : List String) : SuiteState × String :=
  match toks with
  | ["add", r] =>
    ({ st with ring := st.ring.add { verb := .put, rev := atou r, key := [107], val := [], kvRev := 0 } }, "add ok")
  | ["find", r] =>
    match st.ring.find (atou r) with
    | .empty => (st, "find empty")
    | .high => (st, "find high")
    | .low o => (st, s!"find low {o}")
    | .events n evs => (st, s!"find events {n} {joinOr (evs.map (fun e => toString e.rev)) ","}")
  | t :: _ => (st, s!"{t} bad-op")
  | [] => (st, "bad-op")

/-! ### backend suite (sequential) -/

def writeLine (verb : String) : WriteRes → String
  | .ok rev => s!"{verb} ok {rev}"
  | .condFailed hdr kv => if verb == "create" then s!"create cf {hdr}" else s!"{verb} cf {hdr} {okvStr kv}"
  | .notFound hdr => s!"{verb} nf {hdr}"
  | .error e => s!"{verb} err {errStr e}"

def insertStr (x : String) : List String → List String
  | [] => [x]
  | y :: ys => if x < y then x :: y :: ys else y :: insertStr x ys

def streamStr (r : StreamRes) : String :=
  let entries := (r.batches.flatMap (fun b => b.2.map (fun kv => s!"{kvStr kv}|{b.1}"))).foldr insertStr []
  let e := match r.endErr with
    | none => "-"
    | some e => errStr e
  s!"{joinOr entries ","} end {r.endHdr} {e} last; ends=1"

def drainWatcher (w : Watcher) : Nat → List Event → Watcher × List Event
  | 0, acc => (w, acc)
  | fuel + 1, acc =>
    let w := w.pump (Generated.watchBuffer + 2)
    if w.outQ.isEmpty then (w, acc)
    else drainWatcher { w with outQ := [] } fuel (acc ++ w.outQ.flatten)

/-- `Backend.Watch` (registration) in the sequential setting. -/
def doWatch (c : Cfg) (s : BState) (id : Nat) (pfx : Bytes) (rev : Nat) : Bool × BState :=
  let add (w : Watcher) : BState := { s with watchers := s.watchers ++ [w] }
  if rev == 0 then (true, add { id := id, pfx := pfx, start := 0 })
  else match s.ring.find rev with
    | .empty => if rev > s.committed then (true, add { id := id, pfx := pfx, start := rev }) else (false, s)
    | .high => (true, add { id := id, pfx := pfx, start := rev })
    | .low _ => (false, s)
    | .events newest evs =>
      let evs := evs.filter (fun e => hasPrefix e.key pfx)
      let _ := c
      if evs.isEmpty then (true, add { id := id, pfx := pfx, start := rev })
      else (true, add { id := id, pfx := pfx, start := newest + 1,
                        outQ := chunk Generated.eventBatchSize evs })

def widOf (s : String) : Nat := (s.toList.filter Char.isDigit |> String.ofList).toNat?.getD 0

def pad5 (i : Nat) : Bytes :=
  [48 + i / 10000 % 10, 48 + i / 1000 % 10, 48 + i / 100 % 10, 48 + i / 10 % 10, 48 + i % 10]

def fillLoop (c : Cfg) (pfx val : Bytes) : Nat → Nat → BState → Option BState
  | 0, _, b => some b
  | n + 1, i, b =>
    match doCreate c b (pfx ++ pad5 i) val [] with
    | (.ok _, b') => fillLoop c pfx val n (i + 1) b'
    | _ => none

/-- fault directives of a write. `abandon=1`: the request's client goes away while its transaction is being
prewritten - the write is not applied and the client is told "uncertain" (for the backend the same as `f=un`; what it
leaves in the ENGINE, a rollback record, is KB.EngineTxn's subject: it changes no answer, KB.C11Conflict). -/
def writeFaults (opts : List (String × String)) : List Fault :=
  if opt opts "abandon" == some "1" then [Fault.uncNotApplied] else parseFaults opts

def stepBackend (st : SuiteState) (toks : List String) : SuiteState × String :=
  let c := st.cfg
  let (pos, opts) := parseOpts toks
  match pos with
  | ["prebegin", _] => (st, "prebegin ok")
  | ["create", k, v] =>
    -- `backend.Create` / `backend.Update` refuse a write without a value before a revision is dealt
    -- (txn.go `errEmptyValue`, /repo f2a549c; the same rule as `KB.Etcd.runCall`): nothing changes
    if (unhx v).isEmpty then (st, "create err other") else
    if st.getFault && c.q.idxOffset != 0 && (st.b.store.get (idxKey (unhx k))).isSome then
      -- (engines whose conflict does not carry the refusing record - TiKV - re-read it with a point Get; `getfault`: that read
      -- fails once. The create ends "unavailable": its revision is consumed and reported invalid, nothing is written - a read that
      -- did not answer says nothing about the key, in particular not "condition failed")
      let rev := st.b.dealt + 1
      let w : WEvent := { rev := rev, prevRev := 0, valid := false, verb := .create, key := unhx k, val := unhx v, uncertain := false }
      ({ st with b := sequence { st.b with dealt := rev } w, getFault := false }, "create err unavailable")
    else
    let (r, b) := doCreate c st.b (unhx k) (unhx v) (writeFaults opts)
    ({ st with b := b }, writeLine "create" r)
  | ["update", k, v, e] =>
    if (unhx v).isEmpty then (st, "update err other") else
    let (r, b) := doUpdate c st.b (unhx k) (unhx v) (atou e) (writeFaults opts)
    ({ st with b := b }, writeLine "update" r)
  | ["delete", k, e] =>
    let (r, b) := doDelete c st.b (unhx k) (atou e) (writeFaults opts)
    let line := match r with
      | .ok rev =>
        -- the response carries the previous kv
        match bget c st.b.store (unhx k) 0 with
        | .found v m => s!"delete ok {rev} {kvStr (unhx k, v, m)}"
        | .notFound _ => s!"delete ok {rev} -"
      | r => writeLine "delete" r
    ({ st with b := b }, line)
  | ["get", k, r] =>
    let (hdr, kv) := doGet c st.b (unhx k) (relRev st.b.committed r)
    (st, s!"get {hdr} {okvStr kv}")
  | ["getfault"] => ({ st with getFault := true, getFaultSkip := atou ((opts.lookup "skip").getD "0") }, "getfault ok")
  -- a slow engine call changes no answer: `getdelay <ms>` (the next point Get), `iterslow <ms> from=<hex>` (every Next of the
  -- iterators of one partition)
  | ["getdelay", _] => (st, "getdelay ok")
  | ["commitdelay", _] => (st, "commitdelay ok")
  -- the node is restarted over the same data (Badger: closed and opened again): nothing a reader can tell
  | ["reopen"] => (st, "reopen ok")
  | ["iterslow", _] => (st, "iterslow ok")
  | ["list", a, b, r, lim] =>
    if st.getFault then ({ st with getFault := false }, "list err other") else
    if st.scanFault && atou lim == 0 then (st, "list err other") else
    match doList c st.b (unhx a) (unhx b) (atou r) (atou lim) with
    | .ok res => (st, s!"list {res.hdr} {if res.more then 1 else 0} {kvsStr res.kvs}")
    | .error e => (st, s!"list err {errStr e}")
    | .panic => (st, "list PANIC")
  | ["count", a, b] =>
    if st.getFault then ({ st with getFault := false }, "count err other") else
    if st.scanFault then (st, "count err other") else
    match doCount c st.b (unhx a) (unhx b) with
    | .ok (hdr, n) => (st, s!"count {hdr} {n}")
    | .error e => (st, s!"count err {errStr e}")
    | .panic => (st, "count PANIC")
  | ["compact", r] =>
    -- a compaction reads the compaction record once in setCompactRecord and once per border pair in the scanner
    let npairs := (pairs (compactBorders c)).length
    if st.getFault && st.getFaultSkip == 0 then
      -- setCompactRecord's own read fails: the request ends with that error before anything is written
      ({ st with getFault := false }, "compact err other")
    else if st.getFault && st.getFaultSkip ≤ npairs then
      -- the scanner's read fails in border pair skip-1 (KB.CompactFault)
      let (res, b) := doCompactRF c st.b (atou r) (parseMask opts) (st.getFaultSkip - 1)
      let st := { st with getFault := false, getFaultSkip := 0, dellog := [] }
      match res with
      | .ok hdr => ({ st with b := b }, s!"compact {hdr}")
      | .error e => ({ st with b := b }, s!"compact err {errStr e}")
      | .panic => ({ st with b := b }, "compact PANIC")
    else
    let st := if st.getFault then { st with getFaultSkip := st.getFaultSkip - (npairs + 1) } else st
    let (res, b) := doCompact c st.b (atou r) (parseMask opts)
    let st := { st with dellog := compactTrace c st.b (atou r) (parseMask opts) }
    match res with
    | .ok hdr => ({ st with b := b }, s!"compact {hdr}")
    | .error e => ({ st with b := b }, s!"compact err {errStr e}")
    | .panic => ({ st with b := b }, "compact PANIC")
  | ["dellog"] =>
    (st, s!"dellog {joinOr (st.dellog.map (fun t => match t with
      | .del ik => "del:" ++ hx ik
      | .delcur ik => "delcur:" ++ hx ik
      | .expire ik n => s!"expire:{hx ik}+{n}")) ","}")
  | ["parts", a, b] => (st, s!"parts {joinOr ((doPartitions c (unhx a) (unhx b)).map hx) ","}")
  | ["streamadv", a, b, r] =>
    -- a partition-parallel client: the advertised pieces, streamed one by one in the advertised order
    let ps := doPartitions c (unhx a) (unhx b)
    let pieces := ps.zip (ps.drop 1)
    let outs : List (Nat × List String) := pieces.map (fun p =>
      match doStream c st.b p.1 p.2 (atou r) with
      | .ok res => (if res.endErr.isSome then 1 else 0, (res.batches.flatMap (fun b => b.2.map kvStr)).foldr insertStr [])
      | _ => (1, []))
    (st, s!"streamadv pieces={pieces.length} errs={(outs.map (fun o => o.1)).foldl (· + ·) 0} {joinOr (outs.flatMap (fun o => o.2)) ","}")
  | ["stream", a, b, r] =>
    if st.getFault then ({ st with getFault := false }, s!"stream - end {atou r} other last; ends=1") else
    match doStream c st.b (unhx a) (unhx b) (atou r) with
    | .ok res => (st, s!"stream {streamStr res}")
    | .error e => (st, s!"stream err {errStr e}")
    | .panic => (st, "stream PANIC")
  | "echo" :: _ => (st, " ".intercalate toks)
  | ["bulk", n, p, v] =>
    match fillLoop c (unhx p) (unhx v) (atou n) 0 st.b with
    | some b => ({ st with b := b }, s!"bulk {b.dealt}")
    | none => (st, "bulk failed")
  | ["arm", g] => (st, s!"arm {g}")
  | ["disarm", g] => (st, s!"disarm {g}")
  | ["await", "retry.step"] => (st, s!"await retry.step {if st.b.retryQ.isEmpty then 0 else 1}")
  | ["retry"] =>
    let f := match parseFaults opts with
      | f :: _ => f
      | [] => Fault.none
    if st.b.retryQ.isEmpty then (st, "retry none") else ({ st with b := doRetry c st.b f }, "retry ok")
  | ["rev"] => (st, s!"rev {st.b.committed}")
  | ["setrev", r] =>
    -- tso.Commit: the committed revision is only ever raised (compare-and-swap loop), the deal cursor follows it up
    ({ st with b := { st.b with committed := max st.b.committed (atou r), dealt := max st.b.dealt (atou r) } }, "setrev ok")
  | ["iterfault", n] =>
    -- transient (no from=/notfrom=): retried by the worker, invisible in the answer. Persistent on one side of a
    -- partitioning: that partition's worker exhausts its retries, the whole read answers with an error
    if (opt opts "from").isSome || (opt opts "notfrom").isSome then ({ st with scanFault := atou n != 0 }, "iterfault ok")
    else ({ st with scanFault := if atou n == 0 then false else st.scanFault }, "iterfault ok")
  | ["lowrev", r] =>
    -- another node over the same store: fresh sequencer / cache / hub / retry queue, both counters at r
    let b0 : BState := { store := st.b.store, now := st.b.now, marks := st.b.marks, ring := Ring.new st.b.ring.cap,
                         committed := atou r, dealt := atou r }
    ({ st with b := b0 }, "lowrev ok")
  | ["dump"] => (st, s!"dump {dumpStr st.b.store}")
  | ["floor"] =>
    match st.b.store.get (compactKeyOf c) with
    | some v => (st, s!"floor {hx v}")
    | none => (st, "floor -")
  | ["sleep", ms] => ({ st with b := { st.b with now := st.b.now + atou ms } }, "slept")
  | ["raw", "put", k, v] => ({ st with b := { st.b with store := st.b.store.put (unhx k) (unhx v) } }, "raw ok")
  | ["raw", "del", k] => ({ st with b := { st.b with store := st.b.store.erase (unhx k) } }, "raw ok")
  | ["splits", l] => ({ st with cfg := { c with splits := hexList l } }, "splits ok")
  | ["splits"] => ({ st with cfg := { c with splits := [] } }, "splits ok")
  | ["watch", id, p, r] =>
    let (ok, b) := doWatch c st.b (widOf id) (unhx p) (atou r)
    ({ st with b := b }, s!"watch {id} {if ok then "ok" else "refused"}")
  | ["bwatch", id, p, r] =>
    -- the native Watch handler: same registration as `watch` (ids live in their own range)
    let (ok, b) := doWatch c st.b (widOf id + 100000) (unhx p) (atou r)
    ({ st with b := b }, s!"bwatch {id} {if ok then "ok" else "refused"}")
  | ["bdrain", id] =>
    match st.b.watchers.find? (·.id == widOf id + 100000) with
    | none => (st, s!"bdrain {id} nowatch")
    | some w =>
      let (w', evs) := drainWatcher w 4 []
      let ws := st.b.watchers.map (fun x => if x.id == w.id then w' else x)
      let acc := st.bseen ++ evs.map (·.rev)
      -- the header of every response covers the events it carries (it names the newest one)
      ({ st with b := { st.b with watchers := ws }, bseen := acc },
       s!"bdrain {id} n={acc.length} hdrok=1 revs={joinOr (acc.map toString) ","}")
  | ["drain", id] =>
    match st.b.watchers.find? (·.id == widOf id) with
    | none => (st, s!"events {id} nowatch")
    | some w =>
      let (w', evs) := drainWatcher w 4 []
      let ws := st.b.watchers.map (fun x => if x.id == w.id then w' else x)
      ({ st with b := { st.b with watchers := ws } },
       s!"events {id} {joinOr (evs.map evStr) ","} closed={if w'.outClosed then 1 else 0}")
  | t :: _ => (st, s!"{t} bad-op")
  | [] => (st, "bad-op")

def stepSuite (suite : String) (st : SuiteState) (toks : List String) : SuiteState × String :=
  match toks with
  | "cfg" :: rest => (initSuite suite (parseOpts rest).2, "cfg ok")
  | _ =>
    match suite with
    | "coder" => (st, stepCoder toks)
    | "engine" => stepEngine st toks
    | "ring" => stepRing st toks
    | _ => stepBackend st toks

end KB.Driver
