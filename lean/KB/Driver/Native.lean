/-
  Suite "native": the handlers of the native gRPC API (KB.Native.nativeStep) over the sequential backend model.
  Every op of the `backend` suite stays available (handed to `stepBackend`), so a script can mix direct backend
  calls and calls through the handlers. Same line protocol as harness/cmd/kbharness/suite_native.go.
-/
import KB.Native
import KB.Driver.Suites
namespace KB.Driver.Native
open KB KB.Driver

structure State where
  st : SuiteState := {}
  leader : Bool := true
  leaderRev : Option Nat := none

def init : State := { st := initSuite "backend" [] }

def refStr : Refusal → String
  | .invalid => "invalid"
  | .deadline => "deadline"
  | .notLeader => "notleader"
  | .syncFail => "syncfail"

def scanLine {α : Type} (op : String) (ok : α → String) : ScanRes α → String
  | .ok a => s!"{op} {ok a}"
  | .error e => s!"{op} err {errStr e}"
  | .panic => s!"{op} PANIC"

/-- the line of an answer: for a backend answer exactly what the `backend` suite prints for the backend op, with
the op renamed (`pre` = the state the backend call ran on: a successful delete carries the previous kv) -/
def ansLine (c : Cfg) (pre : BState) (op : String) (req : NativeReq) : NativeAns → String
  | .refused x => s!"{op} err {refStr x}"
  | .panic => s!"{op} PANIC"
  | .write r =>
    match req, r with
    | .delete k _, .ok rev =>
      match bget c pre.store k 0 with
      | .found v m => s!"{op} ok {rev} {kvStr (k, v, m)}"
      | .notFound _ => s!"{op} ok {rev} -"
    | .create _ _, r => "n" ++ writeLine "create" r
    | .update _, r => "n" ++ writeLine "update" r
    | _, r => "n" ++ writeLine "delete" r
  | .get hdr kv => s!"{op} {hdr} {okvStr kv}"
  | .list r => scanLine op (fun res => s!"{res.hdr} {if res.more then 1 else 0} {kvsStr res.kvs}") r
  | .count r => scanLine op (fun p => s!"{p.1} {p.2}") r
  | .parts ps => s!"{op} {joinOr (ps.map hx) ","}"
  | .stream r => scanLine op streamStr r
  | .compact r => scanLine op toString r

def parseReq (committed : Nat) : List String → Option NativeReq
  | ["ncreate", k, v] => some (.create (unhx k) (unhx v))
  | ["nupdate", k, v, e] => some (.update (some (unhx k, unhx v, atou e)))
  | ["nupdate-nil"] => some (.update none)
  | ["ndelete", k, e] => some (.delete (unhx k) (atou e))
  | ["ncompact", r] => some (.compact (atou r))
  | ["nget", k, r] => some (.get (unhx k) (relRev committed r))
  | ["nrange", a, b, r, l] => some (.range (unhx a) (unhx b) (atou r) (atou l))
  | ["ncount", a, b] => some (.count (unhx a) (unhx b))
  | ["nparts", a, b] => some (.parts (unhx a) (unhx b))
  | ["nstream", a, b, r] => some (.stream (unhx a) (unhx b) (atou r))
  | _ => none

def step (ns : State) (toks : List String) : State × String :=
  let (pos, opts) := parseOpts toks
  match pos with
  | "cfg" :: _ =>
    ({ st := initSuite "backend" opts, leader := opt opts "leader" != some "0", leaderRev := none }, "cfg ok")
  | ["role", r] => ({ ns with leader := r == "leader", leaderRev := (opt opts "lrev").map atou }, s!"role {r}")
  -- the backend's own refusal of a write without a value (direct calls)
  | ["create", k, "-"] =>
    match (backendStep ns.st.cfg {} ns.st.b (.create (unhx k) [])).1 with
    | .write r => (ns, writeLine "create" r)
    | _ => (ns, "create bad-op")
  | ["update", k, "-", e] =>
    match (backendStep ns.st.cfg {} ns.st.b (.update (some (unhx k, [], atou e)))).1 with
    | .write r => (ns, writeLine "update" r)
    | _ => (ns, "update bad-op")
  | op :: _ =>
    match parseReq ns.st.b.committed pos with
    | none =>
      let (st, out) := stepBackend ns.st toks
      ({ ns with st := st }, out)
    | some req =>
      let c := ns.st.cfg
      let env : NativeEnv := { leader := ns.leader, expired := opt opts "ctx" == some "expired", leaderRev := ns.leaderRev,
                               faults := parseFaults opts, mask := parseMask opts }
      let (ans, b) := nativeStep c env ns.st.b req
      let st := match req, ans with
        | .compact r, .compact _ => { ns.st with b := b, dellog := compactTrace c ns.st.b r (parseMask opts) }
        | _, _ => { ns.st with b := b }
      ({ ns with st := st }, ansLine c (preState env ns.st.b req) op req ans)
  | [] => (ns, "bad-op")

end KB.Driver.Native
