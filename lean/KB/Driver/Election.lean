/-
  Driver suite "election": the KB.Election model behind the line protocol of
  harness/cmd/kbharness/suite_election.go.

    cfg engine=<memkv|badger|tikv|tikvold> n=<candidates> [prefix=<hex>]   → cfg ok
    get <i>              → get <i> ok <hexrecord> | get <i> nf
    create <i> <hexrec>  → create <i> ok|cf|nf
    update <i> <hexrec>  → update <i> ok|cf|nf|noinit
    stored               → stored <hexrecord> | stored nf        (raw engine read of the election key)
    init <i>             → init <i> 0|1                           (is the candidate's tso non-zero)
    info <i>             → info <i> ok                            (the node's read-only endpoints; state unchanged)
    race <create|update> <hexrec_0> … <hexrec_{n-1}>   → race <kind> <number of ok> <1>
        every candidate k issues the call with record k; the implementation does so from n goroutines at
        once and reports how many succeeded and whether the stored record afterwards is consistent with
        that (one of the winners' records, or unchanged when nobody won); the model runs them in index
        order. With pairwise different records none of which was ever stored before, the count does not
        depend on the order (C14 theorems). Must be the last op of a script (the winner is not determined).
  A candidate index ≥ n answers `<op> <i> bad-index`.
-/
import KB.Election
import KB.Driver.Util
import KB.Driver.Suites
namespace KB.Driver.Election
open KB KB.Driver

structure State where
  cfg : KB.Election.Cfg := {}
  n : Nat := 2
  st : KB.Election.State := {}

def quirksFor (name : String) : Quirks :=
  if name == "tikvold" then Quirks.tikvOld else quirksOf name

/-- `getElectionKey`: `prefix ++ "/election"`. -/
def electionKey (pfx : Bytes) : Bytes := pfx ++ "/election".toUTF8.toList.map (·.toNat)

def configure (opts : List (String × String)) : State :=
  let q := quirksFor ((opt opts "engine").getD "memkv")
  let pfx := unhx ((opt opts "prefix").getD "2f6b62")
  { cfg := { q := q, key := electionKey pfx }
    n := ((opt opts "n").map atou).getD 2
    st := {} }

def init : State := configure []

def outStr : KB.Election.Outcome → String
  | .ok => "ok"
  | .notFound => "nf"
  | .condFailed => "cf"
  | .notInitialised => "noinit"

def step (s : State) (toks : List String) : State × String :=
  match toks with
  | "cfg" :: rest => (configure (parseOpts rest).2, "cfg ok")
  | ["stored"] =>
    match KB.Election.stored s.cfg s.st with
    | some v => (s, s!"stored {hx v}")
    | none => (s, "stored nf")
  | ["get", i] =>
    let k := atou i
    if k ≥ s.n then (s, s!"get {i} bad-index") else
    let r := KB.Election.get s.cfg s.st k
    match r.1 with
    | .ok => ({ s with st := r.2 }, s!"get {i} ok {hx ((r.2.cands k).lastVal.getD [])}")
    | o => ({ s with st := r.2 }, s!"get {i} {outStr o}")
  | ["create", i, rec] =>
    let k := atou i
    if k ≥ s.n then (s, s!"create {i} bad-index") else
    let r := KB.Election.create s.cfg s.st k (unhx rec)
    ({ s with st := r.2 }, s!"create {i} {outStr r.1}")
  | ["update", i, rec] =>
    let k := atou i
    if k ≥ s.n then (s, s!"update {i} bad-index") else
    let r := KB.Election.update s.cfg s.st k (unhx rec)
    ({ s with st := r.2 }, s!"update {i} {outStr r.1}")
  | ["init", i] =>
    let k := atou i
    if k ≥ s.n then (s, s!"init {i} bad-index") else
    (s, s!"init {i} {if (s.st.cands k).tso = 0 then 0 else 1}")
  | ["info", i] =>
    -- the node's read-only endpoints (leader.GetElectionInfo / GetLeaderInfo / IsLeader): no step of the lock
    let k := atou i
    if k ≥ s.n then (s, s!"info {i} bad-index") else (s, s!"info {i} ok")
  | "race" :: kind :: recs =>
    if recs.length ≠ s.n || (kind ≠ "create" && kind ≠ "update") then (s, "race bad-op") else
    let r := (recs.zipIdx).foldl (fun (acc : KB.Election.State × Nat) (p : String × Nat) =>
      let res := if kind == "create" then KB.Election.create s.cfg acc.1 p.2 (unhx p.1)
                 else KB.Election.update s.cfg acc.1 p.2 (unhx p.1)
      (res.2, if res.1 = .ok then acc.2 + 1 else acc.2)) (s.st, 0)
    ({ s with st := r.1 }, s!"race {kind} {r.2} 1")
  | t :: _ => (s, s!"{t} bad-op")
  | [] => (s, "bad-op")

end KB.Driver.Election
