/- Parsing and canonical formatting shared by the driver suites. -/
import KB.Backend
namespace KB.Driver
open KB

def hexDigit (n : Nat) : Char :=
  if n < 10 then Char.ofNat (48 + n) else Char.ofNat (87 + n)

def hx (b : Bytes) : String :=
  if b.isEmpty then "-" else
  String.ofList (b.flatMap (fun x => [hexDigit (x / 16), hexDigit (x % 16)]))

def hexVal (c : Char) : Nat :=
  let n := c.toNat
  if 48 ≤ n && n ≤ 57 then n - 48
  else if 97 ≤ n && n ≤ 102 then n - 87
  else if 65 ≤ n && n ≤ 70 then n - 55
  else 0

def unhxAux : List Char → Bytes
  | a :: b :: rest => (hexVal a * 16 + hexVal b) :: unhxAux rest
  | _ => []

def unhx (s : String) : Bytes := if s == "-" then [] else unhxAux s.toList

def atou (s : String) : Nat := s.toNat?.getD 0

/-- revision token: decimal, or `c` / `c+N` = relative to the committed revision -/
def relRev (committed : Nat) (s : String) : Nat :=
  if s.startsWith "c" then committed + atou ((s.drop 2).toString) else atou s

/-- split trailing `k=v` tokens from positional ones -/
def parseOpts (toks : List String) : List String × List (String × String) :=
  toks.foldr (fun t (acc : List String × List (String × String)) =>
    match t.splitOn "=" with
    | [k, v] => (acc.1, (k, v) :: acc.2)
    | _ => (t :: acc.1, acc.2)) ([], [])

def opt (opts : List (String × String)) (k : String) : Option String :=
  (opts.find? (·.1 == k)).map (·.2)

def hexList (s : String) : List Bytes :=
  if s == "-" || s == "" then [] else (s.splitOn ",").map unhx

def kvStr (kv : Bytes × Bytes × Nat) : String := s!"{hx kv.1}:{hx kv.2.1}@{kv.2.2}"

def okvStr : Option (Bytes × Bytes × Nat) → String
  | none => "-"
  | some kv => kvStr kv

def joinOr (l : List String) (sep : String) : String :=
  if l.isEmpty then "-" else sep.intercalate l

def kvsStr (kvs : List (Bytes × Bytes × Nat)) : String := joinOr (kvs.map kvStr) ","

def errStr : Err → String
  | .uncertain => "uncertain"
  | .drift => "drift"
  | .notFound => "notfound"
  | .unavailable => "unavailable"
  | .belowFloor => "belowfloor"
  | .invalid => "invalid"
  | .other => "other"

def evStr (e : Event) : String :=
  let t := match e.verb with
    | .create => "C"
    | .put => "P"
    | .delete => "D"
  s!"{t}:{e.rev}:{kvStr (e.key, e.val, e.kvRev)}"

def dumpStr (st : Store) : String := joinOr (st.map (fun kv => s!"{hx kv.1}={hx kv.2}")) ","

def parseFault : String → Fault
  | "e" => .err
  | "ua" => .uncApplied
  | "un" => .uncNotApplied
  | _ => .none

def parseFaults (opts : List (String × String)) : List Fault :=
  match opt opts "f" with
  | some s => (s.splitOn ",").map parseFault
  | none => []

/-- delete-call failure mask from `m=i:f,j:c,k:u` and `crash=n`. -/
def parseMask (opts : List (String × String)) : Nat → DelOutcome :=
  let entries : List (Nat × DelOutcome) :=
    match opt opts "m" with
    | some s => (s.splitOn ",").filterMap (fun e =>
        match e.splitOn ":" with
        | [i, "f"] => some (atou i, DelOutcome.fail)
        | [i, "c"] => some (atou i, DelOutcome.failCas)
        -- `u`: the engine answers "outcome unknown" and the delete did NOT land: not applied, a non-CAS error
        | [i, "u"] => some (atou i, DelOutcome.fail)
        | _ => none)
    | none => []
  let crash : Option Nat := (opt opts "crash").map atou
  fun i =>
    match crash with
    | some n => if i ≥ n then .fail else ((entries.find? (·.1 == i)).map (·.2)).getD .ok
    | none => ((entries.find? (·.1 == i)).map (·.2)).getD .ok

end KB.Driver
