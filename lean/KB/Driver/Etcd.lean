/- Driver suite "etcd": the model of the etcd-facing endpoint (KB.EtcdShim) behind the same line
protocol as harness/cmd/kbharness/suite_etcd.go (see the header of that file for the grammar). -/
import KB.Driver.Suites
import KB.Driver.Sched
import KB.EtcdShim
namespace KB.Driver.Etcd
open KB KB.Driver KB.Etcd

structure WatchSt where
  name : String
  wid : Nat
  canceled : Bool := false
  compact : Nat := 0
  registered : Bool := false
  pending : List WEv := []     -- already sent to the stream, not yet read by the script
  deriving Repr

structure State where
  st : SuiteState := {}
  ws : List WatchSt := []
  /-- scripted-backend mode (`inject …`): the answer the NEXT backend write call returns instead of
  calling the backend, and the last call that was answered so -/
  pending : Option BAns := none
  lastCall : Option BCall := none
  /-- scheduled mode (`cfg … sched=1`): the backend is the interleaving transition system KB.Sys behind the
  `sched` driver; an etcd transaction runs as a parked client of it (`start` / `step`), its final backend
  answer is shaped by `shapeTxn`. `parked`: client id ↦ shape of its transaction -/
  sg : Option Sched.State := none
  parked : List (Nat × Shape) := []
  deriving Repr

def init : State := { st := initSuite "etcd" [] }

/-! ### parsing -/

def parseInt (s : String) : Int := s.toInt?.getD 0

def fld (f : List String) (i : Nat) (d : String) : String :=
  match f[i]? with
  | some x => if x == "" then d else x
  | none => d

def hasFlag (s : String) (c : Char) : Bool := s != "-" && s.toList.contains c

def parseCmp (x : String) : Compare :=
  let f := x.splitOn ":"
  let target : CmpTarget := match fld f 0 "mod" with
    | "ver" => .version
    | "create" => .create
    | "val" => .value
    | "lease" => .lease
    | _ => .mod
  let result : CmpResult := match fld f 2 "eq" with
    | "gt" => .greater
    | "lt" => .less
    | "ne" => .notEqual
    | _ => .equal
  let arg := fld f 3 "0"
  { target := target, result := result, key := unhx (fld f 1 "-"),
    int := if target == .value then 0 else parseInt arg,
    val := if target == .value then unhx arg else [],
    rangeEnd := unhx (fld f 4 "-") }

def rangeOfFields (f : List String) : RangeReq :=
  let flags := fld f 5 "-"
  { key := unhx (fld f 1 "-"), rangeEnd := unhx (fld f 2 "-"), limit := parseInt (fld f 3 "0"),
    revision := parseInt (fld f 4 "0"), countOnly := hasFlag flags 'c', keysOnly := hasFlag flags 'k',
    serializable := hasFlag flags 's' }

def parseOp (x : String) : Op :=
  let f := x.splitOn ":"
  match fld f 0 "none" with
  | "put" =>
    let fl := fld f 4 "-"
    .put { key := unhx (fld f 1 "-"), val := unhx (fld f 2 "-"), lease := parseInt (fld f 3 "0"),
           prevKv := hasFlag fl 'p', ignoreValue := hasFlag fl 'v', ignoreLease := hasFlag fl 'l' }
  | "range" => .range (rangeOfFields f)
  | "del" => .del { key := unhx (fld f 1 "-"), rangeEnd := unhx (fld f 2 "-"), prevKv := hasFlag (fld f 3 "-") 'p' }
  | "nest" => .nested
  | _ => .empty

def parseList {α : Type} (p : String → α) (v : Option String) : List α :=
  match v with
  | none => []
  | some s => if s == "-" || s == "" then [] else (s.splitOn ";").map p

def parseTxn (opts : List (String × String)) : TxnReq :=
  { compare := parseList parseCmp (opt opts "cmp"),
    success := parseList parseOp (opt opts "then"),
    failure := parseList parseOp (opt opts "else") }

def parseRange (k e : String) (opts : List (String × String)) : RangeReq :=
  let flags := (opt opts "flags").getD "-"
  let sort := ((opt opts "sort").getD "0:0").splitOn ":"
  { key := unhx k, rangeEnd := unhx e,
    limit := parseInt ((opt opts "limit").getD "0"),
    revision := parseInt ((opt opts "rev").getD "0"),
    countOnly := hasFlag flags 'c', keysOnly := hasFlag flags 'k', serializable := hasFlag flags 's',
    sortDesc := fld sort 0 "0" == "2",
    minMod := parseInt ((opt opts "minmod").getD "0"), maxMod := parseInt ((opt opts "maxmod").getD "0"),
    minCreate := parseInt ((opt opts "mincreate").getD "0"), maxCreate := parseInt ((opt opts "maxcreate").getD "0") }

/-! ### canonical output -/

def b01 (b : Bool) : String := if b then "1" else "0"

def respOpStr : RespOp → String
  | .put h => s!"put@{h}"
  | .range h kvs n more => s!"range@{h}:{n}:{b01 more}:{kvsStr kvs}"
  | .del h n => s!"del@{h}:{n}"

def eerrStr : EErr → String
  | .unsupported => "unsupported"
  | .field => "field"
  | .backend e => errStr e
  | .panic => "PANIC"

def txnLine : Except EErr TxnResp → String
  | .ok r => s!"txn ok={b01 r.ok} hdr={r.hdr} resp=[{joinOr (r.resps.map respOpStr) ";"}]"
  | .error e => s!"txn err {eerrStr e}"

def rangeLine : Except EErr RangeResp → String
  | .ok r => s!"range hdr={r.hdr} count={r.count} more={b01 r.more} kvs={kvsStr r.kvs}"
  | .error e => s!"range err {eerrStr e}"

def wevStr (e : WEv) : String :=
  s!"{if e.isDelete then "D" else "P"}:{kvStr e.kv}/{okvStr e.prev}"

/-! ### scripted backend answers (`inject`) -/

def parseErr (x : String) : Err :=
  match x with
  | "uncertain" => .uncertain
  | "drift" => .drift
  | "notfound" => .notFound
  | "unavailable" => .unavailable
  | "belowfloor" => .belowFloor
  | "invalid" => .invalid
  | _ => .other

/-- `<hexkey>:<hexval>@<rev>` | `-` -/
def parseKv (x : String) : Option KV :=
  if x == "-" || x == "" then none else
  match x.splitOn "@" with
  | [kv, rev] =>
    match kv.splitOn ":" with
    | [k, v] => some (unhx k, unhx v, atou rev)
    | _ => none
  | _ => none

def parseAns (opts : List (String × String)) : BAns :=
  match opt opts "err" with
  | some e => .error (parseErr e)
  | none => .resp ((opt opts "succeeded").getD "0" == "1") (atou ((opt opts "hdr").getD "0"))
              (parseKv ((opt opts "kv").getD "-"))

def callStr : Option BCall → String
  | none => "none"
  | some (.create k v l) => s!"create {hx k} {hx v} lease={l}"
  | some (.delete k r) => s!"delete {hx k} rev={r}"
  | some (.update k v r l) => s!"update {hx k} {hx v} rev={r} lease={l}"

/-! ### scheduled mode: an etcd transaction as a parked client of KB.Sys -/

/-- the request of the `sched` driver for a backend call -/
def schedReq : BCall → List String
  | .create k v _ => ["create", hx k, hx v]
  | .update k v r _ => ["update", hx k, hx v, toString r]
  | .delete k r => ["delete", hx k, toString r]

/-- after a `start` / `step` of client `id` on the `sched` driver (`nDone` = finished requests before): still
parked ⇒ `none` (the driver's `at <cid> <gate>` line stands); returned ⇒ the backend's answer -/
def schedAnswer (g : Sched.State) (id nDone : Nat) : Option BAns :=
  match g.g.client id with
  | some _ => none
  | none =>
    match (g.g.done.drop nDone).find? (·.id == id) with
    | none => none
    | some d =>
      let old : Option KV := match d.kind, d.res with
        | .delete k _, .ok _ => (g.delOld.find? (·.1 == id)).map (fun x => (k, x.2.1, x.2.2))
        | _, _ => none
      some (ansOfWrite old d.res)

/-- run client `id` to completion (a sequential `txn` line in scheduled mode) -/
def schedFinish (g : Sched.State) (cid : String) : Nat → Sched.State
  | 0 => g
  | n + 1 =>
    match g.g.client (widOf cid) with
    | none => g
    | some _ => schedFinish (Sched.step g ["step", cid]).1 cid n

/-! ### steps -/

/-- order of the rendered events (what the harness sorts by) -/
def insertWEv (x : WEv) : List WEv → List WEv
  | [] => [x]
  | y :: ys => if wevStr x < wevStr y then x :: y :: ys else y :: insertWEv x ys

/-- `watcher.Start` + `watcher.List` / `watcher.Watch` (`KB.Etcd.watchCreate`): the `created` answer is
unconditional; a refused request (range-stream shape without both borders, /repo 5b8c053; a watch whose key
does not start with "/") shows as a cancel with `compact_revision = 1`, so does a registration the backend
refuses. A streamed range (`rangeStream`, both borders present) is `KB.doStream` on the borders as they are. -/
def stepWatch (s : State) (name key stop : String) (rev : Int) : State × String :=
  let wid := s.ws.length + 1
  let refused : State × String :=
    ({ s with ws := s.ws ++ [{ name := name, wid := wid, canceled := true, compact := 1 }] }, s!"watch {name} created")
  match watchCreate (unhx key) (unhx stop) rev with
  | .refused => refused
  | .rangeStream k e r =>
    -- the streamed range (watcher.List over backend.ListByStream): the borders are handed to the scanner AS THEY ARE
    -- (internal keys are expected; a client may send any bytes). The kvs arrive as PUT events — the forked receivers
    -- deliver concurrently: both sides print them sorted — then the terminator: an event for the key "eof" at the
    -- magic revision whose value is the error text (printed as "err" when there is one). No cancel answer follows.
    match doStream s.st.cfg s.st.b k e r with
    | .ok res =>
      let evs : List WEv := (res.batches.flatMap (·.2)).map (fun kv => { isDelete := false, kv := kv, prev := none })
      let sorted := evs.foldr insertWEv []
      let eof : WEv := { isDelete := false, prev := none,
                         kv := ([101, 111, 102], if res.endErr.isSome then [101, 114, 114] else [], 1888) }
      ({ s with ws := s.ws ++ [{ name := name, wid := wid, pending := sorted ++ [eof] }] }, s!"watch {name} created")
    | _ => (s, s!"watch {name} PANIC")
  | .watch pfx r =>
    let (ok, b) := doWatch s.st.cfg s.st.b wid pfx r
    if ok then
      ({ s with st := { s.st with b := b }, ws := s.ws ++ [{ name := name, wid := wid, registered := true }] },
       s!"watch {name} created")
    else refused

def stepWevents (s : State) (name : String) : State × String :=
  match s.ws.find? (·.name == name) with
  | none => (s, s!"wevents {name} nowatch")
  | some w =>
    if !w.registered then
      let ws := s.ws.map (fun x => if x.name == name then { x with pending := [] } else x)
      ({ s with ws := ws }, s!"wevents {name} {joinOr (w.pending.map wevStr) ","} canceled={b01 w.canceled} compact={w.compact}")
    else
      match s.st.b.watchers.find? (·.id == w.wid) with
      | none => (s, s!"wevents {name} - canceled={b01 w.canceled} compact={w.compact}")
      | some bw =>
        let (bw', evs) := drainWatcher bw 4 []
        let bws := s.st.b.watchers.map (fun x => if x.id == bw.id then bw' else x)
        let canceled := w.canceled || bw'.outClosed
        let ws := s.ws.map (fun x => if x.name == name then { x with canceled := canceled } else x)
        ({ s with st := { s.st with b := { s.st.b with watchers := bws } }, ws := ws },
         s!"wevents {name} {joinOr (evs.map (fun e => wevStr (shimEvent e))) ","} canceled={b01 canceled} compact={w.compact}")

def step (s : State) (toks : List String) : State × String :=
  let c := s.st.cfg
  let (pos, opts) := parseOpts toks
  match pos with
  | "cfg" :: _ =>
    let s0 := initSuite "etcd" opts
    let sg : Option Sched.State := if opt opts "sched" == some "1"
      then some { g := { cfg := s0.cfg, dealt := s0.b.dealt, committed := s0.b.committed } } else none
    ({ st := s0, ws := [], pending := none, lastCall := none, sg := sg, parked := [] }, "cfg ok")
  | ["txn"] =>
    let t := parseTxn opts
    match s.pending, backendCall (classify t) with
    | some a, some call =>
      -- scripted-backend mode: the call of this shape is answered with the scripted answer, the backend
      -- is not called (its state is unchanged); the response is the model's shaping of that answer
      ({ s with pending := none, lastCall := some call }, txnLine (shapeTxn (classify t) a))
    | _, _ =>
      match s.sg with
      | none =>
        let (r, b) := shimTxn c s.st.b t
        ({ s with st := { s.st with b := b } }, txnLine r)
      | some g =>
        -- scheduled mode, a transaction that is not parked: its backend call runs to completion
        match backendCall (classify t) with
        | none => (s, txnLine (shapeTxn (classify t) (.error .other)))
        | some call =>
          -- a write without a value is refused by the backend before it touches the store (runCall)
          if call.emptyValue then (s, txnLine (shapeTxn (classify t) (.error .other))) else
          let n := g.g.done.length
          let g := (Sched.step g ("start" :: "c999" :: schedReq call)).1
          let g := schedFinish g "c999" 16
          match schedAnswer g 999 n with
          | some a => ({ s with sg := some g }, txnLine (shapeTxn (classify t) a))
          | none => ({ s with sg := some g }, "txn stuck")
  | ["gated", x] => if s.sg.isSome then (s, s!"gated {x}") else (s, "gated bad-op")
  | ["start", cid, "txn"] =>
    match s.sg with
    | none => (s, "start bad-op")
    | some g =>
      let t := parseTxn opts
      let sh := classify t
      match s.pending, backendCall sh with
      | _, none => (s, s!"done {cid} {txnLine (shapeTxn sh (.error .other))}")
      | some a, some call =>
        ({ s with pending := none, lastCall := some call }, s!"done {cid} {txnLine (shapeTxn sh a)}")
      | none, some call =>
        if call.emptyValue then (s, s!"done {cid} {txnLine (shapeTxn sh (.error .other))}") else
        let n := g.g.done.length
        let (g, line) := Sched.step g ("start" :: cid :: schedReq call)
        match schedAnswer g (widOf cid) n with
        | some a => ({ s with sg := some g }, s!"done {cid} {txnLine (shapeTxn sh a)}")
        | none => ({ s with sg := some g, parked := (widOf cid, sh) :: s.parked.filter (·.1 != widOf cid) }, line)
  | ["step", cid] =>
    match s.sg with
    | none => (s, "step bad-op")
    | some g =>
      match s.parked.find? (·.1 == widOf cid) with
      | none => (s, s!"step {cid} no-such-client")
      | some (_, sh) =>
        let n := g.g.done.length
        let (g, line) := Sched.step g toks
        match schedAnswer g (widOf cid) n with
        | some a => ({ s with sg := some g, parked := s.parked.filter (·.1 != widOf cid) },
                     s!"done {cid} {txnLine (shapeTxn sh a)}")
        | none => ({ s with sg := some g }, line)
  | ["inject", "clear"] => ({ s with pending := none, lastCall := none }, "inject ok")
  | ["inject"] => ({ s with pending := some (parseAns opts) }, "inject ok")
  | ["injected"] => (s, s!"injected {callStr s.lastCall} pending={b01 s.pending.isSome}")
  | ["range", k, e] =>
    let b := match s.sg with
      | some g => Sched.viewB g.g
      | none => s.st.b
    (s, rangeLine (shimRange c b (parseRange k e opts)))
  | ["rev"] => (s, s!"rev {match s.sg with | some g => g.g.committed | none => s.st.b.committed}")
  | ["watch", name, key, stop, rev] => stepWatch s name key stop (parseInt rev)
  | ["wevents", name] => stepWevents s name
  | ["wcanceled", name] =>
    -- a watch is cancelled with exactly one `canceled` response, the last one naming it
    match s.ws.find? (·.name == name) with
    | some w => (s, s!"wcanceled {name} n={if w.canceled then 1 else 0} extra=0")
    | none => (s, s!"wcanceled {name} nowatch")
  | ["wcancel", name] =>
    -- the hub drops the subscription; the client sees a cancel answer (compact_revision 0)
    let pend : List WEv := match s.ws.find? (·.name == name) with
      | some w => match s.st.b.watchers.find? (·.id == w.wid) with
        | some bw => (drainWatcher bw 4 []).2.map shimEvent
        | none => []
      | none => []
    let ws := s.ws.map (fun x => if x.name == name then
      { x with canceled := true, registered := false, pending := x.pending ++ pend } else x)
    let bws := match s.ws.find? (·.name == name) with
      | some w => s.st.b.watchers.filter (·.id != w.wid)
      | none => s.st.b.watchers
    ({ s with st := { s.st with b := { s.st.b with watchers := bws } }, ws := ws }, s!"wcancel {name}")
  | ["put", _, _] => (s, "put err unsupported")
  | ["delrange", _, _] => (s, "delrange err unsupported")
  | ["compact", r] => (s, s!"compact hdr={toU64 (parseInt r)}")
  | ["bcompact", r] =>
    -- the node's own compaction (`backend.Compact`; the etcd `Compact` RPC above is a no-op): raises the floor
    if s.sg.isSome then (s, "bcompact bad-op") else
    let (res, b) := doCompact c s.st.b (atou r) (fun _ => .ok)
    match res with
    | .ok hdr => ({ s with st := { s.st with b := b } }, s!"bcompact {hdr}")
    | .error e => ({ s with st := { s.st with b := b } }, s!"bcompact err {errStr e}")
    | .panic => ({ s with st := { s.st with b := b } }, "bcompact PANIC")
  | ["dump"] => (s, s!"dump {dumpStr s.st.b.store}")
  | "echo" :: _ => (s, " ".intercalate toks)
  | t :: _ => (s, s!"{t} bad-op")
  | [] => (s, "bad-op")

end KB.Driver.Etcd
