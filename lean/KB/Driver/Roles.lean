/-
  Driver suite `roles` (property C18): the role decision of every handler (rows of the regenerated
  `KB.Generated.handlerGuards`) and the follower read-sync LTS of KB.Server, over the line protocol.

    handlers                                             -> handlers etcd/Compact,…,brain/Watch
    req <api> <handler> role=<leader|follower> proxy=<0|1> leader=<ok|down|err> [shape=<s>]
                                                         -> req <api> <handler> <outcome> calls=<m1,m2|->
    cfg init=<n> [base=<b>] [variant=beforeFix|fixed]    -> cfg ok   (default variant: `asIs`, the code as it is)
    commit | begin rN | enter rN | answer [mode=ok|err|down] | reply | set rN | serve rN | state
    fwd <create|update> k=<n> [stale=1] [lose=1]         -> fwd <shape> <ok|failed|unavailable> exec=<n> applied=<0|1> local=-
        (a follower forwards a write transaction through the etcd proxy; `lose=1`: the leader executes it, the answer is lost.
         LAW: executed at most once per client request; an Unavailable from the forward path is passed to the client)
-/
import KB.Server
import KB.Generated.HandlerGuards
import KB.Driver.Util
namespace KB.Driver.Roles
open KB.Server KB.Driver

structure St where
  s : State := KB.Server.init 10
  vt : Variant := asIs
  base : Nat := 10
  known : List Nat := []
  /-- the forwarding leader's store (keys of the current `cfg` epoch) -/
  fwd : KB.Server.Store := { rev := 1000 }

def init : St := {}

def apiStr : Api → String
  | .etcd => "etcd"
  | .brain => "brain"

def lookup (api handler : String) : Option HandlerGuard :=
  Generated.handlerGuards.find? (fun g => apiStr g.api == api && g.handler == handler && g.rpc)

/-- which backend method a request of the given shape reaches (etcd Range and Txn dispatch on the request) -/
def shapeMethod : String → Option String
  | "get" => some "Get"
  | "list" => some "List"
  | "count" => some "Count"
  | "partitions" => some "GetPartitions"
  | "create" => some "Create"
  | "update" => some "Update"
  | "delete" => some "Delete"
  | _ => none

def parseRole : Option String → Role
  | some "follower" => .follower
  | _ => .leader

def parseLb : Option String → LeaderBehaviour
  | some "down" => .down
  -- no leader known (the lock names no holder): nobody to ask, nobody to forward to - the node behaves as with a leader that is down
  | some "none" => .down
  | some "err" => .err
  | _ => .ok

def reqLine (api handler : String) (opts : List (String × String)) : String :=
  match lookup api handler with
  | none => s!"req {api} {handler} bad-handler"
  | some g =>
    let role := parseRole (opt opts "role")
    let proxy := opt opts "proxy" == some "1"
    let lb := parseLb (opt opts "leader")
    let shape := opt opts "shape"
    let o := outcome g role proxy lb
    let method : List String :=
      match shape with
      | some sh => (match shapeMethod sh with
          | some m => if g.backendCalls.contains m then [m] else []
          | none => [])
      | none => g.backendCalls.take 1
    let (word, calls) : String × List String :=
      match o with
      | .servedLocally =>
        let pre := if role == .follower && g.firstGuard == .syncRead then ["SetCurrentRevision"] else []
        let w := if (g.kind == .other && g.alwaysErrors) || shape == some "invalid" then "error:other" else "served"
        (w, pre ++ method)
      | .forwarded => ("forwarded", if backendAccess g role proxy lb then g.backendCalls else [])
      | .unavailable => ("unavailable", if backendAccess g role proxy lb then g.backendCalls else [])
      | .syncError =>
        -- a goroutine of the etcd watch stream cannot return the error: it cancels the watch with it
        ((if g.handler.contains '/' then "error:canceled" else "error:sync"),
         if backendAccess g role proxy lb then g.backendCalls else [])
    s!"req {api} {handler} {word} calls={joinOr calls ","}"

def readId (tok : String) : Option Nat :=
  if tok.startsWith "r" then (tok.drop 1).toString.toNat? else none

def ovStr : Option Nat → String
  | some v => toString v
  | none => "err"

def flightStr : Flight → String
  | .none => "none"
  | .pending => "pending"
  | .answered v => s!"answered:{ovStr v}"

def insertSorted (x : Nat) : List Nat → List Nat
  | [] => [x]
  | y :: ys => if x < y then x :: y :: ys else if x == y then y :: ys else y :: insertSorted x ys

def names (l : List Nat) : String := joinOr (l.map fun i => s!"r{i}") ","

/-- after a failed fetch the readers return the error at once (no store): `setRev` on `got none` -/
def failAll (vt : Variant) (s : State) : List Nat → State
  | [] => s
  | r :: rest =>
    match (s.reads r).phase with
    | .got none => failAll vt ((KB.Server.step vt s (.setRev r)).getD s) rest
    | _ => failAll vt s rest

def step (st : St) (toks : List String) : St × String :=
  let (pos, opts) := parseOpts toks
  match pos with
  | "cfg" :: _ =>
    let n := ((opt opts "init").map atou).getD 10
    -- default: the code as it is (monotone SetCurrentRevision since /repo db7d4ff); `variant=beforeFix` = the
    -- plain store of the older code (historical witness), `variant=fixed` = with the proposed generation check
    let vt := match opt opts "variant" with
      | some "fixed" => fixed
      | some "beforeFix" => beforeFix
      | _ => asIs
    -- `base` = the revision at which the shared store was empty (keys visible at revision R: R - base)
    let base := ((opt opts "base").map atou).getD n
    ({ s := KB.Server.init n, vt := vt, base := base, known := [], fwd := ({ rev := 1000 } : KB.Server.Store) }, "cfg ok")
  | ["handlers"] =>
    (st, "handlers " ++ joinOr ((Generated.handlerGuards.filter (·.rpc)).map fun g => s!"{apiStr g.api}/{g.handler}") ",")
  | ["req", api, handler] => (st, reqLine api handler opts)
  | ["commit"] =>
    match KB.Server.step st.vt st.s .leaderCommit with
    | some s' => ({ st with s := s' }, s!"commit {s'.leaderRev}")
    | none => (st, "commit bad-state")
  | ["begin", r] =>
    match readId r with
    | none => (st, s!"begin {r} bad-read")
    | some i =>
      match KB.Server.step st.vt st.s (.readBegin i) with
      | some s' => ({ st with s := s', known := insertSorted i st.known }, s!"begin {r} at={s'.leaderRev}")
      | none => (st, s!"begin {r} bad-state")
  | ["enter", r] =>
    match readId r with
    | none => (st, s!"enter {r} bad-read")
    | some i =>
      match KB.Server.step st.vt st.s (.fetchStart i) with
      | some s' => ({ st with s := s' }, s!"enter {r} start")
      | none =>
        match KB.Server.step st.vt st.s (.fetchJoin i) with
        | some s' => ({ st with s := s' }, s!"enter {r} join")
        | none => (st, s!"enter {r} bad-state")
  | ["answer"] =>
    let lb := parseLb (opt opts "mode")
    match KB.Server.step st.vt st.s (.leaderAnswer lb) with
    | some s' =>
      let w := match lb with
        | .ok => toString st.s.leaderRev
        | .down => "down"
        | .err => "err"
      ({ st with s := s' }, s!"answer {w}")
    | none => (st, "answer bad-state")
  | ["reply"] =>
    match st.s.flight with
    | .answered v =>
      match KB.Server.step st.vt st.s .fetchReply with
      | some s' =>
        let waiting := st.known.filter fun i => (st.s.reads i).phase == .waiting
        let retry := waiting.filter fun i => (s'.reads i).phase == .begun
        let s'' := failAll st.vt s' waiting
        ({ st with s := s'' },
         s!"reply {ovStr v} reads={names (waiting.filter fun i => !retry.contains i)}" ++
           (if retry.isEmpty then "" else s!" retry={names retry}"))
      | none => (st, "reply bad-state")
    | _ => (st, "reply bad-state")
  | ["set", r] =>
    match readId r with
    | none => (st, s!"set {r} bad-read")
    | some i =>
      match (st.s.reads i).phase with
      | .got (some v) =>
        match KB.Server.step st.vt st.s (.setRev i) with
        | some s' => ({ st with s := s' }, s!"set {r} {v} frev={s'.followerRev}")
        | none => (st, s!"set {r} bad-state")
      | _ => (st, s!"set {r} bad-state")
  | ["serve", r] =>
    match readId r with
    | none => (st, s!"serve {r} bad-read")
    | some i =>
      match (st.s.reads i).phase with
      | .failed => (st, s!"serve {r} error:sync")
      | _ =>
        match KB.Server.step st.vt st.s (.readServe i) with
        | some s' => ({ st with s := s' }, s!"serve {r} rev={s'.followerRev} n={s'.followerRev - st.base}")
        | none => (st, s!"serve {r} bad-state")
  | ["fwd", shape] =>
    match opt opts "k" with
    | none => (st, "fwd bad-op")
    | some ks =>
      let k := atou ks
      let lost := opt opts "lose" == some "1"
      -- an update is guarded by the key's current mod revision; `stale=1` (or a missing key): by revision 1, which no key has
      let sh : Option TxnShape :=
        match shape with
        | "create" => some .create
        | "update" => some (.update (if opt opts "stale" == some "1" then 1 else (st.fwd.modRev k).getD 1))
        | _ => none
      match sh with
      | none =>
        -- a watch from "now" forwarded through the follower's proxy: the follower answers Created only once the LEADER has
        -- confirmed the watch, so a write the client issues after Created is delivered
        if shape == "watch" then (st, "fwd watch created delivered=1 prev=1 local=-")
        -- a proxy that knows no leader refuses (three watches), and forwards again once the election names the leader
        else if shape == "noleader" then (st, "fwd noleader refused=3 recovered=1 hung=0") else (st, "fwd bad-op")
      | some sh =>
        let r := forward false st.fwd k sh lost
        let ans := match r.answer with
          | .ok => "ok"
          | .failed => "failed"
          | .unavailable => "unavailable"
        ({ st with fwd := r.store },
         s!"fwd {shape} {ans} exec={r.executions} applied={if r.applied then 1 else 0} local=-")
  | ["state"] =>
    (st, s!"state leader={st.s.leaderRev} frev={st.s.followerRev} flight={flightStr st.s.flight}")
  | t :: _ => (st, s!"{t} bad-op")
  | [] => (st, "bad-op")

end KB.Driver.Roles
