/-
  Driver suite `watch`: the watch pipeline LTS (KB.Watch) under a script-controlled scheduler. The same
  lines drive the real backend (harness suite `backend`, cfg option `probe=1`). Writes are sequential
  requests (KB.Backend.doCreate / doUpdate / doDelete decide success and build the event); the resulting
  slot is handed to the pipeline instead of the eager `sequence`.

  Scheduling ("eager except at armed gates"): after every op all internal actors run until none can move:
    * sequencer (`collectStorageWriteEvents`): takes slot committed+1; invalid → `commit`; valid →
      `commit`, yield point "seq.before_cache", `produce`; when no slot is left (or 300 events are
      collected) and the local batch is non-empty → yield point "seq.before_broadcast", `flush`;
    * hub: `fanout` of the head batch; with "hub.delete" armed and a full subscriber the hub parks inside
      `DeleteWatcher` (pass done = `fanoutAsync`, nothing else fanned out until released = `deleteRun`);
      cfg `hubmode=async` models the code before d65a4b9 (`go DeleteWatcher`: the hub goes on, the
      spawned goroutine parks at "hub.delete" if armed, else runs at once);
    * every `processEvents` goroutine: `forward` until blocked.
  A `Watch` call (`startw`) runs in its own thread: `subscribe`, yield point "watch.subscribed",
  `readCache`, (S ≠ 0) yield point "watch.cache_read", `decide`. At an armed yield point the actor parks
  (FIFO per gate) until `release`d. Context-cancellation goroutines (after a refusal, after the result
  channel was closed) pass through "hub.delete" too and are modelled as parked no-ops.
  `sync` prints the number of events the hub has fanned out; the harness observes the same number with a
  probe watcher and waits for it: this is how a script makes sure the real pipeline (cache insert,
  broadcast, fan-out pass) is as far as the model before the next op. A parked sequencer is observed with
  `await <gate>`, the committed revision with `rev`. Scripts put `rev` + `sync` after every write made
  while the sequencer is free, so that batch boundaries are the same on both sides.
-/
import KB.Watch
import KB.Driver.Util
import KB.Driver.Suites
namespace KB.Driver.Watch
open KB KB.Driver KB.Watch

inductive Who where
  | seqCache (e : Event)
  | seqBroadcast
  | hubDel (i : Nat)
  | goDel (i : Nat)
  | ctxDone (i : Nat)
  | watchSub (i : Nat)
  | watchRead (i : Nat)
  deriving Repr

structure St where
  cfg : Cfg := {}
  pc : PCfg := {}
  async : Bool := false
  store : Store := []
  dealt : Nat := 1000
  /-- filled slots of `watchEventsRingBuffer`: revision, event (none = invalid) -/
  slots : List (Nat × Option Event) := []
  p : WState := { ring := Ring.new 1 }
  armed : List String := []
  parked : List (String × Who) := []
  seqBusy : Bool := false
  hubBusy : Bool := false
  hubTodo : List Nat := []
  /-- watcher id → index in `p.ws` -/
  wids : List (String × Nat) := []
  /-- client id → (watcher id, index) -/
  clients : List (String × String × Nat) := []
  cntC : Nat := 0
  cntB : Nat := 0
  cntP : Nat := 0
  /-- ring suite -/
  ring : Ring := Ring.new 8
  deriving Repr

def init : St := {}

def isArmed (st : St) (g : String) : Bool := st.armed.contains g

def park (st : St) (g : String) (w : Who) : St := { st with parked := st.parked ++ [(g, w)] }

def pact (st : St) (a : Watch.Act) : St := { st with p := act st.pc st.p a }

/-- a context-cancellation goroutine calls `DeleteWatcher` (a no-op on the state: the subscription is
already closed) and passes through "hub.delete" -/
def spawnCtxDone (st : St) (i : Nat) : St :=
  if isArmed st "hub.delete" then park st "hub.delete" (.ctxDone i) else st

def seqFlushStage (st : St) : St :=
  let st := { st with cntB := st.cntB + 1 }
  if isArmed st "seq.before_broadcast" then { park st "seq.before_broadcast" .seqBroadcast with seqBusy := true }
  else pact st .flush

/-- one move of the sequencer, if it can move -/
def seqStep (st : St) : Option St :=
  if st.seqBusy then none
  else if st.p.batch.length ≥ st.pc.batchMax then some (seqFlushStage st)
  else
    match st.slots.find? (fun x => x.1 == st.p.committed + 1) with
    | some (rev, none) =>
      some (pact { st with slots := st.slots.filter (fun x => x.1 != rev) } (.commit rev))
    | some (rev, some e) =>
      let st := pact { st with slots := st.slots.filter (fun x => x.1 != rev), cntC := st.cntC + 1 } (.commit rev)
      if isArmed st "seq.before_cache" then some { park st "seq.before_cache" (.seqCache e) with seqBusy := true }
      else some (pact st (.produce e))
    | none => if st.p.batch.isEmpty then none else some (seqFlushStage st)

def slowIdx (st : St) : List Nat :=
  (List.range st.p.ws.length).filter (fun i =>
    match st.p.ws[i]? with
    | some w => !w.subClosed && decide (w.sub.length ≥ st.pc.subCap)
    | none => false)

/-- next deletion of the fixed hub's `for _, sub := range slow { w.DeleteWatcher(sub, true) }` -/
def hubNextDelete (st : St) : List Nat → St
  | [] => { st with hubBusy := false, hubTodo := [] }
  | i :: rest =>
    if isArmed st "hub.delete" then { park st "hub.delete" (.hubDel i) with hubBusy := true, hubTodo := rest }
    else hubNextDelete (pact st (.deleteRun i)) rest

def hubStep (st : St) : Option St :=
  if st.hubBusy then none
  else match st.p.chan with
    | [] => none
    | b :: _ =>
      let slow := slowIdx st
      let st := { st with cntP := st.cntP + b.length }
      if st.async then
        let st := pact st .fanoutAsync
        some (slow.foldl (fun st i =>
          if isArmed st "hub.delete" then park st "hub.delete" (.goDel i) else pact st (.deleteRun i)) st)
      else if slow.isEmpty || !isArmed st "hub.delete" then some (pact st .fanout)
      else some (hubNextDelete (pact st .fanoutAsync) slow)

def wKey (w : W) : Nat × Nat × Nat × Bool := (w.sub.length, w.hand.length, w.out.length, w.outClosed)

/-- run `processEvents` of watcher `i` until it blocks; returns whether anything moved -/
def fwdOne (st : St) (i : Nat) : Nat → Bool → St × Bool
  | 0, moved => (st, moved)
  | fuel + 1, moved =>
    match st.p.ws[i]? with
    | none => (st, moved)
    | some w =>
      let st' := pact st (.forward i)
      match st'.p.ws[i]? with
      | none => (st, moved)
      | some w' =>
        if wKey w' == wKey w then (st, moved)
        else
          let st' := if w'.outClosed && !w.outClosed then spawnCtxDone st' i else st'
          fwdOne st' i fuel true

def fwdAll (st : St) : St × Bool :=
  (List.range st.p.ws.length).foldl (fun (acc : St × Bool) i =>
    let (s, m) := fwdOne acc.1 i (st.pc.subCap + st.pc.outCap + 4) false
    (s, acc.2 || m)) (st, false)

/-- run every actor until none can move -/
def settle (st : St) : Nat → St
  | 0 => st
  | fuel + 1 =>
    match seqStep st with
    | some st' => settle st' fuel
    | none =>
      match hubStep st with
      | some st' => settle st' fuel
      | none =>
        let (st', moved) := fwdAll st
        if moved then settle st' fuel else st'

def fuelOf (st : St) : Nat := 8 * (st.slots.length + st.p.chan.length + st.p.ws.length) + 256

def settled (st : St) : St := settle st (fuelOf st)

/-- the `Watch` thread of watcher `i` after "watch.cache_read" -/
def watchDecide (st : St) (i : Nat) : St :=
  let st := pact st (.decide i)
  match st.p.ws[i]? with
  | some w => if w.phase.isRefused then spawnCtxDone st i else st
  | none => st

/-- ... after "watch.subscribed" -/
def watchRead (st : St) (i : Nat) : St :=
  let st := pact st (.readCache i)
  match st.p.ws[i]? with
  | some w =>
    if w.phase.isLive then st
    else if isArmed st "watch.cache_read" then park st "watch.cache_read" (.watchRead i)
    else watchDecide st i
  | none => st

def resume (st : St) : Who → St
  | .seqCache e => pact { st with seqBusy := false } (.produce e)
  | .seqBroadcast => pact { st with seqBusy := false } .flush
  | .hubDel i => hubNextDelete (pact st (.deleteRun i)) st.hubTodo
  | .goDel i => pact st (.deleteRun i)
  | .ctxDone _ => st
  | .watchSub i => watchRead st i
  | .watchRead i => watchDecide st i

/-- take the first actor parked at gate `g` out of the queue -/
def popParked (g : String) : List (String × Who) → Option (Who × List (String × Who))
  | [] => none
  | (g', w) :: rest =>
    if g' == g then some (w, rest)
    else (popParked g rest).map (fun r => (r.1, (g', w) :: r.2))

def releaseAll (st : St) (g : String) : Nat → St
  | 0 => st
  | fuel + 1 =>
    match popParked g st.parked with
    | none => st
    | some (w, rest) => releaseAll (resume { st with parked := rest } w) g fuel

/-! ### writes -/

def viewB (st : St) : BState :=
  { store := st.store, dealt := st.dealt, committed := st.dealt, ring := Ring.new 1 }

/-- take over the result of a sequential write: store, dealt revision, and the slot it filled -/
def absorb (st : St) (b : BState) : St :=
  let ev : Option Event := if b.ring.e == 0 then none else b.ring.at (b.ring.e - 1)
  let st := { st with store := b.store }
  if b.dealt == st.dealt then st
  else settled { st with dealt := b.dealt, slots := st.slots ++ [(b.dealt, ev)] }

def digits (n width : Nat) : Bytes :=
  (List.range width).reverse.map (fun i => 48 + (n / 10 ^ i) % 10)

def mergeStore : Nat → Store → Store → Store
  | 0, a, b => a ++ b
  | _, [], b => b
  | _, a, [] => a
  | fuel + 1, (ka, va) :: as, (kb, vb) :: bs =>
    match cmp ka kb with
    | .lt => (ka, va) :: mergeStore fuel as ((kb, vb) :: bs)
    | .eq => (kb, vb) :: mergeStore fuel as bs
    | .gt => (kb, vb) :: mergeStore fuel ((ka, va) :: as) bs

/-- `fill n kp v`: n sequential creates of the fresh keys `kp ++ 5 decimal digits`, each its own batch
(the pipeline settles after each); the store is updated in one merge at the end. Precondition: no key
with prefix `kp` was ever written (every create then succeeds). -/
def fillLoop (kp v : Bytes) : Nat → Nat → St → List (Bytes × Bytes) → St × List (Bytes × Bytes)
  | 0, _, st, recs => (st, recs)
  | n + 1, i, st, recs =>
    let key := kp ++ digits i 5
    let rev := st.dealt + 1
    let e : Event := { verb := .create, rev := rev, key := key, val := v, kvRev := rev }
    let st := settled { st with dealt := rev, slots := st.slots ++ [(rev, some e)] }
    fillLoop kp v n (i + 1) st ((encode key rev, v) :: (idxKey key, be8 rev) :: recs)

/-! ### observation -/

def consumeAll (st : St) (i : Nat) : Nat → St
  | 0 => st
  | fuel + 1 =>
    match st.p.ws[i]? with
    | some w => if w.out.isEmpty then st else consumeAll (pact st (.consume i)) i fuel
    | none => st

/-- client reads everything that is or becomes available -/
def drainLoop (st : St) (i : Nat) : Nat → St
  | 0 => st
  | fuel + 1 =>
    let st := settled st
    match st.p.ws[i]? with
    | some w =>
      if w.out.isEmpty then st
      else drainLoop (consumeAll st i (w.out.length + 1)) i fuel
    | none => st

def evList (evs : List Event) : String := joinOr (evs.map evStr) ","

def widx (st : St) (id : String) : Option Nat := (st.wids.find? (·.1 == id)).map (·.2)

def countParked (st : St) (g : String) : Nat := (st.parked.filter (·.1 == g)).length

def step (st : St) (toks : List String) : St × String :=
  let (pos, opts) := parseOpts toks
  match pos with
  | "cfg" :: _ =>
    let s0 := initSuite "backend" opts
    let ringCap := s0.cfg.cacheSize
    let pc : PCfg := { ringCap := ringCap,
                       subCap := ((opt opts "subcap").map atou).getD Generated.watchBuffer,
                       outCap := ((opt opts "outcap").map atou).getD Generated.resultChanLength }
    ({ cfg := s0.cfg, pc := pc, async := (opt opts "hubmode") == some "async",
       dealt := s0.b.dealt, p := { WState.init pc with committed := s0.b.committed },
       ring := Ring.new (((opt opts "cap").map atou).getD 8) }, "cfg ok")
  -- ring suite (literal FindEvents)
  | ["add", r] =>
    ({ st with ring := st.ring.add { verb := .put, rev := atou r, key := [107], val := [], kvRev := 0 } }, "add ok")
  | ["find", r] =>
    match st.ring.findLit (atou r) with
    | .empty => (st, "find empty")
    | .high => (st, "find high")
    | .low o => (st, s!"find low {o}")
    | .events n evs => (st, s!"find events {n} {joinOr (evs.map (fun e => toString e.rev)) ","}")
  -- writes
  | ["create", k, v] =>
    let (r, b) := doCreate st.cfg (viewB st) (unhx k) (unhx v) (parseFaults opts)
    (absorb st b, writeLine "create" r)
  | ["update", k, v, e] =>
    let (r, b) := doUpdate st.cfg (viewB st) (unhx k) (unhx v) (atou e) (parseFaults opts)
    (absorb st b, writeLine "update" r)
  | ["delete", k, e] =>
    let (r, b) := doDelete st.cfg (viewB st) (unhx k) (atou e) (parseFaults opts)
    let line := match r with
      | .ok rev =>
        match bget st.cfg st.store (unhx k) 0 with
        | .found v m => s!"delete ok {rev} {kvStr (unhx k, v, m)}"
        | .notFound _ => s!"delete ok {rev} -"
      | r => writeLine "delete" r
    (absorb st b, line)
  | ["fill", n, kp, v] =>
    if isArmed st "seq.before_cache" || isArmed st "seq.before_broadcast" || st.seqBusy then (st, "fill bad-state") else
    let (st, recs) := fillLoop (unhx kp) (unhx v) (atou n) 0 st []
    let recs := recs.reverse
    ({ st with store := mergeStore (st.store.length + recs.length + 1) st.store recs }, s!"fill ok {st.dealt}")
  | ["rev"] => (st, s!"rev {st.p.committed}")
  | ["sync"] => (st, s!"sync {st.cntP}")
  | ["sleep", _] => (st, "slept")
  | "echo" :: _ => (st, " ".intercalate toks)
  -- the context of a watcher ends (client gone): for a subscriber the hub has ALREADY dropped this is a second DeleteWatcher
  -- of a subscriber that is no longer registered - a no-op on the pipeline (the scripts use it only for such a watcher)
  | ["cancel", id] => (st, s!"cancel {id}")
  -- gates
  | ["arm", g] => ({ st with armed := if st.armed.contains g then st.armed else g :: st.armed }, s!"arm {g}")
  | ["disarm", g] =>
    let st := { st with armed := st.armed.filter (· != g) }
    (settled (releaseAll st g (st.parked.length + 1)), s!"disarm {g}")
  | ["await", g] => (st, s!"await {g} {if countParked st g > 0 then 1 else 0}")
  | ["release", g] =>
    match popParked g st.parked with
    | none => (st, s!"release {g} none")
    | some (w, rest) => (settled (resume { st with parked := rest } w), s!"release {g} ok")
  -- watches
  | ["startw", cid, id, p, r] =>
    let i := st.p.ws.length
    let st := pact st (.subscribe (unhx p) (atou r))
    let st := { st with wids := (id, i) :: st.wids.filter (·.1 != id),
                        clients := (cid, id, i) :: st.clients.filter (·.1 != cid) }
    let st := if isArmed st "watch.subscribed" then park st "watch.subscribed" (.watchSub i) else watchRead st i
    (settled st, s!"startw {cid}")
  | ["join", cid] =>
    match st.clients.find? (·.1 == cid) with
    | none => (st, s!"join {cid} no-such-client")
    | some (_, id, i) =>
      match st.p.ws[i]? with
      | some w =>
        if w.phase.isLive then ({ st with clients := st.clients.filter (·.1 != cid) }, s!"done {cid} watch {id} ok")
        else if w.phase.isRefused then
          ({ st with clients := st.clients.filter (·.1 != cid) }, s!"done {cid} watch {id} refused")
        else (st, s!"stuck {cid}")
      | none => (st, s!"stuck {cid}")
  | ["drain", id] =>
    match widx st id with
    | none => (st, s!"events {id} nowatch")
    | some i =>
      match st.p.ws[i]? with
      | some w0 =>
        if !w0.phase.isLive then (st, s!"events {id} nowatch")
        else
          let st := drainLoop st i (st.pc.subCap + st.pc.outCap + 8)
          match st.p.ws[i]? with
          | some w =>
            (st, s!"events {id} {evList (w.delivered.drop w0.delivered.length)} closed={if w.outClosed && w.out.isEmpty then 1 else 0}")
          | none => (st, s!"events {id} nowatch")
      | none => (st, s!"events {id} nowatch")
  | ["take", id] =>
    match widx st id with
    | none => (st, s!"batch {id} nowatch")
    | some i =>
      let st := settled st
      match st.p.ws[i]? with
      | some w0 =>
        if !w0.phase.isLive then (st, s!"batch {id} nowatch")
        else match w0.out with
          | b :: _ => (settled (pact st (.consume i)), s!"batch {id} {evList b} closed=0")
          | [] => (st, s!"batch {id} - closed={if w0.outClosed then 1 else 0}")
      | none => (st, s!"batch {id} nowatch")
  | t :: _ => (st, s!"{t} bad-op")
  | [] => (st, "bad-op")

end KB.Driver.Watch
