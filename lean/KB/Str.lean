/-
  KB.Str — names (metric names, label names, struct-field and lock names) in the generated tables are
  byte lists (`List Nat`, the UTF-8 bytes), written `b!"watch.list_stream.push"`.
  Reason: `decide` over the regenerated tables is evaluated by the Lean kernel; `String` is backed by a
  byte array whose operations the kernel unfolds very slowly (≈ 10 ms per character), while lists of
  `Nat` literals are compared with the kernel's native arithmetic.  `b!` is expanded at elaboration time,
  so the kernel only ever sees the list of numerals.
-/
import Lean
namespace KB

abbrev Name := List Nat

open Lean in
/-- `b!"ab"` = `[97, 98]`: the UTF-8 bytes of a string literal -/
macro:max "b!" s:str : term => do
  let bytes := s.getString.toUTF8.toList.map (fun b => Syntax.mkNumLit (toString b.toNat))
  `(([$(bytes.toArray),*] : List Nat))

/-- for display only -/
def Name.render (n : Name) : String := String.ofList (n.map Char.ofNat)

example : b!"a.b" = [97, 46, 98] := rfl
example : b!"" = [] := rfl

end KB
