/-
  KB.Election — model of the storage-backed leader lock `resourceLock`
  (/repo/pkg/backend/election/election.go), the `resourcelock.Interface` that client-go's leader
  elector drives through `Get` / `Create` / `Update`.

  The lock record is the value stored in the engine (`KB.Store`) at the election key; a record is an
  opaque byte string (the marshalled `LeaderElectionRecord`).  Every candidate (process) owns one
  `resourceLock` = `Cand`:
    lastVal  the bytes it read with its last successful `Get`, or wrote with its last successful
             `Create` (`none` = Go `nil`); NOT refreshed by `Update`
    tso      engine timestamp of its last successful call; `0` = never initialised
  The three calls are total functions `State → Outcome × State`, built on the very same
  `KB.commit` (engine contract, parameterised by `Quirks`) the other properties use:
    Create = one batch `PutIfNotExist(key, rec)`      = `commit q s [BOp.pine key rec]`
    Update = one batch `CAS(key, rec, lastVal)`       = `commit q s [BOp.cas key rec lastVal]`
  Core-only (no Mathlib).
-/
import KB.Engine
namespace KB.Election
open KB

/-- What a call answers (engine failures other than the condition are outside the model). -/
inductive Outcome where
  | ok
  | notFound         -- `apierrors.NotFound` (Get) / `storage.ErrKeyNotFound` (pre-fix tikv CAS on a missing key)
  | condFailed       -- `storage.ErrCASFailed` / `*storage.Conflict`
  | notInitialised   -- "endpoint not initialized, call get or create first"
  deriving Repr, DecidableEq

/-- One `resourceLock` object. -/
structure Cand where
  lastVal : Option Bytes := none
  tso : Nat := 0
  deriving Repr, DecidableEq

structure Cfg where
  q : Quirks := {}
  /-- `getElectionKey(prefix)` = `prefix ++ "/election"`. -/
  key : Bytes := []

/-- Shared engine + all candidates (any number: indexed by `Nat`). `clock` is the engine's timestamp
oracle: every `GetTimestampOracle` answers a fresh strictly positive number. -/
structure State where
  store : Store := []
  clock : Nat := 0
  cands : Nat → Cand := fun _ => {}

def setCand (f : Nat → Cand) (i : Nat) (c : Cand) : Nat → Cand := fun j => if j = i then c else f j

/-- The stored lock record. -/
def stored (c : Cfg) (st : State) : Option Bytes := st.store.get c.key

/-- Go passes `r.lastVal` (possibly `nil`) as the expected value of the CAS. -/
def expected (cd : Cand) : Bytes := cd.lastVal.getD []

/-- Map a failed commit onto the outcome enum. -/
def errOutcome : CommitErr → Outcome
  | .conflict _ _ => .condFailed
  | .notFound => .notFound

/-- `Get`: `getRecord` (store.Get; missing → NotFound and NOTHING is touched; else `lastVal := val`)
then `getTso`. -/
def get (c : Cfg) (st : State) (i : Nat) : Outcome × State :=
  match stored c st with
  | none => (.notFound, st)
  | some v =>
    (.ok, { st with clock := st.clock + 1,
                    cands := setCand st.cands i { lastVal := some v, tso := st.clock + 1 } })

/-- `Create`: one batch `PutIfNotExist`; on success `lastVal := rec` and the tso is refreshed. -/
def create (c : Cfg) (st : State) (i : Nat) (rec : Bytes) : Outcome × State :=
  match commit c.q st.store [.pine c.key rec] with
  | .error e => (errOutcome e, st)
  | .ok s' =>
    (.ok, { store := s', clock := st.clock + 1,
            cands := setCand st.cands i { lastVal := some rec, tso := st.clock + 1 } })

/-- `Update`: refuses when `tso = 0`; else one batch `CAS(key, rec, lastVal)`; on success only the tso
is refreshed — `lastVal` keeps the value of the last Get/Create. -/
def update (c : Cfg) (st : State) (i : Nat) (rec : Bytes) : Outcome × State :=
  if (st.cands i).tso = 0 then (.notInitialised, st) else
  match commit c.q st.store [.cas c.key rec (expected (st.cands i))] with
  | .error e => (errOutcome e, st)
  | .ok s' =>
    (.ok, { store := s', clock := st.clock + 1,
            cands := setCand st.cands i { (st.cands i) with tso := st.clock + 1 } })

/-- One scheduled call of one candidate. -/
inductive Step where
  | get (i : Nat)
  | create (i : Nat) (rec : Bytes)
  | update (i : Nat) (rec : Bytes)
  deriving Repr, DecidableEq

def step (c : Cfg) (st : State) : Step → Outcome × State
  | .get i => get c st i
  | .create i rec => create c st i rec
  | .update i rec => update c st i rec

/-- Final state of a schedule (an interleaving of the candidates' calls). -/
def run (c : Cfg) (st : State) : List Step → State
  | [] => st
  | s :: rest => run c (step c st s).2 rest

/-- One executed step of a schedule with the states around it. -/
structure Entry where
  pre : State
  step : Step
  out : Outcome
  post : State

/-- The execution of a schedule, step by step. -/
def trace (c : Cfg) (st : State) : List Step → List Entry
  | [] => []
  | s :: rest =>
    let r := step c st s
    { pre := st, step := s, out := r.1, post := r.2 } :: trace c r.2 rest

/-- The candidate performing a step. -/
def Step.who : Step → Nat
  | .get i => i
  | .create i _ => i
  | .update i _ => i

/-- The record a step tries to write (`none` for a read). -/
def Step.writes : Step → Option Bytes
  | .get _ => none
  | .create _ rec => some rec
  | .update _ rec => some rec

/-- `Get` or `Create` by candidate `j`: the only steps that refresh `j`'s `lastVal`. -/
def Step.rereads (j : Nat) : Step → Bool
  | .get i => i == j
  | .create i _ => i == j
  | .update _ _ => false

def Entry.isCreateOk (e : Entry) : Bool :=
  match e.step, e.out with
  | .create _ _, .ok => true
  | _, _ => false

/-- Number of successful `Create`s in an execution. -/
def createOks (l : List Entry) : Nat := (l.filter Entry.isCreateOk).length

/-- Every initialised candidate has read or created something (`tso ≠ 0 → lastVal ≠ nil`): true of
fresh `resourceLock`s and preserved by every step. -/
def WF (st : State) : Prop := ∀ i, (st.cands i).tso ≠ 0 → (st.cands i).lastVal ≠ none

/-- All `resourceLock`s freshly constructed over an engine holding `s`. -/
def State.fresh (s : Store) : State := { store := s }

end KB.Election
