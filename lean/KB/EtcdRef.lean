/-
  KB.EtcdRef — reference semantics of etcd's Txn (single level) and Range over an MVCC state, written
  as plainly as possible (after etcd server/etcdserver/apply.go: applyTxn / applyCompare / compareKV,
  and server/mvcc: rangeKeys).  It shares the request and response types of KB.EtcdShim and nothing else.

  State: the live keys, sorted by key, each with value, mod revision, create revision, version and
  lease, plus the current revision.  A transaction evaluates its compares on the state, runs one
  branch op by op (later ops see earlier writes), every write of the transaction gets revision
  `rev + 1`, and the store revision advances iff something was written.

  Out of scope of this reference (answered `.error`): nested transactions and empty ops (etcd refuses
  empty ops), empty keys (etcd: "key is not provided"), a range op at an explicit old revision inside a
  transaction (needs the history; use `refRangeH`), etcd's static duplicate-key / overlap check.
-/
import KB.EtcdShim
namespace KB.Etcd
open KB

structure KVFull where
  key : Bytes
  val : Bytes
  mod : Nat
  create : Nat := 0
  version : Nat := 0
  lease : Int := 0
  deriving Repr, DecidableEq

def KVFull.proj (e : KVFull) : KV := (e.key, e.val, e.mod)

structure Mvcc where
  rev : Nat
  kvs : List KVFull := []      -- live keys, ascending by key
  deriving Repr, DecidableEq

inductive RefErr where
  | invalid        -- refused by request validation (empty key, empty op, ignore_value with a value …)
  | nested         -- nested transaction: outside this single-level reference
  | keyNotFound    -- put with ignore_value / ignore_lease on a missing key
  | futureRev
  | compacted
  | historic       -- range op at an old revision inside a transaction (needs `Hist`)
  deriving Repr, DecidableEq

/-- membership of `k` in the etcd interval `[key, range_end)`: empty `range_end` = the single key,
`range_end = "\0"` = every key ≥ `key`. -/
def inInterval (key stop k : Bytes) : Bool :=
  if stop.isEmpty then k == key
  else if stop == [0] then ble key k
  else ble key k && blt k stop

def Mvcc.get (m : Mvcc) (k : Bytes) : Option KVFull := m.kvs.find? (fun e => e.key == k)

def Mvcc.range (m : Mvcc) (key stop : Bytes) : List KVFull := m.kvs.filter (fun e => inInterval key stop e.key)

def insertKv (e : KVFull) : List KVFull → List KVFull
  | [] => [e]
  | x :: xs =>
    match cmp e.key x.key with
    | .lt => e :: x :: xs
    | .eq => e :: xs
    | .gt => x :: insertKv e xs

/-! ### compares -/

def cmpInt (a b : Int) : Ordering := if a < b then .lt else if a = b then .eq else .gt

def holds (r : CmpResult) (o : Ordering) : Bool :=
  match r with
  | .equal => o == .eq
  | .notEqual => o != .eq
  | .greater => o == .gt
  | .less => o == .lt

/-- `compareKV` -/
def compareKV (c : Compare) (e : KVFull) : Bool :=
  match c.target with
  | .value => holds c.result (cmp e.val c.val)
  | .mod => holds c.result (cmpInt e.mod c.int)
  | .create => holds c.result (cmpInt e.create c.int)
  | .version => holds c.result (cmpInt e.version c.int)
  | .lease => holds c.result (cmpInt e.lease c.int)

/-- `applyCompare`: no key in the interval ⇒ a value compare fails, any other compare is evaluated
on the zero key-value; otherwise every key of the interval must satisfy it. -/
def evalCompare (m : Mvcc) (c : Compare) : Bool :=
  match m.range c.key c.rangeEnd with
  | [] => if c.target == .value then false else compareKV c { key := [], val := [], mod := 0 }
  | es => es.all (compareKV c)

/-! ### range -/

def inBounds (lo hi : Int) (x : Nat) : Bool := (lo == 0 || lo ≤ (x : Int)) && (hi == 0 || (x : Int) ≤ hi)

/-- The answer of a range request on the state `m` *at the read revision* (header filled by the caller). -/
def refRangeOn (m : Mvcc) (r : RangeReq) : RangeResp :=
  let all := (m.range r.key r.rangeEnd).filter
    (fun e => inBounds r.minMod r.maxMod e.mod && inBounds r.minCreate r.maxCreate e.create)
  let all := if r.sortDesc then all.reverse else all
  let lim := r.limit.toNat
  let cut := if lim > 0 then all.take lim else all
  let kvs : List KV := if r.countOnly then [] else
    cut.map (fun e => if r.keysOnly then (e.key, [], e.mod) else e.proj)
  { hdr := m.rev, kvs := kvs, count := all.length, more := !r.countOnly && decide (lim > 0 ∧ all.length > lim) }

/-- A history: the state at every revision, the current revision, the compaction floor. -/
structure Hist where
  cur : Nat
  floor : Nat := 0
  at_ : Nat → Mvcc

/-- `Range` as the KV service answers it. -/
def refRangeH (h : Hist) (r : RangeReq) : Except RefErr RangeResp :=
  if r.key.isEmpty then .error .invalid else
  let R := if r.revision ≤ 0 then h.cur else r.revision.toNat
  if R > h.cur then .error .futureRev
  else if R < h.floor then .error .compacted
  else .ok { refRangeOn (h.at_ R) r with hdr := h.cur }

/-! ### transactions -/

def opValid : Op → Except RefErr Unit
  | .put p =>
    if p.key.isEmpty then .error .invalid
    else if p.ignoreValue && !p.val.isEmpty then .error .invalid
    else if p.ignoreLease && p.lease != 0 then .error .invalid
    else .ok ()
  | .range r => if r.key.isEmpty then .error .invalid else .ok ()
  | .del d => if d.key.isEmpty then .error .invalid else .ok ()
  | .nested => .error .nested
  | .empty => .error .invalid

def allValid : List Op → Except RefErr Unit
  | [] => .ok ()
  | o :: os =>
    match opValid o with
    | .error e => .error e
    | .ok _ => allValid os

/-- one op of the executed branch at write revision `w`; returns the response, the new state and
whether something was written -/
def refApplyOp (w : Nat) (m : Mvcc) : Op → Except RefErr (RespOp × Mvcc × Bool)
  | .put p =>
    match m.get p.key with
    | none =>
      if p.ignoreValue || p.ignoreLease then .error .keyNotFound
      else .ok (.put w, { m with kvs := insertKv { key := p.key, val := p.val, mod := w, create := w,
                                                   version := 1, lease := p.lease } m.kvs }, true)
    | some old =>
      let e : KVFull := { key := p.key, val := if p.ignoreValue then old.val else p.val, mod := w,
                          create := old.create, version := old.version + 1,
                          lease := if p.ignoreLease then old.lease else p.lease }
      .ok (.put w, { m with kvs := insertKv e m.kvs }, true)
  | .range r =>
    if r.revision > 0 && r.revision.toNat > m.rev then .error .futureRev
    else if r.revision > 0 && r.revision.toNat < m.rev then .error .historic
    else
      let res := refRangeOn m r
      .ok (.range res.hdr res.kvs res.count res.more, m, false)
  | .del d =>
    let gone := m.range d.key d.rangeEnd
    .ok (.del w gone.length, { m with kvs := m.kvs.filter (fun e => !inInterval d.key d.rangeEnd e.key) },
         !gone.isEmpty)
  | .nested => .error .nested
  | .empty => .error .invalid

/-- the `prev_kvs` of the `DeleteRangeResponse` etcd answers a delete op with (server/etcdserver/apply.go
`DeleteRange`: `if dr.PrevKv { resp.PrevKvs = <the key-values deleted> }`); not a field of `RespOp.del`
(outside the observable projection `TxnObs`), used by `KB.C16.old_delete_prev_kv_executed` to say what the
client that sets `prev_kv` is entitled to read -/
def refDelPrevKvs (m : Mvcc) (d : DelReq) : List KV :=
  if d.prevKv then (m.range d.key d.rangeEnd).map KVFull.proj else []

def refApplyOps (w : Nat) : Mvcc → List Op → Except RefErr (List RespOp × Mvcc × Bool)
  | m, [] => .ok ([], m, false)
  | m, o :: os =>
    match refApplyOp w m o with
    | .error e => .error e
    | .ok (r, m', wr) =>
      match refApplyOps w m' os with
      | .error e => .error e
      | .ok (rs, m'', wr') => .ok (r :: rs, m'', wr || wr')

/-- etcd `Txn` on the state `m`. -/
def refTxn (m : Mvcc) (t : TxnReq) : Except RefErr (TxnResp × Mvcc) :=
  if t.compare.any (fun c => c.key.isEmpty) then .error .invalid else
  match allValid t.success, allValid t.failure with
  | .error e, _ => .error e
  | _, .error e => .error e
  | .ok _, .ok _ =>
    let ok := t.compare.all (evalCompare m)
    match refApplyOps (m.rev + 1) m (if ok then t.success else t.failure) with
    | .error e => .error e
    | .ok (rs, m', wrote) =>
      let rev' := if wrote then m.rev + 1 else m.rev
      .ok ({ ok := ok, hdr := rev', resps := rs, wrote := wrote }, { m' with rev := rev' })

/-! ### watch: the events of one revision step -/

/-- the events a watcher of `pfx` must see when the state goes from `m` to `m'` by one write of
`key` at revision `w` -/
def refEvent (m m' : Mvcc) (key : Bytes) (w : Nat) : Option WEv :=
  match m.get key, m'.get key with
  | _, some e => if e.mod == w then some { isDelete := false, kv := e.proj, prev := none } else none
  | some old, none => some { isDelete := true, kv := (key, [], w), prev := some old.proj }
  | none, none => none

end KB.Etcd
