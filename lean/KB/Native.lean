/-
  KB.Native — the glue of the NATIVE gRPC API (pkg/server/brain/read.go, write.go) as a function of the
  backend model's answer ("NativeShim").

  Every handler has the same shape, in this order (write.go:31-56, 58-83, 85-110, 112-130; read.go:27-45,
  47-65, 67-85, 87-104, 106-134):
    1. validation of the request structure (empty key / end / value, nil Kv, compact revision 0) → error;
    2. Create / Update / Delete only: a deadline that has already passed → context.DeadlineExceeded
       (Compact and the reads do NOT look at the deadline);
    3. writes: `checkLeaderWrite` (a follower answers codes.Unavailable); reads: `SyncReadRevision`
       (no-op on the leader; a follower fetches the leader's revision and installs it with
       SetCurrentRevision, or fails the read when the leader cannot be reached);
    4. the backend call; its response and error are handed on unchanged (RangeStream forwards every
       streamed response).
  Not modelled: metric emission (KB.Metrics / C20Metrics), log lines, the 1 s `context.WithTimeout` a write
  hands to the backend (wall-clock), Watch (KB.Watch, ops `bwatch`/`bdrain`).
-/
import KB.Backend
namespace KB

/-- A request of the native API as the handler sees it after protobuf decoding. `update none` is an
`UpdateRequest` whose `Kv` field is nil. Revisions are `uint64`, `limit` is the driver's reading of the
`int64` limit (as for `doList`). -/
inductive NativeReq where
  | create (key val : Bytes)
  | update (kv : Option (Bytes × Bytes × Nat))
  | delete (key : Bytes) (rev : Nat)
  | compact (rev : Nat)
  | get (key : Bytes) (rev : Nat)
  | range (key stop : Bytes) (rev limit : Nat)
  | count (key stop : Bytes)
  | parts (key stop : Bytes)
  | stream (key stop : Bytes) (rev : Nat)
  deriving Repr, DecidableEq

/-- handlers behind `checkLeaderWrite` (write.go) -/
def NativeReq.isWrite : NativeReq → Bool
  | .create _ _ => true
  | .update _ => true
  | .delete _ _ => true
  | .compact _ => true
  | _ => false

/-- handlers that compare the context deadline with the clock before doing anything else (Create, Update,
Delete; NOT Compact, NOT the reads) -/
def NativeReq.deadlineChecked : NativeReq → Bool
  | .create _ _ => true
  | .update _ => true
  | .delete _ _ => true
  | _ => false

/-- Step 1. The handler's own validation; every refusal is the same class for the client. -/
def validate : NativeReq → Option Err
  | .create k v => if k.isEmpty || v.isEmpty then some .invalid else none
  | .update none => some .invalid
  | .update (some (k, v, _)) => if k.isEmpty || v.isEmpty then some .invalid else none
  | .delete k _ => if k.isEmpty then some .invalid else none
  | .compact r => if r == 0 then some .invalid else none      -- `Revision <= 0` on a uint64
  | .get k _ => if k.isEmpty then some .invalid else none
  | .range k e _ _ => if k.isEmpty || e.isEmpty then some .invalid else none
  | .count k e => if k.isEmpty || e.isEmpty then some .invalid else none
  | .parts k e => if k.isEmpty || e.isEmpty then some .invalid else none
  | .stream k e _ => if k.isEmpty || e.isEmpty then some .invalid else none

/-- Why the handler layer itself refused a request (harness: `nclassify`). -/
inductive Refusal where
  | invalid      -- validation
  | deadline     -- context.DeadlineExceeded before the backend was called
  | notLeader    -- checkLeaderWrite: codes.Unavailable "txn error addr is ..."
  | syncFail     -- SyncReadRevision: "get revision from leader failed"
  deriving Repr, DecidableEq

/-- Everything outside the request and the backend state that decides a handler's path. -/
structure NativeEnv where
  leader : Bool := true
  /-- the request's context carries a deadline that has passed -/
  expired : Bool := false
  /-- follower only: the revision the leader's `/status` answers; `none` = the leader cannot be reached -/
  leaderRev : Option Nat := none
  /-- what the engine does with the commits of this request (as for the backend model) -/
  faults : List Fault := []
  /-- delete-call outcomes of a compaction (as for the backend model) -/
  mask : Nat → DelOutcome := fun _ => .ok

/-- Steps 1-3: the first guard that refuses, in the handlers' order. -/
def guard (env : NativeEnv) (r : NativeReq) : Option Refusal :=
  match validate r with
  | some _ => some .invalid
  | none =>
    if r.deadlineChecked && env.expired then some .deadline
    else if r.isWrite then (if env.leader then none else some .notLeader)
    else if env.leader then none
    else match env.leaderRev with
      | none => some .syncFail
      | some _ => none

/-- `Backend.SetCurrentRevision` = `tso.Commit`: the committed revision is only ever raised, the deal cursor
follows it up (same as the driver's `setrev`). -/
def setRev (s : BState) (r : Nat) : BState :=
  { s with committed := max s.committed r, dealt := max s.dealt r }

/-- The backend state the backend call of an accepted request runs on: a follower's read has installed the
leader's revision first. -/
def preState (env : NativeEnv) (s : BState) (r : NativeReq) : BState :=
  if !r.isWrite && !env.leader then
    match env.leaderRev with
    | some n => setRev s n
    | none => s
  else s

/-- What a handler hands back: its own refusal, or the backend's answer unchanged. `panic` is the nil
dereference of `r.Kv.Key` in `backend.Update` (txn.go:217) — an outcome of the BACKEND on a request shape the
handler layer never lets through (`C20Native.validate_total`). -/
inductive NativeAns where
  | refused (r : Refusal)
  | write (r : WriteRes)
  | get (hdr : Nat) (kv : Option (Bytes × Bytes × Nat))
  | list (r : ScanRes ListRes)
  | count (r : ScanRes (Nat × Nat))
  | parts (ps : List Bytes)
  | stream (r : ScanRes StreamRes)
  | compact (r : ScanRes Nat)
  | panic
  deriving Repr

def ScanRes.isPanic : ScanRes α → Bool
  | .panic => true
  | _ => false

/-- the answer is a crash of the request goroutine (in the model: `ScanRes.panic` of the backend model, or the
nil-Kv dereference) -/
def NativeAns.panics : NativeAns → Bool
  | .panic => true
  | .list r => r.isPanic
  | .count r => r.isPanic
  | .stream r => r.isPanic
  | .compact r => r.isPanic
  | _ => false

def NativeAns.isRefused : NativeAns → Bool
  | .refused _ => true
  | _ => false

/-- Step 4: the backend call, by the request-by-request backend model (KB.Backend). The backend's own
refusal of an empty value (`errEmptyValue`, txn.go:52,223: before a revision is dealt) and the nil-Kv
dereference are included so that the function is the backend's answer on EVERY request shape. -/
def backendStep (c : Cfg) (env : NativeEnv) (s : BState) : NativeReq → NativeAns × BState
  | .create k v =>
    if v.isEmpty then (.write (.error .other), s) else
    ((.write (doCreate c s k v env.faults).1), (doCreate c s k v env.faults).2)
  | .update none => (.panic, s)
  | .update (some (k, v, e)) =>
    if v.isEmpty then (.write (.error .other), s) else
    ((.write (doUpdate c s k v e env.faults).1), (doUpdate c s k v e env.faults).2)
  | .delete k e => ((.write (doDelete c s k e env.faults).1), (doDelete c s k e env.faults).2)
  | .compact r => ((.compact (doCompact c s r env.mask).1), (doCompact c s r env.mask).2)
  | .get k r => (.get (doGet c s k r).1 (doGet c s k r).2, s)
  | .range k e r l => (.list (doList c s k e r l), s)
  | .count k e => (.count (doCount c s k e), s)
  | .parts k e => (.parts (doPartitions c k e), s)
  | .stream k e r => (.stream (doStream c s k e r), s)

/-- One request through a native handler. -/
def nativeStep (c : Cfg) (env : NativeEnv) (s : BState) (r : NativeReq) : NativeAns × BState :=
  match guard env r with
  | some x => (.refused x, s)
  | none => backendStep c env (preState env s r) r

end KB
