/-
  C09 — Indeterminate storage outcomes are repaired, never mis-reported.
  Model: KB.Sys with the fault oracle `Fault` on every commit (`uncApplied` / `uncNotApplied` = the
  engine answers "outcome unknown" and the batch did / did not land; `err` = a plain storage error),
  the sequencer queueing uncertain notifications, and the retry loop's rewrite (`stepRetry`), incl.
  faults on the repair write itself. Compaction capping: KB.Backend.doCompact.
-/
import KB.Lemmas.Retry
namespace KB.C09
open KB Generated KB.SysStore

/-- Never mis-reported (1): a write acknowledged as successful was applied by the engine. -/
theorem ack_ok_applied {g0 g : G} (h0 : C02.Init g0) (hr : Reachable g0 g) (d : Done) (hd : d ∈ g.done)
    (rev : Nat) (hres : d.res = .ok rev) :
    ∃ w ∈ g.wlog, w.rev = rev ∧ w.key = d.kind.key :=
  (AckInv.reachable h0 hr).ok d hd rev hres

/-- Never mis-reported (2): a request answered with a definite conflict (or not-found) applied nothing. -/
theorem conflict_not_applied {g0 g : G} (h0 : C02.Init g0) (hr : Reachable g0 g) (d : Done) (hd : d ∈ g.done)
    (hres : (∃ h kv, d.res = .condFailed h kv) ∨ (∃ h, d.res = .notFound h)) :
    ∀ w ∈ g.wlog, w.rev ≠ d.rev :=
  (AckInv.reachable h0 hr).cf d hd hres

/-- Never mis-reported (3): when the engine answers a commit with "outcome unknown", the commit-level
result the request acts on is `uncertain` — whether the batch landed or not — and the client gets that error. -/
theorem unknown_is_reported_uncertain (c : Cfg) (st : Store) (ops : List BOp) (st' : Store)
    (hok : commit c.q st ops = .ok st') (f : Fault) (hf : f = .uncApplied ∨ f = .uncNotApplied) :
    (doCommit c st ops f).1 = .uncertain ∧ commitErr (doCommit c st ops f).1 = .uncertain := by
  unfold doCommit
  rw [hok]
  rcases hf with rfl | rfl <;> exact ⟨rfl, rfl⟩

/-- Later requests keep flowing: C04's accounting holds under every placement of faults (its theorems
quantify over all `Fault`s); restated here for the retry loop's own revisions. -/
theorem retry_revision_resolved (g : G) (f : Fault) (w : WEvent) (rest : List WEvent) (hq : g.retryQ = w :: rest)
    (hd : (stepRetry g f).dealt = g.dealt + 1) :
    ∃ s ∈ (stepRetry g f).slots, s.rev = g.dealt + 1 := by
  revert hd
  apply stepRetry_cases (P := fun g' => g'.dealt = g.dealt + 1 → ∃ s ∈ g'.slots, s.rev = g.dealt + 1)
  · intro h; omega
  · intro _ h; simp at h
  · intro w rest q val r st _ _ _ _
    refine ⟨{ w with rev := g.dealt + 1, valid := r == .ok, uncertain := r == .uncertain }, ?_, rfl⟩
    simp [G.notify]

/-- Compaction does not advance past the unresolved revision. -/
theorem compaction_capped (c : Cfg) (s : BState) (rev : Nat) (mask : Nat → DelOutcome) (w : WEvent)
    (rest : List WEvent) (hq : s.retryQ = w :: rest) (R : Nat) (h : (doCompact c s rev mask).1 = .ok R) :
    R ≤ w.rev - 1 := by
  unfold doCompact at h
  simp only [hq, List.head?_cons] at h
  generalize (if (rev == 0 || decide (rev > s.committed)) = true then s.committed else rev) = rev' at h
  generalize (List.foldl (β := Bytes × Bytes) (α := BState × Nat × Bool) _ _ (pairs (compactBorders c))) = x at h
  obtain ⟨_, _, pan⟩ := x
  cases pan with
  | true => simp at h
  | false =>
    simp only [Bool.false_eq_true, if_false, ScanRes.ok.injEq] at h
    subst h
    exact Nat.min_le_left _ _

/-- The oldest unresolved revision stays at the head: whatever the repair write returns except success
or a failed condition, the entry is still queued (so compaction stays capped and the repair is retried). -/
theorem unrepaired_stays_queued (g : G) (f : Fault) (w : WEvent) (rest : List WEvent) (hq : g.retryQ = w :: rest)
    (val : Bytes) (hget : getInternal g.cfg g.store w.key 0 = some (val, w.rev)) (hne : val ≠ [])
    (hf : f = .uncApplied ∨ f = .uncNotApplied ∨ f = .err)
    (hcommit : ∃ st', commit g.cfg.q g.store
        [BOp.cas (idxKey w.key) (be8 (g.dealt + 1) ++ (if isTomb val then [0] else []))
           (be8 w.rev ++ (if isTomb val then [0] else [])), BOp.put (encode w.key (g.dealt + 1)) val] = .ok st') :
    (stepRetry g f).retryQ = w :: rest := by
  obtain ⟨st', hc⟩ := hcommit
  have hl : (val.length == 0) = false := by
    cases val with
    | nil => exact absurd rfl hne
    | cons _ _ => rfl
  unfold stepRetry
  simp only [hq, hget, hl, bne_self_eq_false, Bool.or_self, Bool.false_eq_true, if_false]
  unfold doCommit
  simp only [hc]
  rcases hf with rfl | rfl | rfl <;> simp [G.notify, G.logWrite, applied, CommitRes.isCas] <;> (split <;> rfl)

/-- The last applied write of a key, as the ghost log has it. -/
def lastWrite (l : List WLog) (k : Bytes) : Option (Nat × Option Bytes) :=
  ((l.filter (fun w => w.key == k)).getLast?).map (fun w => (w.rev, w.val))

/-- The last event emitted for a key. -/
def lastEvent (l : List Event) (k : Bytes) : Option (Nat × Bool) :=
  ((l.filter (fun e => e.key == k)).getLast?).map (fun e => (e.rev, e.verb == .delete))

/-- Quiescence: nothing in flight, nothing waiting for the sequencer, retry queue drained. -/
def Quiescent (g : G) : Prop := g.clients = [] ∧ g.slots = [] ∧ g.retryQ = []

/-- Values a client may write in this theorem: non-empty and not the reserved deletion marker. -/
def ValuesOK (sched : List Action) : Prop :=
  ∀ a ∈ sched, (∀ id k v, a = .begin id (.create k v) → v ≠ [] ∧ v ≠ tombstone) ∧
               (∀ id k v e, a = .begin id (.update k v e) → v ≠ [] ∧ v ≠ tombstone)

/-- Counterexample to `convergence` as stated. Keys `"2"` and `"2$\0\0\0\0\0\0\0\5"`: every internal key
of the second lies between the internal keys `("2", 5)` and `("2", 6)` of the first. Request 1 creates `"2"`
at revision 1 with outcome "unknown, applied"; request 2 creates the other key at revision 2. The sequencer
queues revision 1 for repair and emits revision 2. The retry loop reads the newest version of `"2"`: the
descending iteration from `("2", 2^64-1)` first meets a record of the other key, decode-and-compare fails,
the read answers "not found" and the queue entry is dropped. The state is quiescent, the last applied write
of `"2"` is revision 1, and no event for `"2"` was ever emitted. -/
def cexSched : List Action :=
  [ .begin 1 (.create [50] [1]), .step 1 .none, .begin 2 (.create [50, 36, 0, 0, 0, 0, 0, 0, 0, 5] [1]),
    .step 2 .none, .step 2 .none, .step 1 .uncApplied, .seq, .seq, .retry .none ]

theorem convergence_counterexample :
    C02.Init {} ∧ ({} : G).store = [] ∧ ({} : G).emitted = [] ∧ ValuesOK cexSched ∧ Quiescent (run {} cexSched) ∧
      (run {} cexSched).dealt < 2 ^ 64 ∧
      (lastWrite (run {} cexSched).wlog [50]).map (fun p => (p.1, p.2.isNone)) = some (1, false) ∧
      lastEvent (run {} cexSched).emitted [50] = none ∧
      (run {} cexSched).done.map (·.res) = [.ok 2, .error .uncertain] := by
  refine ⟨⟨by decide, rfl, rfl, rfl⟩, rfl, rfl, ?_, ⟨by decide, by decide, by decide⟩, by decide, by decide,
    by decide, by decide⟩
  intro a ha
  simp only [cexSched, List.mem_cons, List.not_mem_nil, or_false] at ha
  rcases ha with rfl | rfl | rfl | rfl | rfl | rfl | rfl | rfl | rfl <;>
    refine ⟨?_, ?_⟩ <;> (intros; rename_i e; cases e) <;> decide

/-- Convergence, for keys over the documented alphabet (every byte above the split byte): once the engine
answers again and the queue has drained, store and watch stream agree — for every key the last write the
engine applied is the last event handed to the watchers (same revision, same kind), whatever unknown-outcome
faults occurred and whether or not they landed. -/
theorem convergence {g0 : G} (h0 : C02.Init g0) (hs : g0.store = []) (hem : g0.emitted = [])
    (sched : List Action) (hv : ValuesOK sched)
    (hal : ∀ a ∈ sched, ∀ id kind, a = .begin id kind → Alphabet kind.key)
    (hq : Quiescent (run g0 sched))
    (hb : (run g0 sched).dealt < 2 ^ 64) (k : Bytes) :
    (lastWrite (run g0 sched).wlog k).map (fun p => (p.1, p.2.isNone)) = lastEvent (run g0 sched).emitted k := by
  have hok : ∀ a ∈ sched, ActOK a := by
    intro a ha id kind e
    refine ⟨hal a ha id kind e, ?_⟩
    intro v hw
    cases kind with
    | create k' v' =>
      simp only [ReqKind.wval, Option.some.injEq] at hw
      subst hw
      exact (hv a ha).1 id k' v' e
    | update k' v' ex =>
      simp only [ReqKind.wval, Option.some.injEq] at hw
      subst hw
      exact (hv a ha).2 id k' v' ex e
    | delete k' ex => cases hw
  have hcv := Cv.run h0 hs hem sched hok hb
  have ctx := Ctx.reachable h0 hs ⟨sched, rfl⟩
  have := hcv.converged ctx hb hq.2.1 hq.2.2 k
  simp only [lastWrite, lastEvent, Option.map_map]
  exact this

end KB.C09
