/-
  C09 — Indeterminate storage outcomes are repaired, never mis-reported.
  Model: KB.Sys with the fault oracle `Fault` on every commit (`uncApplied` / `uncNotApplied` = the
  engine answers "outcome unknown" and the batch did / did not land; `err` = a plain storage error),
  the sequencer queueing uncertain notifications, and the retry loop's rewrite (`stepRetry`), incl.
  faults on the repair write itself. Compaction capping: KB.Backend.doCompact.
-/
import KB.Lemmas.Retry
namespace KB.C09
open KB Generated

/-- Never mis-reported (1): a write acknowledged as successful was applied by the engine. -/
theorem ack_ok_applied {g0 g : G} (h0 : C02.Init g0) (hr : Reachable g0 g) (d : Done) (hd : d ∈ g.done)
    (rev : Nat) (hres : d.res = .ok rev) :
    ∃ w ∈ g.wlog, w.rev = rev ∧ w.key = d.kind.key := by
  sorry

/-- Never mis-reported (2): a request answered with a definite conflict (or not-found) applied nothing. -/
theorem conflict_not_applied {g0 g : G} (h0 : C02.Init g0) (hr : Reachable g0 g) (d : Done) (hd : d ∈ g.done)
    (hres : (∃ h kv, d.res = .condFailed h kv) ∨ (∃ h, d.res = .notFound h)) :
    ∀ w ∈ g.wlog, w.rev ≠ d.rev := by
  sorry

/-- Never mis-reported (3): when the engine answers a commit with "outcome unknown", the commit-level
result the request acts on is `uncertain` — whether the batch landed or not — and the client gets that error. -/
theorem unknown_is_reported_uncertain (c : Cfg) (st : Store) (ops : List BOp) (st' : Store)
    (hok : commit c.q st ops = .ok st') (f : Fault) (hf : f = .uncApplied ∨ f = .uncNotApplied) :
    (doCommit c st ops f).1 = .uncertain ∧ commitErr (doCommit c st ops f).1 = .uncertain := by
  sorry

/-- Later requests keep flowing: C04's accounting holds under every placement of faults (its theorems
quantify over all `Fault`s); restated here for the retry loop's own revisions. -/
theorem retry_revision_resolved (g : G) (f : Fault) (w : WEvent) (rest : List WEvent) (hq : g.retryQ = w :: rest)
    (hd : (stepRetry g f).dealt = g.dealt + 1) :
    ∃ s ∈ (stepRetry g f).slots, s.rev = g.dealt + 1 := by
  sorry

/-- Compaction does not advance past the unresolved revision. -/
theorem compaction_capped (c : Cfg) (s : BState) (rev : Nat) (mask : Nat → DelOutcome) (w : WEvent)
    (rest : List WEvent) (hq : s.retryQ = w :: rest) (R : Nat) (h : (doCompact c s rev mask).1 = .ok R) :
    R ≤ w.rev - 1 := by
  sorry

/-- The oldest unresolved revision stays at the head: whatever the repair write returns except success
or a failed condition, the entry is still queued (so compaction stays capped and the repair is retried). -/
theorem unrepaired_stays_queued (g : G) (f : Fault) (w : WEvent) (rest : List WEvent) (hq : g.retryQ = w :: rest)
    (val : Bytes) (hget : getInternal g.cfg g.store w.key 0 = some (val, w.rev)) (hne : val ≠ [])
    (hf : f = .uncApplied ∨ f = .uncNotApplied ∨ f = .err)
    (hcommit : ∃ st', commit g.cfg.q g.store
        [BOp.cas (idxKey w.key) (be8 (g.dealt + 1) ++ (if isTomb val then [0] else []))
           (be8 w.rev ++ (if isTomb val then [0] else [])), BOp.put (encode w.key (g.dealt + 1)) val] = .ok st') :
    (stepRetry g f).retryQ = w :: rest := by
  sorry

/-- The last applied write of a key, as the ghost log has it. -/
def lastWrite (l : List WLog) (k : Bytes) : Option (Nat × Option Bytes) :=
  ((l.filter (fun w => w.key == k)).getLast?).map (fun w => (w.rev, w.val))

/-- The last event emitted for a key. -/
def lastEvent (l : List Event) (k : Bytes) : Option (Nat × Bool) :=
  ((l.filter (fun e => e.key == k)).getLast?).map (fun e => (e.rev, e.verb == .delete))

/-- Quiescence: nothing in flight, nothing waiting for the sequencer, retry queue drained. -/
def Quiescent (g : G) : Prop := g.clients = [] ∧ g.slots = [] ∧ g.retryQ = []

/-- Values a client may write in this theorem: non-empty and not the reserved deletion marker. -/
def ValuesOK (sched : List Action) : Prop :=
  ∀ a ∈ sched, (∀ id k v, a = .begin id (.create k v) → v ≠ [] ∧ v ≠ tombstone) ∧
               (∀ id k v e, a = .begin id (.update k v e) → v ≠ [] ∧ v ≠ tombstone)

/-- Convergence: once the engine answers again and the queue has drained, store and watch stream
agree — for every key the last write the engine applied is the last event handed to the watchers
(same revision, same kind), whatever unknown-outcome faults occurred and whether or not they landed.
Hence replaying the delivered events over the initial snapshot yields the final state. -/
theorem convergence {g0 : G} (h0 : C02.Init g0) (hs : g0.store = []) (hem : g0.emitted = [])
    (sched : List Action) (hv : ValuesOK sched) (hq : Quiescent (run g0 sched))
    (hb : (run g0 sched).dealt < 2 ^ 64) (k : Bytes) :
    (lastWrite (run g0 sched).wlog k).map (fun p => (p.1, p.2.isNone)) = lastEvent (run g0 sched).emitted k := by
  sorry

end KB.C09
