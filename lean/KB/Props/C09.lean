/-
  C09 — Indeterminate storage outcomes are repaired, never mis-reported.
  Model: KB.Sys with the fault oracle `Fault` on every commit (`uncApplied` / `uncNotApplied` = the
  engine answers "outcome unknown" and the batch did / did not land; `err` = a plain storage error),
  the sequencer queueing uncertain notifications, and the retry loop's rewrite, incl. faults on the repair
  write itself. The repair is NOT atomic: `stepRetryRead` (read the key's latest value, deal a revision) and
  `stepRetryCommit` (compare-and-swap commit, notification, pop / keep) are separate steps between which
  client requests run (`Action.retry f` = both back to back). Compaction capping: KB.Backend.doCompact.
-/
import KB.Lemmas.Retry
namespace KB.C09
open KB Generated KB.SysStore

/-- Never mis-reported (1): a write acknowledged as successful was applied by the engine. -/
theorem ack_ok_applied {g0 g : G} (h0 : C02.Init g0) (hr : Reachable g0 g) (d : Done) (hd : d ∈ g.done)
    (rev : Nat) (hres : d.res = .ok rev) :
    ∃ w ∈ g.wlog, w.rev = rev ∧ w.key = d.kind.key :=
  (AckInv.reachable h0 hr).ok d hd rev hres

/-- Never mis-reported (2): a request answered with a definite conflict (or not-found) applied nothing. -/
theorem conflict_not_applied {g0 g : G} (h0 : C02.Init g0) (hr : Reachable g0 g) (d : Done) (hd : d ∈ g.done)
    (hres : (∃ h kv, d.res = .condFailed h kv) ∨ (∃ h, d.res = .notFound h)) :
    ∀ w ∈ g.wlog, w.rev ≠ d.rev :=
  (AckInv.reachable h0 hr).cf d hd hres

/-- Never mis-reported (3): when the engine answers a commit with "outcome unknown", the commit-level
result the request acts on is `uncertain` — whether the batch landed or not — and the client gets that error. -/
theorem unknown_is_reported_uncertain (c : Cfg) (st : Store) (ops : List BOp) (st' : Store)
    (hok : commit c.q st ops = .ok st') (f : Fault) (hf : f = .uncApplied ∨ f = .uncNotApplied) :
    (doCommit c st ops f).1 = .uncertain ∧ commitErr (doCommit c st ops f).1 = .uncertain := by
  unfold doCommit
  rw [hok]
  rcases hf with rfl | rfl <;> exact ⟨rfl, rfl⟩

/-- Later requests keep flowing: C04's accounting holds under every placement of faults (its theorems
quantify over all `Fault`s, and count the revision the retry loop holds between its two steps as in flight);
restated here for the retry loop's own revisions. A whole `retry()` that deals a revision reports it. -/
theorem retry_revision_resolved (g : G) (f : Fault) (w : WEvent) (rest : List WEvent) (hq : g.retryQ = w :: rest)
    (hd : (stepRetry g f).dealt = g.dealt + 1) :
    ∃ s ∈ (stepRetry g f).slots, s.rev = g.dealt + 1 := by
  revert hd
  unfold stepRetry
  apply stepRetryRead_cases (P := fun g1 => (stepRetryCommit g1 f).dealt = g.dealt + 1 →
    ∃ s ∈ (stepRetryCommit g1 f).slots, s.rev = g.dealt + 1)
  · intro p _ h
    rw [stepRetryCommit_dealt] at h
    omega
  · intro _ h; rw [hq] at h; cases h
  · intro w' rest' _ _ _ h
    rw [stepRetryCommit_dealt] at h
    simp at h
  · intro w' rest' val _ _ _ _ _ _
    simp [stepRetryCommit, G.notify]
  · intro _ _ h
    rw [stepRetryCommit_dealt] at h
    omega

/-- ... and split: whatever happened since the retry loop's read (any client steps in between), its commit
step — with every outcome: success, lost compare-and-swap, storage error, unknown outcome — reports the
revision it holds to the sequencer and leaves the loop at the top of `retry()`. -/
theorem retry_commit_resolves {g0 g : G} (h0 : C02.Init g0) (hr : Reachable g0 g) (f : Fault) (p : RetryPc)
    (hp : g.retryPc = some p) :
    (∃ s ∈ (stepRetryCommit g f).slots, s.rev = p.rev ∧ s.key = p.w.key) ∧ (stepRetryCommit g f).retryPc = none ∧
      (stepRetryCommit g f).dealt = g.dealt := by
  have hpos : p.rev ≠ 0 := by
    have := (C04.committed_lt_repair h0.1 hr p.rev (by simp [C04.repairRev, hp])).1
    omega
  refine ⟨?_, ?_, stepRetryCommit_dealt g f⟩
  · simp [stepRetryCommit, hp, G.notify, hpos]
  · apply stepRetryCommit_cases (P := fun g' => g'.retryPc = none)
    · intro hn; exact hn
    · intros; simp

/-- While the retry loop holds its revision the read revision stays below it (it blocks the sequencer exactly
like a client's dealt revision) — and it is the revision of no applied write and of no request. -/
theorem repair_revision_in_flight {g0 g : G} (h0 : C02.Init g0) (hs : C02.StoreOK g0) (hr : Reachable g0 g)
    (p : RetryPc) (hp : g.retryPc = some p) :
    g.committed < p.rev ∧ p.rev ≤ g.dealt ∧ p.w.rev < p.rev ∧ (∀ w ∈ g.wlog, w.rev ≠ p.rev) ∧
      (∀ s ∈ g.slots, s.rev ≠ p.rev) ∧ (∀ c ∈ g.clients, C04.inflightRev c ≠ some p.rev) ∧
      (∀ d ∈ g.done, d.rev ≠ p.rev) := by
  obtain ⟨hv, hd⟩ := C02.finv h0 hr
  have hrpc : g.view.rpc = some p.rev := by simp [G.view, hp]
  obtain ⟨hfr, hlt⟩ := (SInv.reachable h0 hs hr).rp p hp
  refine ⟨(hv.rpcR _ hrpc).1, (hv.rpcR _ hrpc).2, hlt, hfr.2.2, ?_, ?_, ?_⟩
  · intro s hsm e; exact hv.rpcSlot s hsm (by rw [hrpc, e])
  · intro c hc e; rw [C04.inflightRev_eq] at e; exact hv.rpcInfl c hc _ e hrpc
  · intro d hdm e; exact hd.dRpc d hdm (by rw [hrpc, e])

/-- The new path of the non-atomic repair: a client write landed between the repair's read and its commit,
so the index record of the key is no longer the one the repair read (`cur ≠ …`). Then the compare-and-swap
fails, whatever fault is injected: nothing is written (the client's write stays intact), the revision the
repair was dealt is reported as a definite invalid one (not `uncertain`: the sequencer will skip it without
queueing it again), the head of the queue is popped and the loop is back at the top of `retry()`. -/
theorem repair_loses_to_client_write (g : G) (f : Fault) (p : RetryPc) (hp : g.retryPc = some p) (h0 : p.rev ≠ 0)
    (cur : Bytes) (hcur : g.store.get (idxKey p.w.key) = some cur)
    (hne : cur ≠ be8 p.w.rev ++ (if isTomb p.val then [0] else [])) :
    (stepRetryCommit g f).store = g.store ∧ (stepRetryCommit g f).wlog = g.wlog ∧
      (stepRetryCommit g f).hist = g.hist ∧
      (stepRetryCommit g f).retryQ = g.retryQ.drop 1 ∧ (stepRetryCommit g f).retryPc = none ∧
      (stepRetryCommit g f).dealt = g.dealt ∧ (stepRetryCommit g f).clients = g.clients ∧
      (stepRetryCommit g f).slots = g.slots ++ [{ p.w with rev := p.rev, valid := false, uncertain := false }] := by
  have hc : ∃ i cv, (doCommit g.cfg g.store
      [BOp.cas (idxKey p.w.key) (be8 p.rev ++ if isTomb p.val then [0] else []) (be8 p.w.rev ++ if isTomb p.val then [0] else []),
       BOp.put (encode p.w.key p.rev) p.val] f) = (.conflict i cv, g.store) := by
    simp only [doCommit, commit, applyOps, applyOp, hcur, if_neg hne]
    exact ⟨_, _, rfl⟩
  obtain ⟨i, cv, hc⟩ := hc
  simp only [stepRetryCommit, hp, hc]
  simp [applied, CommitRes.isCas, G.notify, h0]

/-- ... and the sequencer then passes over that revision: it neither emits an event for it nor queues it. -/
theorem lost_repair_revision_skipped (g : G) (s : WEvent) (hs : g.slots.find? (fun w => w.rev == g.committed + 1) = some s)
    (hv : s.valid = false) (hu : s.uncertain = false) :
    (stepSeq g).committed = g.committed + 1 ∧ (stepSeq g).emitted = g.emitted ∧ (stepSeq g).retryQ = g.retryQ ∧
      (stepSeq g).store = g.store := by
  have hr : s.rev = g.committed + 1 := by simpa using List.find?_some hs
  simp [stepSeq, hs, hv, hu, hr]

/-- Compaction does not advance past the unresolved revision. -/
theorem compaction_capped (c : Cfg) (s : BState) (rev : Nat) (mask : Nat → DelOutcome) (w : WEvent)
    (rest : List WEvent) (hq : s.retryQ = w :: rest) (R : Nat) (h : (doCompact c s rev mask).1 = .ok R) :
    R ≤ w.rev - 1 := by
  unfold doCompact at h
  simp only [hq, List.head?_cons] at h
  generalize (if (rev == 0 || decide (rev > s.committed)) = true then s.committed else rev) = rev' at h
  generalize (List.foldl (β := Bytes × Bytes) (α := BState × Nat × Bool) _ _ (pairs (compactBorders c))) = x at h
  obtain ⟨_, _, pan⟩ := x
  cases pan with
  | true => simp at h
  | false =>
    simp only [Bool.false_eq_true, if_false, ScanRes.ok.injEq] at h
    subst h
    exact Nat.min_le_left _ _

/-- The oldest unresolved revision stays at the head: whatever the repair write returns except success
or a failed condition, the entry is still queued (so compaction stays capped and the repair is retried). -/
theorem unrepaired_stays_queued (g : G) (f : Fault) (p : RetryPc) (hp : g.retryPc = some p)
    (hf : f = .uncApplied ∨ f = .uncNotApplied ∨ f = .err)
    (hcommit : ∃ st', commit g.cfg.q g.store
        [BOp.cas (idxKey p.w.key) (be8 p.rev ++ (if isTomb p.val then [0] else []))
           (be8 p.w.rev ++ (if isTomb p.val then [0] else [])), BOp.put (encode p.w.key p.rev) p.val] = .ok st') :
    (stepRetryCommit g f).retryQ = g.retryQ := by
  obtain ⟨st', hc⟩ := hcommit
  unfold stepRetryCommit
  simp only [hp]
  unfold doCommit
  simp only [hc]
  rcases hf with rfl | rfl | rfl <;> simp [G.logWrite, applied, CommitRes.isCas] <;> (split <;> rfl)

/-- The same for a whole `retry()` (read and commit back to back). -/
theorem unrepaired_stays_queued_atomic (g : G) (f : Fault) (w : WEvent) (rest : List WEvent) (hq : g.retryQ = w :: rest)
    (hn : g.retryPc = none)
    (val : Bytes) (hget : getInternal g.cfg g.store w.key 0 = some (val, w.rev)) (hne : val ≠ [])
    (hf : f = .uncApplied ∨ f = .uncNotApplied ∨ f = .err)
    (hcommit : ∃ st', commit g.cfg.q g.store
        [BOp.cas (idxKey w.key) (be8 (g.dealt + 1) ++ (if isTomb val then [0] else []))
           (be8 w.rev ++ (if isTomb val then [0] else [])), BOp.put (encode w.key (g.dealt + 1)) val] = .ok st') :
    (stepRetry g f).retryQ = w :: rest := by
  have hl : (val.length == 0) = false := by
    cases val with
    | nil => exact absurd rfl hne
    | cons _ _ => rfl
  by_cases hwf : g.windowFull = true
  · -- `Deal` refuses: the repair is not even attempted, the head stays
    have hread : stepRetryRead g = g := by
      unfold stepRetryRead
      simp only [hn, hq, hget, hl, bne_self_eq_false, Bool.or_self, Bool.false_eq_true, if_false, hwf, if_true]
    unfold stepRetry
    rw [hread]
    simp [stepRetryCommit, hn, hq]
  have hread : stepRetryRead g = { g with dealt := g.dealt + 1, retryPc := some { w := w, rev := g.dealt + 1, val := val } } := by
    unfold stepRetryRead
    simp only [hn, hq, hget, hl, bne_self_eq_false, Bool.or_self, Bool.false_eq_true, if_false, hwf]
  unfold stepRetry
  rw [hread, ← hq]
  exact unrepaired_stays_queued _ f { w := w, rev := g.dealt + 1, val := val } rfl hf hcommit

/-- The last applied write of a key, as the ghost log has it. -/
def lastWrite (l : List WLog) (k : Bytes) : Option (Nat × Option Bytes) :=
  ((l.filter (fun w => w.key == k)).getLast?).map (fun w => (w.rev, w.val))

/-- The last event emitted for a key. -/
def lastEvent (l : List Event) (k : Bytes) : Option (Nat × Bool) :=
  ((l.filter (fun e => e.key == k)).getLast?).map (fun e => (e.rev, e.verb == .delete))

/-- Quiescence: nothing in flight, nothing waiting for the sequencer, retry queue drained. -/
def Quiescent (g : G) : Prop := g.clients = [] ∧ g.slots = [] ∧ g.retryQ = []

/-- Values a client may write in this theorem: non-empty and not the reserved deletion marker. -/
def ValuesOK (sched : List Action) : Prop :=
  ∀ a ∈ sched, (∀ id k v, a = .begin id (.create k v) → v ≠ [] ∧ v ≠ tombstone) ∧
               (∀ id k v e, a = .begin id (.update k v e) → v ≠ [] ∧ v ≠ tombstone)

/-- Counterexample to `convergence` as stated. Keys `"2"` and `"2$\0\0\0\0\0\0\0\5"`: every internal key
of the second lies between the internal keys `("2", 5)` and `("2", 6)` of the first. Request 1 creates `"2"`
at revision 1 with outcome "unknown, applied"; request 2 creates the other key at revision 2. The sequencer
queues revision 1 for repair and emits revision 2. The retry loop reads the newest version of `"2"`: the
descending iteration from `("2", 2^64-1)` first meets a record of the other key, decode-and-compare fails,
the read answers "not found" and the queue entry is dropped. The state is quiescent, the last applied write
of `"2"` is revision 1, and no event for `"2"` was ever emitted. -/
def cexSched : List Action :=
  [ .begin 1 (.create [50] [1]), .step 1 .none, .begin 2 (.create [50, 36, 0, 0, 0, 0, 0, 0, 0, 5] [1]),
    .step 2 .none, .step 2 .none, .step 1 .uncApplied, .seq, .seq, .retry .none ]

theorem convergence_counterexample :
    C02.Init {} ∧ ({} : G).store = [] ∧ ({} : G).emitted = [] ∧ ValuesOK cexSched ∧ Quiescent (run {} cexSched) ∧
      (run {} cexSched).dealt < 2 ^ 64 ∧
      (lastWrite (run {} cexSched).wlog [50]).map (fun p => (p.1, p.2.isNone)) = some (1, false) ∧
      lastEvent (run {} cexSched).emitted [50] = none ∧
      (run {} cexSched).done.map (·.res) = [.ok 2, .error .uncertain] := by
  refine ⟨⟨by decide, rfl, rfl, rfl⟩, rfl, rfl, ?_, ⟨by decide, by decide, by decide⟩, by decide, by decide,
    by decide, by decide⟩
  intro a ha
  simp only [cexSched, List.mem_cons, List.not_mem_nil, or_false] at ha
  rcases ha with rfl | rfl | rfl | rfl | rfl | rfl | rfl | rfl | rfl <;>
    refine ⟨?_, ?_⟩ <;> (intros; rename_i e; cases e) <;> decide

/-- The interleaving the atomic model could not reach, end to end: request 1 creates `"a"` at revision 1 with
outcome "unknown, applied"; the sequencer queues revision 1; the retry loop reads (`"a"` is still at revision 1)
and is dealt revision 2; request 2 updates `"a"` conditioned on revision 1 and succeeds at revision 3 — its slot
waits behind revision 2; the repair commits: its compare-and-swap fails. The sequencer then skips revision 2,
emits revision 3; the queue is empty, the state quiescent and converged; the client's value is what the store holds. -/
def lostSched : List Action :=
  [ .begin 1 (.create [97] [1]), .step 1 .none, .step 1 .uncApplied, .seq, .retryRead,
    .begin 2 (.update [97] [2] 1), .step 2 .none, .step 2 .none ]

theorem lost_cas_example :
    let g := run {} lostSched
    let g' := run g [.retryCommit .none, .seq, .seq]
    g.committed = 1 ∧ g.dealt = 3 ∧ (g.retryPc.map (·.rev)) = some 2 ∧ g.slots.map (·.rev) = [3] ∧
      (act g .seq).committed = 1 ∧
      g.done.map (·.res) = [.error .uncertain, .ok 3] ∧
      g'.clients = [] ∧ g'.slots = [] ∧ g'.retryQ = [] ∧ g'.retryPc = none ∧ g'.committed = 3 ∧ g'.emitted.map (fun e => (e.rev, e.key, e.val)) = [(3, [97], [2])] ∧
      (lastWrite g'.wlog [97]).map (fun p => (p.1, p.2.isNone)) = lastEvent g'.emitted [97] ∧
      getInternal g'.cfg g'.store [97] 0 = some ([2], 3) := by
  decide

/-- Convergence, for keys over the documented alphabet (every byte above the split byte): once the engine
answers again and the queue has drained, store and watch stream agree — for every key the last write the
engine applied is the last event handed to the watchers (same revision, same kind), whatever unknown-outcome
faults occurred and whether or not they landed. -/
theorem convergence {g0 : G} (h0 : C02.Init g0) (hs : g0.store = []) (hem : g0.emitted = [])
    (sched : List Action) (hv : ValuesOK sched)
    (hal : ∀ a ∈ sched, ∀ id kind, a = .begin id kind → Alphabet kind.key)
    (hq : Quiescent (run g0 sched))
    (hb : (run g0 sched).dealt < 2 ^ 64) (k : Bytes) :
    (lastWrite (run g0 sched).wlog k).map (fun p => (p.1, p.2.isNone)) = lastEvent (run g0 sched).emitted k := by
  have hok : ∀ a ∈ sched, ActOK a := by
    intro a ha id kind e
    refine ⟨hal a ha id kind e, ?_⟩
    intro v hw
    cases kind with
    | create k' v' =>
      simp only [ReqKind.wval, Option.some.injEq] at hw
      subst hw
      exact (hv a ha).1 id k' v' e
    | update k' v' ex =>
      simp only [ReqKind.wval, Option.some.injEq] at hw
      subst hw
      exact (hv a ha).2 id k' v' ex e
    | delete k' ex => cases hw
  have hcv := Cv.run h0 hs hem sched hok hb
  have ctx := Ctx.reachable h0 hs ⟨sched, rfl⟩
  have := hcv.converged ctx hb hq.2.1 hq.2.2 k
  simp only [lastWrite, lastEvent, Option.map_map]
  exact this

end KB.C09
