/-
  Structural facts for C19 — regenerated from the source (harness/cmd/kbextract/order.go →
  KB/Generated/OrderFacts.lean), for a location the lock table does not track.
-/
import KB.Generated.OrderFacts
namespace KB.OrderC19
open KB.Generated

/-- C19: the goroutine started by `etcdProxy.Watch` (it outlives the read lock) does not read the shared field
`e.client`, which the leader-check loop replaces under the write lock; it uses the client captured under the lock. -/
theorem proxy_watch_goroutine_avoids_shared_client : proxyWatchGoroutineAvoidsSharedClient = true := by decide

end KB.OrderC19
