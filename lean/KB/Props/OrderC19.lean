/-
  Structural facts for C19 — regenerated from the source (harness/cmd/kbextract/order.go →
  KB/Generated/OrderFacts.lean), for a location the lock table does not track.
-/
import KB.Generated.OrderFacts
namespace KB.OrderC19
open KB.Generated

/-- C19: the goroutine started by `etcdProxy.Watch` (it outlives the read lock) does not read the shared field
`e.client`, which the leader-check loop replaces under the write lock; it uses the client captured under the lock. -/
theorem proxy_watch_goroutine_avoids_shared_client : proxyWatchGoroutineAvoidsSharedClient = true := by decide

/-- C19 / C20 (no request can wedge a node): no method of the node's own code calls, while it holds a mutex of its receiver
(read or write), another method of that receiver which acquires the same mutex - `sync.Mutex` and the read side of
`sync.RWMutex` are not re-entrant (a writer arriving between two nested read locks blocks the second one for good). The
scan is not vacuous: it looked at more than a hundred methods. -/
theorem no_reentrant_lock_acquisition : lockReentrantCalls = [] ∧ 100 < lockReentrantMethodsScanned := by decide

end KB.OrderC19
