/-
  C06 — List-then-watch reconstructs the store.
  (1) the pure specification lemma over histories; (2) the sequential backend model refines the
  history: after any sequence of requests the store read at R is the snapshot of the acknowledged
  writes at R and the events handed to watchers are exactly those writes in revision order; hence
  (3) a range read served at R plus the events (R, R'] gives the range read at R'.
  Concurrency is covered by C04 (the header revision is the committed revision, which only advances
  when all smaller revisions are resolved), C01/C02 (per-key chain) and C05 (delivery).
-/
import KB.Lemmas.Hist
namespace KB.C06
open KB Generated

/-- A history as the spec sees it: strictly increasing revisions. -/
def HistSorted (h : List HWrite) : Prop := h.Pairwise (fun a b => a.rev < b.rev)

/-- Specification lemma: applying the events (R, R'] to the snapshot at R yields the snapshot at R'. -/
theorem apply_events_snapshot (h : List HWrite) (hs : HistSorted h) (R R' : Nat) (hR : R ≤ R') :
    (eventsBetween h (R + 1) R').foldl Snap.apply (snapshotAt h R) = snapshotAt h R' := by
  exact snapshot_events h hs R R' hR

/-- Restricting to a key range commutes with applying events: a client that lists `[a, b)` and
watches the same range reconstructs exactly the range at R'. -/
theorem apply_events_range (h : List HWrite) (hs : HistSorted h) (R R' : Nat) (hR : R ≤ R') (p : Bytes → Bool) :
    ((eventsBetween h (R + 1) R').filter (fun w => p w.key)).foldl Snap.apply
        ((snapshotAt h R).filter (fun e => p e.1)) =
      (snapshotAt h R').filter (fun e => p e.1) := by
  rw [foldl_apply_filter, snapshot_events h hs R R' hR]

/-- Sequential client requests (no storage faults). -/
inductive Op where
  | create (k v : Bytes)
  | update (k v : Bytes) (exp : Nat)
  | delete (k : Bytes) (exp : Nat)
  deriving Repr, DecidableEq

def Op.key : Op → Bytes
  | .create k _ => k
  | .update k _ _ => k
  | .delete k _ => k

/-- Run one request; record the write in the history iff it was acknowledged as successful. -/
def runOp (c : Cfg) (sh : BState × List HWrite) (op : Op) : BState × List HWrite :=
  match op with
  | .create k v =>
    match doCreate c sh.1 k v [] with
    | (.ok rev, s') => (s', sh.2 ++ [{ key := k, rev := rev, val := some v }])
    | (_, s') => (s', sh.2)
  | .update k v e =>
    match doUpdate c sh.1 k v e [] with
    | (.ok rev, s') => (s', sh.2 ++ [{ key := k, rev := rev, val := some v }])
    | (_, s') => (s', sh.2)
  | .delete k e =>
    match doDelete c sh.1 k e [] with
    | (.ok rev, s') => (s', sh.2 ++ [{ key := k, rev := rev, val := none }])
    | (_, s') => (s', sh.2)

def runOps (c : Cfg) (s0 : BState) (ops : List Op) : BState × List HWrite := ops.foldl (runOp c) (s0, [])

/-- Well-formed requests: keys over the alphabet, values that are not the reserved deletion marker. -/
def OpsOK (ops : List Op) : Prop :=
  ∀ op ∈ ops, Alphabet op.key ∧ (∀ k v, op = .create k v → v ≠ tombstone) ∧ (∀ k v e, op = .update k v e → v ≠ tombstone)

/-- An empty backend whose revision counter starts at `init`. -/
def fresh (init cache : Nat) : BState := { ring := Ring.new cache, dealt := init, committed := init }

/-! Bridge to `KB.Lemmas.Hist`: every request is one `HStep`, so a request sequence is a `Run`. -/

/-- the value a request writes (`none` = deletion) -/
def Op.val : Op → Option Bytes
  | .create _ v => some v
  | .update _ v _ => some v
  | .delete _ _ => none

theorem runOp_step (c : Cfg) (sh : BState × List HWrite) (op : Op) :
    HStep sh (runOp c sh op) op.key op.val := by
  obtain ⟨s, h⟩ := sh
  cases op with
  | create k v =>
    have hs := doCreate_shape c s k v
    simp only [runOp, Op.key, Op.val]
    generalize doCreate c s k v [] = res at *
    obtain ⟨r, s'⟩ := res
    cases r <;>
      exact HStep.of_shape hs (some v) rfl (by simp) (by intro v' hv; cases hv; rfl) _
        (by intro r hr; cases hr <;> rfl) (by intro hno; first | exact absurd rfl (hno _) | rfl)
  | update k v e =>
    have hs := doUpdate_shape c s k v e
    simp only [runOp, Op.key, Op.val]
    generalize doUpdate c s k v e [] = res at *
    obtain ⟨r, s'⟩ := res
    cases r <;>
      exact HStep.of_shape hs (some v) rfl (by simp) (by intro v' hv; cases hv; rfl) _
        (by intro r hr; cases hr <;> rfl) (by intro hno; first | exact absurd rfl (hno _) | rfl)
  | delete k e =>
    have hs := doDelete_shape c s k e
    simp only [runOp, Op.key, Op.val]
    generalize doDelete c s k e [] = res at *
    obtain ⟨r, s'⟩ := res
    cases r <;>
      exact HStep.of_shape hs none rfl (by simp) (by intro v' hv; cases hv) _
        (by intro r hr; cases hr <;> rfl) (by intro hno; first | exact absurd rfl (hno _) | rfl)

theorem run_foldl (c : Cfg) (init cache : Nat) (ops : List Op) (hok : OpsOK ops) (n : Nat)
    (sh : BState × List HWrite) (hr : Run init cache n sh) :
    Run init cache (n + ops.length) (ops.foldl (runOp c) sh) := by
  induction ops generalizing n sh with
  | nil => exact hr
  | cons op ops ih =>
    have hop := hok op (List.mem_cons_self ..)
    have hv : op.val ≠ some tombstone := by
      cases op with
      | create k v => intro h; cases h; exact hop.2.1 k _ rfl rfl
      | update k v e => intro h; cases h; exact hop.2.2 k _ e rfl rfl
      | delete k e => intro h; cases h
    have := ih (fun o ho => hok o (List.mem_cons_of_mem _ ho)) (n + 1) (runOp c sh op)
      (.step hr (runOp_step c sh op) hop.1 hv)
    simp only [List.foldl_cons, List.length_cons]
    rw [show n + (ops.length + 1) = n + 1 + ops.length by omega]
    exact this

theorem run_runOps (c : Cfg) (init cache : Nat) (ops : List Op) (hok : OpsOK ops) :
    Run init cache ops.length (runOps c (fresh init cache) ops) := by
  have := run_foldl c init cache ops hok 0 (fresh init cache, []) .zero
  simpa [runOps] using this

/-- The history of acknowledged writes is sorted by revision, and the committed revision has caught up. -/
theorem hist_sorted (c : Cfg) (init cache : Nat) (ops : List Op) (hok : OpsOK ops)
    (hb : init + ops.length < 2 ^ 64) :
    HistSorted (runOps c (fresh init cache) ops).2 ∧
    (runOps c (fresh init cache) ops).1.committed = init + ops.length := by
  have _ := hb
  have hr := (run_runOps c init cache ops hok).basic
  exact ⟨hr.2.2.1, hr.2.1⟩

/-- Store refines history: a point read at any revision R (init ≤ R) returns exactly what the
snapshot of the acknowledged writes at R holds for that key. -/
theorem store_refines_history (c : Cfg) (init cache : Nat) (ops : List Op) (hok : OpsOK ops)
    (hb : init + ops.length < 2 ^ 64) (k : Bytes) (hk : Alphabet k) (R : Nat) (hR : 0 < R) (hR2 : R < 2 ^ 64) :
    let sh := runOps c (fresh init cache) ops
    (match bget c sh.1.store k R with
     | .found v m => some (v, m)
     | .notFound _ => none) = (snapshotAt sh.2 R).get k := by
  intro sh
  exact (run_runOps c init cache ops hok).read hb c k hk R hR hR2

/-- One event per acknowledged write, same revision as the stored version, in revision order:
the events handed to the watch cache are exactly the history. -/
theorem events_are_history (c : Cfg) (init cache : Nat) (hcache : 0 < cache) (ops : List Op) (hok : OpsOK ops)
    (hb : init + ops.length < 2 ^ 64) (hfit : ops.length ≤ cache) :
    let sh := runOps c (fresh init cache) ops
    sh.1.ring.window.map (fun e => (e.rev, e.key)) = sh.2.map (fun w => (w.rev, w.key)) ∧
    (∀ e ∈ sh.1.ring.window, ∀ w ∈ sh.2, e.rev = w.rev →
        (w.val = none ↔ e.verb = .delete) ∧ (∀ v, w.val = some v → e.val = v)) := by
  have _ := hb; have _ := hcache
  exact (run_runOps c init cache ops hok).events hfit

end KB.C06
