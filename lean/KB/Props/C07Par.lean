/-
  C07Par — SEVERAL compaction workers racing each other and the writers: C07's "all interleavings" for the
  compactor as it really runs.

  scanner.go `scan` splits the range into partitions, moves the interior borders to index keys
  (`adjustPartitionsBorders`) and runs ONE GOROUTINE PER PARTITION (:268). Every worker has its own
  `lastCompactFailedRawKey`, its own iterator snapshot and its own sequence of delete calls — and all of them
  delete from the one live store, concurrently with each other and with the writers' batch commits above `R`.
  (`KB.Backend.compactRange` runs the workers one after the other; `KB.C07Race` has one worker.)

  Model. `PState` = the shared store + a list of `Worker`s (skip key, own call counter, remaining actions;
  ghost: snapshot, trace). `Step.compDel w` = worker `w` performs its next action (one `KB.runDelete` with ITS
  mask `masks w`, indexed by ITS call counter, on the SHARED store); `Step.write ops` = a writer's commit.
    * `init R parts` — all snapshots are chunks `parts` of one snapshot `parts.flatten` (tikv: all iterators
      read at the one timestamp taken before the workers are forked), no raw key in two chunks
      (`KeyDisjoint`; that is what the border adjustment gives: `chunks_keyDisjoint`, `compact_chunks`).
    * `SStep.start w` — the STAGGERED race: worker `w` takes the records of its key range `dom w` in the live
      store AT THAT MOMENT as its snapshot (memkv, badger: the iterator is created when the goroutine gets
      to run); the ranges are fixed and pairwise disjoint (`DomDisjoint`; `rangeDoms_disjoint`,
      `iterAsc_eq_proj` for ranges between index-key borders). `init` is the staggered race in which all
      workers start first (`startWorker_chunk`).

  Results, for every interleaving, ALL failure masks (any mix of ok / error / failed-condition error on
  plain deletes and compare-and-deletes of every worker, hence every crash point of every worker), every
  engine quirk set:
    * `par_compDel_invisible` (`…_staggered`)     one more call of any worker changes no read at any
                              `R' ≥ R` and no key's logical index;
    * `par_race_equals_restored` (`…_staggered`)  in the final state reads at `R' ≥ R` equal the reads of the
                              store with every removed snapshot version (of every worker's snapshot) put back;
    * `par_reduces_to_single` (`…_staggered`)     the proof: the parallel race, restricted to the raw keys of
                              worker `i` (`proj`), IS the single-worker race `KB.C07Race` of worker `i`'s calls
                              and the writer batches on its keys (`projSteps`) — calls of other workers and
                              batches on other keys do not touch these records. So every theorem of
                              `KB.C07Race` holds per key range;
    * `PInv`, `inv_init`, `step_preserves_wf` (`writer_batch_preserves_wf`, `compDel_preserves_wf`),
      `inv_explicit`; `SInv`, `sinv_init`, `sstep_preserves_wf`: the invariant.

  Hypotheses: those of `KB.C07Race` on the snapshot, `KeyDisjoint parts`. Nothing of the single-snapshot
  statements turned out false. The staggered statements need one more writer hypothesis, `IdxValOK`: no batch
  writes the deletion marker as an index VALUE — `WriterBatch.retry` allows arbitrary flag bytes, and a
  worker that snapshots such an index record deletes it unconditionally (`staggered_needs_idxValOK`). The
  backend never writes such a value. They also use `k ≠ []` of `Fresh` (a later snapshot must not contain
  the empty raw key, `KB.C07.empty_key_resurrects`).

  Not modelled: `runWithBackoffRetry` re-running `w.run` on the SAME worker after an iterator error (the
  skip key survives the retry there; `SStep.start` on a running worker starts a NEW worker, skip key empty).
-/
import KB.Lemmas.CompactPar
import KB.Lemmas.Partition
namespace KB.C07Par
open KB KB.Compact KB.Race KB.C07 KB.Par Generated
open KB.C07Race (WriterBatch Fresh RState)

/-! ### the parallel race LTS -/

structure Worker where
  /-- ghost: the snapshot this worker iterates over (`[]` = not started) -/
  snap : List Rec := []
  lastFailed : Bytes := []
  /-- this worker's own call counter: the index into ITS failure mask -/
  calls : Nat := 0
  /-- ghost: this worker's delete calls so far (`true` = compare-and-delete) -/
  trace : List DelCall := []
  /-- the remaining actions, computed from the snapshot -/
  pending : List Act
  deriving Repr, DecidableEq

structure PState where
  /-- the one live store all workers and writers act on -/
  store : Store
  workers : List Worker
  deriving Repr, DecidableEq

inductive Step where
  /-- worker number `w` performs its next action (one `runDelete`) -/
  | compDel (w : Nat)
  /-- a writer's batch commit (atomic; a refused commit changes nothing) -/
  | write (ops : List BOp)
  deriving Repr, DecidableEq

/-- the worker's control state, with the shared store, as a `CompState` -/
def Worker.comp (w : Worker) (store : Store) : CompState :=
  { store := store, lastFailed := w.lastFailed, calls := w.calls, trace := w.trace }

def step (q : Quirks) (masks : Nat → Nat → DelOutcome) (s : PState) : Step → PState
  | .compDel i =>
    match s.workers[i]? with
    | none => s
    | some w =>
      match w.pending with
      | [] => s
      | a :: rest =>
        let c := runDelete (masks i) (w.comp s.store) a
        { store := c.store,
          workers := s.workers.set i
            { w with lastFailed := c.lastFailed, calls := c.calls, trace := c.trace, pending := rest } }
  | .write ops => { s with store := commitOr q s.store ops }

def run (q : Quirks) (masks : Nat → Nat → DelOutcome) (s : PState) (steps : List Step) : PState :=
  steps.foldl (step q masks) s

/-- all workers have taken their snapshots — the chunks `parts` of one snapshot `parts.flatten` — at
revision `R` and made no call yet -/
def init (R : Nat) (parts : List (List Rec)) : PState :=
  { store := encodeStore parts.flatten,
    workers := parts.map (fun p => { snap := p, pending := workerActs { R := R, compact := true } p }) }

/-- no raw key occurs in two chunks (what `adjustPartitionsBorders` is for: see `chunks_keyDisjoint`) -/
def KeyDisjoint (parts : List (List Rec)) : Prop :=
  parts.Pairwise (fun p1 p2 => ∀ a ∈ p1, ∀ b ∈ p2, a.key ≠ b.key)

instance (parts : List (List Rec)) : Decidable (KeyDisjoint parts) := by unfold KeyDisjoint; infer_instance

/-- a `write` step is a writer's batch for the store at the moment it is taken -/
def StepOK (R : Nat) (s : PState) : Step → Prop
  | .write ops => WriterBatch R s.store ops
  | .compDel _ => True

def Disciplined (q : Quirks) (masks : Nat → Nat → DelOutcome) (R : Nat) : PState → List Step → Prop
  | _, [] => True
  | s, st :: rest => StepOK R s st ∧ Disciplined q masks R (step q masks s st) rest

theorem step_compDel_none {q : Quirks} {masks : Nat → Nat → DelOutcome} {s : PState} {i : Nat}
    (h : s.workers[i]? = none) : step q masks s (.compDel i) = s := by simp [step, h]

theorem step_compDel_nil {q : Quirks} {masks : Nat → Nat → DelOutcome} {s : PState} {i : Nat} {w : Worker}
    (h : s.workers[i]? = some w) (hp : w.pending = []) : step q masks s (.compDel i) = s := by
  simp [step, h, hp]

theorem step_compDel_cons {q : Quirks} {masks : Nat → Nat → DelOutcome} {s : PState} {i : Nat} {w : Worker}
    {a : Act} {rest : List Act} (h : s.workers[i]? = some w) (hp : w.pending = a :: rest) :
    step q masks s (.compDel i) =
      { store := (runDelete (masks i) (w.comp s.store) a).store,
        workers := s.workers.set i
          { w with lastFailed := (runDelete (masks i) (w.comp s.store) a).lastFailed,
                   calls := (runDelete (masks i) (w.comp s.store) a).calls,
                   trace := (runDelete (masks i) (w.comp s.store) a).trace, pending := rest } } := by
  simp [step, h, hp]

theorem run_append (q : Quirks) (masks : Nat → Nat → DelOutcome) (s : PState) (l1 l2 : List Step) :
    run q masks s (l1 ++ l2) = run q masks (run q masks s l1) l2 := by
  simp [run, List.foldl_append]

/-! ### the invariant: every worker is in a single-worker race of its own -/

/-- the key ranges of different workers share no raw key -/
def DomDisjoint (dom : Nat → Bytes → Bool) : Prop := ∀ i j k, dom i k = true → dom j k = true → i = j

/-- Worker `w` with key range `K`, seen alone: there is a disciplined run `steps'` of the SINGLE-worker race
`KB.C07Race` from `w`'s snapshot whose state is exactly `w`'s control state together with the records of
`w`'s raw keys in the shared store. -/
def Reduces (q : Quirks) (R : Nat) (mask : Nat → DelOutcome) (K : Bytes → Bool) (store : Store)
    (w : Worker) : Prop :=
  SnapOK w.snap ∧ (∀ r ∈ w.snap, K r.key = true) ∧
    ∃ steps', C07Race.Disciplined q mask R (C07Race.init R w.snap) steps' ∧
      Sim K store w.lastFailed w.calls w.pending (C07Race.run q mask (C07Race.init R w.snap) steps')

/-- a worker has not started (no snapshot, nothing to do) or is in a single-worker race of its own -/
def WorkerOK (q : Quirks) (R : Nat) (mask : Nat → DelOutcome) (K : Bytes → Bool) (store : Store)
    (w : Worker) : Prop :=
  (w.snap = [] ∧ w.pending = []) ∨ Reduces q R mask K store w

/-- The invariant of reachable states: the live store is a sorted association list of well-formed internal
keys, and every worker `i` satisfies `WorkerOK` for its key range `dom i` — which, through
`KB.C07Race.Inv`, says: versions `≤ R` of its range come from its snapshot, and it is in step with its
shadow (same skip key, same call counter, the same snapshot versions gone). -/
def PInv (q : Quirks) (R : Nat) (masks : Nat → Nat → DelOutcome) (dom : Nat → Bytes → Bool) (s : PState) : Prop :=
  s.store.Sorted ∧ GoodKeys s.store ∧
    ∀ i w, s.workers[i]? = some w → WorkerOK q R (masks i) (dom i) s.store w

/-- the single-worker invariant `KB.C07Race.Inv`, for the records of the worker's own key range -/
theorem Reduces.inv {q : Quirks} {R : Nat} {mask : Nat → DelOutcome} {K : Bytes → Bool} {store : Store}
    {w : Worker} (h : Reduces q R mask K store w) :
    C07Race.Inv R w.snap mask
      { comp := { store := proj K store, lastFailed := w.lastFailed, calls := w.calls }, pending := w.pending } := by
  obtain ⟨⟨hs, hw, hk, _, hidx⟩, _, steps', hd, h1, h2, h3, h4⟩ := h
  have hI := C07Race.inv_run hs hw hk hidx steps' (C07Race.inv_init hs hk R mask) hd
  obtain ⟨i1, i2, i3, done, hacts, hlf, hc, hag⟩ := hI
  rw [h1] at i1 i2 i3
  refine ⟨i1, i2, i3, done, ?_, ?_, ?_, ?_⟩
  · rw [hacts, h4]
  · rw [← hlf, h2]
  · rw [← hc, h3]
  · intro x hx h0; rw [← hag x hx h0, h1]

theorem WorkerOK.targets {q : Quirks} {R : Nat} {mask : Nat → DelOutcome} {K : Bytes → Bool} {store : Store}
    {w : Worker} (h : WorkerOK q R mask K store w) : TargetsIn K w.pending := by
  rcases h with ⟨_, hp⟩ | h
  · rw [hp]; intro a ha; cases ha
  · obtain ⟨_, _, _, done, hacts, _⟩ := h.inv
    obtain ⟨⟨_, hw, hk, _, _⟩, hK, _⟩ := h
    have := workerActs_targetsIn (R := R) hw hk K hK
    rw [hacts] at this
    exact this.of_append

/-- the single-worker steps one parallel step amounts to for worker `i` with key range `K`: its own calls,
and the writer batches on its raw keys -/
def projStep (K : Bytes → Bool) (i : Nat) : Step → List C07Race.Step
  | .compDel j => if j = i then [.compDel] else []
  | .write ops => if (batchRaw ops).any K = true then [.write ops] else []

def projSteps (K : Bytes → Bool) (i : Nat) (steps : List Step) : List C07Race.Step :=
  steps.flatMap (projStep K i)

theorem step_workers_length (q : Quirks) (masks : Nat → Nat → DelOutcome) (s : PState) (st : Step) :
    (step q masks s st).workers.length = s.workers.length := by
  cases st with
  | write ops => rfl
  | compDel j =>
    cases hj : s.workers[j]? with
    | none => rw [step_compDel_none hj]
    | some wj =>
      cases hp : wj.pending with
      | nil => rw [step_compDel_nil hj hp]
      | cons a rest => rw [step_compDel_cons hj hp]; simp

/-- a worker with nothing to do is not changed by any step -/
theorem step_worker_idle (q : Quirks) (masks : Nat → Nat → DelOutcome) {s : PState} (st : Step) {i : Nat}
    {w : Worker} (hw : s.workers[i]? = some w) (hp : w.pending = []) :
    (step q masks s st).workers[i]? = some w := by
  cases st with
  | write ops => exact hw
  | compDel j =>
    cases hj : s.workers[j]? with
    | none => rw [step_compDel_none hj]; exact hw
    | some wj =>
      cases hpj : wj.pending with
      | nil => rw [step_compDel_nil hj hpj]; exact hw
      | cons a rest =>
        rw [step_compDel_cons hj hpj]
        have hji : j ≠ i := by
          intro e; subst e
          rw [hw] at hj; injection hj with hj
          rw [hj, hpj] at hp; cases hp
        simp only
        rw [List.getElem?_set_ne hji]; exact hw

theorem step_store_wf {q : Quirks} {masks : Nat → Nat → DelOutcome} {R : Nat} {s : PState}
    (hs : s.store.Sorted) (hg : GoodKeys s.store) (st : Step) (hok : StepOK R s st) :
    (step q masks s st).store.Sorted ∧ GoodKeys (step q masks s st).store := by
  cases st with
  | write ops =>
    exact ⟨commitOr_sorted (C07Race.WriterBatch.raceBatch hok) hs,
      commitOr_goodKeys (C07Race.WriterBatch.raceBatch hok) hg⟩
  | compDel j =>
    cases hj : s.workers[j]? with
    | none => rw [step_compDel_none hj]; exact ⟨hs, hg⟩
    | some wj =>
      cases hp : wj.pending with
      | nil => rw [step_compDel_nil hj hp]; exact ⟨hs, hg⟩
      | cons a rest =>
        rw [step_compDel_cons hj hp]
        exact ⟨runDelete_sorted _ (st := wj.comp s.store) hs a, runDelete_goodKeys _ (st := wj.comp s.store) hg a⟩

/-- **One parallel step, seen by worker `i`.** If `u` is worker `i`'s view of the state (`Sim`), then after
any disciplined parallel step its view is `u` after the projected single-worker steps — which are
disciplined single-worker steps. -/
theorem sim_step {q : Quirks} {masks : Nat → Nat → DelOutcome} {R : Nat} {dom : Nat → Bytes → Bool}
    {s : PState} (hP : PInv q R masks dom s) (hdisj : DomDisjoint dom) (st : Step) (hok : StepOK R s st)
    {i : Nat} {w : Worker} (hw : s.workers[i]? = some w) {u : RState}
    (hsim : Sim (dom i) s.store w.lastFailed w.calls w.pending u) :
    ∃ w', (step q masks s st).workers[i]? = some w' ∧ w'.snap = w.snap ∧
      C07Race.Disciplined q (masks i) R u (projStep (dom i) i st) ∧
      Sim (dom i) (step q masks s st).store w'.lastFailed w'.calls w'.pending
        (C07Race.run q (masks i) u (projStep (dom i) i st)) := by
  cases st with
  | compDel j =>
    cases hj : s.workers[j]? with
    | none =>
      have hji : j ≠ i := by intro e; subst e; rw [hw] at hj; cases hj
      rw [step_compDel_none hj]
      simp only [projStep, if_neg hji]
      exact ⟨w, hw, rfl, trivial, hsim⟩
    | some wj =>
      cases hp : wj.pending with
      | nil =>
        rw [step_compDel_nil hj hp]
        by_cases hji : j = i
        · subst hji
          rw [hw] at hj; injection hj with hj; subst hj
          simp only [projStep, if_true]
          refine ⟨w, hw, rfl, trivial, ?_⟩
          show Sim _ _ _ _ _ (C07Race.step q (masks j) u .compDel)
          rw [C07Race.step_compDel_nil (hsim.2.2.2.trans hp)]
          exact hsim
        · simp only [projStep, if_neg hji]
          exact ⟨w, hw, rfl, trivial, hsim⟩
      | cons a rest =>
        have htg := (hP.2.2 j wj hj).targets
        have hin : ∀ ik, actTarget a = some ik → inDom (dom j) ik = true :=
          fun ik h => htg a (by rw [hp]; exact List.mem_cons_self ..) ik h
        rw [step_compDel_cons hj hp]
        by_cases hji : j = i
        · subst hji
          rw [hw] at hj; injection hj with hj; subst hj
          obtain ⟨hlt, _⟩ := List.getElem?_eq_some_iff.1 hw
          simp only [projStep, if_true]
          refine ⟨_, List.getElem?_set_self hlt, rfl, trivial, ?_⟩
          show Sim _ _ _ _ _ (C07Race.step q (masks j) u .compDel)
          exact sim_compDel (st := w.comp s.store) hP.1 (hp ▸ hsim) hin
        · simp only [projStep, if_neg hji]
          refine ⟨w, by rw [List.getElem?_set_ne hji]; exact hw, rfl, trivial, ?_⟩
          have hout : ∀ ik, actTarget a = some ik → inDom (dom i) ik = false :=
            fun ik h => inDom_disjoint (fun k h1 h2 => hji (hdisj j i k h1 h2)) (hin ik h)
          have := compDel_out (K' := dom i) (masks j) (st := wj.comp s.store) hP.1 hout
          exact ⟨hsim.1.trans this.symm, hsim.2⟩
  | write ops =>
    obtain ⟨k, _, hb⟩ := writerBatch_batchOn hok
    refine ⟨w, hw, rfl, ?_⟩
    simp only [projStep, batchRaw_batchOn hb, Option.any_some]
    cases hK : dom i k with
    | true =>
      simp only [if_true]
      refine ⟨⟨?_, trivial⟩, ?_⟩
      · rw [hsim.1]; exact writerBatch_proj (dom i) hok
      · exact sim_write_in (mask := masks i) hP.1 hsim hb hK
    | false =>
      simp only [Bool.false_eq_true, if_false]
      refine ⟨trivial, ?_⟩
      have := commitOr_proj_out (q := q) hb (dom i) hK hP.1
      exact ⟨hsim.1.trans this.symm, hsim.2⟩

/-- **4. A disciplined step (a worker's call, or a writer batch — committed or refused) preserves the
invariant.** -/
theorem step_preserves_wf {q : Quirks} {masks : Nat → Nat → DelOutcome} {R : Nat} {dom : Nat → Bytes → Bool}
    {s : PState} (hP : PInv q R masks dom s) (hdisj : DomDisjoint dom) (st : Step) (hok : StepOK R s st) :
    PInv q R masks dom (step q masks s st) := by
  obtain ⟨h1, h2⟩ := step_store_wf (q := q) (masks := masks) hP.1 hP.2.1 st hok
  refine ⟨h1, h2, ?_⟩
  intro i w' hw'
  have hlt : i < s.workers.length := by
    rw [← step_workers_length q masks s st]
    exact (List.getElem?_eq_some_iff.1 hw').1
  have hw : s.workers[i]? = some s.workers[i] := List.getElem?_eq_getElem hlt
  rcases hP.2.2 i _ hw with ⟨hsn, hp⟩ | ⟨hsn, hK, steps', hd, hsim⟩
  · have := step_worker_idle q masks st hw hp
    rw [this] at hw'; injection hw' with hw'
    subst hw'
    exact .inl ⟨hsn, hp⟩
  · obtain ⟨w'', e1, e2, hd', hsim'⟩ := sim_step hP hdisj st hok hw hsim
    rw [e1] at hw'; injection hw' with hw'
    subst hw'
    right
    unfold Reduces
    rw [e2]
    refine ⟨hsn, hK, steps' ++ projStep (dom i) i st, C07Race.disciplined_append hd hd', ?_⟩
    rw [C07Race.run_append]; exact hsim'

theorem inv_run {q : Quirks} {masks : Nat → Nat → DelOutcome} {R : Nat} {dom : Nat → Bytes → Bool}
    (hdisj : DomDisjoint dom) (steps : List Step) {s : PState} (hP : PInv q R masks dom s)
    (hd : Disciplined q masks R s steps) : PInv q R masks dom (run q masks s steps) := by
  induction steps generalizing s with
  | nil => exact hP
  | cons st rest ih => exact ih (step_preserves_wf hP hdisj st hd.1) hd.2

/-- **4b.** A writer batch (committed or refused) preserves the invariant. -/
theorem writer_batch_preserves_wf {q : Quirks} {masks : Nat → Nat → DelOutcome} {R : Nat}
    {dom : Nat → Bytes → Bool} {s : PState} (hP : PInv q R masks dom s) (hdisj : DomDisjoint dom)
    {ops : List BOp} (hb : WriterBatch R s.store ops) : PInv q R masks dom (step q masks s (.write ops)) :=
  step_preserves_wf hP hdisj (.write ops) hb

/-- **4c.** A call of any worker preserves the invariant. -/
theorem compDel_preserves_wf {q : Quirks} {masks : Nat → Nat → DelOutcome} {R : Nat}
    {dom : Nat → Bytes → Bool} {s : PState} (hP : PInv q R masks dom s) (hdisj : DomDisjoint dom) (w : Nat) :
    PInv q R masks dom (step q masks s (.compDel w)) :=
  step_preserves_wf hP hdisj (.compDel w) trivial

/-- **4d. The invariant, explicitly.** For every worker that has started, the records of its key range in
the shared store, with its control state, satisfy the single-worker invariant `KB.C07Race.Inv` w.r.t. its own
snapshot and its own mask: sorted, well-formed keys, every version `≤ R` of the range comes from the
snapshot, and (`KB.Race.Tracks`) the worker is in step with its shadow — for the prefix `done` of its pass
already executed, its skip key and call counter are those of `done` run against its quiescent snapshot, and
a snapshot version is missing from the live store iff it is missing from the shadow store. -/
theorem inv_explicit {q : Quirks} {masks : Nat → Nat → DelOutcome} {R : Nat} {dom : Nat → Bytes → Bool}
    {s : PState} (hP : PInv q R masks dom s) (i : Nat) (w : Worker) (hi : s.workers[i]? = some w) :
    (w.snap = [] ∧ w.pending = []) ∨
    (SnapOK w.snap ∧ (∀ r ∈ w.snap, dom i r.key = true) ∧
      Store.Sorted (proj (dom i) s.store) ∧ GoodKeys (proj (dom i) s.store) ∧
      OldFromSnapshot R w.snap (proj (dom i) s.store) ∧
      Tracks R w.snap (masks i)
        { store := proj (dom i) s.store, lastFailed := w.lastFailed, calls := w.calls } w.pending) := by
  rcases hP.2.2 i w hi with h | h
  · exact .inl h
  · exact .inr ⟨h.1, h.2.1, h.inv⟩

/-- **A whole parallel run, seen by worker `i`**: its view after the run is its view before, after the
projected single-worker run. -/
theorem sim_run {q : Quirks} {masks : Nat → Nat → DelOutcome} {R : Nat} {dom : Nat → Bytes → Bool}
    (hdisj : DomDisjoint dom) (steps : List Step) {s : PState} (hP : PInv q R masks dom s)
    (hd : Disciplined q masks R s steps) {i : Nat} {w : Worker} (hw : s.workers[i]? = some w) {u : RState}
    (hsim : Sim (dom i) s.store w.lastFailed w.calls w.pending u) :
    ∃ w', (run q masks s steps).workers[i]? = some w' ∧ w'.snap = w.snap ∧
      C07Race.Disciplined q (masks i) R u (projSteps (dom i) i steps) ∧
      Sim (dom i) (run q masks s steps).store w'.lastFailed w'.calls w'.pending
        (C07Race.run q (masks i) u (projSteps (dom i) i steps)) := by
  induction steps generalizing s u w with
  | nil => exact ⟨w, hw, rfl, trivial, hsim⟩
  | cons st rest ih =>
    obtain ⟨w1, e1, e2, hd1, hsim1⟩ := sim_step hP hdisj st hd.1 hw hsim
    obtain ⟨w2, f1, f2, hd2, hsim2⟩ := ih (step_preserves_wf hP hdisj st hd.1) hd.2 e1 hsim1
    refine ⟨w2, f1, f2.trans e2, ?_, ?_⟩
    · show C07Race.Disciplined q (masks i) R u (projStep (dom i) i st ++ projSteps (dom i) i rest)
      exact C07Race.disciplined_append hd1 hd2
    · show Sim _ _ _ _ _ (C07Race.run q (masks i) u (projStep (dom i) i st ++ projSteps (dom i) i rest))
      rw [C07Race.run_append]; exact hsim2

/-! ### what the invariant gives -/

/-- In a state satisfying the invariant one more call of any worker changes no read at any `R' ≥ R` and no
key's logical index. -/
theorem invisible_of_inv {q : Quirks} {masks : Nat → Nat → DelOutcome} {R : Nat} {dom : Nat → Bytes → Bool}
    {s : PState} (hP : PInv q R masks dom s) (j : Nat) :
    (∀ R', R ≤ R' → ∀ k, readS R' (step q masks s (.compDel j)).store k = readS R' s.store k) ∧
    (∀ k, logicalIdx (step q masks s (.compDel j)).store k = logicalIdx s.store k) := by
  cases hj : s.workers[j]? with
  | none => rw [step_compDel_none hj]; exact ⟨fun _ _ _ => rfl, fun _ => rfl⟩
  | some wj =>
    cases hp : wj.pending with
    | nil => rw [step_compDel_nil hj hp]; exact ⟨fun _ _ _ => rfl, fun _ => rfl⟩
    | cons a rest =>
      have hok := hP.2.2 j wj hj
      have hin : ∀ ik, actTarget a = some ik → inDom (dom j) ik = true :=
        fun ik h => hok.targets a (by rw [hp]; exact List.mem_cons_self ..) ik h
      rcases hok with ⟨_, hp0⟩ | ⟨⟨hs, hw, hk, hne, hidx⟩, hK, steps', hd, hsim⟩
      · rw [hp] at hp0; cases hp0
      rw [step_compDel_cons hj hp]
      simp only
      have hS' := runDelete_sorted (masks j) (st := wj.comp s.store) hP.1 a
      have hG' := runDelete_goodKeys (masks j) (st := wj.comp s.store) hP.2.1 a
      obtain ⟨i1, i2⟩ := C07Race.compDel_invisible hs hw hk hne hidx R q (masks j) steps' hd
      have hsim' := sim_compDel (q := q) (mask := masks j) (st := wj.comp s.store) hP.1 (hp ▸ hsim) hin
      have hout := compDel_out (K' := fun k => !dom j k) (masks j) (st := wj.comp s.store) hP.1
        (fun ik h => inDom_not (hin ik h))
      constructor
      · intro R' hR k
        cases hKk : dom j k with
        | true =>
          rw [← readS_proj (dom j) hS' hG' R' hKk, ← hsim'.1, i1 R' hR k, hsim.1,
            readS_proj (dom j) hP.1 hP.2.1 R' hKk]
        | false =>
          exact (reads_of_proj_eq (fun k => !dom j k) hS' hG' hP.1 hP.2.1 hout (by simp [hKk])).1 R'
      · intro k
        cases hKk : dom j k with
        | true =>
          rw [← logicalIdx_proj (dom j) hS' hKk, ← hsim'.1, i2 k, hsim.1, logicalIdx_proj (dom j) hP.1 hKk]
        | false =>
          exact (reads_of_proj_eq (fun k => !dom j k) hS' hG' hP.1 hP.2.1 hout (by simp [hKk])).2

/-- the snapshots of all workers -/
def allSnaps (s : PState) : List Rec := s.workers.flatMap (·.snap)

theorem mem_allSnaps {s : PState} {r : Rec} :
    r ∈ allSnaps s ↔ ∃ (i : Nat) (w : Worker), s.workers[i]? = some w ∧ r ∈ w.snap := by
  unfold allSnaps
  rw [List.mem_flatMap]
  constructor
  · rintro ⟨w, hw, hr⟩
    obtain ⟨i, hi⟩ := List.mem_iff_getElem?.1 hw
    exact ⟨i, w, hi, hr⟩
  · rintro ⟨i, w, hi, hr⟩
    exact ⟨w, List.mem_of_getElem? hi, hr⟩

/-- In a state satisfying the invariant every read at `R' ≥ R` equals the read of the store with every
removed version of every worker's snapshot put back. -/
theorem restored_of_inv {q : Quirks} {masks : Nat → Nat → DelOutcome} {R : Nat} {dom : Nat → Bytes → Bool}
    {s : PState} (hP : PInv q R masks dom s) (hdisj : DomDisjoint dom)
    (R' : Nat) (hR : R ≤ R') (k : Bytes) :
    readS R' s.store k = readS R' (restored (allSnaps s) s.store) k := by
  -- every snapshot record belongs to a worker that is in a single-worker race
  have hall : ∀ r ∈ allSnaps s, ∃ i w, s.workers[i]? = some w ∧ r ∈ w.snap ∧
      Reduces q R (masks i) (dom i) s.store w := by
    intro r hr
    obtain ⟨i, w, hi, hrw⟩ := mem_allSnaps.1 hr
    rcases hP.2.2 i w hi with ⟨h0, _⟩ | h
    · rw [h0] at hrw; cases hrw
    · exact ⟨i, w, hi, hrw, h⟩
  have hwA : WellKeyed (allSnaps s) := by
    intro r hr
    obtain ⟨i, w, _, hrw, ⟨_, hw, _⟩, _⟩ := hall r hr
    exact hw r hrw
  have hkA : ∀ r ∈ allSnaps s, Alphabet r.key ∧ r.rev < 2 ^ 64 := by
    intro r hr
    obtain ⟨i, w, _, hrw, ⟨_, _, hk, _⟩, _⟩ := hall r hr
    exact hk r hrw
  -- a snapshot record with a raw key in worker `i`'s range is in worker `i`'s snapshot
  have hback : ∀ i w, s.workers[i]? = some w → ∀ y ∈ allSnaps s, dom i y.key = true → y ∈ w.snap := by
    intro i w hi y hy hKy
    obtain ⟨i', w', hi', hyw', hred'⟩ := hall y hy
    have : i' = i := hdisj i' i y.key (hred'.2.1 y hyw') hKy
    subst this
    rw [hi] at hi'; injection hi' with hi'
    rw [hi']; exact hyw'
  have huniqA : ∀ a ∈ allSnaps s, ∀ b ∈ allSnaps s, a.ik = b.ik → a.val = b.val := by
    intro a ha b hb e
    obtain ⟨i, w, hi, hbw, hred⟩ := hall b hb
    have hkey : a.key = b.key := by
      rw [hwA a ha, hwA b hb] at e
      exact (encode_inj (hkA a ha).2 (hkA b hb).2 e).1
    have haw := hback i w hi a ha (hkey ▸ hred.2.1 b hbw)
    obtain ⟨⟨hs, hw, hk, _⟩, _⟩ := hred
    rw [recs_ik_uniq hs hw hk a haw b hbw e]
  have hRS := restored_sorted (allSnaps s) hP.1
  have hRG := restored_goodKeys hwA hkA hP.2.1
  by_cases hex : ∃ r ∈ allSnaps s, r.key = k
  · obtain ⟨r, hr, hrk⟩ := hex
    obtain ⟨i, w, hi, hrw, hred⟩ := hall r hr
    obtain ⟨⟨hs, hw, hk, hne, hidx⟩, hK, steps', hd, hsim⟩ := hred
    have hKk : dom i k = true := hrk ▸ hK r hrw
    have hpS := proj_sorted (dom i) hP.1
    have hpG := proj_goodKeys (dom i) hP.2.1
    rw [← readS_proj (dom i) hP.1 hP.2.1 R' hKk, ← hsim.1,
      C07Race.race_equals_restored hs hw hk hne hidx R q (masks i) steps' hd R' hR k, hsim.1]
    unfold readS
    apply readAt_congr_key (storeRecs_sorted (restored_sorted _ hpS) (restored_goodKeys hw hk hpG))
      (storeRecs_sorted hRS hRG)
    intro x hx _
    exact restored_local (dom i) (fun y hy => mem_allSnaps.2 ⟨i, w, hi, hy⟩) (hback i w hi)
      hwA hkA huniqA hP.1 hP.2.1 (hx ▸ hKk)
  · apply (readAt_congr_key (storeRecs_sorted hRS hRG) (storeRecs_sorted hP.1 hP.2.1) R' k ?_).symm
    intro x hx _
    exact restored_absent hwA hkA huniqA hP.1 hP.2.1 (fun y hy e => hex ⟨y, hy, e.trans hx⟩)

theorem set_same {α : Type} {l : List α} {i : Nat} {a : α} (h : l[i]? = some a) : l.set i a = l := by
  apply List.ext_getElem?
  intro j
  rw [List.getElem?_set]
  by_cases hij : i = j
  · subst hij
    rw [if_pos rfl, if_pos (List.getElem?_eq_some_iff.1 h).1, h]
  · rw [if_neg hij]

/-- no step changes a worker's (ghost) snapshot -/
theorem allSnaps_step (q : Quirks) (masks : Nat → Nat → DelOutcome) (s : PState) (st : Step) :
    allSnaps (step q masks s st) = allSnaps s := by
  cases st with
  | write ops => rfl
  | compDel j =>
    cases hj : s.workers[j]? with
    | none => rw [step_compDel_none hj]
    | some wj =>
      cases hp : wj.pending with
      | nil => rw [step_compDel_nil hj hp]
      | cons a rest =>
        rw [step_compDel_cons hj hp]
        unfold allSnaps
        simp only [List.flatMap_def, List.map_set]
        rw [set_same]
        rw [List.getElem?_map, hj]; rfl

theorem allSnaps_run (q : Quirks) (masks : Nat → Nat → DelOutcome) (s : PState) (steps : List Step) :
    allSnaps (run q masks s steps) = allSnaps s := by
  induction steps generalizing s with
  | nil => rfl
  | cons st rest ih => exact (ih (step q masks s st)).trans (allSnaps_step q masks s st)

/-! ### all workers iterate over chunks of ONE snapshot -/

/-- the raw keys of chunk `i` -/
def chunkDom (parts : List (List Rec)) (i : Nat) (k : Bytes) : Bool :=
  match parts[i]? with
  | some p => p.any (fun r => r.key == k)
  | none => false

theorem chunkDom_iff {parts : List (List Rec)} {i : Nat} {k : Bytes} :
    chunkDom parts i k = true ↔ ∃ p, parts[i]? = some p ∧ ∃ r ∈ p, r.key = k := by
  unfold chunkDom
  cases h : parts[i]? with
  | none => simp
  | some p => simp [List.any_eq_true]

theorem chunkDom_disjoint {parts : List (List Rec)} (h : KeyDisjoint parts) : DomDisjoint (chunkDom parts) := by
  intro i j k hi hj
  obtain ⟨p, hp, a, ha, hak⟩ := chunkDom_iff.1 hi
  obtain ⟨p', hp', b, hb, hbk⟩ := chunkDom_iff.1 hj
  obtain ⟨li, ei⟩ := List.getElem?_eq_some_iff.1 hp
  obtain ⟨lj, ej⟩ := List.getElem?_eq_some_iff.1 hp'
  have hpw := List.pairwise_iff_getElem.1 h
  rcases Nat.lt_trichotomy i j with hlt | heq | hgt
  · exact absurd (hak.trans hbk.symm) (hpw i j li lj hlt a (ei ▸ ha) b (ej ▸ hb))
  · exact heq
  · exact absurd (hbk.trans hak.symm) (hpw j i lj li hgt b (ej ▸ hb) a (ei ▸ ha))

theorem filter_flatten_chunk {α : Type} (P : α → Bool) (parts : List (List α)) (i : Nat) (p : List α)
    (hi : parts[i]? = some p) (hin : ∀ r ∈ p, P r = true)
    (hout : ∀ j p', parts[j]? = some p' → j ≠ i → ∀ r ∈ p', ¬ P r = true) :
    parts.flatten.filter P = p := by
  induction parts generalizing i with
  | nil => simp at hi
  | cons p0 ps ih =>
    rw [List.flatten_cons, List.filter_append]
    cases i with
    | zero =>
      simp only [List.getElem?_cons_zero, Option.some.injEq] at hi
      subst hi
      rw [List.filter_eq_self.2 hin]
      have : ps.flatten.filter P = [] := by
        rw [List.filter_eq_nil_iff]
        intro r hr
        obtain ⟨p', hp', hrp⟩ := List.mem_flatten.1 hr
        obtain ⟨j, hj⟩ := List.mem_iff_getElem?.1 hp'
        exact hout (j + 1) p' (by simpa using hj) (by omega) r hrp
      rw [this, List.append_nil]
    | succ i' =>
      simp only [List.getElem?_cons_succ] at hi
      have : p0.filter P = [] := by
        rw [List.filter_eq_nil_iff]
        exact hout 0 p0 (by simp) (by omega)
      rw [this, List.nil_append]
      exact ih i' hi (fun j p' hj hne => hout (j + 1) p' (by simpa using hj) (by omega))

theorem snapOK_chunk {parts : List (List Rec)} (h : SnapOK parts.flatten) {p : List Rec} (hp : p ∈ parts) :
    SnapOK p := by
  obtain ⟨hs, hw, hk, hne, hidx⟩ := h
  have hm : ∀ r ∈ p, r ∈ parts.flatten := fun r hr => List.mem_flatten.2 ⟨p, hp, hr⟩
  exact ⟨List.Pairwise.sublist (List.sublist_flatten_of_mem hp) hs, fun r hr => hw r (hm r hr),
    fun r hr => hk r (hm r hr), fun r hr => hne r (hm r hr), fun r hr => hidx r (hm r hr)⟩

/-- worker `i`'s view of the initial state is the initial state of the single-worker race over chunk `i` -/
theorem sim_init {parts : List (List Rec)} (hk : ∀ r ∈ parts.flatten, Alphabet r.key ∧ r.rev < 2 ^ 64)
    (hdisj : KeyDisjoint parts) (R : Nat) {i : Nat} {p : List Rec} (hi : parts[i]? = some p) :
    Sim (chunkDom parts i) (init R parts).store [] 0 (workerActs { R := R, compact := true } p)
      (C07Race.init R p) := by
  refine ⟨?_, rfl, rfl, rfl⟩
  show encodeStore p = proj (chunkDom parts i) (encodeStore parts.flatten)
  rw [proj_encodeStore _ (fun r hr => (hk r hr).2)]
  congr 1
  symm
  apply filter_flatten_chunk _ parts i p hi
  · intro r hr; exact chunkDom_iff.2 ⟨p, hi, r, hr, rfl⟩
  · intro j p' hj hne r hr hc
    exact hne (chunkDom_disjoint hdisj j i r.key (chunkDom_iff.2 ⟨p', hj, r, hr, rfl⟩) hc)

theorem init_worker {R : Nat} {parts : List (List Rec)} {i : Nat} {w : Worker}
    (h : (init R parts).workers[i]? = some w) :
    ∃ p, parts[i]? = some p ∧ w = { snap := p, pending := workerActs { R := R, compact := true } p } := by
  simp only [init, List.getElem?_map] at h
  cases hp : parts[i]? with
  | none => rw [hp] at h; cases h
  | some p => rw [hp] at h; injection h with h; exact ⟨p, rfl, h.symm⟩

/-- **4a.** The initial state satisfies the invariant. -/
theorem inv_init {parts : List (List Rec)} (hok : SnapOK parts.flatten) (hdisj : KeyDisjoint parts)
    (q : Quirks) (R : Nat) (masks : Nat → Nat → DelOutcome) :
    PInv q R masks (chunkDom parts) (init R parts) := by
  refine ⟨encodeStore_sorted hok.1 hok.2.2.1, goodKeys_init hok.2.2.1, ?_⟩
  intro i w hw
  obtain ⟨p, hp, rfl⟩ := init_worker hw
  right
  refine ⟨snapOK_chunk hok (List.mem_of_getElem? hp), fun r hr => chunkDom_iff.2 ⟨p, hp, r, hr, rfl⟩,
    [], trivial, ?_⟩
  exact sim_init hok.2.2.1 hdisj R hp

theorem allSnaps_init (R : Nat) (parts : List (List Rec)) : allSnaps (init R parts) = parts.flatten := by
  simp [allSnaps, init, List.flatMap_def, Function.comp_def]

section main
variable {parts : List (List Rec)} (hs : SortedRecs parts.flatten) (hw : WellKeyed parts.flatten)
  (hk : ∀ r ∈ parts.flatten, Alphabet r.key ∧ r.rev < 2 ^ 64) (hne : ∀ r ∈ parts.flatten, r.key ≠ [])
  (hidx : IdxWF parts.flatten) (hdisj : KeyDisjoint parts)
include hs hw hk hne hidx hdisj

/-- every state reachable by a disciplined run satisfies the invariant -/
theorem inv_reachable (R : Nat) (q : Quirks) (masks : Nat → Nat → DelOutcome) (steps : List Step)
    (hd : Disciplined q masks R (init R parts) steps) :
    PInv q R masks (chunkDom parts) (run q masks (init R parts) steps) :=
  inv_run (chunkDom_disjoint hdisj) steps (inv_init ⟨hs, hw, hk, hne, hidx⟩ hdisj q R masks) hd

/-- **1. One call of any worker is invisible.** In every state reachable by a disciplined run — any
interleaving of the calls of all workers and of writer batches, any failure masks — one more call of
worker `w` leaves every read at every revision `R' ≥ R` of every
key unchanged, and leaves the logical index of every key unchanged. -/
theorem par_compDel_invisible (R : Nat) (q : Quirks) (masks : Nat → Nat → DelOutcome)
    (steps : List Step)
    (hd : Disciplined q masks R (init R parts) steps) (w : Nat) :
    let s := run q masks (init R parts) steps
    let s' := step q masks s (.compDel w)
    (∀ R', R ≤ R' → ∀ k, readS R' s'.store k = readS R' s.store k) ∧
    (∀ k, logicalIdx s'.store k = logicalIdx s.store k) :=
  invisible_of_inv (inv_reachable hs hw hk hne hidx hdisj R q masks steps hd) w

/-- **2. Whole run.** In the final state of any disciplined run every read at every revision `R' ≥ R`
equals the read of the store in which every version record of the snapshot that is missing is put back. -/
theorem par_race_equals_restored (R : Nat) (q : Quirks) (masks : Nat → Nat → DelOutcome)
    (steps : List Step)
    (hd : Disciplined q masks R (init R parts) steps) (R' : Nat) (hR : R ≤ R') (k : Bytes) :
    readS R' (run q masks (init R parts) steps).store k =
      readS R' (restored parts.flatten (run q masks (init R parts) steps).store) k := by
  have := restored_of_inv (inv_reachable hs hw hk hne hidx hdisj R q masks steps hd)
    (chunkDom_disjoint hdisj) R' hR k
  rwa [allSnaps_run, allSnaps_init] at this

/-- **3. The parallel race of worker `i` IS a single-worker race.** Project the schedule on worker `i`:
keep its own calls and the writer batches on raw keys of its chunk (`projSteps`). That is a disciplined
schedule of the single-worker race `KB.C07Race` over chunk `i` alone, and its final state is exactly what
the parallel run leaves of chunk `i`'s raw keys in the shared store, together with worker `i`'s skip key,
call counter and remaining actions. (All of `KB.C07Race` — `compDel_invisible`, `race_equals_restored`,
`race_equals_keep`, `Inv` — therefore holds of every worker's key range.) -/
theorem par_reduces_to_single (R : Nat) (q : Quirks) (masks : Nat → Nat → DelOutcome) (steps : List Step)
    (hd : Disciplined q masks R (init R parts) steps) (i : Nat) (p : List Rec) (hi : parts[i]? = some p) :
    let s := run q masks (init R parts) steps
    let steps' := projSteps (chunkDom parts i) i steps
    let u := C07Race.run q (masks i) (C07Race.init R p) steps'
    C07Race.Disciplined q (masks i) R (C07Race.init R p) steps' ∧
    ∃ w, s.workers[i]? = some w ∧ w.snap = p ∧
      u.comp.store = proj (chunkDom parts i) s.store ∧
      u.comp.lastFailed = w.lastFailed ∧ u.comp.calls = w.calls ∧ u.pending = w.pending := by
  intro s steps' u
  have hw0 : (init R parts).workers[i]? =
      some { snap := p, pending := workerActs { R := R, compact := true } p } := by
    simp [init, List.getElem?_map, hi]
  obtain ⟨w, e1, e2, hd', hsim⟩ := sim_run (chunkDom_disjoint hdisj) steps
    (inv_init ⟨hs, hw, hk, hne, hidx⟩ hdisj q R masks) hd hw0 (sim_init hk hdisj R hi)
  exact ⟨hd', w, e1, e2, hsim⟩

end main

/-! ### staggered snapshots: every worker iterates over its key range of the store AS OF THE MOMENT IT STARTS

  memkv and badger create the iterator when the worker goroutine runs `w.run` (scanner.go:402), i.e. at a
  different moment for every worker, after other workers' calls and writers' commits. (tikv iterates at the
  one timestamp taken before the workers are forked: the model above.) The key ranges `dom i` are fixed —
  the partition borders are computed before the workers are forked — and pairwise disjoint. -/

inductive SStep where
  /-- worker `w` creates its iterator: it takes the records of its key range in the live store as its
  snapshot and computes its actions from it. (On a worker that already runs: its remaining actions are
  abandoned and a NEW worker starts on the same range — a second pass at the same revision; skip key empty,
  call counter 0, i.e. the failure mask `masks w` is used from its start again.) -/
  | start (w : Nat)
  /-- a worker's call or a writer's commit -/
  | act (st : Step)
  deriving Repr, DecidableEq

/-- a fresh worker over the key range `K` of the live store -/
def startWorker (R : Nat) (K : Bytes → Bool) (store : Store) : Worker :=
  { snap := storeRecs (proj K store),
    pending := workerActs { R := R, compact := true } (storeRecs (proj K store)) }

def sstep (q : Quirks) (masks : Nat → Nat → DelOutcome) (R : Nat) (dom : Nat → Bytes → Bool) (s : PState) :
    SStep → PState
  | .start i =>
    match s.workers[i]? with
    | none => s
    | some _ => { s with workers := s.workers.set i (startWorker R (dom i) s.store) }
  | .act st => step q masks s st

def srun (q : Quirks) (masks : Nat → Nat → DelOutcome) (R : Nat) (dom : Nat → Bytes → Bool) (s : PState)
    (steps : List SStep) : PState :=
  steps.foldl (sstep q masks R dom) s

/-- the store holds `recs0`; `n` workers, none started -/
def sinit (recs0 : List Rec) (n : Nat) : PState :=
  { store := encodeStore recs0, workers := List.replicate n { pending := [] } }

/-- writers commit `WriterBatch`es that write no deletion marker as an index VALUE (the backend's `retry`
batch copies the flag `[]` or `[0]`; `WriterBatch.retry` allows any flag bytes — see
`staggered_needs_idxValOK`) -/
def SStepOK (R : Nat) (s : PState) : SStep → Prop
  | .act (.write ops) => WriterBatch R s.store ops ∧ IdxValOK ops
  | _ => True

def SDisciplined (q : Quirks) (masks : Nat → Nat → DelOutcome) (R : Nat) (dom : Nat → Bytes → Bool) :
    PState → List SStep → Prop
  | _, [] => True
  | s, st :: rest => SStepOK R s st ∧ SDisciplined q masks R dom (sstep q masks R dom s st) rest

/-- the invariant of the staggered race: `PInv`, and the live store is fit to be snapshotted by a worker
that starts now (no empty raw key, no deletion marker as an index value) -/
def SInv (q : Quirks) (R : Nat) (masks : Nat → Nat → DelOutcome) (dom : Nat → Bytes → Bool) (s : PState) : Prop :=
  PInv q R masks dom s ∧ KeysWF s.store

/-- a worker that creates its iterator before anything else has happened takes exactly its chunk: the race
over the chunks of one snapshot is the staggered race in which all workers start first -/
theorem startWorker_chunk {parts : List (List Rec)} (hw : WellKeyed parts.flatten)
    (hk : ∀ r ∈ parts.flatten, Alphabet r.key ∧ r.rev < 2 ^ 64) (hdisj : KeyDisjoint parts) (R : Nat)
    {i : Nat} {p : List Rec} (hi : parts[i]? = some p) :
    startWorker R (chunkDom parts i) (encodeStore parts.flatten) =
      { snap := p, pending := workerActs { R := R, compact := true } p } := by
  have hm : ∀ r ∈ p, r ∈ parts.flatten := fun r hr => List.mem_flatten.2 ⟨p, List.mem_of_getElem? hi, hr⟩
  have h1 : proj (chunkDom parts i) (encodeStore parts.flatten) = encodeStore p := (sim_init hk hdisj R hi).1.symm
  unfold startWorker
  rw [h1, storeRecs_encodeStore (fun r hr => hw r (hm r hr)) (fun r hr => hk r (hm r hr))]

theorem sinv_init {recs0 : List Rec} (hok : SnapOK recs0) (n : Nat) (q : Quirks) (R : Nat)
    (masks : Nat → Nat → DelOutcome) (dom : Nat → Bytes → Bool) : SInv q R masks dom (sinit recs0 n) := by
  refine ⟨⟨encodeStore_sorted hok.1 hok.2.2.1, goodKeys_init hok.2.2.1, ?_⟩, keysWF_encodeStore hok⟩
  intro i w hw
  simp only [sinit, List.getElem?_replicate] at hw
  split at hw
  · injection hw with hw; subst hw; exact .inl ⟨rfl, rfl⟩
  · cases hw

theorem step_keysWF {q : Quirks} {masks : Nat → Nat → DelOutcome} {R : Nat} {s : PState}
    (hs : s.store.Sorted) (hwf : KeysWF s.store) (st : Step) (hok : SStepOK R s (.act st)) :
    KeysWF (step q masks s st).store := by
  cases st with
  | write ops =>
    obtain ⟨k, hne, hb⟩ := writerBatch_batchOn hok.1
    exact keysWF_commitOr hb hne hok.2 hs hwf
  | compDel j =>
    cases hj : s.workers[j]? with
    | none => rw [step_compDel_none hj]; exact hwf
    | some wj =>
      cases hp : wj.pending with
      | nil => rw [step_compDel_nil hj hp]; exact hwf
      | cons a rest =>
        rw [step_compDel_cons hj hp]
        exact runDelete_keysWF _ (st := wj.comp s.store) hwf a

theorem stepOK_of_sstepOK {R : Nat} {s : PState} {st : Step} (h : SStepOK R s (.act st)) : StepOK R s st := by
  cases st with
  | write ops => exact h.1
  | compDel j => trivial

/-- **4 (staggered).** A step — a worker starting, a worker's call, a writer batch — preserves the invariant. -/
theorem sstep_preserves_wf {q : Quirks} {masks : Nat → Nat → DelOutcome} {R : Nat} {dom : Nat → Bytes → Bool}
    {s : PState} (hI : SInv q R masks dom s) (hdisj : DomDisjoint dom) (st : SStep) (hok : SStepOK R s st) :
    SInv q R masks dom (sstep q masks R dom s st) := by
  cases st with
  | act st =>
    exact ⟨step_preserves_wf hI.1 hdisj st (stepOK_of_sstepOK hok), step_keysWF hI.1.1 hI.2 st hok⟩
  | start i =>
    cases hi : s.workers[i]? with
    | none => simp only [sstep, hi]; exact hI
    | some w0 =>
      simp only [sstep, hi]
      refine ⟨⟨hI.1.1, hI.1.2.1, ?_⟩, hI.2⟩
      intro j w hj
      simp only at hj
      rw [List.getElem?_set] at hj
      by_cases hij : i = j
      · subst hij
        rw [if_pos rfl, if_pos (List.getElem?_eq_some_iff.1 hi).1] at hj
        injection hj with hj; subst hj
        right
        refine ⟨snapOK_storeRecs_proj (dom i) hI.1.1 hI.1.2.1 hI.2,
          storeRecs_proj_keys (dom i) hI.1.1 hI.1.2.1, [], trivial, ?_, rfl, rfl, rfl⟩
        exact encodeStore_storeRecs (proj_goodKeys (dom i) hI.1.2.1)
      · rw [if_neg hij] at hj
        exact hI.1.2.2 j w hj

theorem sinv_run {q : Quirks} {masks : Nat → Nat → DelOutcome} {R : Nat} {dom : Nat → Bytes → Bool}
    (hdisj : DomDisjoint dom) (steps : List SStep) {s : PState} (hI : SInv q R masks dom s)
    (hd : SDisciplined q masks R dom s steps) : SInv q R masks dom (srun q masks R dom s steps) := by
  induction steps generalizing s with
  | nil => exact hI
  | cons st rest ih => exact ih (sstep_preserves_wf hI hdisj st hd.1) hd.2

section staggered
variable {recs0 : List Rec} (hs : SortedRecs recs0) (hw : WellKeyed recs0)
  (hk : ∀ r ∈ recs0, Alphabet r.key ∧ r.rev < 2 ^ 64) (hne : ∀ r ∈ recs0, r.key ≠ [])
  (hidx : IdxWF recs0) {dom : Nat → Bytes → Bool} (hdisj : DomDisjoint dom)
include hs hw hk hne hidx hdisj

theorem sinv_reachable (n R : Nat) (q : Quirks) (masks : Nat → Nat → DelOutcome) (steps : List SStep)
    (hd : SDisciplined q masks R dom (sinit recs0 n) steps) :
    SInv q R masks dom (srun q masks R dom (sinit recs0 n) steps) :=
  sinv_run hdisj steps (sinv_init ⟨hs, hw, hk, hne, hidx⟩ n q R masks dom) hd

/-- **1 (staggered).** Whenever the workers took their snapshots: in every reachable state one more call of
any worker leaves every read at every `R' ≥ R` and every key's logical index unchanged. -/
theorem par_compDel_invisible_staggered (n R : Nat) (q : Quirks) (masks : Nat → Nat → DelOutcome)
    (steps : List SStep)
    (hd : SDisciplined q masks R dom (sinit recs0 n) steps) (w : Nat) :
    let s := srun q masks R dom (sinit recs0 n) steps
    let s' := step q masks s (.compDel w)
    (∀ R', R ≤ R' → ∀ k, readS R' s'.store k = readS R' s.store k) ∧
    (∀ k, logicalIdx s'.store k = logicalIdx s.store k) :=
  invisible_of_inv (sinv_reachable hs hw hk hne hidx hdisj n R q masks steps hd).1 w

/-- **2 (staggered).** In the final state of any disciplined run every read at every `R' ≥ R` equals the
read of the store in which every missing version record of every (running) worker's snapshot — taken when
that worker started — is put back. -/
theorem par_race_equals_restored_staggered (n R : Nat) (q : Quirks) (masks : Nat → Nat → DelOutcome)
    (steps : List SStep)
    (hd : SDisciplined q masks R dom (sinit recs0 n) steps) (R' : Nat) (hR : R ≤ R') (k : Bytes) :
    let s := srun q masks R dom (sinit recs0 n) steps
    readS R' s.store k = readS R' (restored (allSnaps s) s.store) k :=
  restored_of_inv (sinv_reachable hs hw hk hne hidx hdisj n R q masks steps hd).1 hdisj R' hR k

/-- **3 (staggered).** Every worker of a reachable state has not started, or is in a single-worker race of
its own: there is a disciplined run of `KB.C07Race` from its snapshot (which satisfies the hypotheses of
the single-worker theorems) whose state is the worker's control state with the records of its key range
in the shared store. -/
theorem par_reduces_to_single_staggered (n R : Nat) (q : Quirks) (masks : Nat → Nat → DelOutcome)
    (steps : List SStep) (hd : SDisciplined q masks R dom (sinit recs0 n) steps) (i : Nat) (w : Worker)
    (hi : (srun q masks R dom (sinit recs0 n) steps).workers[i]? = some w) :
    (w.snap = [] ∧ w.pending = []) ∨
    (SnapOK w.snap ∧ (∀ r ∈ w.snap, dom i r.key = true) ∧
      ∃ steps', C07Race.Disciplined q (masks i) R (C07Race.init R w.snap) steps' ∧
        let u := C07Race.run q (masks i) (C07Race.init R w.snap) steps'
        u.comp.store = proj (dom i) (srun q masks R dom (sinit recs0 n) steps).store ∧
        u.comp.lastFailed = w.lastFailed ∧ u.comp.calls = w.calls ∧ u.pending = w.pending) :=
  (sinv_reachable hs hw hk hne hidx hdisj n R q masks steps hd).1.2.2 i w hi

end staggered

/-! ### the chunks and key ranges the real partitions give

  `scanner.scan` takes the engine's partitions of the range and moves every interior border to the INDEX key
  `encode k 0` of its raw key (`adjustPartitionsBorders`, `KB.adjustBorders`; `KB.scanPartitions_good`). All
  internal keys of one raw key lie on one side of such a border. -/

/-- the chunks of the snapshot `recs0` cut at the borders `p ≤ c₁ ≤ … ≤ cₙ ≤ e` -/
def chunksOf (recs0 : List Rec) (p : Bytes) (cs : List Bytes) (e : Bytes) : List (List Rec) :=
  (chain p cs e).map (fun pr => seg recs0 pr.1 pr.2)

theorem chunks_flatten {recs0 : List Rec} (hs : SortedRecs recs0) (hk : GoodRecs recs0) (p : Bytes)
    (cs : List Bytes) (e : Bytes) (hmono : (p :: cs ++ [e]).Pairwise (fun x y => ble x y = true)) :
    (chunksOf recs0 p cs e).flatten = seg recs0 p e := by
  induction cs generalizing p with
  | nil => simp [chunksOf, chain]
  | cons c cs ih =>
    rw [List.cons_append, List.pairwise_cons] at hmono
    have hpc : ble p c = true := hmono.1 c (by simp)
    have hce : ble c e = true := by
      have := hmono.2
      rw [List.cons_append, List.pairwise_cons] at this
      exact this.1 e (by simp)
    have := ih c hmono.2
    simp only [chunksOf, chain, List.map_cons, List.flatten_cons] at this ⊢
    rw [this, seg_split (sortedEnc_of_sortedRecs hs hk) p c e hpc hce]

/-- **Chunks cut at index keys are key-disjoint** — the hypothesis `KeyDisjoint` of the theorems above is
what `adjustPartitionsBorders` establishes. -/
theorem chunks_keyDisjoint {recs0 : List Rec} (hs : SortedRecs recs0) (hk : GoodRecs recs0) (p : Bytes)
    (cs : List Bytes) (e : Bytes) (hidx : ∀ c ∈ cs, ∃ k, Alphabet k ∧ c = encode k 0)
    (hmono : (p :: cs ++ [e]).Pairwise (fun x y => ble x y = true)) :
    KeyDisjoint (chunksOf recs0 p cs e) := by
  induction cs generalizing p with
  | nil => simp [chunksOf, chain, KeyDisjoint]
  | cons c cs ih =>
    rw [List.cons_append, List.pairwise_cons] at hmono
    obtain ⟨k, hkA, rfl⟩ := hidx c (by simp)
    show List.Pairwise _ (seg recs0 p (encode k 0) :: chunksOf recs0 (encode k 0) cs e)
    rw [List.pairwise_cons]
    refine ⟨?_, ih (encode k 0) (fun x hx => hidx x (by simp [hx])) hmono.2⟩
    intro part hpart a ha b hb
    have hb' : b ∈ seg recs0 (encode k 0) e := by
      rw [← chunks_flatten hs hk (encode k 0) cs e hmono.2]
      exact List.mem_flatten.2 ⟨part, hpart, hb⟩
    exact seg_keys_disjoint hk p e hkA a ha b hb'

/-- the snapshot the worker of partition `[lo, hi)` iterates over: the decoded iterator output -/
theorem partition_snapshot (q : Quirks) {recs0 : List Rec} (hw : WellKeyed recs0) (hk : GoodRecs recs0)
    (lo hi : Bytes) (hle : ble lo hi = true) :
    decodeRecs (iterate q (encodeStore recs0) lo hi 0) = some (seg recs0 lo hi) := by
  rw [iterate_of_le _ _ _ _ hle, iterAsc_encodeStore, decodeRecs_encodeStore (hk.seg _ _)]
  congr 1
  have : ∀ r ∈ seg recs0 lo hi, ({ r with ik := encOf r } : Rec) = id r := by
    intro r hr
    have := hw r (List.mem_filter.1 hr).1
    cases r
    simp only [encOf, id] at this ⊢
    rw [this]
  rw [List.map_congr_left this, List.map_id]

/-- **The partitions `compactRange` runs its workers over** (well-formed, sorted engine borders; range
`[encode a 0, encode b 0)` as `compactBorders` gives): every worker's snapshot of the store
`encodeStore recs0` is a chunk `seg recs0 lo hi`; the chunks are key-disjoint and concatenate to the records
of the range. -/
theorem compact_chunks (c : Cfg) (splits : List Bytes)
    (hsorted : splits.Pairwise (fun x y => cmp x y = .lt)) (hgood : ∀ b ∈ splits, IsEnc b)
    (a b : Bytes) (ha : Alphabet a) (hb : Alphabet b) (hab : cmp a b = .lt)
    {recs0 : List Rec} (hs : SortedRecs recs0) (hw : WellKeyed recs0) (hk : GoodRecs recs0) :
    ∃ prs, scanPartitions { c with splits := splits } (encode a 0) (encode b 0) = some prs ∧
      (∀ pr ∈ prs, decodeRecs (iterate c.q (encodeStore recs0) pr.1 pr.2 0) = some (seg recs0 pr.1 pr.2)) ∧
      KeyDisjoint (prs.map (fun pr => seg recs0 pr.1 pr.2)) ∧
      (prs.map (fun pr => seg recs0 pr.1 pr.2)).flatten = seg recs0 (encode a 0) (encode b 0) := by
  obtain ⟨cs, hparts, hidx, hmono⟩ := scanPartitions_good c splits hsorted hgood a b ha hb hab
  exact ⟨_, hparts,
    fun pr hpr => partition_snapshot c.q hw hk pr.1 pr.2 (chain_mem_le _ _ _ hmono pr hpr),
    chunks_keyDisjoint hs hk _ cs _ hidx hmono, chunks_flatten hs hk _ cs _ hmono⟩

/-- the raw keys of the partition `[encode a 0, encode b 0)` -/
def rangeDom (a b : Bytes) (k : Bytes) : Bool := ble a k && blt k b

/-- the iterator of a partition with index-key borders yields exactly the records of the raw keys in
`[a, b)`: the key range `proj (rangeDom a b)` of the staggered race -/
theorem iterAsc_eq_proj {s : Store} (hg : GoodKeys s) {a b : Bytes} (ha : Alphabet a) (hb : Alphabet b) :
    iterAsc s (encode a 0) (encode b 0) = proj (rangeDom a b) s := by
  unfold iterAsc proj
  apply List.filter_congr
  intro kv hkv
  obtain ⟨k, n, e, hkA, hn⟩ := hg kv hkv
  rw [e, inDom_encode _ _ hn]
  have h1 : ble (encode a 0) (encode k n) = ble a k := by
    rw [Bool.eq_iff_iff, C10.encode_le_iff ha hkA (by decide) hn, ble_iff_lt_or_eq, blt_iff]
    constructor
    · rintro (h | ⟨h, _⟩)
      · exact .inl h
      · exact .inr h
    · rintro (h | h)
      · exact .inl h
      · exact .inr ⟨h, Nat.zero_le _⟩
  have h2 : blt (encode k n) (encode b 0) = blt k b := by
    rw [Bool.eq_iff_iff, C10.encode_lt_iff hkA hb hn (by decide)]
    constructor
    · rintro (h | ⟨_, h⟩)
      · exact h
      · omega
    · exact .inl
  rw [h1, h2]; rfl

/-- the key ranges between consecutive borders `b₀ ≤ b₁ ≤ … ≤ bₙ` (raw keys) -/
def rangeDoms (bs : List Bytes) (i : Nat) (k : Bytes) : Bool :=
  match bs[i]?, bs[i + 1]? with
  | some a, some b => rangeDom a b k
  | _, _ => false

theorem rangeDoms_disjoint {bs : List Bytes} (hmono : bs.Pairwise (fun x y => ble x y = true)) :
    DomDisjoint (rangeDoms bs) := by
  have key : ∀ i j k, i < j → rangeDoms bs i k = true → rangeDoms bs j k = true → False := by
    intro i j k hij hi hj
    unfold rangeDoms at hi hj
    cases h1 : bs[i]? with
    | none => simp [h1] at hi
    | some a =>
      cases h2 : bs[i + 1]? with
      | none => simp [h1, h2] at hi
      | some b =>
        cases h3 : bs[j]? with
        | none => simp [h3] at hj
        | some a' =>
          cases h4 : bs[j + 1]? with
          | none => simp [h3, h4] at hj
          | some b' =>
            simp only [h1, h2, h3, h4, rangeDom, Bool.and_eq_true] at hi hj
            have hba' : ble b a' = true := by
              obtain ⟨l2, e2⟩ := List.getElem?_eq_some_iff.1 h2
              obtain ⟨l3, e3⟩ := List.getElem?_eq_some_iff.1 h3
              rcases Nat.lt_or_ge (i + 1) j with h | h
              · rw [← e2, ← e3]; exact List.pairwise_iff_getElem.1 hmono (i + 1) j l2 l3 h
              · have : i + 1 = j := by omega
                subst this
                rw [h2] at h3; injection h3 with h3
                rw [h3, ble_iff, cmp_refl]; decide
            have := blt_of_blt_of_ble (blt_of_blt_of_ble hi.2 hba') hj.1
            rw [blt_iff, cmp_refl] at this; cases this
  intro i j k hi hj
  rcases Nat.lt_trichotomy i j with h | h | h
  · exact (key i j k h hi hj).elim
  · exact h
  · exact (key j i k h hj hi).elim

/-! ### non-vacuity: two workers, a deleted key re-created in between their calls -/

def ka : Bytes := [47, 97]
def kb : Bytes := [47, 98]

/-- chunk 0: `ka` live with versions 4, 5 -/
def chunkA : List Rec :=
  [ { key := ka, rev := 0, val := be64 5, ik := encode ka 0 },
    { key := ka, rev := 4, val := [2], ik := encode ka 4 },
    { key := ka, rev := 5, val := [3], ik := encode ka 5 } ]

/-- chunk 1: `kb` deleted: version 3, deletion marker 7, index `(7, flag)` -/
def chunkB : List Rec :=
  [ { key := kb, rev := 0, val := be64 7 ++ [0], ik := encode kb 0 },
    { key := kb, rev := 3, val := [1], ik := encode kb 3 },
    { key := kb, rev := 7, val := tombstone, ik := encode kb 7 } ]

def parts2 : List (List Rec) := [chunkA, chunkB]

theorem parts2_hyps :
    SortedRecs parts2.flatten ∧ WellKeyed parts2.flatten ∧
      (∀ r ∈ parts2.flatten, Alphabet r.key ∧ r.rev < 2 ^ 64) ∧ (∀ r ∈ parts2.flatten, r.key ≠ []) ∧
      IdxWF parts2.flatten ∧ KeyDisjoint parts2 := by decide

/-- the two passes at `R = 8`: worker 0 has one delete call, worker 1 three — the first is the
compare-and-delete of `kb`'s index record -/
theorem parts2_acts :
    (init 8 parts2).workers.map (·.pending) =
      [ [.del (encode ka 4) ka, .emit ka [3] 5],
        [.delcur (idxKey kb) (be64 7 ++ [0]) kb, .del (encode kb 3) kb, .del (encode kb 7) kb] ] := by decide

def okMasks : Nat → Nat → DelOutcome := fun _ _ => .ok

/-- worker 1's first call fails with a non-CAS error: it skips `kb` from then on; worker 0 is not affected -/
def failMasks : Nat → Nat → DelOutcome := fun w i => if w = 1 ∧ i = 0 then .fail else .ok

/-- worker 1's compare-and-delete (its call 0) and its plain delete of `kb`'s version 3 (its call 1) fail
with an error of the failed-condition class -/
def casMasks : Nat → Nat → DelOutcome := fun w i => if w = 1 ∧ (i = 0 ∨ i = 1) then .failCas else .ok

def createOps : List BOp := [.pine (idxKey kb) (be8 10), .put (encode kb 10) [9]]
def recreateOps : List BOp := [.cas (idxKey kb) (be8 10) (be64 7 ++ [0]), .put (encode kb 10) [9]]

/-- Order A: the workers alternate; the writer re-creates `kb` at revision 10 BEFORE worker 1's
compare-and-delete of `kb`'s index record (`PutIfNotExist` conflicts with the flagged record, the `CAS` over
it succeeds), which then fails. -/
def runA : List Step :=
  [.compDel 0, .write createOps, .write recreateOps, .compDel 1, .compDel 0, .compDel 1, .compDel 0, .compDel 1]

/-- Order B: worker 1's compare-and-delete removes `kb`'s index record first; then the re-create
(`PutIfNotExist` succeeds); the workers go on alternating. -/
def runB : List Step :=
  [.compDel 0, .compDel 1, .write createOps, .compDel 0, .compDel 1, .compDel 0, .compDel 1]

def sA : PState := run .tikv okMasks (init 8 parts2) runA
def sB : PState := run .tikv okMasks (init 8 parts2) runB
def sF : PState := run .tikv failMasks (init 8 parts2) runB

set_option maxRecDepth 100000 in
theorem runA_disciplined : Disciplined .tikv okMasks 8 (init 8 parts2) runA :=
  ⟨trivial, .create kb [9] 10 (by decide), .recreate kb [9] (be64 7 ++ [0]) 10 (by decide),
    trivial, trivial, trivial, trivial, trivial, trivial⟩

set_option maxRecDepth 100000 in
theorem runB_disciplined : Disciplined .tikv okMasks 8 (init 8 parts2) runB :=
  ⟨trivial, trivial, .create kb [9] 10 (by decide), trivial, trivial, trivial, trivial, trivial⟩

set_option maxRecDepth 100000 in
theorem runF_disciplined : Disciplined .tikv failMasks 8 (init 8 parts2) runB :=
  ⟨trivial, trivial, .create kb [9] 10 (by decide), trivial, trivial, trivial, trivial, trivial⟩

def sC : PState := run .tikv casMasks (init 8 parts2) runB

set_option maxRecDepth 100000 in
theorem runC_disciplined : Disciplined .tikv casMasks 8 (init 8 parts2) runB :=
  ⟨trivial, trivial, .create kb [9] 10 (by decide), trivial, trivial, trivial, trivial, trivial⟩

set_option maxRecDepth 100000 in
/-- failed-condition errors: the failed compare-and-delete is not remembered, the failed plain delete is —
worker 1 skips the marker of `kb`; worker 0 is not affected -/
theorem runC_facts :
    (run .tikv casMasks (init 8 parts2) [.compDel 0, .compDel 1]).workers.map (·.lastFailed) = [[], []] ∧
    sC.workers.map (·.lastFailed) = [[], kb] ∧
    sC.workers.map (·.trace) = [ [.del (encode ka 4)], [.delcur (idxKey kb), .del (encode kb 3)] ] ∧
    sC.workers.map (·.pending) = [[], []] ∧
    sC.store.get (encode ka 4) = none ∧ sC.store.get (encode kb 3) = some [1] ∧
    sC.store.get (encode kb 7) = some tombstone ∧
    sC.store.get (idxKey kb) = some (be64 7 ++ [0]) ∧
    readS 8 sC.store kb = none ∧ readS (2 ^ 64 - 1) sC.store kb = none ∧
    readS 8 sC.store ka = some ([3], 5) := by
  decide

set_option maxRecDepth 100000 in
theorem runA_facts :
    -- both workers are done; each made its own calls
    sA.workers.map (·.pending) = [[], []] ∧
    sA.workers.map (·.trace) =
      [ [.del (encode ka 4)], [.delcur (idxKey kb), .del (encode kb 3), .del (encode kb 7)] ] ∧
    sA.workers.map (·.calls) = [1, 3] ∧
    -- worker 1's compare-and-delete failed: the index record is there, with the writer's value
    sA.store.get (idxKey kb) = some (be8 10) ∧
    logicalIdx sA.store kb = some 10 ∧ logicalIdx sA.store ka = some 5 ∧
    -- the superseded version of `ka` and the old history of `kb` are gone
    sA.store.get (encode ka 4) = none ∧ sA.store.get (encode kb 3) = none ∧
    sA.store.get (encode kb 7) = none ∧
    -- reads of `kb`: deleted at 8 and 9, the new object from 10 on
    readS 8 sA.store kb = none ∧ readS 9 sA.store kb = none ∧
    readS 10 sA.store kb = some ([9], 10) ∧ readS (2 ^ 64 - 1) sA.store kb = some ([9], 10) ∧
    -- reads of `ka`: untouched
    readS 8 sA.store ka = some ([3], 5) ∧ readS 9 sA.store ka = some ([3], 5) ∧
    readS 10 sA.store ka = some ([3], 5) ∧ readS (2 ^ 64 - 1) sA.store ka = some ([3], 5) ∧
    -- the restored store has the whole history again, and the same reads
    (storeRecs (restored parts2.flatten sA.store)).map (fun r => (r.key, r.rev)) =
      [(ka, 0), (ka, 4), (ka, 5), (kb, 0), (kb, 3), (kb, 7), (kb, 10)] ∧
    readS 8 (restored parts2.flatten sA.store) kb = none ∧
    readS 10 (restored parts2.flatten sA.store) kb = some ([9], 10) := by
  decide

set_option maxRecDepth 100000 in
theorem runB_facts :
    -- worker 1's compare-and-delete removed the index record of `kb`, so the create commits at once
    (run .tikv okMasks (init 8 parts2) [.compDel 0, .compDel 1]).store.get (idxKey kb) = none ∧
    sB.workers.map (·.pending) = [[], []] ∧
    sB.workers.map (·.trace) =
      [ [.del (encode ka 4)], [.delcur (idxKey kb), .del (encode kb 3), .del (encode kb 7)] ] ∧
    logicalIdx sB.store kb = some 10 ∧ logicalIdx sB.store ka = some 5 ∧
    readS 8 sB.store kb = none ∧ readS 9 sB.store kb = none ∧
    readS 10 sB.store kb = some ([9], 10) ∧ readS (2 ^ 64 - 1) sB.store kb = some ([9], 10) ∧
    readS 8 sB.store ka = some ([3], 5) ∧ readS (2 ^ 64 - 1) sB.store ka = some ([3], 5) ∧
    -- both orders end in the same store
    sB.store = sA.store := by
  decide

set_option maxRecDepth 100000 in
/-- the skip key is per worker: worker 1's failed call makes it skip all of `kb`; worker 0 compacts `ka` -/
theorem runF_facts :
    sF.workers.map (·.lastFailed) = [[], kb] ∧
    sF.workers.map (·.trace) = [ [.del (encode ka 4)], [.delcur (idxKey kb)] ] ∧
    sF.store.get (encode ka 4) = none ∧ sF.store.get (encode kb 3) = some [1] ∧
    sF.store.get (encode kb 7) = some tombstone ∧
    -- the create conflicts with the flagged index record, which is still there
    sF.store.get (idxKey kb) = some (be64 7 ++ [0]) ∧
    readS 8 sF.store kb = none ∧ readS (2 ^ 64 - 1) sF.store kb = none ∧
    readS 8 sF.store ka = some ([3], 5) := by
  decide

/-- the theorems apply to the runs (their hypotheses are satisfiable) -/
example (R' : Nat) (hR : 8 ≤ R') (k : Bytes) :
    readS R' sA.store k = readS R' (restored parts2.flatten sA.store) k :=
  par_race_equals_restored parts2_hyps.1 parts2_hyps.2.1 parts2_hyps.2.2.1 parts2_hyps.2.2.2.1
    parts2_hyps.2.2.2.2.1 parts2_hyps.2.2.2.2.2 8 .tikv okMasks runA runA_disciplined R' hR k

example := par_compDel_invisible parts2_hyps.1 parts2_hyps.2.1 parts2_hyps.2.2.1 parts2_hyps.2.2.2.1
    parts2_hyps.2.2.2.2.1 parts2_hyps.2.2.2.2.2 8 .tikv failMasks runB runF_disciplined 1

example (R' : Nat) (hR : 8 ≤ R') (k : Bytes) :
    readS R' sC.store k = readS R' (restored parts2.flatten sC.store) k :=
  par_race_equals_restored parts2_hyps.1 parts2_hyps.2.1 parts2_hyps.2.2.1 parts2_hyps.2.2.2.1
    parts2_hyps.2.2.2.2.1 parts2_hyps.2.2.2.2.2 8 .tikv casMasks runB runC_disciplined R' hR k

set_option maxRecDepth 100000 in
/-- the projection of `runA` on worker 1 is the single-worker race of `KB.C07Race` over chunk 1 -/
theorem runA_projected :
    projSteps (chunkDom parts2 1) 1 runA =
      [.write createOps, .write recreateOps, .compDel, .compDel, .compDel] ∧
    projSteps (chunkDom parts2 0) 0 runA = [.compDel, .compDel, .compDel] ∧
    (C07Race.run .tikv (okMasks 1) (C07Race.init 8 chunkB) (projSteps (chunkDom parts2 1) 1 runA)).comp.store =
      proj (chunkDom parts2 1) sA.store := by
  decide

example := par_reduces_to_single parts2_hyps.1 parts2_hyps.2.1 parts2_hyps.2.2.1 parts2_hyps.2.2.2.1
    parts2_hyps.2.2.2.2.1 parts2_hyps.2.2.2.2.2 8 .tikv okMasks runA runA_disciplined 1 chunkB rfl

/-! ### non-vacuity of the staggered race -/

/-- worker 0 owns `ka`, worker 1 owns `kb` -/
def dom2 : Nat → Bytes → Bool := fun i k => (i == 0 && k == ka) || (i == 1 && k == kb)

theorem dom2_disjoint : DomDisjoint dom2 := by
  intro i j k hi hj
  simp only [dom2, Bool.or_eq_true, Bool.and_eq_true, beq_iff_eq] at hi hj
  rcases hi with ⟨rfl, rfl⟩ | ⟨rfl, rfl⟩ <;> rcases hj with ⟨rfl, h⟩ | ⟨rfl, h⟩ <;>
    first | rfl | (exact absurd h (by decide))

/-- Worker 1 is scheduled before it has an iterator (nothing happens); worker 0 starts and deletes `ka`'s
version 4; the writer re-creates `kb` at 10; only THEN worker 1 takes its snapshot — which already has the
new index record and version 10 — and removes the old history of `kb`. -/
def runS : List SStep :=
  [.act (.compDel 1), .start 0, .act (.compDel 0), .act (.write createOps), .act (.write recreateOps),
   .start 1, .act (.compDel 1), .act (.compDel 0), .act (.compDel 1), .act (.compDel 1)]

def sS : PState := srun .tikv okMasks 8 dom2 (sinit parts2.flatten 2) runS

set_option maxRecDepth 100000 in
theorem runS_disciplined : SDisciplined .tikv okMasks 8 dom2 (sinit parts2.flatten 2) runS :=
  ⟨trivial, trivial, trivial, ⟨.create kb [9] 10 (by decide), by decide⟩,
    ⟨.recreate kb [9] (be64 7 ++ [0]) 10 (by decide), by decide⟩, trivial, trivial, trivial, trivial,
    trivial, trivial⟩

set_option maxRecDepth 100000 in
theorem runS_facts :
    -- worker 1's snapshot, taken after the re-create: live index record, versions 3, 7, 10
    (sS.workers.map (fun w => w.snap.map (fun r => (r.key, r.rev, r.val)))) =
      [ [(ka, 0, be64 5), (ka, 4, [2]), (ka, 5, [3])],
        [(kb, 0, be8 10), (kb, 3, [1]), (kb, 7, tombstone), (kb, 10, [9])] ] ∧
    -- so it has no compare-and-delete to make: two unconditional deletes
    sS.workers.map (·.trace) = [ [.del (encode ka 4)], [.del (encode kb 3), .del (encode kb 7)] ] ∧
    sS.workers.map (·.pending) = [[], []] ∧
    logicalIdx sS.store kb = some 10 ∧ logicalIdx sS.store ka = some 5 ∧
    readS 8 sS.store kb = none ∧ readS 9 sS.store kb = none ∧
    readS 10 sS.store kb = some ([9], 10) ∧ readS (2 ^ 64 - 1) sS.store kb = some ([9], 10) ∧
    readS 8 sS.store ka = some ([3], 5) ∧ readS (2 ^ 64 - 1) sS.store ka = some ([3], 5) ∧
    -- the same final store as with simultaneous snapshots
    sS.store = sA.store ∧
    -- starting all workers first IS the race over the chunks of one snapshot
    srun .tikv okMasks 8 dom2 (sinit parts2.flatten 2) [.start 0, .start 1] = init 8 parts2 := by
  decide

example (R' : Nat) (hR : 8 ≤ R') (k : Bytes) :
    readS R' sS.store k = readS R' (restored (allSnaps sS) sS.store) k :=
  par_race_equals_restored_staggered parts2_hyps.1 parts2_hyps.2.1 parts2_hyps.2.2.1 parts2_hyps.2.2.2.1
    parts2_hyps.2.2.2.2.1 dom2_disjoint 2 8 .tikv okMasks runS runS_disciplined R' hR k

/-! ### what is not true -/

/-- the revision whose 8 bytes are the first 8 bytes of the deletion marker -/
def tombRev : Nat := fromBE (tombstone.take 8)

/-- `ka` deleted at 3, its index record flagged with the byte `101` (any 9-byte index value reads as
"deleted": `coder.ParseRevision`) -/
def oddRecs : List Rec :=
  [ { key := ka, rev := 0, val := be64 3 ++ [101], ik := encode ka 0 },
    { key := ka, rev := 3, val := tombstone, ik := encode ka 3 } ]

/-- `WriterBatch.retry` with the flag bytes `[101]`: the rewritten index value IS the deletion marker -/
def oddRetry : List BOp :=
  [.cas (idxKey ka) (be8 tombRev ++ [101]) (be8 3 ++ [101]), .put (encode ka tombRev) tombstone]

/-- a later re-create of `ka` over the (flagged) index value -/
def oddRecreate : List BOp :=
  [.cas (idxKey ka) (be8 (tombRev + 1)) tombstone, .put (encode ka (tombRev + 1)) [7]]

set_option maxRecDepth 100000 in
/-- **`IdxValOK` is needed in the staggered race.** `KB.C07Race.WriterBatch.retry` allows ANY flag bytes.
With the flag `[101]` a retry batch can write the deletion marker `"tombstone"` itself as an index VALUE. In
the race over one snapshot that is harmless (the workers decide from the snapshot, which satisfies `IdxWF`);
but a worker that takes its snapshot AFTER that commit sees an index record with the marker value and issues
the unconditional "delete tombstone data" call (scanner.go:478) for it — which later removes the index record
of the key a writer has re-created in between: its logical index changes from `live at tombRev + 1` to
`absent`. (The backend's retry copies the flag `[]` / `[0]` it read, so it never writes such a value.) -/
theorem staggered_needs_idxValOK :
    let dom : Nat → Bytes → Bool := fun i k => i == 0 && k == ka
    let s0 := sinit oddRecs 1
    let s1 := sstep .tikv okMasks 8 dom s0 (.act (.write oddRetry))
    let s2 := sstep .tikv okMasks 8 dom s1 (.start 0)
    let s3 := sstep .tikv okMasks 8 dom s2 (.act (.write oddRecreate))
    let s4 := step .tikv okMasks s3 (.compDel 0)
    SortedRecs oddRecs ∧ WellKeyed oddRecs ∧ (∀ r ∈ oddRecs, Alphabet r.key ∧ r.rev < 2 ^ 64) ∧
      (∀ r ∈ oddRecs, r.key ≠ []) ∧ IdxWF oddRecs ∧
      -- both commits are `WriterBatch`es (`retry` and `recreate`) at fresh revisions, and both commit
      Fresh 8 s0.store ka tombRev ∧ Fresh 8 s2.store ka (tombRev + 1) ∧
      s1.store.get (idxKey ka) = some tombstone ∧ s3.store.get (idxKey ka) = some (be8 (tombRev + 1)) ∧
      -- only the first violates `IdxValOK`
      ¬ IdxValOK oddRetry ∧ IdxValOK oddRecreate ∧
      -- the worker's snapshot has the marker as an index value; its first action is an UNCONDITIONAL delete
      -- of the index record
      ¬ IdxWF (s2.workers.flatMap (·.snap)) ∧
      s2.workers.map (·.pending) = [[.del (idxKey ka) ka, .del (encode ka 3) ka]] ∧
      -- which changes the logical index of the re-created key
      logicalIdx s3.store ka = some (tombRev + 1) ∧ logicalIdx s4.store ka = none := by
  decide

theorem oddRetry_writerBatch : WriterBatch 8 (sinit oddRecs 1).store oddRetry :=
  .retry ka tombstone [101] tombRev 3 (by decide)

end KB.C07Par
