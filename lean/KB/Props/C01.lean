/-
  C01 — Conditional writes never lose an update.
  Model: KB.Sys — all interleavings of any number of clients issuing create / update / delete with
  arbitrary expected revisions (and the retry loop's rewrites), from every well-formed initial store
  (keys never existed, live, deleted, deleted-and-compacted), with storage faults, for every `Quirks`.
  Ghost: `wlog` = the batches the engine applied, in commit order, each with the condition it was
  committed under.
-/
import KB.Lemmas.SysStore
import KB.Props.C02
namespace KB.C01
open KB KB.SysStore

/-- The last applied write to `k` before position `i` of the log. -/
def predecessor (l : List WLog) (i : Nat) (k : Bytes) : Option WLog :=
  ((l.take i).filter (fun w => w.key == k)).getLast?

/-- State of key `k` in the initial store as its index record tells: absent, live at m, deleted at m. -/
def initIndex (g0 : G) (k : Bytes) : Option (Nat × Bool) :=
  (g0.store.get (idxKey k)).bind parseRevision

/-- The chain property: every applied write extends its key's history exactly as it was conditioned. -/
def ChainAt (g0 : G) (l : List WLog) (i : Nat) (w : WLog) : Prop :=
  match predecessor l i w.key, w.exp with
  | some p, .rev e => p.rev = e ∧ p.rev < w.rev
  | some p, .absent => p.val = none ∧ p.rev < w.rev
  | none, .rev e => ∃ t, initIndex g0 w.key = some (e, t) ∧ e < w.rev
  | none, .absent => initIndex g0 w.key = none ∨ ∃ m, initIndex g0 w.key = some (m, true) ∧ m < w.rev

/-- For every key the applied creates, updates and deletes form one chain in revision order: each
update / guarded delete (and each rewrite) named exactly the revision written by its predecessor and
each create found the key absent or deleted.
`hb`: revisions are uint64 in the implementation; past `2 ^ 64` the 8-byte index record wraps and the
property is false (`KB.SysStore.index_agrees_needs_bound` is a proved witness for `index_agrees`). -/
theorem chain {g0 g : G} (h0 : C02.Init g0) (hs : C02.StoreOK g0) (hr : Reachable g0 g)
    (hb : g.dealt < 2 ^ 64)
    (i : Nat) (w : WLog) (hw : g.wlog[i]? = some w) : ChainAt g0 g.wlog i w :=
  (SInv.reachable h0 hs hr).core.chain hb i w hw

/-- Two writers conditioned on the same revision of the same key never both succeed. -/
theorem no_double_success {g0 g : G} (h0 : C02.Init g0) (hs : C02.StoreOK g0) (hr : Reachable g0 g)
    (hb : g.dealt < 2 ^ 64)
    (i j : Nat) (wi wj : WLog) (hi : g.wlog[i]? = some wi) (hj : g.wlog[j]? = some wj) (hij : i < j)
    (hk : wi.key = wj.key) (e : Nat) (hei : wi.exp = .rev e) (hej : wj.exp = .rev e) : False :=
  chain_no_double ((SInv.reachable h0 hs hr).core.chain hb) i j wi wj hi hj hij hk e hei hej

/-- A step that applies no batch leaves the whole store unchanged: in particular every request that
ends in a failed condition or an error (not "unknown outcome, applied") left its key unchanged. -/
theorem failed_leaves_unchanged (g : G) (a : Action) (h : (act g a).wlog = g.wlog) :
    (act g a).store = g.store :=
  act_store_of_wlog g a h

/-- The index record is the optimistic lock: in every reachable state the index record of a key
written during the run holds exactly the revision (and deletion flag) of the last applied write. -/
theorem index_agrees {g0 g : G} (h0 : C02.Init g0) (hs : C02.StoreOK g0) (hr : Reachable g0 g)
    (hb : g.dealt < 2 ^ 64)
    (w : WLog) (hw : (g.wlog.filter (fun x => x.key == w.key)).getLast? = some w) :
    (g.store.get (idxKey w.key)).bind parseRevision = some (w.rev, w.val.isNone) ∧
    g.store.get (encode w.key w.rev) = some (w.val.getD Generated.tombstone) := by
  have h := SInv.reachable h0 hs hr
  have hi := h.core.idx hb w.key
  have hl : lastW g.wlog w.key = some w := hw
  rw [hl] at hi
  simp only [IdxOK] at hi
  have hrev := (h.core.revs w (lastW_some hl).1).2
  refine ⟨?_, hi.2⟩
  rw [hi.1]
  exact parseRevision_be8_flag (by omega) w.val

/-- A condition is reported failed by a guarded update / delete only when the engine's
compare-and-swap really found the index different from the expectation at that step
(`cond_failed_justified`, local form: the moment is the failing commit step itself). -/
theorem cas_conflict_justified (q : Quirks) (s : Store) (k new old : Bytes) (rest : List BOp)
    (idx : Option Nat) (v : Option Bytes) (h : commit q s (.cas k new old :: rest) = .error (.conflict idx v))
    (hidx : idx = some (0 + q.idxOffset)) : s.get k ≠ some old := by
  intro hget
  subst hidx
  simp only [commit, applyOps, applyOp, hget, if_true] at h
  have := applyOps_conflict_idx h
  omega

/-! Non-vacuity: two updates conditioned on the same revision race; exactly one is applied. -/
def ex0 : G :=
  { dealt := 1001, committed := 1001,
    store := encodeStore [ { key := [47, 97], rev := 0, val := be64 1001, ik := [] },
                           { key := [47, 97], rev := 1001, val := [1], ik := [] } ] }
def exSched : List Action :=
  [ .begin 1 (.update [47, 97] [2] 1001), .begin 2 (.update [47, 97] [3] 1001),
    .step 1 .none, .step 2 .none, .step 2 .none, .step 1 .none, .step 1 .none ]
set_option maxRecDepth 100000 in
example : ((run ex0 exSched).wlog.map (fun w => (w.rev, w.exp))) = [(1003, .rev 1001)] := by decide
set_option maxRecDepth 100000 in
example : ((run ex0 exSched).done.map (fun d => (d.id, d.res))) =
    [(2, .ok 1003), (1, .condFailed 1003 (some ([47, 97], [3], 1003)))] := by decide

/-! Non-vacuity of the rewrite case: a delete applied with unknown outcome is rewritten by the retry loop;
the rewrite is conditioned on (and chained to) the delete itself, both logged as deletions. -/
def exSchedRetry : List Action :=
  [ .begin 1 (.delete [47, 97] 1001), .step 1 .none, .step 1 .none, .step 1 .uncApplied, .seq, .retry .none ]
set_option maxRecDepth 100000 in
example : ((run ex0 exSchedRetry).wlog.map (fun w => (w.rev, w.val, w.exp))) =
    [(1002, none, .rev 1001), (1003, none, .rev 1002)] := by decide

end KB.C01
