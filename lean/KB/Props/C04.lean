/-
  C04 — Every issued revision is resolved: reads never overtake a write and never stall.
  Model: KB.Sys (interleaving LTS of client requests, retry loop and sequencer). The theorems hold
  for every schedule, any number of clients, arbitrary (also future / malformed) expected revisions
  and every placement of storage faults (`Fault` on each commit).
-/
import KB.Lemmas.Sys
namespace KB.C04
open KB

/-- The revision a request has been dealt but not yet reported to the sequencer. -/
def inflightRev (c : Client) : Option Nat :=
  match c.pc with
  | .createCommit r => some r
  | .createReread r => some r
  | .createRetry r => some r
  | .createOver r _ => some r
  | .createRecheck r => some r
  | .updateCommit r => some r
  | .deleteCommit r _ _ => some r
  | _ => none

/-- Initial states: nothing in flight, the read revision has caught up. -/
def Init (g : G) : Prop :=
  g.committed = g.dealt ∧ g.slots = [] ∧ g.clients = [] ∧ g.retryQ = []

instance (g : G) : Decidable (Init g) := by unfold Init; infer_instance

theorem inflightRev_eq (c : Client) : inflightRev c = c.pc.inflight := by
  obtain ⟨id, kind, pc, bd⟩ := c
  cases pc <;> rfl

/-- The sequencing invariant holds in every reachable state. -/
theorem sinv {g0 g : G} (h0 : Init g0) (hr : Reachable g0 g) : SInv g.view :=
  hr.closed SInv.closed (SInv.init h0.1 h0.2.1 h0.2.2.1)

/-- The read revision never reaches the revision of a write whose storage transaction has not finished. -/
theorem committed_lt_unfinished {g0 g : G} (h0 : Init g0) (hr : Reachable g0 g)
    (c : Client) (hc : c ∈ g.clients) (r : Nat) (hi : inflightRev c = some r) : g.committed < r := by
  rw [inflightRev_eq] at hi
  exact (sinv h0 hr).inflR c hc r hi

/-- Slot accounting: every dealt revision above the committed one is either in a filled slot or owned
by exactly one in-flight request that will still report it — never both, never neither. -/
theorem slot_accounting {g0 g : G} (h0 : Init g0) (hr : Reachable g0 g) (r : Nat)
    (hlo : g.committed < r) (hhi : r ≤ g.dealt) :
    ((∃ w ∈ g.slots, w.rev = r) ∧ ¬ ∃ c ∈ g.clients, inflightRev c = some r) ∨
    ((¬ ∃ w ∈ g.slots, w.rev = r) ∧ ∃ c ∈ g.clients, inflightRev c = some r) := by
  have h := sinv h0 hr
  simp only [inflightRev_eq]
  rcases h.cover r hlo hhi with hs | hc
  · left
    refine ⟨hs, ?_⟩
    rintro ⟨c, hc, hi⟩
    obtain ⟨w, hw, rfl⟩ := hs
    exact h.slotInfl w hw c hc hi
  · right
    refine ⟨?_, hc⟩
    rintro ⟨w, hw, rfl⟩
    obtain ⟨c, hc, hi⟩ := hc
    exact h.slotInfl w hw c hc hi

theorem committed_le_dealt {g0 g : G} (h0 : Init g0) (hr : Reachable g0 g) : g.committed ≤ g.dealt :=
  (sinv h0 hr).le

/-- With nothing in flight, the slot of `committed + 1` is filled, and the sequencer consumes it
without touching the dealt counter or the clients. -/
theorem stepSeq_quiescent {g : G} (h : SInv g.view) (hq : ∀ c ∈ g.clients, c.pc.inflight = none)
    (hlt : g.committed < g.dealt) :
    (stepSeq g).committed = g.committed + 1 ∧ (stepSeq g).dealt = g.dealt ∧
      (stepSeq g).clients = g.clients := by
  have hs : ∃ w ∈ g.slots, w.rev = g.committed + 1 := by
    rcases h.cover (g.committed + 1) (Nat.lt_succ_self _) hlt with hs | ⟨c, hc, hi⟩
    · exact hs
    · have := hq c hc
      rw [this] at hi
      cases hi
  obtain ⟨w, hw, hwr⟩ := hs
  unfold stepSeq
  split
  · rename_i hnone
    have := List.find?_eq_none.mp hnone w hw
    simp [hwr] at this
  · rename_i w' hw'
    have h1 : w' ∈ g.slots := List.mem_of_find?_eq_some hw'
    have h2 : w'.rev = g.committed + 1 := by simpa using List.find?_some hw'
    have h3 := h.slotR w' h1
    refine ⟨h2, ?_, rfl⟩
    show max g.dealt w'.rev = g.dealt
    have : w'.rev ≤ g.dealt := h3.2
    omega

/-- No stall: when no request is in flight and some revision is still unresolved, the sequencer has
an enabled step, and that step advances the read revision by exactly one. -/
theorem sequencer_enabled {g0 g : G} (h0 : Init g0) (hr : Reachable g0 g)
    (hq : ∀ c ∈ g.clients, inflightRev c = none) (hlt : g.committed < g.dealt) :
    (stepSeq g).committed = g.committed + 1 := by
  simp only [inflightRev_eq] at hq
  exact (stepSeq_quiescent (sinv h0 hr) hq hlt).1

/-- Once all in-flight requests have returned, running the sequencer reaches the highest revision
handed out — for every mix of outcomes, including drift rejections and storage errors. -/
theorem quiescent_catches_up {g0 g : G} (h0 : Init g0) (hr : Reachable g0 g)
    (hq : ∀ c ∈ g.clients, inflightRev c = none) :
    (run g (List.replicate (g.dealt - g.committed) Action.seq)).committed = g.dealt := by
  simp only [inflightRev_eq] at hq
  have hle := committed_le_dealt h0 hr
  generalize hn : g.dealt - g.committed = n
  induction n generalizing g with
  | zero =>
    show g.committed = g.dealt
    omega
  | succ n ih =>
    have hlt : g.committed < g.dealt := by omega
    obtain ⟨e1, e2, e3⟩ := stepSeq_quiescent (sinv h0 hr) hq hlt
    have hr' : Reachable g0 (stepSeq g) := hr.step .seq
    have := ih hr' (by rw [e3]; exact hq) (by omega) (by omega)
    rw [e2] at this
    simpa [run, List.replicate_succ, act] using this

/-- The full invariant (sequencing and finished-request log) holds in every state reachable from an
initial state whose ghost log of finished requests is empty. -/
theorem finv {g0 g : G} (h0 : Init g0) (hd0 : g0.done = []) (hr : Reachable g0 g) : FInv g.view :=
  hr.closed FInv.closed ⟨SInv.init h0.1 h0.2.1 h0.2.2.1, DInv.init hd0⟩

/-- Every request that returned consumed exactly one revision and reported it: nothing it dealt is
left unresolved (in particular the revision-drift rejections). (`hd0`: the ghost log of finished
requests starts empty — `Init` alone does not say so.) -/
theorem done_resolved {g0 g : G} (h0 : Init g0) (hd0 : g0.done = []) (hr : Reachable g0 g)
    (d : Done) (hd : d ∈ g.done) :
    d.rev ≠ 0 ∧ (d.rev ≤ g.committed ∨ ∃ w ∈ g.slots, w.rev = d.rev) := by
  have h := (finv h0 hd0 hr).2
  refine ⟨?_, h.dRes d hd⟩
  have := (h.dR d hd).1
  omega

/-! Non-vacuity: a reachable state with an out-of-order completion and a drift rejection. -/
def ex0 : G := { dealt := 1000, committed := 1000 }
def exSched : List Action :=
  [ .begin 1 (.create [47, 97] [1]), .begin 2 (.update [47, 98] [2] (2 ^ 62)), .begin 3 (.create [47, 99] [3]),
    .step 1 .none, .step 2 .none, .step 3 .none, .step 3 .none, .seq ]
example : Init ex0 := by decide
example : (run ex0 exSched).committed = 1000 ∧ (run ex0 exSched).dealt = 1003 ∧
    ((run ex0 exSched).slots.map (·.rev)) = [1002, 1003] := by decide

end KB.C04
