/-
  C04 — Every issued revision is resolved: reads never overtake a write and never stall.
  Model: KB.Sys (interleaving LTS of client requests, retry loop and sequencer). The theorems hold
  for every schedule, any number of clients, arbitrary (also future / malformed) expected revisions
  and every placement of storage faults (`Fault` on each commit). The retry loop's repair is two steps
  (read + deal, commit + report); between them the revision it was dealt is in flight like a client's.
-/
import KB.Lemmas.Sys
namespace KB.C04
open KB

/-- The revision a request has been dealt but not yet reported to the sequencer. -/
def inflightRev (c : Client) : Option Nat :=
  match c.pc with
  | .createCommit r => some r
  | .createReread r => some r
  | .createRetry r => some r
  | .createOver r _ _ => some r
  | .createRecheck r _ => some r
  | .updateCommit r => some r
  | .deleteCommit r _ _ => some r
  | _ => none

/-- The revision the retry loop has been dealt (for its rewrite) but not yet reported to the sequencer. -/
def repairRev (g : G) : Option Nat := g.retryPc.map (·.rev)

/-- Initial states: nothing in flight, the read revision has caught up. -/
def Init (g : G) : Prop :=
  g.committed = g.dealt ∧ g.slots = [] ∧ g.clients = [] ∧ g.retryQ = [] ∧ g.retryPc = none

instance (g : G) : Decidable (Init g) := by unfold Init; infer_instance

theorem inflightRev_eq (c : Client) : inflightRev c = c.pc.inflight := by
  obtain ⟨id, kind, pc, bd⟩ := c
  cases pc <;> rfl

/-- The sequencing invariant holds in every reachable state. -/
theorem sinv {g0 g : G} (h0 : Init g0) (hr : Reachable g0 g) : SInv g.view :=
  hr.closed SInv.closed (SInv.init h0.1 h0.2.1 h0.2.2.1 h0.2.2.2.2)

/-- The read revision never reaches the revision of a write whose storage transaction has not finished. -/
theorem committed_lt_unfinished {g0 g : G} (h0 : Init g0) (hr : Reachable g0 g)
    (c : Client) (hc : c ∈ g.clients) (r : Nat) (hi : inflightRev c = some r) : g.committed < r := by
  rw [inflightRev_eq] at hi
  exact (sinv h0 hr).inflR c hc r hi

/-- ... nor the revision the retry loop holds between its read and its commit. -/
theorem committed_lt_repair {g0 g : G} (h0 : Init g0) (hr : Reachable g0 g) (r : Nat)
    (hi : repairRev g = some r) : g.committed < r ∧ r ≤ g.dealt :=
  (sinv h0 hr).rpcR r hi

/-- Slot accounting: every dealt revision above the committed one is in a filled slot, or owned by an
in-flight request that will still report it, or held by the retry loop between its read and its commit —
exactly one of the three (and by exactly one request: `C02.deal_unique`). -/
theorem slot_accounting {g0 g : G} (h0 : Init g0) (hr : Reachable g0 g) (r : Nat)
    (hlo : g.committed < r) (hhi : r ≤ g.dealt) :
    ((∃ w ∈ g.slots, w.rev = r) ∧ (¬ ∃ c ∈ g.clients, inflightRev c = some r) ∧ repairRev g ≠ some r) ∨
    ((¬ ∃ w ∈ g.slots, w.rev = r) ∧ (∃ c ∈ g.clients, inflightRev c = some r) ∧ repairRev g ≠ some r) ∨
    ((¬ ∃ w ∈ g.slots, w.rev = r) ∧ (¬ ∃ c ∈ g.clients, inflightRev c = some r) ∧ repairRev g = some r) := by
  have h := sinv h0 hr
  simp only [inflightRev_eq]
  have hsc : ¬ ((∃ w ∈ g.slots, w.rev = r) ∧ ∃ c ∈ g.clients, c.pc.inflight = some r) := by
    rintro ⟨⟨w, hw, rfl⟩, c, hc, hi⟩
    exact h.slotInfl w hw c hc hi
  have hsr : ¬ ((∃ w ∈ g.slots, w.rev = r) ∧ repairRev g = some r) := by
    rintro ⟨⟨w, hw, rfl⟩, hi⟩
    exact h.rpcSlot w hw hi
  have hcr : ¬ ((∃ c ∈ g.clients, c.pc.inflight = some r) ∧ repairRev g = some r) := by
    rintro ⟨⟨c, hc, hi⟩, hp⟩
    exact h.rpcInfl c hc r hi hp
  rcases h.cover r hlo hhi with hs | hc | hp
  · exact .inl ⟨hs, fun hc => hsc ⟨hs, hc⟩, fun hp => hsr ⟨hs, hp⟩⟩
  · exact .inr (.inl ⟨fun hs => hsc ⟨hs, hc⟩, hc, fun hp => hcr ⟨hc, hp⟩⟩)
  · exact .inr (.inr ⟨fun hs => hsr ⟨hs, hp⟩, fun hc => hcr ⟨hc, hp⟩, hp⟩)

theorem committed_le_dealt {g0 g : G} (h0 : Init g0) (hr : Reachable g0 g) : g.committed ≤ g.dealt :=
  (sinv h0 hr).le

/-- With nothing in flight, the slot of `committed + 1` is filled, and the sequencer consumes it
without touching the dealt counter, the clients or the retry loop. -/
theorem stepSeq_quiescent {g : G} (h : SInv g.view) (hq : ∀ c ∈ g.clients, c.pc.inflight = none)
    (hp : g.retryPc = none) (hlt : g.committed < g.dealt) :
    (stepSeq g).committed = g.committed + 1 ∧ (stepSeq g).dealt = g.dealt ∧
      (stepSeq g).clients = g.clients ∧ (stepSeq g).retryPc = none := by
  have hs : ∃ w ∈ g.slots, w.rev = g.committed + 1 := by
    rcases h.cover (g.committed + 1) (Nat.lt_succ_self _) hlt with hs | ⟨c, hc, hi⟩ | hr
    · exact hs
    · have := hq c hc
      rw [this] at hi
      cases hi
    · simp [G.view, hp] at hr
  obtain ⟨w, hw, hwr⟩ := hs
  unfold stepSeq
  split
  · rename_i hnone
    have := List.find?_eq_none.mp hnone w hw
    simp [hwr] at this
  · rename_i w' hw'
    have h1 : w' ∈ g.slots := List.mem_of_find?_eq_some hw'
    have h2 : w'.rev = g.committed + 1 := by simpa using List.find?_some hw'
    have h3 := h.slotR w' h1
    refine ⟨h2, ?_, rfl, hp⟩
    show max g.dealt w'.rev = g.dealt
    have : w'.rev ≤ g.dealt := h3.2
    omega

/-- No stall: when no request is in flight, the retry loop is not in the middle of a repair and some
revision is still unresolved, the sequencer has an enabled step, and that step advances the read revision by
exactly one. -/
theorem sequencer_enabled {g0 g : G} (h0 : Init g0) (hr : Reachable g0 g)
    (hq : ∀ c ∈ g.clients, inflightRev c = none) (hp : g.retryPc = none) (hlt : g.committed < g.dealt) :
    (stepSeq g).committed = g.committed + 1 := by
  simp only [inflightRev_eq] at hq
  exact (stepSeq_quiescent (sinv h0 hr) hq hp hlt).1

/-- Once all in-flight requests have returned and the retry loop has finished the repair it was in the
middle of (if any), running the sequencer reaches the highest revision handed out — for every mix of
outcomes, including drift rejections, storage errors and repairs that lost their compare-and-swap. -/
theorem quiescent_catches_up {g0 g : G} (h0 : Init g0) (hr : Reachable g0 g)
    (hq : ∀ c ∈ g.clients, inflightRev c = none) (hp : g.retryPc = none) :
    (run g (List.replicate (g.dealt - g.committed) Action.seq)).committed = g.dealt := by
  simp only [inflightRev_eq] at hq
  have hle := committed_le_dealt h0 hr
  generalize hn : g.dealt - g.committed = n
  induction n generalizing g with
  | zero =>
    show g.committed = g.dealt
    omega
  | succ n ih =>
    have hlt : g.committed < g.dealt := by omega
    obtain ⟨e1, e2, e3, e4⟩ := stepSeq_quiescent (sinv h0 hr) hq hp hlt
    have hr' : Reachable g0 (stepSeq g) := hr.step .seq
    have := ih hr' e4 (by rw [e3]; exact hq) (by omega) (by omega)
    rw [e2] at this
    simpa [run, List.replicate_succ, act] using this

/-- The full invariant (sequencing and finished-request log) holds in every state reachable from an
initial state whose ghost log of finished requests is empty. -/
theorem finv {g0 g : G} (h0 : Init g0) (hd0 : g0.done = []) (hr : Reachable g0 g) : FInv g.view :=
  hr.closed FInv.closed ⟨SInv.init h0.1 h0.2.1 h0.2.2.1 h0.2.2.2.2, DInv.init hd0⟩

/-- Every request that returned with a revision (`done`; a request whose `Deal` was refused because the sequencer's ring
was full holds none and is logged in `refused`: `KB.C04Window`) consumed exactly one revision and reported it: nothing
it dealt is left unresolved (in particular the revision-drift rejections). (`hd0`: the ghost log of finished
requests starts empty — `Init` alone does not say so.) -/
theorem done_resolved {g0 g : G} (h0 : Init g0) (hd0 : g0.done = []) (hr : Reachable g0 g)
    (d : Done) (hd : d ∈ g.done) :
    d.rev ≠ 0 ∧ (d.rev ≤ g.committed ∨ ∃ w ∈ g.slots, w.rev = d.rev) := by
  have h := (finv h0 hd0 hr).2
  refine ⟨?_, h.dRes d hd⟩
  have := (h.dR d hd).1
  omega

/-! Non-vacuity: a reachable state with an out-of-order completion and a drift rejection. -/
def ex0 : G := { dealt := 1000, committed := 1000 }
def exSched : List Action :=
  [ .begin 1 (.create [47, 97] [1]), .begin 2 (.update [47, 98] [2] (2 ^ 62)), .begin 3 (.create [47, 99] [3]),
    .step 1 .none, .step 2 .none, .step 3 .none, .step 3 .none, .seq ]
example : Init ex0 := by decide
example : (run ex0 exSched).committed = 1000 ∧ (run ex0 exSched).dealt = 1003 ∧
    ((run ex0 exSched).slots.map (·.rev)) = [1002, 1003] := by decide

/-! The retry loop between its read and its commit: request 1's create lands with an unknown outcome and is
queued; the retry loop reads and is dealt revision 1002; request 2 creates another key at 1003 and returns.
Revision 1002 is in no slot and owned by no request — it is the retry loop's (`slot_accounting`, third case). -/
def exRepair : List Action :=
  [ .begin 1 (.create [47, 97] [1]), .step 1 .none, .step 1 .uncApplied, .seq, .retryRead,
    .begin 2 (.create [47, 98] [2]), .step 2 .none, .step 2 .none ]
example : repairRev (run ex0 exRepair) = some 1002 ∧ (run ex0 exRepair).committed = 1001 ∧
    (run ex0 exRepair).dealt = 1003 ∧ ((run ex0 exRepair).slots.map (·.rev)) = [1003] ∧
    (run ex0 exRepair).clients = [] := by decide

/-- `quiescent_catches_up` (and `sequencer_enabled`) without the hypothesis that the retry loop is not in the
middle of a repair is false for the non-atomic repair: in the state above no request is in flight, yet the read
revision cannot pass 1001 — until the repair commits (whatever its outcome), after which it catches up. -/
theorem quiescent_catches_up_needs_idle_repair :
    Init ex0 ∧ (∀ c ∈ (run ex0 exRepair).clients, inflightRev c = none) ∧ (run ex0 exRepair).retryPc ≠ none ∧
      (run (run ex0 exRepair) (List.replicate ((run ex0 exRepair).dealt - (run ex0 exRepair).committed) Action.seq)).committed
        < (run ex0 exRepair).dealt ∧
      (run (act (run ex0 exRepair) (.retryCommit .err))
        (List.replicate ((run ex0 exRepair).dealt - (run ex0 exRepair).committed) Action.seq)).committed
        = (run ex0 exRepair).dealt := by
  decide

end KB.C04
