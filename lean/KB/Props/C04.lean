/-
  C04 — Every issued revision is resolved: reads never overtake a write and never stall.
  Model: KB.Sys (interleaving LTS of client requests, retry loop and sequencer). The theorems hold
  for every schedule, any number of clients, arbitrary (also future / malformed) expected revisions
  and every placement of storage faults (`Fault` on each commit).
-/
import KB.Lemmas.Sys
namespace KB.C04
open KB

/-- The revision a request has been dealt but not yet reported to the sequencer. -/
def inflightRev (c : Client) : Option Nat :=
  match c.pc with
  | .createCommit r => some r
  | .createReread r => some r
  | .createRetry r => some r
  | .createOver r _ => some r
  | .updateCommit r => some r
  | .deleteCommit r _ _ => some r
  | _ => none

/-- Initial states: nothing in flight, the read revision has caught up. -/
def Init (g : G) : Prop :=
  g.committed = g.dealt ∧ g.slots = [] ∧ g.clients = [] ∧ g.retryQ = []

instance (g : G) : Decidable (Init g) := by unfold Init; infer_instance

/-- The read revision never reaches the revision of a write whose storage transaction has not finished. -/
theorem committed_lt_unfinished {g0 g : G} (h0 : Init g0) (hr : Reachable g0 g)
    (c : Client) (hc : c ∈ g.clients) (r : Nat) (hi : inflightRev c = some r) : g.committed < r := by
  sorry

/-- Slot accounting: every dealt revision above the committed one is either in a filled slot or owned
by exactly one in-flight request that will still report it — never both, never neither. -/
theorem slot_accounting {g0 g : G} (h0 : Init g0) (hr : Reachable g0 g) (r : Nat)
    (hlo : g.committed < r) (hhi : r ≤ g.dealt) :
    ((∃ w ∈ g.slots, w.rev = r) ∧ ¬ ∃ c ∈ g.clients, inflightRev c = some r) ∨
    ((¬ ∃ w ∈ g.slots, w.rev = r) ∧ ∃ c ∈ g.clients, inflightRev c = some r) := by
  sorry

theorem committed_le_dealt {g0 g : G} (h0 : Init g0) (hr : Reachable g0 g) : g.committed ≤ g.dealt := by
  sorry

/-- No stall: when no request is in flight and some revision is still unresolved, the sequencer has
an enabled step, and that step advances the read revision by exactly one. -/
theorem sequencer_enabled {g0 g : G} (h0 : Init g0) (hr : Reachable g0 g)
    (hq : ∀ c ∈ g.clients, inflightRev c = none) (hlt : g.committed < g.dealt) :
    (stepSeq g).committed = g.committed + 1 := by
  sorry

/-- Once all in-flight requests have returned, running the sequencer reaches the highest revision
handed out — for every mix of outcomes, including drift rejections and storage errors. -/
theorem quiescent_catches_up {g0 g : G} (h0 : Init g0) (hr : Reachable g0 g)
    (hq : ∀ c ∈ g.clients, inflightRev c = none) :
    (run g (List.replicate (g.dealt - g.committed) Action.seq)).committed = g.dealt := by
  sorry

/-- Every request that returned consumed exactly one revision and reported it: nothing it dealt is
left unresolved (in particular the revision-drift rejections). -/
theorem done_resolved {g0 g : G} (h0 : Init g0) (hr : Reachable g0 g) (d : Done) (hd : d ∈ g.done) :
    d.rev ≠ 0 ∧ (d.rev ≤ g.committed ∨ ∃ w ∈ g.slots, w.rev = d.rev) := by
  sorry

/-! Non-vacuity: a reachable state with an out-of-order completion and a drift rejection. -/
def ex0 : G := { dealt := 1000, committed := 1000 }
def exSched : List Action :=
  [ .begin 1 (.create [47, 97] [1]), .begin 2 (.update [47, 98] [2] (2 ^ 62)), .begin 3 (.create [47, 99] [3]),
    .step 1 .none, .step 2 .none, .step 3 .none, .step 3 .none, .seq ]
example : Init ex0 := by decide
example : (run ex0 exSched).committed = 1000 ∧ (run ex0 exSched).dealt = 1003 ∧
    ((run ex0 exSched).slots.map (·.rev)) = [1002, 1003] := by decide

end KB.C04
