/-
  C02 (store-dependent part) — per-key revisions strictly increase; write responses' header ≥ data.
  Same model and quantifiers as KB.Props.C02; these two need the well-formed-store invariant that
  C01 also uses (KB.Lemmas.SysStore).
-/
import KB.Lemmas.SysStore
import KB.Props.C02
namespace KB.C02Store
open KB KB.C02 KB.SysStore

/-- Along one key's history modification revisions strictly increase (every batch the engine applied). -/
theorem per_key_increasing {g0 g : G} (h0 : C02.Init g0) (hs : C02.StoreOK g0) (hr : Reachable g0 g)
    (hb : g.dealt < 2 ^ 64) (k : Bytes) :
    ((g.hist.filter (fun w => w.key == k)).map (·.rev)).Pairwise (· < ·) := by
  have h := SInv.reachable h0 hs hr
  have := chain_pairwise (h.core.chain hb) k
  rw [h.hist, List.filter_map, List.map_map]
  exact this

/-- Write responses: the header revision is never smaller than the mod revision of the kv carried. -/
theorem write_header_ge_data {g0 g : G} (h0 : C02.Init g0) (hs : C02.StoreOK g0) (hr : Reachable g0 g) (d : Done)
    (hd : d ∈ g.done) (hdr : Nat) (k v : Bytes) (m : Nat) (h : d.res = .condFailed hdr (some (k, v, m))) :
    m ≤ hdr :=
  (SInv.reachable h0 hs hr).dn d hd hdr k v m h

end KB.C02Store
