/-
  Order / call facts for C14 — regenerated from the source (harness/cmd/kbextract/lockcalls.go →
  KB/Generated/OrderFacts.lean).

  The lock model KB.Election gives every candidate three steps (get, create, update) and nothing else moves a candidate's
  compare value `lastVal` (what its next `Update` is conditioned on): `compare_value_moves_only_by_own_get_or_create` below is
  that statement about the MODEL. In a node the steps are client-go's elector's; these `decide`d theorems tie the assumption
  "nothing else in the node takes such a step, and `Update` does not smuggle a read in" to the source as it is now.
  The behavioural counterpart is the `info` step of the `election` correspondence suite (the real leader object's read-only
  endpoints asked between any two steps) and the RELEASE records of its scripts.
-/
import KB.Generated.OrderFacts
import KB.Election
import KB.Lemmas.Election
namespace KB.OrderC14
open KB KB.Election KB.Generated

/-- MODEL: a step that is not candidate `j`'s own `Get` / `Create` leaves `j`'s compare value alone — in particular every
`Update` (a release included: records are opaque bytes) and every step of another candidate. -/
theorem compare_value_moves_only_by_own_get_or_create (c : Cfg) (st : State) (s : Step) (j : Nat)
    (h : s.rereads j = false) : ((step c st s).2.cands j).lastVal = (st.cands j).lastVal :=
  step_lastVal c st s j h

/-- non-vacuity: an `Update` (of anybody, any record) is such a step -/
example (i j : Nat) (rec : Bytes) : (Step.update i rec).rereads j = false := rfl

/-- SOURCE: the compare value is assigned in `getRecord` and `Create` only, and `getRecord` is called by `Get` alone. -/
theorem compare_value_written_by_get_and_create_only :
    lockCallFactsParsed = true ∧ lockCompareValueWriters = ["Create", "getRecord"] ∧ lockRecordReaders = ["Get"] := by decide

/-- SOURCE: `Update` calls nothing on its lock that reads the record (it compares with what the last Get / Create left). -/
theorem update_does_not_reread :
    ("getRecord" ∈ lockUpdateReceiverCalls) = False ∧ ("Get" ∈ lockUpdateReceiverCalls) = False ∧
    ("Create" ∈ lockUpdateReceiverCalls) = False := by decide

/-- SOURCE: the node's own code (pkg/server/service/leader) only DESCRIBES the lock; `Get` / `Create` / `Update` are the
elector's. -/
theorem node_only_describes_the_lock : ∀ m ∈ leaderLockCalls, m = "Describe" ∨ m = "Identity" := by decide

end KB.OrderC14
