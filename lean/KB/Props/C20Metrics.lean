/-
  C20 (metrics part) — "… does not panic (including inside metric emission, where a metric name must
  always be emitted with the same set of label names) …".

  Two layers:
  * GENERIC (all tables, all emission sequences): `consistent_no_panic` — if a table of emission sites
    is `Consistent` (same formatted name ⇒ same raw name, kind, label names) and `WellNamed` (valid
    Prometheus identifiers, no duplicate / reserved label), then NO sequence of emissions drawn from the
    table makes the modelled client (`KB.Metrics.emit`: first use fixes the label set, a later use with
    a different set — or a second registration of a formatted name — is a panic) panic.  Induction on
    the sequence with a registry invariant; not `decide`.
  * INSTANCE (finite quantifier: all emission call sites of the program, regenerated from /repo by
    harness/cmd/kbextract/metrics.go on every run): `metric_labels_consistent`, `metric_names_valid`,
    `metric_sites_resolved`, `metric_dynamic_label_sites`, `metric_sanitised_label_sites` by `decide`,
    and their combination `metrics_never_panic`: NO data a client can send reaches a label value
    unsanitised (the Watch key is passed through strings.ToValidUTF8 since 9c4361e — before that a
    Watch with a non-UTF-8 key killed the node); the only run-time label values left are the leader
    address at seven sites of the election / follower code, which is operator data (see
    `metric_dynamic_label_sites`) and appears as the one explicit hypothesis `LeaderAddressValid`.
  Trusted: the extractor's syntactic resolution of names / labels (fail closed: anything it cannot
  resolve is in `metricSitesUnresolved`, required to be empty), the reading of client_golang v1.12.1
  in KB/Metrics.lean, and that the program's emissions are exactly the calls of the table
  (tied dynamically by the `metrics` harness suite: every site replayed on the real client).
-/
import KB.Metrics
import KB.Generated.MetricSites
namespace KB.C20Metrics
open KB KB.Metrics KB.Generated

/-! ### generic part -/

theorem agreeB_iff (a b : Site) :
    agreeB a b = true ↔ a.name = b.name ∧ a.kind = b.kind ∧ a.labelNames = b.labelNames := by
  simp [agreeB, and_assoc]

/-- the linear-scan check implies pairwise consistency -/
theorem consistent_of_check (sites : List Site) (h : consistentB sites = true) : Consistent sites := by
  intro a ha b hb hab
  have key : ∀ s ∈ sites, ∃ f, sites.find? (fun f => formatName f.name == formatName s.name) = some f ∧
      agreeB f s = true := by
    intro s hs
    have := (List.all_eq_true.mp h) s hs
    split at this
    · next f hf => exact ⟨f, hf, this⟩
    · exact absurd this (by simp)
  obtain ⟨fa, hfa, haa⟩ := key a ha
  obtain ⟨fb, hfb, hbb⟩ := key b hb
  rw [hab] at hfa
  rw [hfa] at hfb
  cases hfb
  rw [agreeB_iff] at haa hbb
  obtain ⟨h1, h2, h3⟩ := haa
  obtain ⟨h4, h5, h6⟩ := hbb
  exact ⟨h1.symm.trans h4, h2.symm.trans h5, h3.symm.trans h6⟩

theorem sameSet_self (a : List Name) : sameSet a a = true := by
  simp [sameSet]

/-- registry invariant: every vector stems from a site of the table, every registered name from a vector -/
def Inv (global : List Name) (sites : List Site) (r : Registry) : Prop :=
  (∀ v ∈ r.vecs, ∃ s ∈ sites, v.kind = s.kind ∧ v.name = s.name ∧ v.labels = fullLabels global s) ∧
  (∀ n ∈ r.fq, ∃ v ∈ r.vecs, formatName v.name = n)

theorem emit_ok (global : List Name) (sites : List Site)
    (hc : Consistent sites) (hw : WellNamed global sites)
    (r : Registry) (hr : Inv global sites r) (s : Site) (hs : s ∈ sites) :
    ∃ r', emitSite global r s = some r' ∧ Inv global sites r' := by
  unfold emitSite
  split
  · next v hv =>
    have hmem := List.mem_of_find?_eq_some hv
    have hp := List.find?_some hv
    simp only [Bool.and_eq_true, beq_iff_eq] at hp
    obtain ⟨s0, hs0, hk, hn, hl⟩ := hr.1 v hmem
    have hnm : s0.name = s.name := hn.symm.trans hp.2
    have := hc s0 hs0 s hs (by rw [hnm])
    have hlab : v.labels = fullLabels global s := by
      rw [hl]; unfold fullLabels; rw [this.2.2]
    rw [hlab, sameSet_self]
    exact ⟨r, rfl, hr⟩
  · next hnone =>
    have hwn := hw s hs
    have hfq : r.fq.contains (formatName s.name) = false := by
      cases hcon : r.fq.contains (formatName s.name) with
      | false => rfl
      | true =>
        exfalso
        have hin : formatName s.name ∈ r.fq := by simpa using hcon
        obtain ⟨v, hv, hvn⟩ := hr.2 _ hin
        obtain ⟨s0, hs0, hk, hn, _⟩ := hr.1 v hv
        have := hc s0 hs0 s hs (by rw [← hn]; exact hvn)
        have hno := List.find?_eq_none.mp hnone v hv
        apply hno
        simp only [Bool.and_eq_true, beq_iff_eq]
        exact ⟨hk.trans this.2.1, hn.trans this.1⟩
    rw [hwn, hfq]
    refine ⟨_, rfl, ?_, ?_⟩
    · intro v hv
      rcases List.mem_cons.mp hv with rfl | hv
      · exact ⟨s, hs, rfl, rfl, rfl⟩
      · exact hr.1 v hv
    · intro n hn
      rcases List.mem_cons.mp hn with rfl | hn
      · exact ⟨_, List.mem_cons_self, rfl⟩
      · obtain ⟨v, hv, hvn⟩ := hr.2 n hn
        exact ⟨v, List.mem_cons_of_mem _ hv, hvn⟩

theorem run_ok (global : List Name) (sites : List Site)
    (hc : Consistent sites) (hw : WellNamed global sites) (seq : List Emission) :
    ∀ r, Inv global sites r → (∀ e ∈ seq, e.site ∈ sites ∧ e.valuesValid = true) →
      (run global r seq).isSome = true := by
  induction seq with
  | nil => intro r _ _; rfl
  | cons e rest ih =>
    intro r hr hs
    obtain ⟨hmem, hval⟩ := hs e List.mem_cons_self
    obtain ⟨r', he, hr'⟩ := emit_ok global sites hc hw r hr e.site hmem
    simp only [run, emit, hval, if_true, he]
    exact ih r' hr' (fun x hx => hs x (List.mem_cons_of_mem _ hx))

/-- GENERIC: for ANY sequence of emissions drawn from a consistent, well-named table and carrying valid
label values, the modelled client (first use fixes the label set; later use with a different set, a
second registration of a formatted name, or a non-UTF-8 label value = panic) never panics. -/
theorem consistent_no_panic (global : List Name) (sites : List Site)
    (hc : Consistent sites) (hw : WellNamed global sites)
    (seq : List Emission) (hs : ∀ e ∈ seq, e.site ∈ sites ∧ e.valuesValid = true) :
    (run global Registry.empty seq).isSome = true :=
  run_ok global sites hc hw seq Registry.empty
    ⟨fun _ h => absurd h (by simp [Registry.empty]), fun _ h => absurd h (by simp [Registry.empty])⟩ hs

/-- GENERIC corollary: if moreover no site of the table has a run-time label value, every admissible
sequence is panic free (no assumption on run-time data is left). -/
theorem static_consistent_no_panic (global : List Name) (sites : List Site)
    (hc : Consistent sites) (hw : WellNamed global sites) (hst : ∀ s ∈ sites, s.dynamicLabels = [])
    (seq : List Emission) (hs : ∀ e ∈ seq, Admissible sites e) :
    (run global Registry.empty seq).isSome = true :=
  consistent_no_panic global sites hc hw seq (fun e he => ⟨(hs e he).1, (hs e he).2 (hst _ (hs e he).1)⟩)

/-! ### the instance: the emission call sites of the current tree -/

/-- every emission call site was resolved by the extractor -/
theorem metric_sites_resolved : metricSitesUnresolved = [] := by decide

/-- any two emission sites with the same formatted name have the same raw name, the same kind and the
same label-name list (finite quantifier: the regenerated table of all emission call sites) -/
theorem metric_labels_consistent : Consistent metricSites :=
  consistent_of_check metricSites (by decide +kernel)

/-- every formatted name is a valid Prometheus identifier outside the reserved families; label names
(including the wrapper's global labels) are valid, pairwise distinct within a site, and no histogram
carries an `le` label -/
theorem metric_names_valid : ∀ g ∈ metricGlobalLabels, WellNamed g metricSites := by
  have h : (metricGlobalLabels.all fun g => metricSites.all fun s => wellNamedB g s) = true := by decide +kernel
  intro g hg s hs
  exact List.all_eq_true.mp (List.all_eq_true.mp h g hg) s hs

/-- there is exactly one place where the production client is constructed -/
theorem metric_client_unique : metricGlobalLabels.length = 1 := by decide

/-- label names are valid and not duplicated within a site (restated without the global labels) -/
theorem metric_site_labels_nodup : ∀ s ∈ metricSites, s.labelNames.Nodup ∧ ∀ l ∈ s.labelNames, ValidLabel l := by
  have h : (metricSites.all fun s => decide s.labelNames.Nodup && s.labelNames.all validLabelB) = true := by decide +kernel
  intro s hs
  have := List.all_eq_true.mp h s hs
  simp only [Bool.and_eq_true, decide_eq_true_eq, List.all_eq_true] at this
  exact ⟨this.1, this.2⟩

/-- the sites that pass UNSANITISED run-time data as a label value: (file, metric name, dynamic labels) -/
def dynamicSites (sites : List Site) : List (String × Name × List Name) :=
  (sites.filter (fun s => !s.dynamicLabels.isEmpty)).map (fun s => (s.file, s.name, s.dynamicLabels))

/-- the sites that pass run-time data through strings.ToValidUTF8 -/
def sanitisedSites (sites : List Site) : List (String × Name × List Name) :=
  (sites.filter (fun s => !s.sanitisedLabels.isEmpty)).map (fun s => (s.file, s.name, s.sanitisedLabels))

/-- TABLE-CHECKED FACT (finite quantifier: the regenerated table): exactly these seven sites pass unsanitised
run-time data as a label value, and in all of them it is the LEADER ADDRESS:
`leaderAddr, version, _ := l.getLeaderAndVersion()` = the election record's `HolderIdentity` as rendered by
`resourceLock.Describe()` (pkg/backend/election). Why this is not client-controlled: the record is the value
of the raw storage key `<prefix>/election`, written only by `resourceLock.Create/Update` with the peers'
own `Identity` configuration (host:port from the command line); every key a client can write through either
API is stored under the coder's magic prefix `57 fb 80 8b …` (C10), so no request can write that key.
It is therefore operator data; its validity is the hypothesis `LeaderAddressValid` below. -/
theorem metric_dynamic_label_sites : dynamicSites metricSites =
    [ ("pkg/server/service/leader/leader.go", b!"leader.election.initial.version", [b!"addr"]),
      ("pkg/server/service/leader/leader.go", b!"leader.election.lost", [b!"addr"]),
      ("pkg/server/service/revision/revision.go", b!"follower.getleader", [b!"leader"]),
      ("pkg/server/service/revision/revision.go", b!"member.round_trip", [b!"leader"]),
      ("pkg/server/service/revision/revision.go", b!"follower.get.revision.err", [b!"leader"]),
      ("pkg/server/service/revision/revision.go", b!"follower.get.revision.failed", [b!"leader"]),
      ("pkg/server/service/revision/revision.go", b!"follower.get.revision", [b!"leader"]) ] := by
  decide +kernel

/-- TABLE-CHECKED FACT: the one label that carries client bytes — the key of a Watch request, label `prefix`
of `watcherhub.events_chan.closed` (pkg/backend/watch.go) — is sanitised. -/
theorem metric_sanitised_label_sites : sanitisedSites metricSites =
    [ ("pkg/backend/watch.go", b!"watcherhub.events_chan.closed", [b!"prefix"]) ] := by
  decide +kernel

/-- every site outside pkg/server/service/{leader,revision} has only static or sanitised label values -/
theorem metric_request_paths_static : ∀ s ∈ metricSites,
    s.file ≠ "pkg/server/service/leader/leader.go" → s.file ≠ "pkg/server/service/revision/revision.go" →
    s.dynamicLabels = [] := by
  have h : (metricSites.all fun s => s.file == "pkg/server/service/leader/leader.go" ||
      s.file == "pkg/server/service/revision/revision.go" || s.dynamicLabels.isEmpty) = true := by decide +kernel
  intro s hs h1 h2
  have := List.all_eq_true.mp h s hs
  simp only [Bool.or_eq_true, beq_iff_eq, List.isEmpty_iff] at this
  rcases this with (h' | h') | h'
  · exact absurd h' h1
  · exact absurd h' h2
  · exact h'

/-- THE ENVIRONMENT HYPOTHESIS of C20's metrics part: wherever an emission carries the leader address (the
only unsanitised run-time label value, by `metric_dynamic_label_sites`), it is valid UTF-8. -/
def LeaderAddressValid (seq : List Emission) : Prop :=
  ∀ e ∈ seq, e.site.dynamicLabels ≠ [] → e.valuesValid = true

/-- C20 (metrics part): whatever the requests and the background loops do — for ANY sequence of executions of
emission call sites of the program, with ARBITRARY client data — the production metrics client does not
panic, given only that the leader address is valid UTF-8. -/
theorem metrics_never_panic (g : List Name) (hg : g ∈ metricGlobalLabels)
    (seq : List Emission) (hs : ∀ e ∈ seq, Admissible metricSites e) (hleader : LeaderAddressValid seq) :
    (run g Registry.empty seq).isSome = true := by
  refine consistent_no_panic g metricSites metric_labels_consistent (metric_names_valid g hg) seq ?_
  intro e he
  refine ⟨(hs e he).1, ?_⟩
  by_cases h : e.site.dynamicLabels = []
  · exact (hs e he).2 h
  · exact hleader e he h

/-- … and with NO hypothesis for every execution that does not pass through the seven leader-address sites
(all request handlers of a node that is leader, the backend, the storage wrapper, the retry loop, the scanner). -/
theorem metrics_never_panic_request_paths (g : List Name) (hg : g ∈ metricGlobalLabels)
    (seq : List Emission) (hs : ∀ e ∈ seq, Admissible metricSites e)
    (hpath : ∀ e ∈ seq, e.site.file ≠ "pkg/server/service/leader/leader.go" ∧
      e.site.file ≠ "pkg/server/service/revision/revision.go") :
    (run g Registry.empty seq).isSome = true :=
  metrics_never_panic g hg seq hs (fun e he hne =>
    absurd (metric_request_paths_static e.site (hs e he).1 (hpath e he).1 (hpath e he).2) hne)

/-- The hypothesis `LeaderAddressValid` cannot be dropped IN THE MODEL: an emission at a leader-address site
with an invalid value panics (this is what the real client does; whether such a value can occur is outside
the model — see `metric_dynamic_label_sites`). -/
theorem leader_address_hypothesis_needed :
    ∃ s ∈ metricSites, s.dynamicLabels ≠ [] ∧ run [b!"cluster"] Registry.empty [⟨s, false⟩] = none := by
  have hsome : (metricSites.find? (fun s => !s.dynamicLabels.isEmpty)).isSome = true := by decide +kernel
  obtain ⟨s, hs⟩ := Option.isSome_iff_exists.mp hsome
  refine ⟨s, List.mem_of_find?_eq_some hs, ?_, by simp [run, emit]⟩
  have := List.find?_some hs
  intro hnil
  simp [hnil] at this

/-! ### hypotheses are satisfiable / the predicate is not vacuous -/

private def exA : Site := ⟨"a.go", 1, .counter, b!"x.y", [b!"m"], [], [], false, "direct", ""⟩
private def exB : Site := ⟨"b.go", 2, .counter, b!"x.y", [b!"m", b!"n"], [], [], false, "direct", ""⟩
private def exC : Site := ⟨"c.go", 3, .gauge, b!"x_y", [b!"m"], [], [], false, "direct", ""⟩
private def ok (s : Site) : Emission := ⟨s, true⟩

example : consistentB [exA, exA] = true ∧ WellNamed [b!"cluster"] [exA, exA] := by
  constructor
  · decide
  · intro s hs; simp at hs; subst hs; decide
example : (run [b!"cluster"] Registry.empty [ok exA, ok exA]).isSome = true := by decide
/-- the same name with a different label set: the second emission panics -/
example : consistentB [exA, exB] = false ∧ run [] Registry.empty [ok exA, ok exB] = none := by decide
/-- two raw names with one formatted name (x.y / x_y), different kind: the second registration panics -/
example : consistentB [exA, exC] = false ∧ run [] Registry.empty [ok exA, ok exC] = none := by decide
example : formatName b!"watch.list_stream.push" = b!"watch_list_stream_push" := by decide
example : validPromNameB (formatName b!"1abc") = false ∧ validLabelB b!"__x" = false ∧ validLabelB b!"" = false ∧
    validLabelB b!"_x" = true := by decide

end KB.C20Metrics
