/-
  Order facts for C06 — statement-order / call-count facts regenerated from the source
  (harness/cmd/kbextract/order.go → KB/Generated/OrderFacts.lean). The models are atomic where the code is
  sequential; these `decide`d theorems are the tie for exactly those places: a reordering in the source
  stops them from checking.
-/
import KB.Generated.OrderFacts
namespace KB.OrderC06
open KB.Generated

/-- C06 / C02: List samples the committed revision exactly once, before the scan: the header revision
and the revision the data was read at are the same sample. -/
theorem list_samples_revision_once : listRevisionSamples = 1 ∧ listSamplesBeforeScan = true := by decide

/-- C06: a watch subscribes to the hub before it reads the event cache — what closes the gap between the
history it replays and the live events (the model's hand-over step is atomic in exactly this order). -/
theorem subscribe_before_cache_read : watchSubscribesBeforeCacheRead = true := by decide

/-- C06: events enter the cache before they are broadcast. -/
theorem cache_before_broadcast : seqCacheBeforeBroadcast = true := by decide

end KB.OrderC06
