/-
  C08 — The compaction floor only rises, and range reads below it are refused.
  Model: KB.Backend.doCompact (Backend.Compact → setCompactRecord → scanner.Compact per border pair →
  checkCompactRace(compact = true)), floorOf / belowFloor (checkCompactRace(compact = false)) as used by
  doList / doCount / doStream. Holds for every store, every request revision (0, repeated, older,
  above current), every delete-failure mask, every engine.
-/
import KB.Lemmas.Floor
namespace KB.C08
open KB Generated

/-- No compaction request — in particular one naming an older revision — lowers the floor. -/
theorem floor_monotone (c : Cfg) (s : BState) (rev : Nat) (mask : Nat → DelOutcome)
    (hc : s.committed < 2 ^ 64) :
    floorOf c s.store ≤ floorOf c (doCompact c s rev mask).2.store := by
  have hrev : clampRev s rev < 2 ^ 64 := Nat.lt_of_le_of_lt (clampRev_le s rev) hc
  rw [doCompact_floor c s rev mask hrev]
  exact Nat.le_max_left _ _

/-- Once a compaction at revision R has been accepted (answered with header R, R < 2^64), the floor is at least R. -/
theorem floor_ge_accepted (c : Cfg) (s : BState) (rev : Nat) (mask : Nat → DelOutcome) (R : Nat)
    (h : (doCompact c s rev mask).1 = .ok R) (hR : R < 2 ^ 64) (hfl : floorOf c s.store < 2 ^ 64) :
    R ≤ floorOf c (doCompact c s rev mask).2.store := by
  have _ := hfl
  have hR' := doCompact_fst c s rev mask R h
  subst hR'
  rw [doCompact_floor c s rev mask hR]
  exact Nat.le_max_right _ _

/-- Writes never touch the compaction record. -/
theorem create_keeps_floor (c : Cfg) (s : BState) (k v : Bytes) (fs : List Fault) :
    floorOf c (doCreate c s k v fs).2.store = floorOf c s.store := by
  exact floorOf_congr c (doCreate_keeps_get c s k v fs)

theorem update_keeps_floor (c : Cfg) (s : BState) (k v : Bytes) (e : Nat) (fs : List Fault) :
    floorOf c (doUpdate c s k v e fs).2.store = floorOf c s.store := by
  exact floorOf_congr c (doUpdate_keeps_get c s k v e fs)

theorem delete_keeps_floor (c : Cfg) (s : BState) (k : Bytes) (e : Nat) (fs : List Fault) :
    floorOf c (doDelete c s k e fs).2.store = floorOf c s.store := by
  exact floorOf_congr c (doDelete_keeps_get c s k e fs)

/-- Every range read below the floor is answered with an error rather than with data. -/
theorem list_below_floor_refused (c : Cfg) (s : BState) (a b : Bytes) (R n : Nat)
    (hR : 0 < R) (hlt : R < floorOf c s.store) (hb : b ≠ []) (hab : cmp a b = .lt) :
    ∃ e, doList c s a b R n = .error e := by
  have hR0 : (R == 0) = false := by simp; omega
  have hbf : belowFloor c s.store R = true := by simp [belowFloor, hlt]
  have hbe : b.isEmpty = false := by cases b <;> simp_all
  have h1 : ∀ x y m, scanLimited c s.store x y R m = .error .belowFloor := by
    intro x y m; simp [scanLimited, hbf]
  have h2 : ∀ x y, scanParts c s.store x y R = .error .belowFloor := by
    intro x y; simp [scanParts, hbf]
  refine ⟨.belowFloor, ?_⟩
  unfold doList
  by_cases hn : n > 0 <;> simp [hbe, hR0, hab, h1, h2, hn]

/-- Streamed range below the floor: no data batch, one terminator carrying the error. -/
theorem stream_below_floor_refused (c : Cfg) (s : BState) (start stop : Bytes) (R : Nat)
    (hR : 0 < R) (hlt : R < floorOf c s.store) :
    doStream c s start stop R = .ok { batches := [], endHdr := R, endErr := some .belowFloor } := by
  have hR0 : (R == 0) = false := by simp; omega
  have hbf : belowFloor c s.store R = true := by simp [belowFloor, hlt]
  unfold doStream
  simp [hR0, scanParts, hbf]

/-- Count is served at the committed revision; it is refused whenever that is below the floor. -/
theorem count_below_floor_refused (c : Cfg) (hc : c.etcdCompat = true) (s : BState) (a b : Bytes)
    (hlt : s.committed < floorOf c s.store) : doCount c s a b = .error .belowFloor := by
  have hbf : belowFloor c s.store s.committed = true := by simp [belowFloor, hlt]
  unfold doCount
  simp [hc, scanParts, hbf]

/-! Non-vacuity: compact(1009) then compact(1002): the floor stays at 1009 and List@1005 is refused. -/
def ex0 : BState := { ring := Ring.new 4, dealt := 1010, committed := 1010 }
def exCfg : Cfg := { pfx := [47, 114] }
example : floorOf exCfg (doCompact exCfg (doCompact exCfg ex0 1009 (fun _ => .ok)).2 1002 (fun _ => .ok)).2.store = 1009 := by
  decide

end KB.C08
