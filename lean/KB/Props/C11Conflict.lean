/-
  C11 / C01 — a TiKV WRITE CONFLICT is not a failed condition (/repo 182e06c).

  Model: KB.EngineTxn (one optimistic transaction attempt of the TiKV adapter: snapshot, prewrite conflict check
  against write records AND rollback marks, the loop of `Commit`). The theorems say what the adapter's `Commit`
  guarantees now, and that it did not before:

  * `rollback_mark_is_not_a_change`   data that satisfy the batch's conditions + ANY rollback marks (and any write
                                      records) ⇒ the batch is applied, the answer is `ok` - never "condition failed"
  * `real_change_fails_condition`     data that violate a condition ⇒ the answer is the conflict of THAT condition
                                      (index, value now stored), nothing is applied; also when the change happened
                                      while the transaction was open (`real_change_in_flight_fails_condition`)
  * `old_commit_spurious`             before the repair: a rollback mark above the start timestamp, data satisfying
                                      the condition ⇒ "condition failed"
  * `retry_bounded`, `retry_second_attempt_succeeds`, `commitRetry_agrees_with_sequential`
  * `casFailed_only_if_condition_false` (ANY interference between the attempts), `condition_failed_never_reported_
    if_conditions_hold_throughout`, `persistent_conflict_is_error_and_applies_nothing` - what /repo ce077f1 adds;
    `nine_abandoned_writers_still_spurious_before_ce077f1` refutes the loop of 182e06c alone
-/
import KB.Lemmas.EngineTxn
namespace KB.C11Conflict
open KB KB.C11 KB.EngineTxn

/-- an abandoned writer changes no data -/
theorem abandon_data (q : Quirks) (s : TStore) (ops : List BOp) : (abandon q s ops).1.data = s.data := by
  simp only [abandon]
  split <;> rfl

/-! ### (1) a rollback mark is not a change of the key -/

/-- The conditions of the batch held when the transaction began and hold on the data now; the store may carry ANY
rollback marks (and any write records - e.g. a value that was rewritten with the same bytes): `Commit` applies the
batch and answers `ok`. At most two attempts are made. -/
theorem rollback_mark_is_not_a_change (q : Quirks) (s : TStore) (t : Txn) (ops : List BOp)
    (hwf : s.WF) (hstart : t.start ≤ s.clock)
    (hsnap : allHold t.snap ops = true) (hdata : allHold s.data ops = true) :
    (commitRetry q s t ops).2 = .ok ∧ (commitRetry q s t ops).1.data = ops.foldl effect s.data := by
  unfold commitRetry
  cases hc : writeConflict s t ops with
  | false =>
    have h1 := commitOnce_ok q s t ops hsnap hc
    rw [commitLoop_first_settles q _ _ s t ops (by rw [h1]; simp), h1]
    exact ⟨rfl, rfl⟩
  | true =>
    have h1 := commitOnce_conflict q s t ops hsnap hc
    rw [show maxConflictRetry = 7 + 1 from rfl, commitLoop_succ_conflict q _ 7 s t ops (by rw [h1]), h1]
    simp only [Env.idle]
    have hwf' := wf_after_conflict s t ops hwf hstart
    obtain ⟨hok, hd⟩ := fresh_attempt_ok q _ hwf' ops hdata
    rw [commitLoop_first_settles q _ 7 _ _ ops (by rw [hok]; simp)]
    exact ⟨hok, hd⟩

/-- the same in the words of C01's last clause: the key did not change while the request was in flight (the
snapshot IS the data) and the conditions hold - whatever rollback marks there are, the answer is never
"condition failed" -/
theorem rollback_mark_never_casFailed (q : Quirks) (s : TStore) (t : Txn) (ops : List BOp)
    (hwf : s.WF) (hstart : t.start ≤ s.clock) (hsnap : t.snap = s.data) (hdata : allHold s.data ops = true) :
    (commitRetry q s t ops).2.asResult = .ok () := by
  rw [(rollback_mark_is_not_a_change q s t ops hwf hstart (hsnap ▸ hdata) hdata).1]
  rfl

example : ∃ (s : TStore) (t : Txn) (ops : List BOp), s.WF ∧ t.start ≤ s.clock ∧ t.snap = s.data ∧
    allHold s.data ops = true ∧ writeConflict s t ops = true :=
  ⟨{ data := [([107], [1])], writes := [([107], 1)], marks := [([107], 5)], clock := 5 },
   { start := 3, snap := [([107], [1])] }, [.cas [107] [2] [1]],
   ⟨by decide, by decide⟩, by decide, rfl, by decide, by decide⟩

/-! ### (2) a real change fails the condition it violates -/

/-- The data violate a condition of the batch (the key had changed before the transaction began): the answer is the
conflict of that condition - the index and the value the sequential engine model reports for the data as they are -
and the store is exactly as before, rollback marks or not. -/
theorem real_change_fails_condition (q : Quirks) (s : TStore) (t : Txn) (ops : List BOp) (e : CommitErr)
    (hsnap : t.snap = s.data) (h : commit q s.data ops = .error e) :
    commitRetry q s t ops = (s, .failed e) := by
  unfold commitRetry
  have h1 := commitOnce_failed q s t ops e (hsnap ▸ h)
  rw [commitLoop_first_settles q _ _ s t ops (by rw [h1]; simp), h1]

/-- … and that error is a failed condition with its index (no bare "condition failed", no other error) on an engine
whose `Quirks` are contractual (tikv since its `fix:` commits) -/
theorem real_change_is_reported_as_condition (q : Quirks) (hq : Contractual q) (s : TStore) (t : Txn)
    (ops : List BOp) (e : CommitErr) (hsnap : t.snap = s.data) (h : commit q s.data ops = .error e) :
    ∃ idx val, commitRetry q s t ops = (s, .failed (.conflict idx val)) := by
  obtain ⟨idx, val, rfl⟩ := commit_fail_is_condition q hq s.data ops e h
  exact ⟨idx, val, real_change_fails_condition q s t ops _ hsnap h⟩

example : ∃ (s : TStore) (t : Txn) (ops : List BOp) (e : CommitErr), t.snap = s.data ∧
    commit Quirks.tikv s.data ops = .error e :=
  ⟨{ data := [([107], [9])], marks := [([107], 5)], clock := 5 }, { start := 6, snap := [([107], [9])] },
   [.cas [107] [2] [1]], .conflict (some 1) (some [9]), rfl, by decide⟩

example : Contractual Quirks.tikv := ⟨rfl, rfl⟩

/-- The change happened WHILE the transaction was open: the conditions held on its snapshot, the data now violate
one. The first attempt meets a write conflict (the changed key carries a newer write record), the batch is run again
on a fresh snapshot and answers the conflict of the violated condition; the data are untouched. -/
theorem real_change_in_flight_fails_condition (q : Quirks) (s : TStore) (t : Txn) (ops : List BOp) (e : CommitErr)
    (hv : t.ValidOn s) (hs1 : t.snap.Sorted) (hs2 : s.data.Sorted)
    (hsnap : allHold t.snap ops = true) (h : commit q s.data ops = .error e) :
    (commitRetry q s t ops).2 = .failed e ∧ (commitRetry q s t ops).1.data = s.data := by
  obtain ⟨op, hop, hne⟩ := exists_changed_key q t.snap s.data hs1 hs2 ops hsnap e h
  have hc : writeConflict s t ops = true := by
    simp only [writeConflict, List.any_eq_true, Bool.or_eq_true]
    exact ⟨op, hop, Or.inl (hv.2 op.key hne)⟩
  have h1 := commitOnce_conflict q s t ops hsnap hc
  unfold commitRetry
  rw [show maxConflictRetry = 7 + 1 from rfl, commitLoop_succ_conflict q _ 7 s t ops (by rw [h1]), h1]
  simp only [Env.idle]
  have h2 := fresh_attempt_failed q { s with marks := s.marks ++ ops.map (fun op => (op.key, t.start)) } ops e h
  rw [commitLoop_first_settles q _ 7 _ _ ops (by rw [h2]; simp), h2]
  exact ⟨rfl, rfl⟩

example : ∃ (s : TStore) (t : Txn) (ops : List BOp) (e : CommitErr), t.ValidOn s ∧ t.snap.Sorted ∧ s.data.Sorted ∧
    allHold t.snap ops = true ∧ commit Quirks.tikv s.data ops = .error e :=
  ⟨{ data := [([107], [9])], writes := [([107], 1), ([107], 4)], clock := 5 }, { start := 3, snap := [([107], [1])] },
   [.cas [107] [2] [1]], .conflict (some 1) (some [9]),
   ⟨by decide, by
      intro k hk
      by_cases h : k = [107]
      · subst h; decide
      · exfalso; apply hk
        have : cmp k [107] ≠ .eq := fun hc => h (cmp_eq_iff.1 hc)
        simp only [Store.get]
        cases hc : cmp k [107] <;> simp_all⟩,
   trivial, trivial, by decide, by decide⟩

/-! ### (3) before the repair -/

/-- `Commit` before /repo 182e06c on a store whose data satisfy the condition of the compare-and-swap and whose only
blemish is the rollback mark of an abandoned transaction above the start timestamp: "condition failed". The same
call answers `ok` now. -/
theorem old_commit_spurious :
    let s : TStore := { data := [([107], [1])], writes := [([107], 1)], marks := [([107], 5)], clock := 5 }
    let t : Txn := { start := 3, snap := [([107], [1])] }
    let ops : List BOp := [.cas [107] [2] [1]]
    allHold s.data ops = true ∧ dataConflict s t ops = false ∧
    (commitOnceAsResult Quirks.tikv s t ops).2 = .error (.cond CommitErr.casFailed) ∧
    (commitOnceAsResult Quirks.tikv s t ops).1.data = s.data ∧
    (commitRetry Quirks.tikv s t ops).2 = .ok ∧
    (commitRetry Quirks.tikv s t ops).1.data = [([107], [2])] := by
  decide

/-! ### (4) the loop is bounded; without interference the second attempt settles it -/

/-- whatever the other clients do between the attempts: at most `fuel + 1` attempts -/
theorem retry_bounded (q : Quirks) (env : Env) (fuel : Nat) (s : TStore) (t : Txn) (ops : List BOp) :
    (commitLoop q env fuel s t ops).2.2 ≤ fuel + 1 := by
  induction fuel generalizing s t with
  | zero =>
    by_cases h : (commitOnce q s t ops).2 = .writeConflict
    · rw [commitLoop_zero_conflict q env s t ops h]; exact Nat.le_refl 1
    · rw [commitLoop_first_settles q env 0 s t ops h]; exact Nat.le_refl 1
  | succ n ih =>
    by_cases h : (commitOnce q s t ops).2 = .writeConflict
    · rw [commitLoop_succ_conflict q env n s t ops h]
      exact Nat.succ_le_succ (ih _ _)
    · rw [commitLoop_succ_other q env n s t ops h]
      show 1 ≤ n + 1 + 1
      omega

/-- `Commit` runs the batch at most nine times -/
theorem retry_terminates (q : Quirks) (env : Env) (s : TStore) (t : Txn) (ops : List BOp) :
    (commitLoop q env maxConflictRetry s t ops).2.2 ≤ 9 :=
  retry_bounded q env maxConflictRetry s t ops

/-- the loop gives up (with an error) only when EVERY one of its attempts met a write conflict -/
theorem persistent_conflict_only_after_all_attempts (q : Quirks) (env : Env) (fuel : Nat) (s : TStore) (t : Txn)
    (ops : List BOp) (h : (commitLoop q env fuel s t ops).2.1 = .persistentConflict) :
    (commitLoop q env fuel s t ops).2.2 = fuel + 1 :=
  (commitLoop_persistent_inv q env ops (fun _ => True) (fun _ _ _ => trivial) fuel s t trivial h).1

example : ∃ (env : Env) (s : TStore) (t : Txn) (ops : List BOp),
    (commitLoop Quirks.tikv env 2 s t ops).2.1 = .persistentConflict :=
  ⟨fun _ s => (abandon Quirks.tikv s [.put [107] [7]]).1,
   { data := [([107], [1])], writes := [([107], 1)], marks := [([107], 5)], clock := 5 },
   { start := 3, snap := [([107], [1])] }, [.cas [107] [2] [1]], by decide⟩

/-- nobody else writes while `Commit` runs: it is settled by the second attempt at the latest, whatever marks and
records the store carries and whether or not the conditions hold -/
theorem retry_second_attempt_succeeds (q : Quirks) (s : TStore) (t : Txn) (ops : List BOp)
    (hwf : s.WF) (hstart : t.start ≤ s.clock) :
    (commitLoop q Env.idle maxConflictRetry s t ops).2.2 ≤ 2 ∧
    (commitLoop q Env.idle maxConflictRetry s t ops).2.1 ≠ .writeConflict ∧
    (commitLoop q Env.idle maxConflictRetry s t ops).2.1 ≠ .persistentConflict := by
  by_cases hc : (commitOnce q s t ops).2 = .writeConflict
  · -- the first attempt ran its steps successfully and met a conflict
    have hsnap : allHold t.snap ops = true := by
      cases hcm : commit q t.snap ops with
      | error e => rw [commitOnce_failed q s t ops e hcm] at hc; cases hc
      | ok d => exact (commit_ok_iff q t.snap ops).1 ⟨d, hcm⟩
    have hwc : writeConflict s t ops = true := by
      cases hw : writeConflict s t ops with
      | true => rfl
      | false => rw [commitOnce_ok q s t ops hsnap hw] at hc; cases hc
    have h1 := commitOnce_conflict q s t ops hsnap hwc
    rw [show maxConflictRetry = 7 + 1 from rfl, commitLoop_succ_conflict q _ 7 s t ops hc, h1]
    simp only [Env.idle]
    have hwf' := wf_after_conflict s t ops hwf hstart
    have key : ∀ s1 : TStore, s1.WF → s1.data = s.data →
        (commitOnce q s1.begin.1 s1.begin.2 ops).2 ≠ .writeConflict := by
      intro s1 hw1 hd1
      cases hcm : commit q s1.data ops with
      | error e => rw [fresh_attempt_failed q s1 ops e hcm]; simp
      | ok d => rw [(fresh_attempt_ok q s1 hw1 ops ((commit_ok_iff q s1.data ops).1 ⟨d, hcm⟩)).1]; simp
    have h2 := key _ hwf' rfl
    rw [commitLoop_first_settles q _ 7 _ _ ops h2]
    exact ⟨Nat.le_refl 2, h2, commitOnce_ne_persistent q _ _ ops⟩
  · rw [commitLoop_first_settles q _ _ s t ops hc]
    exact ⟨show 1 ≤ 2 by omega, hc, commitOnce_ne_persistent q s t ops⟩

example : ∃ (s : TStore) (t : Txn), s.WF ∧ t.start ≤ s.clock :=
  ⟨{ marks := [([107], 5)], clock := 5 }, { start := 3, snap := [] }, ⟨by decide, by decide⟩, by decide⟩

/-- The loop of /repo 182e06c ALONE (before ce077f1) gave up after nine attempts and then still answered the bare
"condition failed": nine writers in a row that are abandoned on the same key, each between a re-begin and the
prewrite of this `Commit`, produced that answer although the key never changes. -/
theorem nine_abandoned_writers_still_spurious_before_ce077f1 :
    let s : TStore := { data := [([107], [1])], writes := [([107], 1)], marks := [([107], 5)], clock := 5 }
    let t : Txn := { start := 3, snap := [([107], [1])] }
    let ops : List BOp := [.cas [107] [2] [1]]
    let env : Env := fun _ s => (abandon Quirks.tikv s [.put [107] [7]]).1
    let r := commitLoop182 Quirks.tikv env maxConflictRetry s t ops
    allHold s.data ops = true ∧ r.2.1.asResult = .error (.cond CommitErr.casFailed) ∧ r.2.2 = 9 ∧ r.1.data = s.data := by
  decide

/-- … the same run now: an error, after nine attempts, nothing applied -/
theorem nine_abandoned_writers_now_error :
    let s : TStore := { data := [([107], [1])], writes := [([107], 1)], marks := [([107], 5)], clock := 5 }
    let t : Txn := { start := 3, snap := [([107], [1])] }
    let ops : List BOp := [.cas [107] [2] [1]]
    let env : Env := fun _ s => (abandon Quirks.tikv s [.put [107] [7]]).1
    let r := commitLoop Quirks.tikv env maxConflictRetry s t ops
    r.2.1.asResult = .error .other ∧ r.2.2 = 9 ∧ r.1.data = s.data := by
  decide

/-- … and with eight of them the ninth attempt commits -/
theorem eight_abandoned_writers_then_ok :
    let s : TStore := { data := [([107], [1])], writes := [([107], 1)], marks := [([107], 5)], clock := 5 }
    let t : Txn := { start := 3, snap := [([107], [1])] }
    let ops : List BOp := [.cas [107] [2] [1]]
    let env : Env := fun fuel s => if fuel = 0 then s else (abandon Quirks.tikv s [.put [107] [7]]).1
    let r := commitLoop Quirks.tikv env maxConflictRetry s t ops
    r.2.1 = .ok ∧ r.2.2 = 9 ∧ r.1.data = [([107], [2])] := by
  decide

/-! ### (4b) ANY interference between the attempts (/repo ce077f1) -/

/-- `Commit` never hands out a bare write conflict: a failed condition it reports is the failed step of an attempt -/
theorem loop_never_answers_writeConflict (q : Quirks) (env : Env) (fuel : Nat) (s : TStore) (t : Txn)
    (ops : List BOp) : (commitLoop q env fuel s t ops).2.1 ≠ .writeConflict :=
  commitLoop_ne_writeConflict q env ops fuel s t

/-- Whatever the other clients do between the attempts (abandoned writers, real writers - `env` is arbitrary): if
`Commit` answers a failed condition `e` (the bare `ErrCASFailed` or a `*storage.Conflict`), then `e` is the error the
steps of the batch produce on the snapshot `snap` of the attempt that answered - some condition of the batch is
FALSE on it. That snapshot is the caller's own one (first attempt) or the committed data at the moment the
answering attempt began; it is a state the data really went through: it satisfies every predicate `P` that holds of
the caller's snapshot and of the data when `Commit` was called and that every move of the others preserves. -/
theorem casFailed_only_if_condition_false (q : Quirks) (env : Env) (fuel : Nat) (s : TStore) (t : Txn)
    (ops : List BOp) (e : CommitErr) (P : Store → Prop)
    (hsnap : P t.snap) (hdata : P s.data) (henv : ∀ n s', P s'.data → P (env n s').data)
    (h : (commitLoop q env fuel s t ops).2.1.asResult = .error (.cond e)) :
    ∃ snap, P snap ∧ commit q snap ops = .error e ∧ allHold snap ops = false := by
  have hf : (commitLoop q env fuel s t ops).2.1 = .failed e := by
    cases hr : (commitLoop q env fuel s t ops).2.1 with
    | ok => rw [hr] at h; cases h
    | failed e' =>
      rw [hr] at h
      simp only [TxnRes.asResult, Except.error.injEq, AdapterErr.cond.injEq] at h
      rw [h]
    | writeConflict => exact absurd hr (commitLoop_ne_writeConflict q env ops fuel s t)
    | persistentConflict => rw [hr] at h; cases h
  obtain ⟨snap, hp, hc⟩ := commitLoop_failed_inv q env ops P henv fuel s t e hsnap hdata hf
  refine ⟨snap, hp, hc, ?_⟩
  cases hh : allHold snap ops with
  | false => rfl
  | true => rw [commit_of_allHold q snap ops hh] at hc; cases hc

/-- C01's last clause at the adapter: the conditions of the batch hold on the caller's snapshot, on the data when
`Commit` is called, and no move of the other clients makes them false (abandoned writers never do; real writers
that keep the conditions true do not either): `Commit` NEVER answers a failed condition - it answers `ok` or the
error of a conflict that persisted. -/
theorem condition_failed_never_reported_if_conditions_hold_throughout (q : Quirks) (env : Env) (fuel : Nat)
    (s : TStore) (t : Txn) (ops : List BOp)
    (hsnap : allHold t.snap ops = true) (hdata : allHold s.data ops = true)
    (henv : ∀ n s', allHold s'.data ops = true → allHold (env n s').data ops = true) :
    (commitLoop q env fuel s t ops).2.1 = .ok ∨ (commitLoop q env fuel s t ops).2.1 = .persistentConflict := by
  cases hr : (commitLoop q env fuel s t ops).2.1 with
  | ok => exact Or.inl rfl
  | persistentConflict => exact Or.inr rfl
  | writeConflict => exact absurd hr (commitLoop_ne_writeConflict q env ops fuel s t)
  | failed e =>
    obtain ⟨snap, hp, _, hfalse⟩ := casFailed_only_if_condition_false q env fuel s t ops e
      (fun d => allHold d ops = true) hsnap hdata henv (by rw [hr]; rfl)
    rw [hp] at hfalse; cases hfalse

example : ∃ (env : Env) (s : TStore) (t : Txn) (ops : List BOp), allHold t.snap ops = true ∧
    allHold s.data ops = true ∧ (∀ n s', allHold s'.data ops = true → allHold (env n s').data ops = true) :=
  ⟨fun _ s => (abandon Quirks.tikv s [.put [107] [7]]).1,
   { data := [([107], [1])], writes := [([107], 1)], marks := [([107], 5)], clock := 5 },
   { start := 3, snap := [([107], [1])] }, [.cas [107] [2] [1]], by decide, by decide,
   fun _ s' h => by rw [(abandon_data Quirks.tikv s' _)]; exact h⟩

/-- a real writer in between: the hypothesis of `casFailed_only_if_condition_false` is met by a run that ends in a
`*storage.Conflict`, and the condition IS false on the data of the answering attempt -/
example :
    let s : TStore := { data := [([107], [1])], writes := [([107], 1)], clock := 5 }
    let t : Txn := { start := 3, snap := [([107], [1])] }
    let ops : List BOp := [.cas [107] [2] [1]]
    -- before the first re-run another client really commits [107] := [9]
    let env : Env := fun _ s' => (commitOnce Quirks.tikv s'.begin.1 s'.begin.2 [.put [107] [9]]).1
    (commitLoop Quirks.tikv env maxConflictRetry
        { s with marks := [([107], 4)] } t ops).2.1.asResult = .error (.cond (.conflict (some 1) (some [9]))) := by
  decide

/-- Every attempt met a write conflict: the answer is an ERROR (not a failed condition), all `fuel + 1` attempts were
made, and this `Commit` applied nothing - the data at the end are what the other clients made of them (every
predicate that holds of the data at the start and that their moves preserve still holds; in particular the data are
UNCHANGED when the others only abandon). -/
theorem persistent_conflict_is_error_and_applies_nothing (q : Quirks) (env : Env) (fuel : Nat) (s : TStore) (t : Txn)
    (ops : List BOp) (P : Store → Prop) (hdata : P s.data) (henv : ∀ n s', P s'.data → P (env n s').data)
    (h : (commitLoop q env fuel s t ops).2.1 = .persistentConflict) :
    (commitLoop q env fuel s t ops).2.1.asResult = .error .other ∧
    (commitLoop q env fuel s t ops).2.2 = fuel + 1 ∧
    P (commitLoop q env fuel s t ops).1.data := by
  obtain ⟨hn, hp⟩ := commitLoop_persistent_inv q env ops P henv fuel s t hdata h
  exact ⟨by rw [h]; rfl, hn, hp⟩

/-- … the data are untouched when the others leave the data alone -/
theorem persistent_conflict_keeps_data (q : Quirks) (env : Env) (fuel : Nat) (s : TStore) (t : Txn) (ops : List BOp)
    (henv : ∀ n s', (env n s').data = s'.data)
    (h : (commitLoop q env fuel s t ops).2.1 = .persistentConflict) :
    (commitLoop q env fuel s t ops).1.data = s.data :=
  (persistent_conflict_is_error_and_applies_nothing q env fuel s t ops (fun d => d = s.data) rfl
    (fun n s' hs => by rw [henv n s', hs]) h).2.2

/-! ### (5) the tie to the sequential engine model -/

/-- No record and no mark of a written key above the start timestamp, snapshot = data: `Commit` is `KB.commit` - the
same answer, the same data afterwards (nothing on failure). -/
theorem commitRetry_agrees_with_sequential (q : Quirks) (s : TStore) (t : Txn) (ops : List BOp)
    (hsnap : t.snap = s.data) (hno : writeConflict s t ops = false) :
    (commitRetry q s t ops).2.asResult = seqResult (commit q s.data ops) ∧
    (∀ d, commit q s.data ops = .ok d → (commitRetry q s t ops).1.data = d) ∧
    (∀ e, commit q s.data ops = .error e → (commitRetry q s t ops).1 = s) := by
  cases hcm : commit q s.data ops with
  | error e =>
    rw [real_change_fails_condition q s t ops e hsnap hcm]
    exact ⟨rfl, fun d hd => (by cases hd), fun _ _ => rfl⟩
  | ok d =>
    have hh : allHold s.data ops = true := (commit_ok_iff q s.data ops).1 ⟨d, hcm⟩
    have h1 := commitOnce_ok q s t ops (hsnap ▸ hh) hno
    unfold commitRetry
    rw [commitLoop_first_settles q _ _ s t ops (by rw [h1]; simp), h1]
    refine ⟨rfl, fun d' hd' => ?_, fun e he => (by cases he)⟩
    simp only [Except.ok.injEq] at hd'
    subst hd'
    exact (commit_effect q s.data d ops hcm).symm

/-- … and with ANY marks and records, thanks to the loop (well-formed store, snapshot = data): the answer and the
data are still those of `KB.commit`. This is the statement that was false before the repair (`old_commit_spurious`). -/
theorem commitRetry_refines_sequential (q : Quirks) (s : TStore) (t : Txn) (ops : List BOp)
    (hwf : s.WF) (hstart : t.start ≤ s.clock) (hsnap : t.snap = s.data) :
    (commitRetry q s t ops).2.asResult = seqResult (commit q s.data ops) ∧
    (∀ d, commit q s.data ops = .ok d → (commitRetry q s t ops).1.data = d) ∧
    (∀ e, commit q s.data ops = .error e → (commitRetry q s t ops).1 = s) := by
  cases hcm : commit q s.data ops with
  | error e =>
    rw [real_change_fails_condition q s t ops e hsnap hcm]
    exact ⟨rfl, fun d hd => (by cases hd), fun _ _ => rfl⟩
  | ok d =>
    have hh : allHold s.data ops = true := (commit_ok_iff q s.data ops).1 ⟨d, hcm⟩
    obtain ⟨hok, hd⟩ := rollback_mark_is_not_a_change q s t ops hwf hstart (hsnap ▸ hh) hh
    refine ⟨by rw [hok]; rfl, fun d' hd' => ?_, fun e he => (by cases he)⟩
    simp only [Except.ok.injEq] at hd'
    subst hd'
    rw [hd]
    exact (commit_effect q s.data d ops hcm).symm

example : ∃ (s : TStore) (t : Txn) (ops : List BOp), t.snap = s.data ∧ writeConflict s t ops = false :=
  ⟨{ data := [([107], [1])], writes := [([107], 1)], marks := [([107], 2)], clock := 5 },
   { start := 3, snap := [([107], [1])] }, [.cas [107] [2] [1]], rfl, by decide⟩

/-- An abandoned writer changes no data and leaves a well-formed store: what it leaves are marks. -/
theorem abandon_changes_no_data (q : Quirks) (s : TStore) (ops : List BOp) (hwf : s.WF) :
    (abandon q s ops).1.data = s.data ∧ (abandon q s ops).1.WF := by
  simp only [abandon]
  split
  · refine ⟨rfl, ?_, ?_⟩
    · intro r hr; exact Nat.le_succ_of_le (hwf.1 r hr)
    · intro r hr; exact Nat.le_succ_of_le (hwf.2 r hr)
  · refine ⟨rfl, ?_, ?_⟩
    · intro r hr; exact Nat.le_succ_of_le (hwf.1 r hr)
    · intro r hr
      simp only [TStore.begin, List.mem_append, List.mem_map] at hr
      rcases hr with hr | ⟨op, _, rfl⟩
      · exact Nat.le_succ_of_le (hwf.2 r hr)
      · exact Nat.le_refl _

end KB.C11Conflict
