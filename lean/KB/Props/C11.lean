/-
  C11 — Every storage adapter honours the engine contract.
  The contract is stated and proved for the reference engine KB.Engine (the object every other
  theorem is about); each real adapter (memkv, badger, tikv mock, metrics wrapper) is tied to the
  reference engine — with its `Quirks` — by the differential `engine` suite. An adapter whose
  `Quirks` are `Contractual` therefore honours the contract; the suite fails if an adapter stops
  behaving like the reference engine with the quirks recorded for it.
-/
import KB.Lemmas.Engine
namespace KB.C11
open KB

/-- The part of `Quirks` the contract forbids. -/
def Contractual (q : Quirks) : Prop := q.casMissingNotFound = false ∧ q.revFirstUnchecked = false

/-- Does the condition of an op hold on the state it sees? -/
def condHolds (s : Store) : BOp → Bool
  | .pine k _ => (s.get k).isNone
  | .cas k _ old => s.get k == some old
  | .put _ _ => true
  | .del _ => true
  | .delcur k v => s.get k == some v

/-- The effect of an op whose condition holds. -/
def effect (s : Store) : BOp → Store
  | .pine k v => s.put k v
  | .cas k new _ => s.put k new
  | .put k v => s.put k v
  | .del k => s.erase k
  | .delcur k _ => s.erase k

/-- All conditions hold, each on the state produced by the ops before it. -/
def allHold : Store → List BOp → Bool
  | _, [] => true
  | s, op :: ops => condHolds s op && allHold (effect s op) ops

/-! ### helper lemmas: one op -/

theorem applyOp_of_cond (q : Quirks) (s : Store) (idx : Nat) (op : BOp)
    (h : condHolds s op = true) : applyOp q s idx op = .ok (effect s op) := by
  cases op with
  | pine k v =>
    simp only [condHolds, Option.isNone_iff_eq_none] at h
    simp [applyOp, effect, h]
  | cas k new old =>
    simp only [condHolds, beq_iff_eq] at h
    simp [applyOp, effect, h]
  | put k v => rfl
  | del k => rfl
  | delcur k v =>
    simp only [condHolds, beq_iff_eq] at h
    simp [applyOp, effect, h]

theorem cond_of_applyOp_ok (q : Quirks) (s s' : Store) (idx : Nat) (op : BOp)
    (h : applyOp q s idx op = .ok s') : condHolds s op = true := by
  cases op with
  | pine k v =>
    cases hg : s.get k with
    | none => simp [condHolds, hg]
    | some old => simp [applyOp, hg] at h
  | cas k new old =>
    cases hg : s.get k with
    | none =>
      simp only [applyOp, hg] at h
      split at h <;> cases h
    | some cur =>
      by_cases hc : cur = old
      · simp [condHolds, hg, hc]
      · simp [applyOp, hg, hc] at h
  | put k v => rfl
  | del k => rfl
  | delcur k v =>
    cases hg : s.get k with
    | none => simp [applyOp, hg] at h
    | some cur =>
      by_cases hc : cur = v
      · simp [condHolds, hg, hc]
      · simp [applyOp, hg, hc] at h

theorem applyOp_of_not_cond (q : Quirks) (s : Store) (idx : Nat) (op : BOp)
    (h : condHolds s op = false) : ∃ e, applyOp q s idx op = .error e := by
  cases ha : applyOp q s idx op with
  | error e => exact ⟨e, rfl⟩
  | ok s' =>
    rw [cond_of_applyOp_ok q s s' idx op ha] at h
    cases h

theorem applyOp_error_is_conflict (q : Quirks) (hq : q.casMissingNotFound = false) (s : Store)
    (idx : Nat) (op : BOp) (e : CommitErr) (h : applyOp q s idx op = .error e) :
    ∃ i val, e = .conflict i val := by
  cases op with
  | pine k v =>
    cases hg : s.get k with
    | none => simp [applyOp, hg] at h
    | some old =>
      simp only [applyOp, hg, Except.error.injEq] at h
      exact ⟨_, _, h.symm⟩
  | cas k new old =>
    cases hg : s.get k with
    | none =>
      simp only [applyOp, hg, hq, Bool.false_eq_true, if_false, Except.error.injEq] at h
      exact ⟨_, _, h.symm⟩
    | some cur =>
      by_cases hc : cur = old
      · simp [applyOp, hg, hc] at h
      · simp only [applyOp, hg, hc, if_false, Except.error.injEq] at h
        exact ⟨_, _, h.symm⟩
  | put k v => simp [applyOp] at h
  | del k => simp [applyOp] at h
  | delcur k v =>
    cases hg : s.get k with
    | none =>
      simp only [applyOp, hg, Except.error.injEq] at h
      exact ⟨_, _, h.symm⟩
    | some cur =>
      by_cases hc : cur = v
      · simp [applyOp, hg, hc] at h
      · simp only [applyOp, hg, hc, if_false, Except.error.injEq] at h
        exact ⟨_, _, h.symm⟩

/-! ### helper lemmas: a list of ops, at any start index -/

theorem applyOps_ok_iff (q : Quirks) (s : Store) (idx : Nat) (ops : List BOp) :
    (∃ s', applyOps q s idx ops = .ok s') ↔ allHold s ops = true := by
  induction ops generalizing s idx with
  | nil => simp [applyOps, allHold]
  | cons op ops ih =>
    cases hc : condHolds s op with
    | true =>
      simp only [applyOps, applyOp_of_cond q s idx op hc, allHold, hc, Bool.true_and]
      exact ih _ _
    | false =>
      obtain ⟨e, he⟩ := applyOp_of_not_cond q s idx op hc
      simp [applyOps, he, allHold, hc]

theorem applyOps_effect (q : Quirks) (s s' : Store) (idx : Nat) (ops : List BOp)
    (h : applyOps q s idx ops = .ok s') : s' = ops.foldl effect s := by
  induction ops generalizing s idx with
  | nil =>
    simp only [applyOps, Except.ok.injEq] at h
    simp [h]
  | cons op ops ih =>
    cases hc : condHolds s op with
    | true =>
      simp only [applyOps, applyOp_of_cond q s idx op hc] at h
      simpa using ih _ _ h
    | false =>
      obtain ⟨e, he⟩ := applyOp_of_not_cond q s idx op hc
      simp [applyOps, he] at h

theorem applyOps_fail_is_condition (q : Quirks) (hq : q.casMissingNotFound = false) (s : Store)
    (idx : Nat) (ops : List BOp) (e : CommitErr) (h : applyOps q s idx ops = .error e) :
    ∃ i val, e = .conflict i val := by
  induction ops generalizing s idx with
  | nil => simp [applyOps] at h
  | cons op ops ih =>
    cases ha : applyOp q s idx op with
    | error e' =>
      simp only [applyOps, ha, Except.error.injEq] at h
      subst h
      exact applyOp_error_is_conflict q hq s idx op _ ha
    | ok s1 =>
      simp only [applyOps, ha] at h
      exact ih _ _ h

/-! ### helper lemmas: iteration -/

theorem applyLimit_prefix (q : Quirks) (n : Nat) (l : List (Bytes × Bytes)) (hn : n ≠ 0) :
    ∃ m, min n l.length ≤ m ∧ applyLimit q n l = l.take m := by
  simp only [applyLimit, hn, if_false]
  cases q.limitMode with
  | ignore => exact ⟨l.length, Nat.min_le_right _ _, by simp⟩
  | exact => exact ⟨n, Nat.min_le_left _ _, rfl⟩
  | plusOne => exact ⟨n + 1, Nat.le_trans (Nat.min_le_left _ _) (Nat.le_succ _), rfl⟩

theorem iterate_eq_applyLimit_zero (q : Quirks) (s : Store) (a b : Bytes) (n : Nat) :
    iterate q s a b n = applyLimit q n (iterate q s a b 0) := by
  simp [iterate, applyLimit]

theorem iterate_zero (q : Quirks) (s : Store) (a b : Bytes) :
    iterate q s a b 0 = if cmp a b = .lt then iterAsc s a b
      else if cmp a b = .gt then iterDesc q s a b else [] := by
  simp [iterate, applyLimit]

theorem iterDesc_eq_filter (q : Quirks) (hq : q.revFirstUnchecked = false) (s : Store)
    (hs : s.Sorted) (a b : Bytes) :
    iterDesc q s a b =
      ((s.filter (fun kv => ble kv.1 a)).reverse).filter (fun kv => blt b kv.1) := by
  simp only [iterDesc, hq, Bool.false_eq_true, if_false]
  apply takeWhile_eq_filter_of_pairwise _ (fun x y => cmp y.1 x.1 = .lt)
  · rw [List.pairwise_reverse]
    exact ((Store.sorted_iff_pairwise s).1 hs).filter _
  · intro x y hxy hx
    cases hy : blt b y.1 with
    | false => rfl
    | true =>
      have := cmp_lt_trans (blt_iff.1 hy) hxy
      rw [← blt_iff, hx] at this
      exact absurd this (by simp)

/-- A batch takes effect entirely or not at all, and exactly when all its conditions hold. -/
theorem commit_ok_iff (q : Quirks) (s : Store) (ops : List BOp) :
    (∃ s', commit q s ops = .ok s') ↔ allHold s ops = true := by
  exact applyOps_ok_iff q s 0 ops

theorem commit_effect (q : Quirks) (s s' : Store) (ops : List BOp) (h : commit q s ops = .ok s') :
    s' = ops.foldl effect s := by
  exact applyOps_effect q s s' 0 ops h

/-- A batch that does not take effect reports a failed condition rather than some other error. -/
theorem commit_fail_is_condition (q : Quirks) (hq : Contractual q) (s : Store) (ops : List BOp)
    (e : CommitErr) (h : commit q s ops = .error e) : ∃ idx val, e = .conflict idx val := by
  exact applyOps_fail_is_condition q hq.1 s 0 ops e h

/-- The store is a map: reads see the last write. -/
theorem get_put (s : Store) (hs : s.Sorted) (k k' v : Bytes) :
    (s.put k v).get k' = if k' = k then some v else s.get k' := by
  exact Store.get_put s hs k k' v

theorem get_erase (s : Store) (hs : s.Sorted) (k k' : Bytes) :
    (s.erase k).get k' = if k' = k then none else s.get k' := by
  exact Store.get_erase s hs k k'

theorem put_sorted (s : Store) (hs : s.Sorted) (k v : Bytes) : (s.put k v).Sorted := by
  exact Store.put_sorted s hs k v

theorem erase_sorted (s : Store) (hs : s.Sorted) (k : Bytes) : (s.erase k).Sorted := by
  exact Store.erase_sorted s hs k

/-- Forward iteration yields the keys of `[start, end)` and no others, ascending, from one snapshot. -/
theorem iter_forward_exact (q : Quirks) (s : Store) (hs : s.Sorted) (a b : Bytes) (hab : cmp a b = .lt)
    (kv : Bytes × Bytes) :
    kv ∈ iterate q s a b 0 ↔ (kv ∈ s ∧ ble a kv.1 = true ∧ blt kv.1 b = true) := by
  have _ := hs -- sortedness is not needed for membership
  rw [iterate_zero, if_pos hab]
  simp [iterAsc, List.mem_filter]

theorem iter_forward_ascending (q : Quirks) (s : Store) (hs : s.Sorted) (a b : Bytes) (hab : cmp a b = .lt) :
    (iterate q s a b 0).Pairwise (fun x y => cmp x.1 y.1 = .lt) := by
  rw [iterate_zero, if_pos hab]
  exact ((Store.sorted_iff_pairwise s).1 hs).filter _

/-- Backward iteration (start > end) yields the keys of `(end, start]` and no others, descending. -/
theorem iter_backward_exact (q : Quirks) (hq : Contractual q) (s : Store) (hs : s.Sorted) (a b : Bytes)
    (hab : cmp a b = .gt) (kv : Bytes × Bytes) :
    kv ∈ iterate q s a b 0 ↔ (kv ∈ s ∧ ble kv.1 a = true ∧ blt b kv.1 = true) := by
  rw [iterate_zero, if_neg (by simp [hab]), if_pos hab, iterDesc_eq_filter q hq.2 s hs]
  simp only [List.mem_filter, List.mem_reverse]
  constructor
  · rintro ⟨⟨h1, h2⟩, h3⟩; exact ⟨h1, h2, h3⟩
  · rintro ⟨h1, h2, h3⟩; exact ⟨⟨h1, h2⟩, h3⟩

theorem iter_backward_descending (q : Quirks) (hq : Contractual q) (s : Store) (hs : s.Sorted) (a b : Bytes)
    (hab : cmp a b = .gt) :
    (iterate q s a b 0).Pairwise (fun x y => cmp y.1 x.1 = .lt) := by
  rw [iterate_zero, if_neg (by simp [hab]), if_pos hab, iterDesc_eq_filter q hq.2 s hs]
  apply List.Pairwise.filter
  rw [List.pairwise_reverse]
  exact ((Store.sorted_iff_pairwise s).1 hs).filter _

/-- With a limit the iterator yields a prefix of the unlimited result holding at least the first
`limit` elements (or all of them). -/
theorem iter_limit_prefix (q : Quirks) (s : Store) (a b : Bytes) (n : Nat) (hn : 0 < n) :
    ∃ m, min n (iterate q s a b 0).length ≤ m ∧ iterate q s a b n = (iterate q s a b 0).take m := by
  rw [iterate_eq_applyLimit_zero]
  exact applyLimit_prefix q n _ (by omega)

/-- The pre-fix tikv adapter was not contractual: witnesses (both repaired by `fix:` commits). -/
theorem tikvOld_cas_missing_not_condition :
    commit Quirks.tikvOld [] [.cas [1] [2] [3]] = .error .notFound := by rfl

theorem tikvOld_reverse_first_unchecked :
    iterate Quirks.tikvOld [([1], [9]), ([5], [9])] [3] [2] 0 = [([1], [9])] := by decide

end KB.C11
