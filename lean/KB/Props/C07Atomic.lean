/-
  C07 / C17 — the ttl pass removes an expired Event in ONE write batch (/repo 74218cc `worker.expireEvent`): an
  interrupted or partly failing pass never leaves versions without their revision record.
  Model: `KB.passLoop` / `KB.passRun` with `Act.expire` (the batch: compare-and-delete of the revision record + deletes
  of the versions the snapshot shows; executed by `KB.runExpire` through the reference engine's `KB.commit`, all or
  nothing) and the bookkeeping `goneEventRawKey` / `liveEventRawKey`; failure masks on the sequence of engine calls; a
  crash after n calls is `KB.Race.cut mask n` (every call from n on fails: nothing more is applied). The pass as it
  was before 74218cc (compare-and-delete of the revision record, then one plain delete per version, one loop
  iteration later each) is `KB.passLoopOld` / `KB.passRunOld`.

  What is proved, for every sorted store, every `R`, every `T ≠ 0`, every mask and every crash point:
  * `expired_event_all_or_nothing`: an Event whose revision record is expired is, after the pass, either gone with all
    its records or still has its revision record, unchanged, and has lost nothing but what the ordinary compaction rules
    remove (reads at every revision ≥ R unchanged) — never versions without their revision record;
  * `index_present_iff_versions_present`: for a live Event (revision record without the deletion flag, naming its
    newest version) the revision record is there after the pass iff a version is, iff the version it names is;
  * `writable_after_interrupted_pass`: lifted to the backend model — on a store whose revision records name the newest
    version of their key (`RecsWF`), after a pass interrupted at ANY point a key that `bget` reports present at revision
    r accepts the guarded update naming r (`doUpdate … = ok`), and a key that reads absent accepts a create;
  * `old_pass_interrupted_leaves_orphan_versions`: the refutation of the per-record pass, by `decide`.
-/
import KB.Props.C07Expire
import KB.Lemmas.Atomic
namespace KB.C07Atomic
open KB KB.Compact KB.ExpirePass KB.C07Expire KB.Race KB.Atomic Generated

/-- the mask of a pass that dies after `n` calls -/
abbrev crashAfter (mask : Nat → DelOutcome) (n : Nat) : Nat → DelOutcome := cut mask n

/-- a live key: its revision record `i` carries no deletion flag and names the revision of the version `v`, which is
not a deletion marker and is the newest version of the key -/
structure LiveKey (recs : List Rec) (k : Bytes) (i v : Rec) : Prop where
  im : i ∈ recs
  ik : i.key = k
  i0 : i.rev = 0
  ilen : i.val.length = 8
  vm : v ∈ recs
  vk : v.key = k
  vrev : v.rev = fromBE (i.val.take 8)
  vpos : 0 < v.rev
  vlive : isTomb v.val = false
  top : ∀ w ∈ recs, w.key = k → w.rev ≤ v.rev

/-- the ordinary compaction rules never remove the revision record of a live key, nor the version it names -/
theorem liveKey_not_deletable {recs : List Rec} {k : Bytes} {i v : Rec} (hl : LiveKey recs k i v) (R : Nat) :
    ¬ Deletable R recs i ∧ ¬ Deletable R recs v := by
  constructor
  · intro ⟨_, h0, _⟩
    have := h0 hl.i0; have := hl.ilen; omega
  · intro ⟨_, _, hpos⟩
    rcases hpos hl.vpos with h | ⟨r', hr', hkey, hlt, _⟩
    · rw [hl.vlive] at h; cases h
    · have := hl.top r' hr' (hkey.trans hl.vk); omega

section
variable {recs : List Rec} (hs : SortedRecs recs) (hw : WellKeyed recs)
  (hk : ∀ r ∈ recs, Alphabet r.key ∧ r.rev < 2 ^ 64) (hne : ∀ r ∈ recs, r.key ≠ [])
  (c : WCfg) (hcomp : c.compact = true) (httl : c.supportTTL = false) (hT : c.timeout ≠ 0)
include hs hw hk

omit hw in
/-- the pass only removes: every key of the store is gone afterwards or holds what it held -/
theorem pass_sub_store (mask : Nat → DelOutcome) (b : Bytes) :
    (finalStore c mask recs).get b = none ∨ (finalStore c mask recs).get b = (encodeStore recs).get b := by
  unfold finalStore
  rw [passRun_eq, passLoop_run]
  exact runActs_get_cases mask _ _ (encodeStore_sorted hs hk) b

/-- … a record that is still in the store is what it was -/
theorem pass_only_removes (mask : Nat → DelOutcome) (r : Rec) (hr : r ∈ recs) :
    (finalStore c mask recs).get r.ik = none ∨ (finalStore c mask recs).get r.ik = some r.val := by
  rcases pass_sub_store hs hk c mask r.ik with h | h
  · exact .inl h
  · right; rw [h, hw r hr]; exact encodeStore_get hs hk hr

/-- the store after the pass is the encoded store of the records that are left -/
theorem finalStore_eq (mask : Nat → DelOutcome) : finalStore c mask recs = encodeStore (after c mask recs) := by
  have hso : Store.Sorted (finalStore c mask recs) := by
    unfold finalStore
    rw [passRun_eq]
    exact passLoop_sorted c mask recs recs _ _ _ _ (encodeStore_sorted hs hk)
  exact store_eq_encodeStore_filter hs hw hk hso (pass_sub_store hs hk c mask)

include hne hcomp httl hT

/-- **All or nothing.** The Event `k` has an EXPIRED revision record `i` in the snapshot (the revision it names is at
or below the timeout revision). Under EVERY failure mask — in particular for every crash point: `crashAfter mask n`
— after the pass either NO record of `k` is left (revision record and every version the snapshot showed), or its
revision record is still there, unchanged, every record of `k` that is still there is unchanged, whatever is gone
of it is what the ordinary compaction rules remove (a superseded version ≤ R, a deletion marker) and every read of
`k` at every revision ≥ R returns what it returned before. Never versions without their revision record.
(`hmax`: `expireEvent` iterates the versions below revision `MaxUint64`; no revision that large is ever dealt.) -/
theorem expired_event_all_or_nothing (mask : Nat → DelOutcome) (k : Bytes) (hev : isEventKey c k = true)
    (i : Rec) (hi : i ∈ recs) (hik : i.key = k) (hi0 : i.rev = 0) (h8 : 8 ≤ i.val.length)
    (hexp : fromBE (i.val.take 8) ≤ c.timeout) (hmax : ∀ w ∈ recs, w.key = k → w.rev < 2 ^ 64 - 1) :
    (∀ w ∈ recs, w.key = k → (finalStore c mask recs).get w.ik = none) ∨
    ((finalStore c mask recs).get i.ik = some i.val ∧
      (∀ w ∈ recs, w.key = k → (finalStore c mask recs).get w.ik = none ∨
        (finalStore c mask recs).get w.ik = some w.val) ∧
      (∀ w ∈ recs, w.key = k → (finalStore c mask recs).get w.ik = none → Deletable c.R recs w) ∧
      ∀ R', c.R ≤ R' → readAt R' (after c mask recs) k = readAt R' recs k) := by
  have hall := pass_all_or_nothing (mask := mask) hs hw hk httl hT hev hi hik hi0 h8 hexp hmax recs [] {} [] []
    { store := encodeStore recs, lastFailed := [] } rfl (encodeStore_sorted hs hk) (by decide)
    (.inr (by rw [hw i hi]; exact encodeStore_get hs hk hi))
  rcases hall with h | h
  · exact .inl h
  · right
    have hkept : (finalStore c mask recs).get i.ik ≠ none := by
      show (passRun c mask { store := encodeStore recs } recs).2.store.get i.ik ≠ none
      rw [passRun_eq, h]; simp
    obtain ⟨h1, h2⟩ := expired_index_failure_spares_versions hs hw hk hne c hcomp httl hT mask i hi hi0 h8 hexp hkept
    refine ⟨h, fun w hwm _ => pass_only_removes hs hw hk c mask w hwm, ?_, ?_⟩
    · intro w hwm hwk; exact h1 w hwm (hwk.trans hik.symm)
    · intro R' hR; rw [← hik]; exact h2 R' hR

/-- … for every crash point: the pass dies after `n` calls (any `n`, any outcomes of the calls before) -/
theorem expired_event_all_or_nothing_crash (mask : Nat → DelOutcome) (n : Nat) (k : Bytes)
    (hev : isEventKey c k = true) (i : Rec) (hi : i ∈ recs) (hik : i.key = k) (hi0 : i.rev = 0)
    (h8 : 8 ≤ i.val.length) (hexp : fromBE (i.val.take 8) ≤ c.timeout)
    (hmax : ∀ w ∈ recs, w.key = k → w.rev < 2 ^ 64 - 1) :
    (∀ w ∈ recs, w.key = k → (finalStore c (crashAfter mask n) recs).get w.ik = none) ∨
    ((finalStore c (crashAfter mask n) recs).get i.ik = some i.val ∧
      ∀ w ∈ recs, w.key = k → (finalStore c (crashAfter mask n) recs).get w.ik = none →
        Deletable c.R recs w) := by
  rcases expired_event_all_or_nothing hs hw hk hne c hcomp httl hT (crashAfter mask n) k hev i hi hik hi0 h8 hexp
    hmax with h | ⟨h1, _, h3, _⟩
  · exact .inl h
  · exact .inr ⟨h1, h3⟩

/-- **Never versions without their revision record.** If ANY record of the expired Event `k` is left after the pass,
its revision record is. -/
theorem versions_imply_index (mask : Nat → DelOutcome) (k : Bytes) (hev : isEventKey c k = true)
    (i : Rec) (hi : i ∈ recs) (hik : i.key = k) (hi0 : i.rev = 0) (h8 : 8 ≤ i.val.length)
    (hexp : fromBE (i.val.take 8) ≤ c.timeout) (hmax : ∀ w ∈ recs, w.key = k → w.rev < 2 ^ 64 - 1)
    (w : Rec) (hwm : w ∈ recs) (hwk : w.key = k) (hthere : (finalStore c mask recs).get w.ik ≠ none) :
    (finalStore c mask recs).get i.ik = some i.val := by
  rcases expired_event_all_or_nothing hs hw hk hne c hcomp httl hT mask k hev i hi hik hi0 h8 hexp hmax with h | h
  · exact absurd (h w hwm hwk) hthere
  · exact h.1

/-- **The invariant.** For a live Event — before the pass its revision record and the version it names are there —
after the pass, under EVERY failure mask and crash point: the revision record is there iff the version it names
is, iff any version at all is. (For a DELETED Event — revision record with the deletion flag — only
`versions_imply_index` holds: the ordinary rules remove the deletion marker and the superseded versions below it
while the flagged record stays, which reads absent and accepts a create.) -/
theorem index_present_iff_versions_present (mask : Nat → DelOutcome) (k : Bytes) (hev : isEventKey c k = true)
    (i v : Rec) (hl : LiveKey recs k i v) (hmax : ∀ w ∈ recs, w.key = k → w.rev < 2 ^ 64 - 1) :
    ((finalStore c mask recs).get i.ik = some i.val ↔ (finalStore c mask recs).get v.ik = some v.val) ∧
    ((finalStore c mask recs).get i.ik = some i.val ↔
      ∃ w ∈ recs, w.key = k ∧ w.rev ≠ 0 ∧ (finalStore c mask recs).get w.ik ≠ none) := by
  have h8 : 8 ≤ i.val.length := by rw [hl.ilen]; exact Nat.le_refl _
  have hnd := liveKey_not_deletable hl c.R
  -- whether young or expired: the revision record kept ⇒ the key is spared ⇒ nothing undeletable of it is removed
  have hspared_keeps : Spared c mask recs k → (finalStore c mask recs).get i.ik = some i.val ∧
      (finalStore c mask recs).get v.ik = some v.val := by
    intro hsp
    constructor
    · rcases pass_only_removes hs hw hk c mask i hl.im with h | h
      · exact absurd (spared_removed_is_deletable hs hw hk hne c hcomp httl hT mask k hsp i hl.im hl.ik h) hnd.1
      · exact h
    · rcases pass_only_removes hs hw hk c mask v hl.vm with h | h
      · exact absurd (spared_removed_is_deletable hs hw hk hne c hcomp httl hT mask k hsp v hl.vm hl.vk h) hnd.2
      · exact h
  by_cases hy : c.timeout < fromBE (i.val.take 8)
  · -- young: nothing of it goes
    have hsp : Spared c mask recs k := .inl (.inr ⟨i, hl.im, hl.ik, hl.i0, h8, hy⟩)
    obtain ⟨h1, h2⟩ := hspared_keeps hsp
    refine ⟨⟨fun _ => h2, fun _ => h1⟩, ⟨fun _ => ⟨v, hl.vm, hl.vk, by have := hl.vpos; omega, by rw [h2]; simp⟩,
      fun _ => h1⟩⟩
  · -- expired: all or nothing
    have hexp : fromBE (i.val.take 8) ≤ c.timeout := by omega
    rcases expired_event_all_or_nothing hs hw hk hne c hcomp httl hT mask k hev i hl.im hl.ik hl.i0 h8 hexp hmax with
      h | ⟨h1, _, _, _⟩
    · have hi' := h i hl.im hl.ik
      have hv' := h v hl.vm hl.vk
      refine ⟨⟨fun e => (by rw [hi'] at e; cases e), fun e => (by rw [hv'] at e; cases e)⟩,
        ⟨fun e => (by rw [hi'] at e; cases e), fun ⟨w, hwm, hwk, _, hne'⟩ => absurd (h w hwm hwk) hne'⟩⟩
    · have hsp : Spared c mask recs k := .inr ⟨i, hl.im, hl.ik, hl.i0, h8, by rw [h1]; simp⟩
      obtain ⟨_, h2⟩ := hspared_keeps hsp
      refine ⟨⟨fun _ => h2, fun _ => h1⟩, ⟨fun _ => ⟨v, hl.vm, hl.vk, by have := hl.vpos; omega, by rw [h2]; simp⟩,
        fun _ => h1⟩⟩

/-- the revision records of the store name the newest version of their key: every key with a record has a revision
record; it holds the big-endian revision of the key's newest version — bare when that version is a value, with the
deletion flag (9 bytes) when it is a deletion marker. (What the backend's writes maintain: C01 / C02Lag `KeyWF`.) -/
structure RecsWF (recs : List Rec) : Prop where
  hasIdx : ∀ w ∈ recs, ∃ i ∈ recs, i.key = w.key ∧ i.rev = 0
  named : ∀ i ∈ recs, i.rev = 0 → ∃ v ∈ recs, v.key = i.key ∧ 0 < v.rev ∧
    (∀ w ∈ recs, w.key = i.key → w.rev ≤ v.rev) ∧
    ((i.val = be8 v.rev ∧ isTomb v.val = false) ∨
     (i.val.length = 9 ∧ fromBE (i.val.take 8) = v.rev ∧ isTomb v.val = true))

instance (recs : List Rec) : Decidable (RecsWF recs) :=
  decidable_of_iff ((∀ w ∈ recs, ∃ i ∈ recs, i.key = w.key ∧ i.rev = 0) ∧
    (∀ i ∈ recs, i.rev = 0 → ∃ v ∈ recs, v.key = i.key ∧ 0 < v.rev ∧
      (∀ w ∈ recs, w.key = i.key → w.rev ≤ v.rev) ∧
      ((i.val = be8 v.rev ∧ isTomb v.val = false) ∨
       (i.val.length = 9 ∧ fromBE (i.val.take 8) = v.rev ∧ isTomb v.val = true))))
    ⟨fun h => ⟨h.1, h.2⟩, fun h => ⟨h.1, h.2⟩⟩

/-- every key is, after the pass, either gone with all its records or one the ttl pass of this run spared -/
theorem gone_or_spared (hwf : RecsWF recs) (hmax : ∀ w ∈ recs, w.rev < 2 ^ 64 - 1) (mask : Nat → DelOutcome)
    (k : Bytes) :
    (∀ w ∈ recs, w.key = k → (finalStore c mask recs).get w.ik = none) ∨ Spared c mask recs k := by
  by_cases hev : isEventKey c k = true
  · by_cases hrec : ∃ w ∈ recs, w.key = k
    · obtain ⟨w, hwm, hwk⟩ := hrec
      obtain ⟨i, hi, hik, hi0⟩ := hwf.hasIdx w hwm
      have hik' : i.key = k := hik.trans hwk
      have h8 : 8 ≤ i.val.length := by
        obtain ⟨v, _, _, _, _, h | h⟩ := hwf.named i hi hi0
        · rw [h.1]; simp [be8, be64]
        · omega
      by_cases hy : c.timeout < fromBE (i.val.take 8)
      · exact .inr (.inl (.inr ⟨i, hi, hik', hi0, h8, hy⟩))
      · rcases expired_event_all_or_nothing hs hw hk hne c hcomp httl hT mask k hev i hi hik' hi0 h8 (by omega)
          (fun w hwm _ => hmax w hwm) with h | h
        · exact .inl h
        · exact .inr (.inr ⟨i, hi, hik', hi0, h8, by rw [h.1]; simp⟩)
    · exact .inl (fun w hwm hwk => absurd ⟨w, hwm, hwk⟩ hrec)
  · exact .inr (.inl (.inl (by simpa using hev)))

/-- **Every key stays writable with normal semantics** — lifted to the backend model. The store's revision records
name the newest version of their key (`RecsWF`); a compaction pass at `R` with the ttl pass riding on it runs under ANY
failure mask — for every crash point `n`: `crashAfter mask n` — and leaves `finalStore`. On a backend over that
store (any engine quirks; every revision of the store was dealt): a key that a read at the latest revision reports
PRESENT at revision `m` accepts the guarded update naming `m`, and a key that reads ABSENT accepts a create. -/
theorem writable_after_interrupted_pass (hwf : RecsWF recs) (hmax : ∀ w ∈ recs, w.rev < 2 ^ 64 - 1)
    (hR : c.R < 2 ^ 64) (mask : Nat → DelOutcome) (cb : Cfg) (s : BState)
    (hst : s.store = finalStore c mask recs) (hdealt : ∀ w ∈ recs, w.rev ≤ s.dealt)
    (k : Bytes) (hka : Alphabet k) (val : Bytes) :
    (∀ v m, bget cb s.store k 0 = .found v m → (doUpdate cb s k val m []).1 = .ok (s.dealt + 1)) ∧
    (∀ m, bget cb s.store k 0 = .notFound m → (doCreate cb s k val []).1 = .ok (s.dealt + 1)) := by
  have hfin := finalStore_eq hs hw hk c mask
  have hsA : SortedRecs (after c mask recs) := List.Pairwise.sublist List.filter_sublist hs
  have hkA : ∀ r ∈ after c mask recs, Alphabet r.key ∧ r.rev < 2 ^ 64 :=
    fun r hr => hk r (List.mem_filter.1 hr).1
  have hRM : c.R ≤ 2 ^ 64 - 1 := by omega
  -- the revision record of `k` in the snapshot, if the final store holds anything under its key
  have hidxrec : ∀ old, (finalStore c mask recs).get (idxKey k) = some old →
      ∃ i ∈ recs, i.key = k ∧ i.rev = 0 ∧ i.val = old ∧ i.ik = idxKey k := by
    intro old hg
    have hE : (encodeStore recs).get (idxKey k) = some old := by
      rcases pass_sub_store hs hk c mask (idxKey k) with h | h
      · rw [hg] at h; cases h
      · rw [← h, hg]
    obtain ⟨r, hr, e⟩ := List.mem_map.1 (mem_of_get hE)
    simp only [Prod.mk.injEq] at e
    obtain ⟨e1, e2⟩ := encode_inj (hk r hr).2 (by decide) e.1
    exact ⟨r, hr, e1, e2, e.2, by rw [hw r hr, e1, e2]; rfl⟩
  -- the newest version of a key with a live revision record is what the snapshot reads
  have hlive_read : ∀ i ∈ recs, i.key = k → i.rev = 0 → ∀ v ∈ recs, v.key = k → 0 < v.rev →
      (∀ w ∈ recs, w.key = k → w.rev ≤ v.rev) → isTomb v.val = false →
      readAt (2 ^ 64 - 1) recs k = some (v.val, v.rev) := by
    intro i _ _ _ v hv hvk hv0 htop hvl
    rw [← hvk]
    exact (top_iff_readAt hs _ hv).1 ⟨by have := hmax v hv; omega, hv0, hvl,
      fun x hx _ hxk => htop x hx (hxk.trans hvk)⟩
  rcases gone_or_spared hs hw hk hne c hcomp httl hT hwf hmax mask k with hgone | hsp
  · -- nothing of `k` is left: it reads absent and has no revision record
    constructor
    · intro v m hb
      exfalso
      rw [hst, hfin, bget_found_iff cb hsA hkA k hka] at hb
      obtain ⟨x, hx, hxk, _⟩ := readAt_some hb
      have hx' := List.mem_filter.1 hx
      rw [hgone x hx'.1 hxk] at hx'
      exact absurd hx'.2 (by decide)
    · intro m _
      apply doCreate_ok_of_no_index
      rw [hst]
      cases hg : (finalStore c mask recs).get (idxKey k) with
      | none => rfl
      | some old =>
        obtain ⟨i, hi, hik, _, _, hiik⟩ := hidxrec old hg
        rw [← hiik, hgone i hi hik] at hg; cases hg
  · -- a spared key: reads at the latest revision are what they were, the ordinary rules removed what is gone
    have hread : readAt (2 ^ 64 - 1) (after c mask recs) k = readAt (2 ^ 64 - 1) recs k :=
      spared_reads_unchanged hs hw hk hne c hcomp httl hT mask k hsp _ hRM
    constructor
    · intro v m hb
      rw [hst, hfin, bget_found_iff cb hsA hkA k hka, hread] at hb
      obtain ⟨x, hx, hxk, hxv, hxn, hx0, _, hxl, _⟩ := readAt_some hb
      have htopx := (top_iff_readAt hs (2 ^ 64 - 1) hx).2 (by rw [hxk, hxv, hxn]; exact hb)
      obtain ⟨i, hi, hik, hi0⟩ := hwf.hasIdx x hx
      obtain ⟨v0, hv0, hv0k, hv0pos, hv0top, hcase⟩ := hwf.named i hi hi0
      have hle1 : v0.rev ≤ x.rev := htopx.2.2.2 v0 hv0 (by have := hmax v0 hv0; omega) (hv0k.trans hik)
      have hle2 : x.rev ≤ v0.rev := hv0top x hx hik.symm
      have hxe : x = v0 := recs_unique hs hx hv0 (hik.symm.trans hv0k.symm) (by omega)
      subst hxe
      rcases hcase with ⟨hival, _⟩ | ⟨_, _, htomb⟩
      · -- the revision record is not deletable, so it is still there
        have hkept : (finalStore c mask recs).get i.ik = some i.val := by
          rcases pass_only_removes hs hw hk c mask i hi with h | h
          · have hd := spared_removed_is_deletable hs hw hk hne c hcomp httl hT mask k hsp i hi (hik.trans hxk) h
            have := hd.2.1 hi0
            rw [hival] at this; simp [be8, be64] at this
          · exact h
        apply doUpdate_ok_of_index cb s k val m (hxn ▸ hx0) (hxn ▸ hdealt x hx)
        rw [hst, ← hxn, ← hival, ← hkept, hw i hi, hik, hxk, hi0]; rfl
      · rw [hxl] at htomb; cases htomb
    · intro m hb
      have hnone : readAt (2 ^ 64 - 1) recs k = none := by
        rw [← hread]
        exact (bget_notFound_iff cb hsA hkA k hka).1 ⟨m, by rw [← hfin, ← hst]; exact hb⟩
      cases hg : (finalStore c mask recs).get (idxKey k) with
      | none => exact doCreate_ok_of_no_index cb s k val (by rw [hst]; exact hg)
      | some old =>
        obtain ⟨i, hi, hik, hi0, hiv, _⟩ := hidxrec old hg
        obtain ⟨v0, hv0, hv0k, hv0pos, hv0top, hcase⟩ := hwf.named i hi hi0
        rcases hcase with ⟨_, hlive⟩ | ⟨hlen, hrev, _⟩
        · -- a live key would read present
          have := hlive_read i hi hik hi0 v0 hv0 (hv0k.trans hik) hv0pos
            (fun w hwm hwk => hv0top w hwm (hwk.trans hik.symm)) hlive
          rw [hnone] at this; cases this
        · apply doCreate_ok_of_flagged_index cb s k val old (by rw [hst]; exact hg) (hiv ▸ hlen)
          rw [← hiv, hrev]
          have := hdealt v0 hv0; omega

end

/-! ### the pass as it was before 74218cc -/

/-- the store after one worker's pass of the OLD loop (`passRunOld`: compare-and-delete of the revision record, then a
plain delete per version — separate engine calls) -/
def finalStoreOld (c : WCfg) (mask : Nat → DelOutcome) (recs : List Rec) : Store :=
  (passRunOld c mask { store := encodeStore recs } recs).2.store

def afterOld (c : WCfg) (mask : Nat → DelOutcome) (recs : List Rec) : List Rec :=
  recs.filter (fun r => ((finalStoreOld c mask recs).get r.ik).isSome)

/-- the Event `/e/x` was created at 2 (value `[1]`) and updated at 3 (value `[2]`): its revision record says 3 —
expired with the timeout revision 5 of `exCfg` (compaction at 7); `/n` was created at 4 and updated at 6 -/
def exExpired : List Rec :=
  [ { key := exE, rev := 0, val := be64 3, ik := encode exE 0 },
    { key := exE, rev := 2, val := [1], ik := encode exE 2 },
    { key := exE, rev := 3, val := [2], ik := encode exE 3 },
    { key := exN, rev := 0, val := be64 6, ik := encode exN 0 },
    { key := exN, rev := 4, val := [7], ik := encode exN 4 },
    { key := exN, rev := 6, val := [8], ik := encode exN 6 } ]

/-- every call succeeds until the pass dies after `n` calls -/
def dieAfter (n : Nat) : Nat → DelOutcome := crashAfter (fun _ => .ok) n

/-- a backend (any engine: the reference quirks) over the store `st`, 7 revisions dealt and committed -/
def exB : Cfg := { pfx := [47] }
def exState (st : Store) : BState := { store := st, dealt := 7, committed := 7, ring := Ring.new 4 }

/-- **Refutation of the per-record pass.** The expired Event `/e/x` (revision record naming 3, versions at 2 and 3),
timeout revision 5, compaction at 7, the pass dies after its FIRST engine call.
OLD pass (`passRunOld`): the first call is the compare-and-delete of the revision record — it goes through, the
deletes of the versions never happen: the versions are left WITHOUT their revision record. A read still answers
"present at revision 3" (`readAt`, and the backend's `bget`), yet the guarded update naming 3 is refused, and so is
even an UNGUARDED delete: the key is not writable with normal semantics.
The pass as it is (`passRun`): its first call is the batch — revision record and both versions go together, the key
reads absent and can be created; dying BEFORE that call leaves the Event whole, and the update naming 3 is accepted.
The hypotheses of the theorems above hold for this store. -/
theorem old_pass_interrupted_leaves_orphan_versions :
    SortedRecs exExpired ∧ WellKeyed exExpired ∧ (∀ r ∈ exExpired, Alphabet r.key ∧ r.rev < 2 ^ 64) ∧
    (∀ r ∈ exExpired, r.key ≠ []) ∧ isEventKey exCfg exE = true ∧ fromBE ((be64 3).take 8) ≤ exCfg.timeout ∧
    readAt 7 exExpired exE = some ([2], 3) ∧
    -- the OLD pass, dying after its first call: revision record gone, versions there
    (afterOld exCfg (dieAfter 1) exExpired).map (fun r => (r.key, r.rev)) =
      [(exE, 2), (exE, 3), (exN, 0), (exN, 4), (exN, 6)] ∧
    (finalStoreOld exCfg (dieAfter 1) exExpired).get (encode exE 0) = none ∧
    readAt 7 (afterOld exCfg (dieAfter 1) exExpired) exE = some ([2], 3) ∧
    bget exB (finalStoreOld exCfg (dieAfter 1) exExpired) exE 0 = .found [2] 3 ∧
    (doUpdate exB (exState (finalStoreOld exCfg (dieAfter 1) exExpired)) exE [9] 3 []).1 =
      .condFailed 8 (some (exE, [2], 3)) ∧
    (doDelete exB (exState (finalStoreOld exCfg (dieAfter 1) exExpired)) exE 0 []).1 =
      .condFailed 8 (some (exE, [2], 3)) ∧
    -- the pass as it is, same crash point: everything of the Event is gone; it reads absent and can be created
    (after exCfg (dieAfter 1) exExpired).map (fun r => (r.key, r.rev)) = [(exN, 0), (exN, 4), (exN, 6)] ∧
    bget exB (finalStore exCfg (dieAfter 1) exExpired) exE 0 = .notFound 0 ∧
    (doCreate exB (exState (finalStore exCfg (dieAfter 1) exExpired)) exE [9] []).1 = .ok 8 ∧
    -- … dying before the batch: nothing of it is gone; the update naming 3 is accepted
    after exCfg (dieAfter 0) exExpired = exExpired ∧
    bget exB (finalStore exCfg (dieAfter 0) exExpired) exE 0 = .found [2] 3 ∧
    (doUpdate exB (exState (finalStore exCfg (dieAfter 0) exExpired)) exE [9] 3 []).1 = .ok 8 ∧
    -- … a failed-condition error on the batch: the same
    after exCfg (fun i => if i = 0 then .failCas else .ok) exExpired =
      exExpired.filter (fun r => !(r.key == exE && r.rev == 2) && !(r.key == exN && r.rev == 4)) ∧
    (doUpdate exB (exState (finalStore exCfg (fun i => if i = 0 then .failCas else .ok) exExpired)) exE [9] 3 []).1 =
      .ok 8 := by
  decide

/-! ### Non-vacuity: the hypotheses of the theorems hold for the store of the refutation -/

example : RecsWF exExpired ∧ (∀ w ∈ exExpired, w.rev < 2 ^ 64 - 1) ∧ exCfg.R < 2 ^ 64 ∧ Alphabet exE ∧ Alphabet exN := by
  decide
example : LiveKey exExpired exE { key := exE, rev := 0, val := be64 3, ik := encode exE 0 }
    { key := exE, rev := 3, val := [2], ik := encode exE 3 } :=
  ⟨by decide, rfl, rfl, by decide, by decide, rfl, by decide, by decide, by decide, by decide⟩

/-- all or nothing for `/e/x`, under any mask and any crash point -/
example (mask : Nat → DelOutcome) (n : Nat) :
    (∀ w ∈ exExpired, w.key = exE → (finalStore exCfg (crashAfter mask n) exExpired).get w.ik = none) ∨
    ((finalStore exCfg (crashAfter mask n) exExpired).get (encode exE 0) = some (be64 3) ∧
      ∀ w ∈ exExpired, w.key = exE → (finalStore exCfg (crashAfter mask n) exExpired).get w.ik = none →
        Deletable exCfg.R exExpired w) :=
  expired_event_all_or_nothing_crash (by decide) (by decide) (by decide) (by decide) exCfg rfl rfl (by decide) mask n
    exE (by decide) { key := exE, rev := 0, val := be64 3, ik := encode exE 0 } (by decide) rfl rfl (by decide)
    (by decide) (by decide)

/-- the revision record of `/e/x` is there iff its version at 3 is, under any mask -/
example (mask : Nat → DelOutcome) :
    (finalStore exCfg mask exExpired).get (encode exE 0) = some (be64 3) ↔
      (finalStore exCfg mask exExpired).get (encode exE 3) = some [2] :=
  (index_present_iff_versions_present (by decide) (by decide) (by decide) (by decide) exCfg rfl rfl (by decide) mask
    exE (by decide) { key := exE, rev := 0, val := be64 3, ik := encode exE 0 }
    { key := exE, rev := 3, val := [2], ik := encode exE 3 }
    ⟨by decide, rfl, rfl, by decide, by decide, rfl, by decide, by decide, by decide, by decide⟩ (by decide)).1

/-- every key of that store stays writable after a pass interrupted anywhere: on a backend that has dealt 7
revisions, whatever the mask and the crash point -/
example (mask : Nat → DelOutcome) (n : Nat) (k : Bytes) (hka : Alphabet k) (val : Bytes) :
    let s := exState (finalStore exCfg (crashAfter mask n) exExpired)
    (∀ v m, bget exB s.store k 0 = .found v m → (doUpdate exB s k val m []).1 = .ok 8) ∧
    (∀ m, bget exB s.store k 0 = .notFound m → (doCreate exB s k val []).1 = .ok 8) :=
  writable_after_interrupted_pass (by decide) (by decide) (by decide) (by decide) exCfg rfl rfl (by decide)
    (by decide) (by decide) (by decide) (crashAfter mask n) exB _ rfl
    (show ∀ w ∈ exExpired, w.rev ≤ 7 by decide) k hka val

end KB.C07Atomic

#print axioms KB.C07Atomic.pass_only_removes
#print axioms KB.C07Atomic.finalStore_eq
#print axioms KB.C07Atomic.expired_event_all_or_nothing
#print axioms KB.C07Atomic.expired_event_all_or_nothing_crash
#print axioms KB.C07Atomic.versions_imply_index
#print axioms KB.C07Atomic.index_present_iff_versions_present
#print axioms KB.C07Atomic.gone_or_spared
#print axioms KB.C07Atomic.writable_after_interrupted_pass
#print axioms KB.C07Atomic.old_pass_interrupted_leaves_orphan_versions
