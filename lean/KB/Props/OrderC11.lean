/-
  Shape facts of the TiKV adapter for C11 / C01 — regenerated from the source (harness/cmd/kbextract/order.go →
  KB/Generated/OrderFacts.lean). KB.EngineTxn models `batch.Commit` as a bounded loop of transaction attempts, each read at a
  snapshot-isolated snapshot; these `decide`d theorems tie the two places where the model is coarser than the code.
-/
import KB.Generated.OrderFacts
namespace KB.OrderC11
open KB.Generated

/-- C11 / C01: the conflict re-run loop of the TiKV `Commit` has exactly its three exits (the attempt's answer when it is no
write conflict; the error after the last attempt; a transaction that cannot be begun). An additional exit that hands back the
attempt's bare "condition failed" - on a cancelled context, say - would report a failed condition that no evaluation of the
conditions found (KB.C11Conflict.real_change_fails_condition is about the exits the model has). -/
theorem tikv_commit_loop_has_its_three_exits : tikvCommitLoopExits = 3 := by decide

/-- C11 / C03: `Iter` reads from the snapshot as the client hands it out - snapshot isolation: a lock of an in-flight commit
is checked against its primary and resolved, never skipped (read-committed would let an acknowledged, readable write be missing
from a scan while the commit of its secondary keys in another region is still on its way). -/
theorem tikv_iter_uses_the_snapshot_as_is : tikvIterSnapshotCalls = ["Iter", "IterReverse"] := by decide

end KB.OrderC11
