/-
  C16 — The etcd-facing API answers Kubernetes' requests as etcd would.
  Property theorems only. Models: KB.EtcdShim (kv.go / backendshim.go over the sequential backend model
  KB.Backend), KB.EtcdRef (reference etcd Txn / Range over an MVCC state). Lemmas: KB.Lemmas.Etcd,
  KB.Lemmas.EtcdRange.

  How a backend state abstracts to the etcd state:
  * for transactions (`AbsAt c s m k`, at the key `k` the transaction works on): the revision counter of
    `m` is the dealt revision, `m.get k` is the live key-value of `k` (`curKv` = what `backend.get(k, 0)`
    answers: value and mod revision), keys are listed once;
  * for reads (`StoreAbs c s recs`, `histOf recs committed`): the engine holds the encoded records of a
    sorted decoded store; the state at revision R is the snapshot of C03 (`scanRecs R recs`).
  The write path is used through its index-record invariant `idxOK` (decidable per key; what C01
  establishes for reachable states), the engine contract of C11 (`casMissingNotFound = false`) and
  64-bit revisions: `WHyp`.

  The FULL statement (`ShimSound`: every transaction is either refused or answered as etcd would) is
  FALSE of the code; it is kept visible, refuted (`shim_sound_false`), proved for the explicit
  well-shapedness predicate `Canonical` (`shim_sound_partial`), and every kind of deviation has a
  `decide`d counterexample below, replayed on the real server by kbcheck/props/c16.py on every run.
-/
import KB.Lemmas.Etcd
import KB.Lemmas.EtcdRange
namespace KB.C16
open KB KB.Etcd Generated

/-! ### the four shapes Kubernetes issues -/

def k8sCreate (k v : Bytes) (lease : Int) : TxnReq :=
  { compare := [{ key := k }], success := [.put { key := k, val := v, lease := lease }], failure := [] }

def k8sUpdate (k v : Bytes) (exp : Nat) (lease : Int) : TxnReq :=
  { compare := [{ key := k, int := exp }], success := [.put { key := k, val := v, lease := lease }],
    failure := [.range { key := k }] }

def k8sDelete (k : Bytes) (exp : Nat) : TxnReq :=
  { compare := [{ key := k, int := exp }], success := [.del { key := k }], failure := [.range { key := k }] }

def k8sDeleteUnguarded (k : Bytes) : TxnReq :=
  { compare := [], success := [.range { key := k }, .del { key := k }], failure := [] }

/-- The four shapes are recognised as the backend call they mean, for every key, value, lease and
expected revision. -/
theorem k8s_shapes_recognised (k v : Bytes) (lease : Int) (exp : Nat) :
    classify (k8sCreate k v lease) = .create { key := k, val := v, lease := lease } ∧
    classify (k8sUpdate k v exp lease) = .update exp k v lease ∧
    classify (k8sDelete k exp) = .delete exp k ∧
    classify (k8sDeleteUnguarded k) = .delete 0 k := by
  refine ⟨classify_create ⟨rfl, rfl, rfl, rfl, rfl⟩, classify_update (n := exp) ⟨rfl, rfl, rfl, rfl, rfl⟩,
    classify_gdelete (n := exp) ⟨rfl, rfl, rfl, rfl, rfl⟩, classify_udelete _ _⟩

/-- ... and on any backend state with a consistent index record for the key they are answered with
the projection etcd prescribes on the abstracted state: success flag, revision of the write, the
key-values of the reads. Expected revisions are correct / stale / zero (not above the dealt revision);
the unguarded delete is stated for an existing key (for a missing one see
`unguarded_delete_missing_flag`), the guarded delete for a non-zero expectation
(`mod0_delete_unconditional`). -/
theorem k8s_shapes_accepted (c : Cfg) (s : BState) (m : Mvcc) (k v : Bytes) (lease : Int) (exp : Nat)
    (hk : k ≠ []) (hw : WHyp c s k) (ha : AbsAt c s m k) :
    Agree c s m (k8sCreate k v lease) ∧
    (exp ≤ s.dealt → Agree c s m (k8sUpdate k v exp lease)) ∧
    (0 < exp → exp ≤ s.dealt → Agree c s m (k8sDelete k exp)) ∧
    (curKv c s k ≠ none → Agree c s m (k8sDeleteUnguarded k)) := by
  have hget : PlainGet { key := k } k := ⟨rfl, rfl, rfl, rfl, rfl, rfl, rfl, rfl, rfl, rfl, rfl⟩
  refine ⟨?_, ?_, ?_, ?_⟩
  · exact sound_create c s m _ { key := k, val := v, lease := lease } ⟨rfl, rfl, rfl, rfl, rfl⟩
      ⟨hk, rfl, rfl, rfl⟩ hw ha
  · intro hle
    exact sound_update c s m _ { key := k, val := v, lease := lease } { key := k } exp ⟨rfl, rfl, rfl, rfl, rfl⟩
      (by omega) (by omega) ⟨hk, rfl, rfl, rfl⟩ hget hw ha
  · intro h0 hle
    exact sound_gdelete c s m _ { key := k } { key := k } exp ⟨rfl, rfl, rfl, rfl, rfl⟩ (by omega) (by omega)
      hk rfl hget hw ha
  · intro hex
    exact sound_udelete c s m { key := k } { key := k } hk rfl hget hw ha hex

/-! ### well-shaped transactions: shim = reference -/

/-- the key a well-shaped transaction works on -/
def opKey (t : TxnReq) : Bytes :=
  match t.success with
  | [.put p] => p.key
  | [.del d] => d.key
  | [_, .del d] => d.key
  | _ => []

/-- For every transaction satisfying `Canonical` (compare key = op key, empty range_end, plain Get,
put without flags, non-zero expectation on the guarded delete) whose expectation is not in the future,
except the unguarded delete of a missing key: the shim answers, the reference answers, and the
observable projections are equal. -/
theorem shim_sound_partial (c : Cfg) (s : BState) (m : Mvcc) (t : TxnReq) (hcan : Canonical t)
    (hw : WHyp c s (opKey t)) (ha : AbsAt c s m (opKey t))
    (hexp : ∀ cm ∈ t.compare, cm.int ≤ s.dealt)
    (hnm : t.compare = [] → curKv c s (opKey t) ≠ none) :
    Agree c s m t := by
  cases hcan with
  | create cm p hc hp => exact sound_create c s m cm p hc hp hw ha
  | update cm p g n hc h0 hp hg =>
    have hle : n ≤ s.dealt := by have := hexp cm (by simp); rw [hc.2.2.2.2] at this; exact this
    exact sound_update c s m cm p g n hc h0 hle hp hg hw ha
  | gdelete cm d g n hc h0 hk he hg =>
    have hle : n ≤ s.dealt := by have := hexp cm (by simp); rw [hc.2.2.2.2] at this; exact this
    exact sound_gdelete c s m cm d g n hc h0 hle hk he hg hw ha
  | udelete g d hk he hg => exact sound_udelete c s m g d hk he hg hw ha (hnm rfl)

/-- The one deviation among the well-shaped transactions: the unguarded delete of a missing key is
answered `Succeeded = false` where etcd (no compares) answers `true`; nothing is written on either
side and the range response is the same empty one. -/
theorem unguarded_delete_missing_flag (c : Cfg) (s : BState) (m : Mvcc) (g : RangeReq) (d : DelReq)
    (hk : d.key ≠ []) (he : d.rangeEnd = []) (hg : PlainGet g d.key) (hw : WHyp c s d.key)
    (ha : AbsAt c s m d.key) (hmiss : curKv c s d.key = none) :
    ∃ r r' m', (shimTxn c s { compare := [], success := [.range g, .del d], failure := [] }).1 = .ok r ∧
      refTxn m { compare := [], success := [.range g, .del d], failure := [] } = .ok (r', m') ∧
      r.ok = false ∧ r'.ok = true ∧ r.wrote = false ∧ r'.wrote = false ∧
      readsOf [.range g, .del d] r.resps = [some []] ∧ readsOf [.range g, .del d] r'.resps = [some []] :=
  udelete_missing c s m g d hk he hg hw ha hmiss

/-- Any transaction the recognisers do not match is refused with an error and nothing is executed:
the state is unchanged. -/
theorem unsupported_rejected_unchanged (c : Cfg) (s : BState) (t : TxnReq) (h : classify t = .unsupported) :
    shimTxn c s t = (.error .unsupported, s) := by
  unfold shimTxn
  rw [h]

/-- The refusal of put flags in the create shape happens before the backend is called. -/
theorem create_flags_rejected_unchanged (c : Cfg) (s : BState) (p : PutReq)
    (h : p.ignoreLease = true ∨ p.ignoreValue = true ∨ p.prevKv = true) :
    shimCreate c s p = (.error .field, s) := by
  unfold shimCreate
  rcases h with h | h | h <;> simp [h]

/-! ### the full statement, and why it is false -/

/-- FULL statement: on every consistent state, every transaction with expectations that are not in
the future is either refused with an error or answered as etcd answers it. -/
def ShimSound : Prop :=
  ∀ (c : Cfg) (s : BState) (m : Mvcc) (t : TxnReq),
    (∀ k, WHyp c s k) → (∀ k, AbsAt c s m k) → (∀ cm ∈ t.compare, 0 ≤ cm.int ∧ cm.int ≤ s.dealt) →
    (∃ e, (shimTxn c s t).1 = .error e) ∨ Agree c s m t

/-! concrete states for the counterexamples: memkv engine, three keys /r/a /r/b /r/c created at
revisions 1001 1002 1003 (the scripts `witness_cases` of kbcheck/props/c16.py replay exactly these) -/
def cfg0 : Cfg := { q := Quirks.memkv }
def s0 : BState := { ring := Ring.new 4, dealt := 1000, committed := 1000 }
def kA : Bytes := [47, 114, 47, 97]
def kB : Bytes := [47, 114, 47, 98]
def kC : Bytes := [47, 114, 47, 99]
def kD : Bytes := [47, 114, 47, 100]
def v1 : Bytes := [118, 49]
def v2 : Bytes := [118, 50]
def v3 : Bytes := [118, 51]
def v9 : Bytes := [118, 57]
def s1 : BState := (shimTxn cfg0 s0 (k8sCreate kA v1 0)).2
def s2 : BState := (shimTxn cfg0 s1 (k8sCreate kB v2 0)).2
def s3 : BState := (shimTxn cfg0 s2 (k8sCreate kC v3 0)).2
def m0 : Mvcc := { rev := 1000 }
def m3 : Mvcc :=
  { rev := 1003, kvs := [{ key := kA, val := v1, mod := 1001, create := 1001, version := 1 },
                         { key := kB, val := v2, mod := 1002, create := 1002, version := 1 },
                         { key := kC, val := v3, mod := 1003, create := 1003, version := 1 }] }

theorem getInternal_empty (c : Cfg) (k : Bytes) (R : Nat) : getInternal c [] k R = none := by
  have hlim : ∀ lim, applyLimit c.q lim [] = [] := by
    intro lim
    unfold applyLimit
    split
    · rfl
    · cases c.q.limitMode <;> simp
  have hdesc : ∀ a b, iterDesc c.q [] a b = [] := by
    intro a b
    unfold iterDesc
    cases h : c.q.revFirstUnchecked <;> simp
  have hit : ∀ a b lim, iterate c.q [] a b lim = [] := by
    intro a b lim
    unfold iterate
    split
    · exact hlim lim
    · split
      · rw [hdesc]; exact hlim lim
      · exact hlim lim
  unfold getInternal
  simp only [hit]

/-- The full statement is false: a guarded delete with expectation 0 of a missing key is answered
`Succeeded = false`; etcd answers `true` (the compare `mod(k) = 0` holds). -/
theorem shim_sound_false : ¬ ShimSound := by
  intro h
  have hw : ∀ k, WHyp cfg0 s0 k := fun k =>
    ⟨rfl, by decide, by simp [idxOK, getInternal_empty, s0, Store.get]⟩
  have ha : ∀ k, AbsAt cfg0 s0 m0 k := fun k =>
    ⟨rfl, by simp [m0, Mvcc.get, curKv_eq, getInternal_empty, s0], by simp [m0]⟩
  rcases h cfg0 s0 m0 (k8sDelete kA 0) hw ha (by decide) with ⟨e, he⟩ | ⟨r, r', m', h1, h2, h3⟩
  · have : (shimTxn cfg0 s0 (k8sDelete kA 0)).1 =
        .ok { ok := false, hdr := 1001, resps := [.range 1001 [] 0 false], wrote := false } := by decide
    rw [this] at he
    cases he
  · have e1 : (shimTxn cfg0 s0 (k8sDelete kA 0)).1 =
        .ok { ok := false, hdr := 1001, resps := [.range 1001 [] 0 false], wrote := false } := by decide
    have e2 : (refTxn m0 (k8sDelete kA 0)).map Prod.fst =
        .ok { ok := true, hdr := 1000, resps := [.del 1001 0], wrote := false } := by decide
    rw [e1] at h1
    rw [h2] at e2
    cases h1
    simp only [Except.map, Except.ok.injEq] at e2
    subst e2
    revert h3
    decide

/-! ### counterexamples, one per kind of deviation (all `decide`d in the model; replayed on the server) -/

/-- the state `s3` abstracts to `m3` at every key used below, and its index records are consistent -/
theorem s3_abstracts_to_m3 :
    (∀ k ∈ [kA, kB, kC, kD], (m3.get k).map KVFull.proj = curKv cfg0 s3 k ∧ idxOK cfg0 s3 k = true) ∧
    m3.rev = s3.dealt := by decide

/-- `If(mod(/r/a)=0) Then(Put /r/d v9)`: /r/a exists, so etcd fails the transaction and writes nothing;
the shim never looks at the compare key and runs it as a create of /r/d. -/
theorem key_mismatch_executed :
    let t : TxnReq := { compare := [{ key := kA }], success := [.put { key := kD, val := v9 }], failure := [] }
    (shimTxn cfg0 s3 t).1 = .ok { ok := true, hdr := 1004, resps := [.put 1004], wrote := true } ∧
    curKv cfg0 (shimTxn cfg0 s3 t).2 kD = some (kD, v9, 1004) ∧
    (refTxn m3 t).map (fun x => (x.1.ok, x.1.wrote, x.2.get kD)) = .ok (false, false, none) := by decide

/-- `If(mod(/r/a)=1001) Then(Put /r/b v9) Else(Get /r/a)`: the shim takes the key from the compare and
overwrites /r/a; etcd writes /r/b. -/
theorem key_mismatch_update_writes_compare_key :
    let t : TxnReq := { compare := [{ key := kA, int := 1001 }], success := [.put { key := kB, val := v9 }],
                        failure := [.range { key := kA }] }
    curKv cfg0 (shimTxn cfg0 s3 t).2 kA = some (kA, v9, 1004) ∧
    curKv cfg0 (shimTxn cfg0 s3 t).2 kB = some (kB, v2, 1002) ∧
    (refTxn m3 t).map (fun x => ((x.2.get kA).map KVFull.proj, (x.2.get kB).map KVFull.proj)) =
      .ok (some (kA, v1, 1001), some (kB, v9, 1004)) := by decide

/-- `If(mod(/r/b)=1002) Then(Delete [/r/b, /r0)) Else(Get /r/b)`: etcd deletes /r/b and /r/c; the shim
ignores `range_end` and deletes /r/b only. -/
theorem ranged_delete_executed_as_point :
    let t : TxnReq := { compare := [{ key := kB, int := 1002 }],
                        success := [.del { key := kB, rangeEnd := [47, 114, 48] }], failure := [.range { key := kB }] }
    ((shimTxn cfg0 s3 t).1.map (·.ok)) = .ok true ∧
    curKv cfg0 (shimTxn cfg0 s3 t).2 kB = none ∧
    curKv cfg0 (shimTxn cfg0 s3 t).2 kC = some (kC, v3, 1003) ∧
    (refTxn m3 t).map (fun x => (x.1.ok, x.2.kvs.map (·.key))) = .ok (true, [kA]) := by decide

/-- `If(mod(/r/c)=0) Then(Delete /r/c) Else(Get /r/c)` on the existing /r/c: etcd's compare is false,
the failure branch returns the current key-value; the shim passes revision 0 = "unconditional" to
the backend and deletes the key. -/
theorem mod0_delete_unconditional :
    (shimTxn cfg0 s3 (k8sDelete kC 0)).1 =
      .ok { ok := true, hdr := 1004, resps := [.range 1004 [(kC, v3, 1003)] 0 false], wrote := true } ∧
    curKv cfg0 (shimTxn cfg0 s3 (k8sDelete kC 0)).2 kC = none ∧
    (refTxn m3 (k8sDelete kC 0)).map (fun x => (x.1.obs (k8sDelete kC 0), (x.2.get kC).map KVFull.proj)) =
      .ok ({ ok := false, writeRev := none, reads := [some [(kC, v3, 1003)]] }, some (kC, v3, 1003)) := by decide

/-- the unguarded delete of the missing /r/d (instance of `unguarded_delete_missing_flag`) -/
theorem unguarded_delete_missing_witness :
    (shimTxn cfg0 s3 (k8sDeleteUnguarded kD)).1 =
      .ok { ok := false, hdr := 1004, resps := [.range 1004 [] 0 false], wrote := false } ∧
    (refTxn m3 (k8sDeleteUnguarded kD)).map (fun x => (x.1.ok, x.1.wrote, x.1.resps)) =
      .ok (true, false, [.range 1003 [] 0 false, .del 1004 0]) := by decide

/-- `If(mod(/r/a)=1001) Then(Put /r/a "" ignore_value)`: etcd keeps the old value; the update shape
ignores the flag (the create shape refuses it) and writes the empty value. -/
theorem update_put_flags_ignored :
    let t : TxnReq := { compare := [{ key := kA, int := 1001 }],
                        success := [.put { key := kA, val := [], ignoreValue := true }],
                        failure := [.range { key := kA }] }
    curKv cfg0 (shimTxn cfg0 s3 t).2 kA = some (kA, [], 1004) ∧
    (refTxn m3 t).map (fun x => (x.2.get kA).map KVFull.proj) = .ok (some (kA, v1, 1004)) := by decide

/-- `If(mod(/r/a)=1002) Then(Put /r/a v2) Else(Get /r/a count_only)`: etcd's failure branch returns no
key-values (count 1); the shim ignores the option and returns the key-value. -/
theorem failure_get_options_ignored :
    let t : TxnReq := { compare := [{ key := kA, int := 1002 }], success := [.put { key := kA, val := v2 }],
                        failure := [.range { key := kA, countOnly := true }] }
    (shimTxn cfg0 s3 t).1.map (fun r => r.obs t) =
      .ok { ok := false, writeRev := none, reads := [some [(kA, v1, 1001)]] } ∧
    (refTxn m3 t).map (fun x => x.1.obs t) = .ok { ok := false, writeRev := none, reads := [some []] } := by decide

/-! ### reads -/

/-- Range over a proper interval `[key, range_end)`, any limit, at revision 0 or any revision up to the
committed one (except the partition-listing magic 1888), no option the shim ignores: same header,
same key-values in the same order, same more-flag; Count never exceeds etcd's and is equal whenever
there is no more (`range_count_partial` part; for the other case see `limited_count_wrong`). -/
theorem range_matches_ref (c : Cfg) (s : BState) (recs : List Rec) (hst : StoreAbs c s recs) (r : RangeReq)
    (hp : PlainRange r) (hco : r.countOnly = false) (hk : r.key ≠ []) (hka : Alphabet r.key)
    (hea : Alphabet r.rangeEnd) (hlt : cmp r.key r.rangeEnd = .lt) (hr0 : 0 ≤ r.revision)
    (hrc : r.revision ≤ s.committed) (hmagic : r.revision ≠ getPartitionMagic) (hcb : s.committed < 2 ^ 64) :
    ∃ a b, shimRange c s r = .ok a ∧ refRangeH (histOf recs s.committed) r = .ok b ∧
      a.hdr = b.hdr ∧ a.kvs = b.kvs ∧ a.more = b.more ∧ a.count ≤ b.count ∧ (a.more = false → a.count = b.count) :=
  range_list_sound c s recs hst r hp hco hk hka hea hlt hr0 hrc hmagic hcb

/-- Count of a limited range: exactly the page length plus one when there is more — equal to etcd's
count iff the range holds at most `limit + 1` keys. -/
theorem range_count_partial (c : Cfg) (s : BState) (recs : List Rec) (hst : StoreAbs c s recs) (r : RangeReq)
    (hp : PlainRange r) (hco : r.countOnly = false) (hk : r.key ≠ []) (hka : Alphabet r.key)
    (hea : Alphabet r.rangeEnd) (hlt : cmp r.key r.rangeEnd = .lt) (hr0 : 0 ≤ r.revision)
    (hrc : r.revision ≤ s.committed) (hmagic : r.revision ≠ getPartitionMagic) (hcb : s.committed < 2 ^ 64) :
    ∃ a, shimRange c s r = .ok a ∧ a.count = a.kvs.length + (if a.more then 1 else 0) := by
  have hee := isEmpty_false_of_ne (ne_nil_of_lt hlt)
  obtain ⟨res, hres, _⟩ := C03.list_spec c hst.single s hst.store hst.sorted hst.keys
    r.key r.rangeEnd hka hea hlt (toU64 r.revision) r.limit.toNat
  have hm : (r.revision == getPartitionMagic) = false := by simpa using hmagic
  exact ⟨⟨res.hdr, res.kvs, res.kvs.length + (if res.more then 1 else 0), res.more⟩,
    by simp [shimRange, hee, hm, hco, hres, liftScan], rfl⟩

/-- Point read (empty `range_end`) at revision 0 or any revision up to the committed one: the whole
response equals etcd's. -/
theorem range_get_matches_ref (c : Cfg) (s : BState) (recs : List Rec) (hst : StoreAbs c s recs) (r : RangeReq)
    (hp : PlainRange r) (hco : r.countOnly = false) (hlim : r.limit = 0) (hend : r.rangeEnd = [])
    (hk : r.key ≠ []) (hka : Alphabet r.key) (hr0 : 0 ≤ r.revision) (hrc : r.revision ≤ s.committed)
    (hcb : s.committed < 2 ^ 64) :
    ∃ a, shimRange c s r = .ok a ∧ refRangeH (histOf recs s.committed) r = .ok a :=
  range_get_sound c s recs hst r hp hco hlim hend hk hka hr0 hrc hcb

/-- `count_only` over a proper interval at the current revision (as Kubernetes issues it): the whole
response equals etcd's. -/
theorem range_count_only_matches_ref (c : Cfg) (s : BState) (recs : List Rec) (hst : StoreAbs c s recs)
    (r : RangeReq) (hp : PlainRange r) (hco : r.countOnly = true) (hk : r.key ≠ []) (hka : Alphabet r.key)
    (hea : Alphabet r.rangeEnd) (hlt : cmp r.key r.rangeEnd = .lt) (hr0 : r.revision = 0) :
    ∃ a, shimRange c s r = .ok a ∧ refRangeH (histOf recs s.committed) r = .ok a :=
  range_count_sound c s recs hst r hp hco hk hka hea hlt hr0

/-- the decoded store of `s3` -/
def recs3 : List Rec :=
  [ { key := kA, rev := 0, val := be64 1001, ik := encode kA 0 }, { key := kA, rev := 1001, val := v1, ik := encode kA 1001 },
    { key := kB, rev := 0, val := be64 1002, ik := encode kB 0 }, { key := kB, rev := 1002, val := v2, ik := encode kB 1002 },
    { key := kC, rev := 0, val := be64 1003, ik := encode kC 0 }, { key := kC, rev := 1003, val := v3, ik := encode kC 1003 } ]

theorem s3_store_abs : StoreAbs cfg0 s3 recs3 :=
  ⟨by decide, by decide, by decide, by decide, rfl, rfl⟩

def pfxLo : Bytes := [47, 114, 47]     -- "/r/"
def pfxHi : Bytes := [47, 114, 48]     -- "/r0"

/-- Three keys, limit 1: the shim answers Count = 2, etcd 3. (With limit 2 it answers 3.) -/
theorem limited_count_wrong :
    shimRange cfg0 s3 { key := pfxLo, rangeEnd := pfxHi, limit := 1 } =
      .ok { hdr := 1003, kvs := [(kA, v1, 1001)], count := 2, more := true } ∧
    refRangeH (histOf recs3 1003) { key := pfxLo, rangeEnd := pfxHi, limit := 1 } =
      .ok { hdr := 1003, kvs := [(kA, v1, 1001)], count := 3, more := true } ∧
    (shimRange cfg0 s3 { key := pfxLo, rangeEnd := pfxHi, limit := 2 }).map (·.count) = .ok 3 := by decide

/-- `count_only` does not validate its bounds: `range_end = "\0"` (all keys ≥ key) counts 0, inverted
bounds count keys of the reversed interval; the same bounds are refused by List. -/
theorem count_bounds_unchecked :
    (shimRange cfg0 s3 { key := pfxLo, rangeEnd := [0], countOnly := true }).map (·.count) = .ok 0 ∧
    (refRangeH (histOf recs3 1003) { key := pfxLo, rangeEnd := [0], countOnly := true }).map (·.count) = .ok 3 ∧
    (shimRange cfg0 s3 { key := kC, rangeEnd := kA, countOnly := true }).map (·.count) = .ok 1 ∧
    (refRangeH (histOf recs3 1003) { key := kC, rangeEnd := kA, countOnly := true }).map (·.count) = .ok 0 ∧
    shimRange cfg0 s3 { key := pfxLo, rangeEnd := [0] } = .error (.backend .invalid) ∧
    shimRange cfg0 s3 { key := kC, rangeEnd := kA } = .error (.backend .invalid) := by decide

/-- Observation outside the property's quantifier: a List at the revision 1888 is answered with the
engine's partition borders (kubebrain-client's partition protocol), whatever the history is. -/
theorem magic_revision_hijacked :
    let sm : BState := { ring := Ring.new 4, dealt := 1885, committed := 1885 }
    let sm3 := (shimTxn cfg0 (shimTxn cfg0 (shimTxn cfg0 sm (k8sCreate kA v1 0)).2 (k8sCreate kB v2 0)).2
      (k8sCreate kC v3 0)).2
    sm3.committed = 1888 ∧
    shimRange cfg0 sm3 { key := pfxLo, rangeEnd := pfxHi, revision := 1888 } =
      .ok { hdr := 1888, kvs := [(encode pfxLo 0, [], 0), (encode pfxHi 0, [], 0)], count := 2, more := false } ∧
    (shimRange cfg0 sm3 { key := pfxLo, rangeEnd := pfxHi, revision := 1887 }).map (·.kvs) =
      .ok [(kA, v1, 1886), (kB, v2, 1887)] := by decide

/-- Observation outside the quantifier: `count_only` ignores the requested revision. -/
theorem count_only_ignores_revision :
    let s4 := (shimTxn cfg0 s3 (k8sDelete kA 1001)).2
    (shimRange cfg0 s4 { key := pfxLo, rangeEnd := pfxHi, revision := 1003, countOnly := true }).map (·.count) = .ok 2 ∧
    (shimRange cfg0 s4 { key := pfxLo, rangeEnd := pfxHi, revision := 1003 }).map (·.kvs.length) = .ok 3 := by decide

/-! ### watch events -/

/-- A committed write's event as the watch stream carries it: creates and updates are PUT with the new
key-value and its mod revision; a delete is DELETE with the key and the deletion revision, and the
previous key-value (value and mod revision before the delete). -/
theorem watch_event_shape (w : WEvent) :
    shimEvent (mkEvent w) =
      (if w.verb = .delete then { isDelete := true, kv := (w.key, [], w.rev), prev := some (w.key, w.val, w.prevRev) }
       else { isDelete := false, kv := (w.key, w.val, w.rev), prev := none }) := by
  cases hv : w.verb <;> simp [shimEvent, mkEvent, hv]

/-- ... which is the event etcd emits for the same state change. -/
theorem watch_event_matches_ref (m m' : Mvcc) (w : WEvent) (old : KVFull)
    (hold : m.get w.key = some old) (hproj : old.proj = (w.key, w.val, w.prevRev))
    (hgone : m'.get w.key = none) (hv : w.verb = .delete) :
    refEvent m m' w.key w.rev = some (shimEvent (mkEvent w)) := by
  simp [refEvent, hold, hgone, shimEvent, mkEvent, hv, hproj]

theorem watch_put_matches_ref (m m' : Mvcc) (w : WEvent) (e : KVFull)
    (hnew : m'.get w.key = some e) (hproj : e.proj = (w.key, w.val, w.rev)) (hmod : e.mod = w.rev)
    (hv : w.verb ≠ .delete) :
    refEvent m m' w.key w.rev = some (shimEvent (mkEvent w)) := by
  cases hverb : w.verb with
  | delete => exact absurd hverb hv
  | create => cases hm : m.get w.key <;> simp [refEvent, hm, hnew, shimEvent, mkEvent, hverb, hproj, hmod]
  | put => cases hm : m.get w.key <;> simp [refEvent, hm, hnew, shimEvent, mkEvent, hverb, hproj, hmod]

/-! ### non-vacuity: the hypotheses of the implications above are satisfiable -/

example : Canonical (k8sCreate kA v1 0) := .create _ _ ⟨rfl, rfl, rfl, rfl, rfl⟩ ⟨by decide, rfl, rfl, rfl⟩
example : WHyp cfg0 s3 kA ∧ WHyp cfg0 s3 kD := ⟨⟨rfl, by decide, by decide⟩, ⟨rfl, by decide, by decide⟩⟩
example : AbsAt cfg0 s3 m3 kA ∧ AbsAt cfg0 s3 m3 kD :=
  ⟨⟨by decide, by decide, by decide⟩, ⟨by decide, by decide, by decide⟩⟩
example : curKv cfg0 s3 kD = none ∧ curKv cfg0 s3 kA ≠ none := by decide
example : classify { compare := [{ key := kA, target := .version }], success := [.put { key := kA }] } = .unsupported := by
  decide
example : ∃ (m m' : Mvcc) (w : WEvent) (old : KVFull), m.get w.key = some old ∧
    old.proj = (w.key, w.val, w.prevRev) ∧ m'.get w.key = none ∧ w.verb = .delete :=
  ⟨m3, { m3 with kvs := m3.kvs.drop 1 },
   { rev := 1004, prevRev := 1001, valid := true, verb := .delete, key := kA, val := v1 },
   { key := kA, val := v1, mod := 1001, create := 1001, version := 1 }, by decide, by decide, by decide, rfl⟩
example : PlainRange { key := pfxLo, rangeEnd := pfxHi, limit := 1 } ∧ Alphabet pfxLo ∧ Alphabet pfxHi ∧
    cmp pfxLo pfxHi = .lt := ⟨⟨rfl, rfl, rfl, rfl, rfl, rfl⟩, by decide, by decide, by decide⟩

end KB.C16
