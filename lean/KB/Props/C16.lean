/-
  C16 — The etcd-facing API answers Kubernetes' requests as etcd would.
  Property theorems only. Models: KB.EtcdShim (kv.go / backendshim.go over the sequential backend model
  KB.Backend), KB.EtcdRef (reference etcd Txn / Range over an MVCC state). Lemmas: KB.Lemmas.Etcd,
  KB.Lemmas.EtcdRange.

  How a backend state abstracts to the etcd state:
  * for transactions (`AbsAt c s m k`, at the key `k` the transaction works on): the revision counter of
    `m` is the dealt revision, `m.get k` is the live key-value of `k` (`curKv` = what `backend.get(k, 0)`
    answers: value and mod revision), keys are listed once;
  * for reads (`StoreAbs c s recs`, `histOf recs committed`): the engine holds the encoded records of a
    sorted decoded store; the state at revision R is the snapshot of C03 (`scanRecs R recs`).
  The write path is used through its index-record invariant `idxOK` (decidable per key; what C01
  establishes for reachable states), the engine contract of C11 (`casMissingNotFound = false`) and
  64-bit revisions: `WHyp`.

  The recognisers modelled are the REPAIRED ones (/repo commits 4c41c58, for the compaction probe 2870609, and for
  `prev_kv` on the delete op c09cadc: `delete_with_prev_kv_rejected`, `old_delete_prev_kv_executed`).
  The full statement for transactions is now a theorem: `shim_sound` — every structurally valid transaction other
  than the compactor's (EXACTLY kube-apiserver's probe, compare / put / plain Get all on `compact_rev_key`:
  `compact_probe_shape_exact`, `shim_sound_except_probe`; a near miss of it is refused: `near_probe_rejected`)
  is either refused with an error (and nothing is executed: `refused_unchanged`) or answered
  with the projection etcd prescribes. What used to be executed as something else is refused
  (`key_mismatch_rejected`, `ranged_delete_rejected`, `mod0_delete_rejected`, `update_put_flags_rejected`,
  `op_options_rejected`; in general `executed_only_if_canonical`), and the unguarded delete of a missing
  key now answers `Succeeded = true` like etcd (`unguarded_delete_missing_flag`). The scripts of these
  theorems are replayed on the real server by kbcheck/props/c16.py on every run.
  For reads the full statement is still false for `Count`: `range_matches_ref` is partial there and
  `limited_count_wrong`, `count_bounds_unchecked` are the witnesses (known findings).
-/
import KB.Lemmas.Etcd
import KB.Lemmas.EtcdRange
import KB.Lemmas.EtcdShape
import KB.Lemmas.EtcdProbe
namespace KB.C16
open KB KB.Etcd Generated

/-! ### the four shapes Kubernetes issues -/

def k8sCreate (k v : Bytes) (lease : Int) : TxnReq :=
  { compare := [{ key := k }], success := [.put { key := k, val := v, lease := lease }], failure := [] }

def k8sUpdate (k v : Bytes) (exp : Nat) (lease : Int) : TxnReq :=
  { compare := [{ key := k, int := exp }], success := [.put { key := k, val := v, lease := lease }],
    failure := [.range { key := k }] }

def k8sDelete (k : Bytes) (exp : Nat) : TxnReq :=
  { compare := [{ key := k, int := exp }], success := [.del { key := k }], failure := [.range { key := k }] }

def k8sDeleteUnguarded (k : Bytes) : TxnReq :=
  { compare := [], success := [.range { key := k }, .del { key := k }], failure := [] }

theorem plainGet_of_key (k : Bytes) : PlainGet { key := k } k := ⟨rfl, rfl, rfl, rfl, rfl, rfl, rfl, rfl, rfl⟩

/-- The four shapes are recognised as the backend call they mean, for every key, value, lease and
expected revision (a guarded delete with a positive one). -/
theorem k8s_shapes_recognised (k v : Bytes) (lease : Int) (exp : Nat) :
    classify (k8sCreate k v lease) = .create { key := k, val := v, lease := lease } ∧
    classify (k8sUpdate k v exp lease) = .update exp k v lease ∧
    (0 < exp → classify (k8sDelete k exp) = .delete exp k true) ∧
    classify (k8sDeleteUnguarded k) = .delete 0 k false := by
  refine ⟨classify_create ⟨rfl, rfl, rfl, rfl, rfl⟩, ?_, ?_, classify_udelete rfl rfl (plainGet_of_key k)⟩
  · exact classify_update' (n := exp) (p := { key := k, val := v, lease := lease }) (g := { key := k })
      ⟨rfl, rfl, rfl, rfl, rfl⟩ rfl rfl rfl (plainGet_of_key k)
  · intro h0
    exact classify_gdelete (n := exp) ⟨rfl, rfl, rfl, rfl, rfl⟩ (by omega) rfl rfl (plainGet_of_key k)

/-- ... and on any backend state with a consistent index record for the key they are answered with
the projection etcd prescribes on the abstracted state: success flag, revision of the write, the
key-values of the reads — create and update WITH A VALUE (`v ≠ []`; without one: `empty_value_refused`); update and guarded delete with a correct / stale / zero expectation
(not above `dealt`, the revision of the abstracted etcd state: an expectation equal to the revision about to be dealt is refused as drift); the unguarded delete of an existing or a missing key. -/
theorem k8s_shapes_accepted (c : Cfg) (s : BState) (m : Mvcc) (k v : Bytes) (lease : Int) (exp : Nat)
    (hk : k ≠ []) (hv : v ≠ []) (hw : WHyp c s k) (ha : AbsAt c s m k) :
    Agree c s m (k8sCreate k v lease) ∧
    (exp ≤ s.dealt → Agree c s m (k8sUpdate k v exp lease)) ∧
    (0 < exp → exp ≤ s.dealt → Agree c s m (k8sDelete k exp)) ∧
    Agree c s m (k8sDeleteUnguarded k) := by
  refine ⟨?_, ?_, ?_, ?_⟩
  · exact sound_create c s m _ { key := k, val := v, lease := lease } ⟨rfl, rfl, rfl, rfl, rfl⟩
      ⟨hk, rfl, rfl, rfl⟩ hv hw ha
  · intro hle
    exact sound_update_in c s m _ { key := k, val := v, lease := lease } { key := k } exp ⟨rfl, rfl, rfl, rfl, rfl⟩
      (by omega) (by omega) ⟨hk, rfl, rfl, rfl⟩ hv (plainGet_of_key k) hw ha
  · intro h0 hle
    exact sound_gdelete_in c s m _ { key := k } { key := k } exp ⟨rfl, rfl, rfl, rfl, rfl⟩ (by omega) (by omega)
      hk rfl rfl (plainGet_of_key k) hw ha
  · exact sound_udelete c s m { key := k } { key := k } hk rfl rfl (plainGet_of_key k) hw ha

/-- The bound `exp ≤ dealt` of `k8s_shapes_accepted` is tight: an expectation equal to the revision
about to be dealt (`dealt + 1`; backend.go `deal`: `rev <= prevRevision`) is refused with the drift error —
the write would overwrite the very version it names. (etcd fails such a compare: nobody has written that
revision; `shim_sound` allows the refusal.) A guarded delete so, when the key exists. -/
theorem boundary_expectation_refused (c : Cfg) (s : BState) (k v : Bytes) (lease : Int) (hv : v ≠ [])
    (h63 : s.dealt + 1 < 2 ^ 63) :
    (shimTxn c s (k8sUpdate k v (s.dealt + 1) lease)).1 = .error (.backend .drift) ∧
    (curKv c s k ≠ none → (shimTxn c s (k8sDelete k (s.dealt + 1))).1 = .error (.backend .drift)) := by
  have hfar : s.dealt + 1 ≤ toU64 (((s.dealt + 1 : Nat)) : Int) :=
    toU64_far (dealt := s.dealt) (by omega) (by omega) h63 (.inr (by omega))
  constructor
  · have hcl := (k8s_shapes_recognised k v lease (s.dealt + 1)).2.1
    rw [shimTxn_cases]
    rw [hcl]
    simp only
    rw [shimUpdate_fst c s _ k v hv, doUpdate_drift c s k v _ hfar]
  · intro hcur
    have hcl := (k8s_shapes_recognised k v lease (s.dealt + 1)).2.2.1 (by omega)
    rw [shimTxn_cases]
    rw [hcl]
    simp only
    rw [shimDelete_fst, doDelete_far c s k _ hfar]
    cases hk : curKv c s k with
    | none => exact absurd hk hcur
    | some _ => rfl

/-! ### the full statement for transactions -/

/-- A transaction that is not recognised, and one whose create shape carries put flags, is answered
with an error and NOTHING is executed: the state is unchanged. -/
theorem refused_unchanged (c : Cfg) (s : BState) (t : TxnReq) :
    (classify t = .unsupported → shimTxn c s t = (.error .unsupported, s)) ∧
    (∀ p, classify t = .create p → (p.ignoreLease = true ∨ p.ignoreValue = true ∨ p.prevKv = true) →
      shimTxn c s t = (.error .field, s)) := by
  constructor
  · intro h
    rw [shimTxn_cases]
    rw [h]
  · intro p h hf
    rw [shimTxn_cases]
    rw [h]
    exact shimCreate_flags c s p hf

/-- A WRITE WITHOUT A VALUE IS REFUSED (/repo f2a549c: `backend.Create` / `backend.Update` answer an error
before a revision is dealt, on every engine alike): a transaction of the create or update shape whose put
carries an empty value is answered with the backend's error and NOTHING is executed — no revision is
consumed, the state is unchanged. (etcd would store the empty value: a refusal, not a wrong answer.) -/
theorem empty_value_refused (c : Cfg) (s : BState) (t : TxnReq) (call : BCall)
    (h : backendCall (classify t) = some call) (he : call.emptyValue = true) :
    shimTxn c s t = (.error (.backend .other), s) :=
  shimTxn_empty_value c s t call h he

/-- ... in particular Kubernetes' create and update shapes with an empty value, for every key, lease and
expectation. -/
theorem empty_value_refused_k8s (c : Cfg) (s : BState) (k : Bytes) (lease : Int) (exp : Nat) :
    shimTxn c s (k8sCreate k [] lease) = (.error (.backend .other), s) ∧
    shimTxn c s (k8sUpdate k [] exp lease) = (.error (.backend .other), s) := by
  have hrec := k8s_shapes_recognised k [] lease exp
  constructor
  · exact shimTxn_empty_value c s _ (.create k [] lease) (by rw [hrec.1]; rfl) rfl
  · exact shimTxn_empty_value c s _ (.update k [] (toU64 exp) lease) (by rw [hrec.2.1]; rfl) rfl

/-- The compactor's transaction (`classify t = .compact` ↔ `CompactProbe t`, the exact probe of kube-apiserver:
`KB.Etcd.classify_compact_iff`, `compact_probe_shape_exact`) is answered with a canned "not your
turn" and nothing is executed — a deliberate emulation, excluded from `shim_sound`. -/
theorem compact_canned (c : Cfg) (s : BState) (t : TxnReq) (h : classify t = .compact) :
    shimTxn c s t = (.ok compactResp, s) := by
  rw [shimTxn_cases]
  rw [h]

/-- Whatever is executed (answered without an error, other than the compactor's canned answer) is
well-shaped: compare key = op key, no `range_end`, plain Get, put without flags, delete without `prev_kv`
(/repo c09cadc), positive expectation on the guarded delete. "Never executed as something else." -/
theorem executed_only_if_canonical (c : Cfg) (s : BState) (t : TxnReq) (hreq : ReqOK t)
    (hnc : classify t ≠ .compact) (r : TxnResp) (hok : (shimTxn c s t).1 = .ok r) : Canonical t := by
  rcases txn_cases t hreq with h | h | ⟨cm, p, rfl, hc, hf⟩ | ⟨call, hcall, he⟩ | h
  · rw [(refused_unchanged c s t).1 h] at hok
    cases hok
  · exact absurd h hnc
  · rw [(refused_unchanged c s _).2 p (classify_create hc) hf] at hok
    cases hok
  · rw [shimTxn_empty_value c s t call hcall he] at hok
    cases hok
  · exact h

/-- FULL statement for transactions: on every state whose index records are consistent and which
abstracts to the etcd state `m`, every structurally valid transaction (keys given, int64 integers),
other than the compactor's, is either refused with an error or answered with the projection the
reference prescribes on `m` — for all compares, ops, keys, `range_end`s, flags, nested and empty ops,
and all expectations (correct, stale, zero, future, negative). -/
theorem shim_sound (c : Cfg) (s : BState) (m : Mvcc) (t : TxnReq) (hreq : ReqOK t)
    (hw : ∀ k, WHyp c s k) (ha : ∀ k, AbsAt c s m k) (h63 : s.dealt + 1 < 2 ^ 63)
    (hnc : classify t ≠ .compact) :
    (∃ e, (shimTxn c s t).1 = .error e) ∨ Agree c s m t := by
  rcases txn_cases t hreq with h | h | ⟨cm, p, rfl, hc, hf⟩ | ⟨call, hcall, he⟩ | h
  · exact .inl ⟨_, by rw [(refused_unchanged c s t).1 h]⟩
  · exact absurd h hnc
  · exact .inl ⟨_, by rw [(refused_unchanged c s _).2 p (classify_create hc) hf]⟩
  · exact .inl ⟨_, by rw [shimTxn_empty_value c s t call hcall he]⟩
  · exact canonical_sound c s m t h hreq.ints h63 (hw _) (ha _)

/-- The well-shaped transactions with an expectation in `0 .. dealt` are not merely "refused or
right": they are answered, and right (hypotheses only at the key of the transaction). -/
theorem shim_sound_canonical (c : Cfg) (s : BState) (m : Mvcc) (t : TxnReq) (hcan : Canonical t)
    (hw : WHyp c s (opKey t)) (ha : AbsAt c s m (opKey t))
    (hexp : ∀ cm ∈ t.compare, 0 ≤ cm.int ∧ cm.int ≤ s.dealt) :
    Agree c s m t := by
  cases hcan with
  | create cm p hc hp hv => exact sound_create c s m cm p hc hp hv hw ha
  | update cm p g n hc hp hv hg =>
    have hi := hexp cm (by simp)
    rw [hc.2.2.2.2] at hi
    exact sound_update_in c s m cm p g n hc hi.1 hi.2 hp hv hg hw ha
  | gdelete cm d g n hc h0 hk he hp hg =>
    have hi := hexp cm (by simp)
    rw [hc.2.2.2.2] at hi
    exact sound_gdelete_in c s m cm d g n hc h0 hi.2 hk he hp hg hw ha
  | udelete g d hk he hp hg => exact sound_udelete c s m g d hk he hp hg hw ha

/-- The unguarded delete of a missing key (formerly answered `Succeeded = false`): the shim now
answers `Succeeded = true`, writes nothing, returns the empty read — the projection etcd prescribes.
(`hp`: the supported delete shape does not ask for `prev_kv` — /repo c09cadc; with it: `delete_with_prev_kv_rejected`.) -/
theorem unguarded_delete_missing_flag (c : Cfg) (s : BState) (m : Mvcc) (g : RangeReq) (d : DelReq)
    (hk : d.key ≠ []) (he : d.rangeEnd = []) (hp : d.prevKv = false) (hg : PlainGet g d.key) (hw : WHyp c s d.key)
    (ha : AbsAt c s m d.key) (hmiss : curKv c s d.key = none) :
    (shimTxn c s { compare := [], success := [.range g, .del d], failure := [] }).1 =
      .ok { ok := true, hdr := s.dealt + 1, resps := [.range (s.dealt + 1) [] 0 false], wrote := false } ∧
    Agree c s m { compare := [], success := [.range g, .del d], failure := [] } := by
  have h := shim_udelete c s g d he hp hg hw
  rw [hmiss] at h
  exact ⟨h, sound_udelete c s m g d hk he hp hg hw ha⟩

/-! ### the shaping laws: the response as a function of the BACKEND'S ANSWER

`RPCServer.Txn` = recognise the shape, make the one backend call of the shape, shape its answer
(`shapeTxn`). The laws below hold for EVERY answer the backend can give — also the ones that only a race
produces (a delete / update / create that lost its compare-and-swap to a concurrent writer, a key that
vanished between the read and the commit) and that no sequential script reaches; the `etcd` suite pushes
the same scripted answers through the real `RPCServer.Txn` (`inject …` lines). -/

/-- the answer to a transaction IS the shaping of the backend's answer to the call of its shape; when
the shape has no call (put flags on a create, the compactor's, unsupported) no answer is looked at and
the state is unchanged -/
theorem txn_is_shaping_of_backend_answer (c : Cfg) (s : BState) (t : TxnReq) :
    (∀ call, backendCall (classify t) = some call →
      shimTxn c s t = (shapeTxn (classify t) (runCall c s call).1, (runCall c s call).2)) ∧
    (backendCall (classify t) = none → ∀ a, shimTxn c s t = (shapeTxn (classify t) a, s)) := by
  constructor
  · intro call h
    unfold shimTxn
    rw [h]
  · intro h a
    unfold shimTxn
    rw [h]
    cases hcl : classify t with
    | create p =>
      rw [hcl] at h
      by_cases hf : (p.ignoreLease || p.ignoreValue || p.prevKv) = true
      · simp [shapeTxn, hf]
      · simp [backendCall, hf] at h
    | delete rev key g => rw [hcl] at h; simp [backendCall] at h
    | update rev key val l => rw [hcl] at h; simp [backendCall] at h
    | compact => rfl
    | unsupported => rfl

/-- an error of the backend call is passed through, in every shape that makes a call -/
theorem backend_error_passed_through (sh : Shape) (call : BCall) (h : backendCall sh = some call) (e : Err) :
    shapeTxn sh (.error e) = .error (.backend e) := by
  cases sh with
  | create p =>
    by_cases hf : (p.ignoreLease || p.ignoreValue || p.prevKv) = true
    · simp [backendCall, hf] at h
    · simp [shapeTxn, shapeCreate, hf]
  | delete rev key g => cases g <;> simp [shapeTxn, shapeDelete]
  | update rev key val l => simp [shapeTxn, shapeUpdate]
  | compact => simp [backendCall] at h
  | unsupported => simp [backendCall] at h

/-- THE SUCCESS FLAG OF THE UNGUARDED DELETE `Then(Get k, Delete k)`: whatever the backend answers
(`Succeeded`, header, key-value), the response carries exactly that header and that key-value in its one
range response, and `Succeeded = true` IFF the backend deleted the key or found it missing (no key-value).
A delete the backend did not carry out although the key exists — it lost its compare-and-swap to a
concurrent writer, the backend answers `Succeeded = false` with the writer's key-value — is NOT answered
`Succeeded = true`. -/
theorem unguarded_delete_success_flag (rev : Int) (k : Bytes) (succeeded : Bool) (hdr : Nat) (kv : Option KV) :
    ∃ r, shapeTxn (.delete rev k false) (.resp succeeded hdr kv) = .ok r ∧
      (r.ok = true ↔ (succeeded = true ∨ kv = none)) ∧
      r.hdr = hdr ∧ r.resps = [.range hdr kv.toList 0 false] ∧ r.wrote = succeeded := by
  cases succeeded <;> cases kv <;> simp [shapeTxn, shapeDelete, unguardedFlag]

/-- ... in particular the lost race: `Succeeded = false`, the writer's current key-value, the header
the backend gave (for every key, revision, key-value) -/
theorem unguarded_delete_lost_race (rev : Int) (k : Bytes) (hdr : Nat) (kv : KV) :
    shapeTxn (.delete rev k false) (.resp false hdr (some kv)) =
      .ok { ok := false, hdr := hdr, resps := [.range hdr [kv] 0 false], wrote := false } := by
  simp [shapeTxn, shapeDelete, unguardedFlag]

/-- The failure branches of the other shapes: `Succeeded = false`, the header the backend gave, and the
key-value the backend reports (update, guarded delete: in a range response — the current key-value, or
none when the key is gone; create: a put response, no key-value); the success branches: `Succeeded = true`
with the put response / the deleted key-value. -/
theorem failure_branch_carries_backend_kv (rev : Int) (k v : Bytes) (lease : Int) (p : PutReq) (hdr : Nat)
    (kv : Option KV) (hp : backendCall (.create p) ≠ none) :
    shapeTxn (.update rev k v lease) (.resp false hdr kv) =
      .ok { ok := false, hdr := hdr, resps := [.range hdr kv.toList 0 false], wrote := false } ∧
    shapeTxn (.delete rev k true) (.resp false hdr kv) =
      .ok { ok := false, hdr := hdr, resps := [.range hdr kv.toList 0 false], wrote := false } ∧
    shapeTxn (.create p) (.resp false hdr kv) = .ok { ok := false, hdr := hdr, resps := [.put hdr], wrote := false } ∧
    shapeTxn (.update rev k v lease) (.resp true hdr kv) = .ok { ok := true, hdr := hdr, resps := [.put hdr], wrote := true } ∧
    shapeTxn (.delete rev k true) (.resp true hdr kv) =
      .ok { ok := true, hdr := hdr, resps := [.range hdr kv.toList 0 false], wrote := true } ∧
    shapeTxn (.create p) (.resp true hdr kv) = .ok { ok := true, hdr := hdr, resps := [.put hdr], wrote := true } := by
  have hf : (p.ignoreLease || p.ignoreValue || p.prevKv) = false := by
    cases h : (p.ignoreLease || p.ignoreValue || p.prevKv)
    · rfl
    · simp [backendCall, h] at hp
  simp [shapeTxn, shapeUpdate, shapeDelete, shapeCreate, hf]

/-- Header ≥ key-value revision in every failed answer, on every backend state and for every
transaction: each range response of a `Succeeded = false` answer has the header of the answer, and no
key-value in it is newer than that header (txn.go: `maxUint64(header, modRevision)`). -/
theorem failure_header_ge_kv (c : Cfg) (s : BState) (t : TxnReq) (r : TxnResp)
    (h : (shimTxn c s t).1 = .ok r) (hf : r.ok = false) :
    ∀ hd kvs n mo, RespOp.range hd kvs n mo ∈ r.resps → hd = r.hdr ∧ ∀ kv ∈ kvs, kv.2.2 ≤ r.hdr := by
  unfold shimTxn at h
  cases hcl : classify t with
  | create p =>
    rw [hcl] at h
    by_cases hfl : (p.ignoreLease || p.ignoreValue || p.prevKv) = true
    · simp [backendCall, shapeTxn, hfl] at h
    · simp only [backendCall, hfl, shapeTxn] at h
      cases ha : (runCall c s (.create p.key p.val p.lease)).1 with
      | error e => simp [ha, shapeCreate] at h
      | resp ok hdr kv =>
        simp [ha, shapeCreate] at h
        subst h
        intro hd kvs n mo hm
        simp at hm
  | delete rev key g =>
    rw [hcl] at h
    simp only [backendCall] at h
    cases ha : (runCall c s (.delete key (toU64 rev))).1 with
    | error e => cases g <;> simp [ha, shapeTxn, shapeDelete] at h
    | resp ok hdr kv =>
      have hkv := runCall_failed_kv c s (.delete key (toU64 rev)) hdr
      rw [ha] at hkv
      cases g with
      | true =>
        simp [ha, shapeTxn, shapeDelete] at h
        subst h
        simp only at hf
        subst hf
        intro hd kvs n mo hm
        simp at hm
        obtain ⟨rfl, rfl, _, _⟩ := hm
        refine ⟨rfl, ?_⟩
        intro x hx
        cases kv with
        | none => simp at hx
        | some y => simp at hx; subst hx; exact hkv _ rfl
      | false =>
        cases ok with
        | true =>
          simp [ha, shapeTxn, shapeDelete, unguardedFlag] at h
          subst h
          simp at hf
        | false =>
          cases kv with
          | none =>
            simp [ha, shapeTxn, shapeDelete, unguardedFlag] at h
            subst h
            simp at hf
          | some y =>
            simp [ha, shapeTxn, shapeDelete, unguardedFlag] at h
            subst h
            intro hd kvs n mo hm
            simp at hm
            obtain ⟨rfl, rfl, _, _⟩ := hm
            refine ⟨rfl, ?_⟩
            intro x hx
            simp at hx
            subst hx
            exact hkv _ rfl
  | update rev key val l =>
    rw [hcl] at h
    simp only [backendCall] at h
    cases ha : (runCall c s (.update key val (toU64 rev) l)).1 with
    | error e => simp [ha, shapeTxn, shapeUpdate] at h
    | resp ok hdr kv =>
      have hkv := runCall_failed_kv c s (.update key val (toU64 rev) l) hdr
      rw [ha] at hkv
      cases ok with
      | true =>
        simp [ha, shapeTxn, shapeUpdate] at h
        subst h
        simp at hf
      | false =>
        simp [ha, shapeTxn, shapeUpdate] at h
        subst h
        intro hd kvs n mo hm
        simp at hm
        obtain ⟨rfl, rfl, _, _⟩ := hm
        refine ⟨rfl, ?_⟩
        intro x hx
        cases kv with
        | none => simp at hx
        | some y => simp at hx; subst hx; exact hkv _ rfl
  | compact =>
    rw [hcl] at h
    simp [backendCall, shapeTxn, compactResp] at h
    subst h
    intro hd kvs n mo hm
    simp at hm
    obtain ⟨rfl, rfl, _, _⟩ := hm
    simp
  | unsupported =>
    rw [hcl] at h
    simp [backendCall, shapeTxn] at h

/-- THE LOST RACE AGREES WITH THE REFERENCE, linearised after the concurrent writer: let `m` be the etcd
state in which the writer has come first (so the expectation `exp` of the transaction no longer matches:
the key carries another revision, or is gone), and let the backend answer as it does then — `Succeeded =
false` with the current key-value of `m`. The shaped answers to the guarded update, the guarded delete
and the create are the ones etcd gives on `m` (same projection: flag, no write, the current key-value in
the failure branch). -/
theorem lost_race_matches_ref (m : Mvcc) (k v : Bytes) (lease : Int) (exp hdr : Nat) (hk : k ≠ [])
    (hn : m.kvs.Pairwise (fun a b => a.key ≠ b.key))
    (hlost : match m.get k with | none => exp ≠ 0 | some e => exp ≠ e.mod) :
    (∃ r r' m', shapeTxn (classify (k8sUpdate k v exp lease)) (.resp false hdr ((m.get k).map KVFull.proj)) = .ok r ∧
      refTxn m (k8sUpdate k v exp lease) = .ok (r', m') ∧
      r.obs (k8sUpdate k v exp lease) = r'.obs (k8sUpdate k v exp lease)) ∧
    (0 < exp → ∃ r r' m', shapeTxn (classify (k8sDelete k exp)) (.resp false hdr ((m.get k).map KVFull.proj)) = .ok r ∧
      refTxn m (k8sDelete k exp) = .ok (r', m') ∧ r.obs (k8sDelete k exp) = r'.obs (k8sDelete k exp)) ∧
    (∀ e, m.get k = some e → e.mod ≠ 0 → ∀ kv, ∃ r r' m',
      shapeTxn (classify (k8sCreate k v lease)) (.resp false hdr kv) = .ok r ∧
      refTxn m (k8sCreate k v lease) = .ok (r', m') ∧ r.obs (k8sCreate k v lease) = r'.obs (k8sCreate k v lease)) := by
  have hrec := k8s_shapes_recognised k v lease exp
  refine ⟨?_, ?_, ?_⟩
  · have href := ref_update m { key := k, int := exp } { key := k, val := v, lease := lease } { key := k } exp
      ⟨rfl, rfl, rfl, rfl, rfl⟩ ⟨hk, rfl, rfl, rfl⟩ (plainGet_of_key k) hn
    dsimp only at href
    cases hg : m.get k with
    | none =>
      rw [hg] at href hlost
      simp only at href hlost
      rw [if_neg (by simp; omega)] at href
      obtain ⟨m', hm'⟩ := exists_of_map_fst href
      refine ⟨{ ok := false, hdr := hdr, resps := [.range hdr [] 0 false], wrote := false }, _, m', ?_, hm', ?_⟩
      · rw [hrec.2.1]
        simp [shapeTxn, shapeUpdate]
      · simp [TxnResp.obs, readsOf, RespOp.kvs?, k8sUpdate]
    | some e =>
      rw [hg] at href hlost
      simp only at href hlost
      rw [if_neg (by simp; omega)] at href
      obtain ⟨m', hm'⟩ := exists_of_map_fst href
      refine ⟨{ ok := false, hdr := hdr, resps := [.range hdr [e.proj] 0 false], wrote := false }, _, m', ?_, hm', ?_⟩
      · rw [hrec.2.1]
        simp [shapeTxn, shapeUpdate]
      · simp [TxnResp.obs, readsOf, RespOp.kvs?, k8sUpdate]
  · intro h0
    have href := ref_gdelete m { key := k, int := exp } { key := k } { key := k } exp
      ⟨rfl, rfl, rfl, rfl, rfl⟩ hk rfl (plainGet_of_key k) hn
    cases hg : m.get k with
    | none =>
      rw [hg] at href
      simp only at href
      rw [if_neg (by omega)] at href
      obtain ⟨m', hm'⟩ := exists_of_map_fst href
      refine ⟨{ ok := false, hdr := hdr, resps := [.range hdr [] 0 false], wrote := false }, _, m', ?_, hm', ?_⟩
      · rw [hrec.2.2.1 h0]
        simp [shapeTxn, shapeDelete]
      · simp [TxnResp.obs, readsOf, RespOp.kvs?, k8sDelete]
    | some e =>
      rw [hg] at href hlost
      simp only at href hlost
      rw [if_neg (by omega)] at href
      obtain ⟨m', hm'⟩ := exists_of_map_fst href
      refine ⟨{ ok := false, hdr := hdr, resps := [.range hdr [e.proj] 0 false], wrote := false }, _, m', ?_, hm', ?_⟩
      · rw [hrec.2.2.1 h0]
        simp [shapeTxn, shapeDelete]
      · simp [TxnResp.obs, readsOf, RespOp.kvs?, k8sDelete]
  · intro e hg he0 kv
    have href := ref_create m { key := k } { key := k, val := v, lease := lease } ⟨rfl, rfl, rfl, rfl, rfl⟩
      ⟨hk, rfl, rfl, rfl⟩ hn (by intro e' he'; rw [hg] at he'; cases he'; exact he0)
    rw [hg] at href
    simp only at href
    obtain ⟨m', hm'⟩ := exists_of_map_fst href
    refine ⟨{ ok := false, hdr := hdr, resps := [.put hdr], wrote := false }, _, m', ?_, hm', ?_⟩
    · rw [hrec.1]
      simp [shapeTxn, shapeCreate]
    · simp [TxnResp.obs, readsOf, k8sCreate]

/-- The unguarded delete on the reference: (1) the key is missing and the backend says so — `Succeeded =
true`, nothing written, the empty read: etcd's answer; (2) the backend deleted the key at the next
revision — etcd's answer; (3) THE LOST RACE, linearised after the concurrent writer (`m` holds the
writer's key-value `e`, the backend did not delete and reports `e`): the shim answers what etcd answers
to the delete GUARDED by the revision the backend had read (any `exp ≠ e.mod`) — failure branch, the
current key-value, and etcd leaves `m` unchanged, as the backend did; (4) whereas etcd's own answer to the
compare-less transaction on `m`, `Succeeded = true`, comes WITH the deletion (a write, the key gone): it
is not the answer to give for a delete that was not carried out. -/
theorem unguarded_delete_matches_ref (m : Mvcc) (k : Bytes) (hdr : Nat) (hk : k ≠ [])
    (hn : m.kvs.Pairwise (fun a b => a.key ≠ b.key)) :
    (m.get k = none → ∃ r r' m', shapeTxn (classify (k8sDeleteUnguarded k)) (.resp false hdr none) = .ok r ∧
      refTxn m (k8sDeleteUnguarded k) = .ok (r', m') ∧ r.obs (k8sDeleteUnguarded k) = r'.obs (k8sDeleteUnguarded k)) ∧
    (∀ e, m.get k = some e → ∃ r r' m',
      shapeTxn (classify (k8sDeleteUnguarded k)) (.resp true (m.rev + 1) (some e.proj)) = .ok r ∧
      refTxn m (k8sDeleteUnguarded k) = .ok (r', m') ∧ r.obs (k8sDeleteUnguarded k) = r'.obs (k8sDeleteUnguarded k)) ∧
    (∀ e exp, m.get k = some e → 0 < exp → exp ≠ e.mod → ∃ r r',
      shapeTxn (classify (k8sDeleteUnguarded k)) (.resp false hdr (some e.proj)) = .ok r ∧
      r = { ok := false, hdr := hdr, resps := [.range hdr [e.proj] 0 false], wrote := false } ∧
      refTxn m (k8sDelete k exp) = .ok (r', m) ∧ r.obs (k8sDelete k exp) = r'.obs (k8sDelete k exp)) ∧
    (∀ e, m.get k = some e → ∃ r'' m'', refTxn m (k8sDeleteUnguarded k) = .ok (r'', m'') ∧
      r''.ok = true ∧ r''.wrote = true ∧ r''.hdr = m.rev + 1 ∧ m''.get k = none) := by
  have hrec := (k8s_shapes_recognised k [] 0 0).2.2.2
  have href := ref_udelete m { key := k } { key := k } hk rfl (plainGet_of_key k) hn
  refine ⟨?_, ?_, ?_, ?_⟩
  · intro hg
    rw [hg] at href
    obtain ⟨m', hm'⟩ := exists_of_map_fst href
    refine ⟨{ ok := true, hdr := hdr, resps := [.range hdr [] 0 false], wrote := false }, _, m', ?_, hm', ?_⟩
    · rw [hrec]
      simp [shapeTxn, shapeDelete, unguardedFlag]
    · simp [TxnResp.obs, readsOf, RespOp.kvs?, k8sDeleteUnguarded]
  · intro e hg
    rw [hg] at href
    obtain ⟨m', hm'⟩ := exists_of_map_fst href
    refine ⟨{ ok := true, hdr := m.rev + 1, resps := [.range (m.rev + 1) [e.proj] 0 false], wrote := true }, _, m', ?_, hm', ?_⟩
    · rw [hrec]
      simp [shapeTxn, shapeDelete, unguardedFlag]
    · simp [TxnResp.obs, readsOf, RespOp.kvs?, k8sDeleteUnguarded]
  · intro e exp hg h0 hne
    refine ⟨{ ok := false, hdr := hdr, resps := [.range hdr [e.proj] 0 false], wrote := false }, _, ?_, rfl,
      ref_gdelete_stale_state m k e exp hk hn hg hne, ?_⟩
    · rw [hrec]
      simp [shapeTxn, shapeDelete, unguardedFlag]
    · simp [TxnResp.obs, readsOf, RespOp.kvs?, k8sDelete]
  · intro e hg
    exact ref_udelete_deletes m k e hk hn hg

/-! concrete states for the witnesses: memkv engine, three keys /r/a /r/b /r/c created at revisions
1001 1002 1003 (the scripts `witness_cases` of kbcheck/props/c16.py replay exactly these) -/
def cfg0 : Cfg := { q := Quirks.memkv }
def s0 : BState := { ring := Ring.new 4, dealt := 1000, committed := 1000 }
def kA : Bytes := [47, 114, 47, 97]
def kB : Bytes := [47, 114, 47, 98]
def kC : Bytes := [47, 114, 47, 99]
def kD : Bytes := [47, 114, 47, 100]
def v1 : Bytes := [118, 49]
def v2 : Bytes := [118, 50]
def v3 : Bytes := [118, 51]
def v9 : Bytes := [118, 57]
def s1 : BState := (shimTxn cfg0 s0 (k8sCreate kA v1 0)).2
def s2 : BState := (shimTxn cfg0 s1 (k8sCreate kB v2 0)).2
def s3 : BState := (shimTxn cfg0 s2 (k8sCreate kC v3 0)).2
def m3 : Mvcc :=
  { rev := 1003, kvs := [{ key := kA, val := v1, mod := 1001, create := 1001, version := 1 },
                         { key := kB, val := v2, mod := 1002, create := 1002, version := 1 },
                         { key := kC, val := v3, mod := 1003, create := 1003, version := 1 }] }
def pfxLo : Bytes := [47, 114, 47]     -- "/r/"
def pfxHi : Bytes := [47, 114, 48]     -- "/r0"

/-- the state `s3` abstracts to `m3` at every key used below, and its index records are consistent -/
theorem s3_abstracts_to_m3 :
    (∀ k ∈ [kA, kB, kC, kD], (m3.get k).map KVFull.proj = curKv cfg0 s3 k ∧ idxOK cfg0 s3 k = true) ∧
    m3.rev = s3.dealt := by decide

/-! ### what used to be executed as something else is now refused (by `refused_unchanged`: an error
on EVERY state, nothing executed). One theorem per former finding; same transactions as the witness
scripts. -/

/-- compare key ≠ op key, in each shape: `If(mod(/r/a)=0) Then(Put /r/d)`,
`If(mod(/r/a)=1001) Then(Put /r/b) Else(Get /r/a)`, `If(mod(/r/a)=1001) Then(Put /r/a) Else(Get /r/b)`,
`If(mod(/r/a)=1001) Then(Delete /r/b) Else(Get /r/a)`, `Then(Get /r/b, Delete /r/a)`. -/
theorem key_mismatch_rejected :
    classify { compare := [{ key := kA }], success := [.put { key := kD, val := v9 }], failure := [] } = .unsupported ∧
    classify { compare := [{ key := kA, int := 1001 }], success := [.put { key := kB, val := v9 }],
               failure := [.range { key := kA }] } = .unsupported ∧
    classify { compare := [{ key := kA, int := 1001 }], success := [.put { key := kA, val := v9 }],
               failure := [.range { key := kB }] } = .unsupported ∧
    classify { compare := [{ key := kA, int := 1001 }], success := [.del { key := kB }],
               failure := [.range { key := kA }] } = .unsupported ∧
    classify { compare := [], success := [.range { key := kB }, .del { key := kA }], failure := [] } = .unsupported := by
  decide

/-- a delete with `range_end`, guarded and unguarded -/
theorem ranged_delete_rejected :
    classify { compare := [{ key := kB, int := 1002 }], success := [.del { key := kB, rangeEnd := pfxHi }],
               failure := [.range { key := kB }] } = .unsupported ∧
    classify { compare := [], success := [.range { key := kB }, .del { key := kB, rangeEnd := pfxHi }],
               failure := [] } = .unsupported := by decide

/-- a guarded delete with expectation 0 (formerly an unconditional delete), for every key -/
theorem mod0_delete_rejected (k : Bytes) : classify (k8sDelete k 0) = .unsupported := by
  simp [classify, isCreate, isDelete, isUpdate, isCompact, k8sDelete]

/-- an update whose put carries prev_kv / ignore_value / ignore_lease -/
theorem update_put_flags_rejected :
    classify { compare := [{ key := kA, int := 1001 }], success := [.put { key := kA, val := [], ignoreValue := true }],
               failure := [.range { key := kA }] } = .unsupported ∧
    classify { compare := [{ key := kA, int := 1001 }], success := [.put { key := kA, val := v9, prevKv := true }],
               failure := [.range { key := kA }] } = .unsupported ∧
    classify { compare := [{ key := kA, int := 1001 }], success := [.put { key := kA, val := v9, ignoreLease := true }],
               failure := [.range { key := kA }] } = .unsupported := by decide

/-- options on the compare or on the Get: compare over a range, failure Get count_only / at a
revision / over a range / keys_only -/
theorem op_options_rejected :
    classify { compare := [{ key := kA, int := 1001, rangeEnd := pfxHi }], success := [.put { key := kA, val := v9 }],
               failure := [.range { key := kA }] } = .unsupported ∧
    classify { compare := [{ key := kA, int := 1002 }], success := [.put { key := kA, val := v2 }],
               failure := [.range { key := kA, countOnly := true }] } = .unsupported ∧
    classify { compare := [{ key := kA, int := 1001 }], success := [.put { key := kA, val := v2 }],
               failure := [.range { key := kA, revision := 1003 }] } = .unsupported ∧
    classify { compare := [{ key := kA, int := 1002 }], success := [.del { key := kA }],
               failure := [.range { key := kA, rangeEnd := pfxHi }] } = .unsupported ∧
    classify { compare := [{ key := kA, int := 1002 }], success := [.del { key := kA }],
               failure := [.range { key := kA, keysOnly := true }] } = .unsupported := by decide

/-! ### a delete that asks for `prev_kv` (/repo c09cadc)

`pointDelete` (kv.go) looked only at `range_end`: `If(mod(k) = N).Then(DeleteRange{k, prev_kv}).Else(Get k)` and
`Then(Get k, DeleteRange{k, prev_kv})` were recognised as the two delete shapes, executed as the plain delete and answered
with kubebrain's range response — a client that sets `prev_kv` reads the deleted key-value from the `prev_kvs` of a DELETE
response, which was not there: neither rejected nor answered as etcd would (`old_delete_prev_kv_executed`). `Canonical`
used to say "the delete's `prev_kv` is free", so the hole sat inside the definition the general theorems are stated with.
Now `DelReq.isPoint` (= `pointDelete`) requires `¬ prev_kv`, `Canonical.gdelete / udelete` require `d.prevKv = false`
(`executed_only_if_canonical`, `shim_sound_canonical` are unchanged as stated and so say more / are about the narrower set),
and the two shapes with `prev_kv` are refused like every other unsupported transaction (`delete_with_prev_kv_rejected`). -/

/-- Kubernetes' two delete shapes with `prev_kv` set on the delete op (no Kubernetes release sends them; an etcd client may) -/
def k8sDeletePrevKv (k : Bytes) (exp : Nat) : TxnReq :=
  { compare := [{ key := k, int := exp }], success := [.del { key := k, prevKv := true }], failure := [.range { key := k }] }

def k8sDeleteUnguardedPrevKv (k : Bytes) : TxnReq :=
  { compare := [], success := [.range { key := k }, .del { key := k, prevKv := true }], failure := [] }

/-- A DELETE SHAPE WHOSE DELETE OP ASKS FOR prev_kv IS REFUSED: on every state, for EVERY compare, Get and delete op
(right or wrong key, correct / stale / zero expectation, existing or missing key, with or without `range_end`): both
shapes — `If(cm).Then(DeleteRange d).Else(Range g)` and `Then(Range g, DeleteRange d)` — with `d.prev_kv` classify as
unsupported, are answered with the "unsupported transaction" error, and the state is unchanged (nothing is executed,
no revision is dealt). -/
theorem delete_with_prev_kv_rejected (c : Cfg) (s : BState) (cm : Compare) (g : RangeReq) (d : DelReq)
    (hp : d.prevKv = true) :
    (classify { compare := [cm], success := [.del d], failure := [.range g] } = .unsupported ∧
      shimTxn c s { compare := [cm], success := [.del d], failure := [.range g] } = (.error .unsupported, s)) ∧
    (classify { compare := [], success := [.range g, .del d], failure := [] } = .unsupported ∧
      shimTxn c s { compare := [], success := [.range g, .del d], failure := [] } = (.error .unsupported, s)) :=
  ⟨⟨classify_gdelete_prevKv hp, (refused_unchanged c s _).1 (classify_gdelete_prevKv hp)⟩,
   ⟨classify_udelete_prevKv hp, (refused_unchanged c s _).1 (classify_udelete_prevKv hp)⟩⟩

/-- ... in particular Kubernetes' delete shapes with `prev_kv`, for every key and expectation -/
theorem delete_with_prev_kv_rejected_k8s (c : Cfg) (s : BState) (k : Bytes) (exp : Nat) :
    shimTxn c s (k8sDeletePrevKv k exp) = (.error .unsupported, s) ∧
    shimTxn c s (k8sDeleteUnguardedPrevKv k) = (.error .unsupported, s) :=
  ⟨(delete_with_prev_kv_rejected c s { key := k, int := exp } { key := k } { key := k, prevKv := true } rfl).1.2,
   (delete_with_prev_kv_rejected c s {} { key := k } { key := k, prevKv := true } rfl).2.2⟩

example : ({ key := kB, prevKv := true } : DelReq).prevKv = true ∧
    shimTxn cfg0 s3 (k8sDeletePrevKv kB 1002) = (.error .unsupported, s3) ∧
    shimTxn cfg0 s3 (k8sDeleteUnguardedPrevKv kD) = (.error .unsupported, s3) :=
  ⟨rfl, (delete_with_prev_kv_rejected_k8s cfg0 s3 kB 1002).1, (delete_with_prev_kv_rejected_k8s cfg0 s3 kD 0).2⟩

/-- neither is `Canonical`: what `executed_only_if_canonical` allows to be executed excludes them -/
theorem delete_with_prev_kv_not_canonical (cm : Compare) (g : RangeReq) (d : DelReq) (hp : d.prevKv = true) :
    ¬ Canonical { compare := [cm], success := [.del d], failure := [.range g] } ∧
    ¬ Canonical { compare := [], success := [.range g, .del d], failure := [] } := by
  constructor
  · intro h
    cases h with
    | gdelete _ _ _ n _ _ _ _ hpk _ => rw [hp] at hpk; cases hpk
  · intro h
    cases h with
    | udelete _ _ _ _ hpk _ => rw [hp] at hpk; cases hpk

/-- the delete shapes WITHOUT `prev_kv` are recognised exactly as before: for a delete op without `prev_kv` the old
and the repaired recogniser agree on every transaction of the two forms, and on a transaction of any other form both say no — the repair
changes nothing else -/
theorem old_and_new_delete_differ_only_at_prev_kv (t : TxnReq)
    (h : ∀ d ∈ t.success, ∀ x, d = .del x → x.prevKv = false) : isDeleteOld t = isDelete t := by
  unfold isDeleteOld isDelete
  split
  · rename_i g d h1 h2 h3
    have := h (.del d) (by rw [h3]; simp) d rfl
    simp [DelReq.isPoint, this]
  · rename_i cm g d h1 h2 h3
    have := h (.del d) (by rw [h3]; simp) d rfl
    simp [DelReq.isPoint, this]
  · rfl

example : ∀ d ∈ (k8sDelete kB 1002).success, ∀ x, d = .del x → x.prevKv = false := by
  intro d hd x hx
  simp [k8sDelete] at hd
  subst hd
  cases hx
  rfl

/-- the transactions of the refutation: the guarded delete of /r/b with its correct expectation and the unguarded
delete of /r/b, both with `prev_kv` on the delete op -/
def delPrevG : TxnReq := k8sDeletePrevKv kB 1002
def delPrevU : TxnReq := k8sDeleteUnguardedPrevKv kB

/-- REFUTATION of the recogniser as it was before /repo c09cadc (`isDeleteOld` / `shimTxnOld2`) on `s3` (/r/a@1001,
/r/b = v2 @1002, /r/c@1003): the guarded delete of /r/b with the correct expectation and `prev_kv`, and the unguarded one,
were RECOGNISED as the plain delete shapes and EXECUTED — `Succeeded = true`, revision 1004 consumed, /r/b gone — and
answered with a RANGE response holding the old key-value, no delete response. etcd (`refTxn m3`) executes the same delete
but answers the delete op with a DELETE response (`deleted = 1`) whose `prev_kvs` (`refDelPrevKvs`) hold (/r/b, v2, 1002):
the client that set `prev_kv` reads `Responses[i].ResponseDeleteRange.PrevKvs` — absent from kubebrain's answer. So the transaction was
neither rejected nor answered as etcd would; the projection `TxnObs` (success flag, write revision, answers of the READS)
is blind to it, both answers project alike — which is why `shim_sound` never objected and why the hole had to be closed
in `Canonical`. With the repaired recogniser both are refused and `s3` is unchanged. -/
theorem old_delete_prev_kv_executed :
    -- recognised and executed as the plain delete
    isDeleteOld delPrevG = some (1002, kB, true) ∧ classifyOld2 delPrevG = .delete 1002 kB true ∧
    isDeleteOld delPrevU = some (0, kB, false) ∧ classifyOld2 delPrevU = .delete 0 kB false ∧
    classifyOld2 delPrevG = classify (k8sDelete kB 1002) ∧ classifyOld2 delPrevU = classify (k8sDeleteUnguarded kB) ∧
    (shimTxnOld2 cfg0 s3 delPrevG).1 =
      .ok { ok := true, hdr := 1004, resps := [.range 1004 [(kB, v2, 1002)] 0 false], wrote := true } ∧
    (shimTxnOld2 cfg0 s3 delPrevU).1 =
      .ok { ok := true, hdr := 1004, resps := [.range 1004 [(kB, v2, 1002)] 0 false], wrote := true } ∧
    (shimTxnOld2 cfg0 s3 delPrevG).1 = (shimTxn cfg0 s3 (k8sDelete kB 1002)).1 ∧
    (shimTxnOld2 cfg0 s3 delPrevU).1 = (shimTxn cfg0 s3 (k8sDeleteUnguarded kB)).1 ∧
    (shimTxnOld2 cfg0 s3 delPrevG).2.store = (shimTxn cfg0 s3 (k8sDelete kB 1002)).2.store ∧
    (shimTxnOld2 cfg0 s3 delPrevU).2.store = (shimTxn cfg0 s3 (k8sDeleteUnguarded kB)).2.store ∧
    -- the state changed: /r/b is gone, a revision was dealt
    curKv cfg0 s3 kB = some (kB, v2, 1002) ∧ curKv cfg0 (shimTxnOld2 cfg0 s3 delPrevG).2 kB = none ∧
    curKv cfg0 (shimTxnOld2 cfg0 s3 delPrevU).2 kB = none ∧
    s3.dealt = 1003 ∧ (shimTxnOld2 cfg0 s3 delPrevG).2.dealt = 1004 ∧ (shimTxnOld2 cfg0 s3 delPrevU).2.dealt = 1004 ∧
    -- etcd: a DELETE response, and the prev_kvs the client asked for
    (refTxn m3 delPrevG).map (fun x => (x.1.ok, x.1.wrote, x.1.hdr, x.1.resps)) = .ok (true, true, 1004, [.del 1004 1]) ∧
    (refTxn m3 delPrevU).map (fun x => (x.1.ok, x.1.wrote, x.1.hdr, x.1.resps)) =
      .ok (true, true, 1004, [.range 1003 [(kB, v2, 1002)] 1 false, .del 1004 1]) ∧
    refDelPrevKvs m3 { key := kB, prevKv := true } = [(kB, v2, 1002)] ∧
    refDelPrevKvs m3 { key := kB } = [] ∧
    -- the observable projection does not see the difference
    ((shimTxnOld2 cfg0 s3 delPrevG).1.toOption.map (TxnResp.obs delPrevG) = (refTxn m3 delPrevG).toOption.map (fun x => x.1.obs delPrevG)) ∧
    ((shimTxnOld2 cfg0 s3 delPrevU).1.toOption.map (TxnResp.obs delPrevU) = (refTxn m3 delPrevU).toOption.map (fun x => x.1.obs delPrevU)) ∧
    -- repaired: recognised by nothing, refused, nothing executed
    isDelete delPrevG = none ∧ isDelete delPrevU = none ∧ classify delPrevG = .unsupported ∧ classify delPrevU = .unsupported ∧
    (shimTxn cfg0 s3 delPrevG).1 = .error .unsupported ∧ (shimTxn cfg0 s3 delPrevU).1 = .error .unsupported ∧
    (shimTxn cfg0 s3 delPrevG).2.store = s3.store ∧ (shimTxn cfg0 s3 delPrevU).2.store = s3.store ∧
    (shimTxn cfg0 s3 delPrevG).2.dealt = 1003 ∧ (shimTxn cfg0 s3 delPrevU).2.dealt = 1003 := by
  and_intros <;> decide

/-- the near misses of the correspondence check (kbcheck/props/c16.py `delete_prev_kv_misses`, witness script
`delete_with_prev_kv_rejected`): guarded with the correct / a stale expectation on an existing key, guarded on a missing
key, unguarded on an existing and on a missing key — all with `prev_kv` — classify as unsupported -/
theorem delete_with_prev_kv_rejected_witness :
    classify (k8sDeletePrevKv kB 1002) = .unsupported ∧ classify (k8sDeletePrevKv kB 1001) = .unsupported ∧
    classify (k8sDeletePrevKv kD 1002) = .unsupported ∧ classify (k8sDeleteUnguardedPrevKv kB) = .unsupported ∧
    classify (k8sDeleteUnguardedPrevKv kD) = .unsupported ∧
    (shimTxn cfg0 s3 (k8sDeletePrevKv kB 1002)).1 = .error .unsupported ∧
    (shimTxn cfg0 s3 (k8sDeletePrevKv kB 1002)).2.store = s3.store ∧
    (shimTxn cfg0 s3 (k8sDeletePrevKv kB 1002)).2.dealt = s3.dealt := by decide

/-- the unguarded delete of the missing /r/d on `s3`: `Succeeded = true`, as the reference answers -/
theorem unguarded_delete_missing_witness :
    (shimTxn cfg0 s3 (k8sDeleteUnguarded kD)).1 =
      .ok { ok := true, hdr := 1004, resps := [.range 1004 [] 0 false], wrote := false } ∧
    (refTxn m3 (k8sDeleteUnguarded kD)).map (fun x => (x.1.ok, x.1.wrote, x.1.resps)) =
      .ok (true, false, [.range 1003 [] 0 false, .del 1004 0]) := by decide

/-- Observation on the hypothesis `ReqOK` of `shim_sound`: a transaction of a supported shape on the
EMPTY key is executed (etcd's request validation refuses it: "key is not provided"). -/
theorem empty_key_executed :
    (shimTxn cfg0 s3 (k8sCreate [] v1 0)).1 = .ok { ok := true, hdr := 1004, resps := [.put 1004], wrote := true } ∧
    (refTxn m3 (k8sCreate [] v1 0)).map (fun x => x.1.ok) = .error .invalid := by decide

/-- the lost race of the witness script `race_udelete_lost_to_update` (kbcheck/props/c16.py): /r/a was
rewritten to v9 at 1003 by the concurrent writer, the unguarded delete was dealt 1004 and lost its
compare-and-swap — the backend is called with revision 0 and its answer is presented as `Succeeded = false`
with the writer's key-value -/
theorem unguarded_delete_lost_race_witness :
    backendCall (classify (k8sDeleteUnguarded kA)) = some (.delete kA 0) ∧
    shapeTxn (classify (k8sDeleteUnguarded kA)) (.resp false 1004 (some (kA, v9, 1003))) =
      .ok { ok := false, hdr := 1004, resps := [.range 1004 [(kA, v9, 1003)] 0 false], wrote := false } := by decide

/-! ### the compaction probe (/repo 2870609)

kube-apiserver's compactor probes with `If(Version(compact_rev_key) = n).Then(Put compact_rev_key).Else(Get
compact_rev_key)`; kubebrain answers it with a canned "not your turn" and executes nothing (`compact_canned`; it
compacts on its own). The recogniser of that probe used to look only at the compare and at the KIND of the two
operations: `If(Version(compact_rev_key) = n).Then(Put <any key>).Else(Range <any key or range>)` was answered with the
canned answer — neither rejected nor executed, the put silently dropped, an invented key-value as the answer of the
read (`old_probe_recogniser_swallowed_put`). It is now as strict as the other recognisers (`KB.Etcd.isCompact`,
`CompactProbe`): the canned answer is given to the probe and to nothing else (`compact_probe_shape_exact`), every
near miss is refused like any other unsupported transaction (`near_probe_rejected`). So the exception
`classify t ≠ .compact` of `shim_sound` / `executed_only_if_canonical` is exactly "`t` is not the probe"
(`answered_only_if_canonical_or_probe`, `shim_sound_except_probe`): nothing else hides behind it. -/

/-- the probe as kube-apiserver sends it (compact.go: the compared version `n`, the new compact revision as the value) -/
def k8sCompactProbe (n : Int) (v : Bytes) : TxnReq :=
  { compare := [{ target := .version, key := compactRevKey, int := n }],
    success := [.put { key := compactRevKey, val := v }],
    failure := [.range { key := compactRevKey }] }

/-- THE PROBE IS RECOGNISED: kube-apiserver's probe — for every compared version and value; in general every
transaction of the shape `CompactProbe` (compare, put and plain Get on `compact_rev_key`; lease, limit / sort order
of the Get free) — takes the compactor's branch, is answered with the canned answer (`Succeeded = false`, header 0,
one range response holding one empty key-value, Count 1) and the state is unchanged: nothing is executed. -/
theorem compact_probe_recognised (c : Cfg) (s : BState) :
    (∀ n v, CompactProbe (k8sCompactProbe n v)) ∧
    (∀ t, CompactProbe t → classify t = .compact ∧
      shimTxn c s t =
        (.ok { ok := false, hdr := 0, resps := [.range 0 [([], [], 0)] 1 false], wrote := false }, s)) := by
  refine ⟨fun n v => .mk _ _ _ ⟨rfl, rfl, rfl, rfl⟩ rfl rfl rfl rfl (plainGet_of_key compactRevKey), ?_⟩
  intro t h
  have hcl := classify_compact_iff.mpr h
  exact ⟨hcl, compact_canned c s t hcl⟩

example : CompactProbe (k8sCompactProbe 3 v9) ∧
    (shimTxn cfg0 s3 (k8sCompactProbe 3 v9)).1 = .ok compactResp := ⟨(compact_probe_recognised cfg0 s3).1 3 v9, by decide⟩

/-- THE PROBE'S SHAPE IS EXACT: a transaction that is answered as the probe — it takes the compactor's branch, or
merely: its answer IS the canned answer, on any state — has ONE compare, `Version(compact_rev_key) = n` without
`range_end`, ONE success op, a put on `compact_rev_key` without prev_kv / ignore_value / ignore_lease, and ONE
failure op, a plain Get of `compact_rev_key` (no `range_end`, revision, count_only, keys_only, filters). -/
theorem compact_probe_shape_exact (c : Cfg) (s : BState) (t : TxnReq)
    (h : classify t = .compact ∨ (shimTxn c s t).1 = .ok compactResp) :
    ∃ cm p g, t = { compare := [cm], success := [.put p], failure := [.range g] } ∧
      cm.target = .version ∧ cm.result = .equal ∧ cm.key = compactRevKey ∧ cm.rangeEnd = [] ∧
      p.key = compactRevKey ∧ p.prevKv = false ∧ p.ignoreValue = false ∧ p.ignoreLease = false ∧
      g.key = compactRevKey ∧ PlainGet g compactRevKey := by
  have hcl : classify t = .compact := by
    rcases h with h | h
    · exact h
    · obtain ⟨a, ha⟩ := shimTxn_fst_shape c s t
      rw [ha] at h
      exact shapeTxn_eq_compactResp h
  obtain ⟨cm, p, g, ⟨h1, h2, h3, h4⟩, hp, f1, f2, f3, hg⟩ := classify_compact_iff.mp hcl
  exact ⟨cm, p, g, rfl, h1, h2, h3, h4, hp, f1, f2, f3, hg.1, hg⟩

example : classify (k8sCompactProbe 0 v1) = .compact ∧ (shimTxn cfg0 s3 (k8sCompactProbe 0 v1)).1 = .ok compactResp := by
  decide

/-- A NEAR MISS OF THE PROBE IS REFUSED: a transaction guarded by a VERSION compare with one put and one read —
the probe's compare, `Version(compact_rev_key) = n`, in particular — in which the put or the read is on another
key, the read is ranged / at a revision / count_only / keys_only / filtered (`¬ PlainGet`), the put carries
prev_kv / ignore_value / ignore_lease, or the compare has a `range_end` (or another key or result), is answered with the
"unsupported transaction" error and the state is unchanged: nothing is executed, nothing is answered as the probe. -/
theorem near_probe_rejected (c : Cfg) (s : BState) (cm : Compare) (p : PutReq) (g : RangeReq)
    (hver : cm.target = .version)
    (hnear : p.key ≠ compactRevKey ∨ ¬ PlainGet g compactRevKey ∨
      p.prevKv = true ∨ p.ignoreValue = true ∨ p.ignoreLease = true ∨
      cm.rangeEnd ≠ [] ∨ cm.key ≠ compactRevKey ∨ cm.result ≠ .equal) :
    classify { compare := [cm], success := [.put p], failure := [.range g] } = .unsupported ∧
    shimTxn c s { compare := [cm], success := [.put p], failure := [.range g] } = (.error .unsupported, s) := by
  have hcl : classify { compare := [cm], success := [.put p], failure := [.range g] } = .unsupported := by
    apply classify_version_not_probe
    · intro x hx
      simp at hx
      rw [hx]
      exact hver
    · simp
    · intro hp
      obtain ⟨c', p', g', heq, ⟨_, h2, h3, h4⟩, hpk, f1, f2, f3, hg⟩ := hp.inv
      simp only [TxnReq.mk.injEq, List.cons.injEq, and_true, Op.put.injEq, Op.range.injEq] at heq
      obtain ⟨rfl, rfl, rfl⟩ := heq
      rcases hnear with h | h | h | h | h | h | h | h
      · exact h hpk
      · exact h hg
      · rw [f1] at h; cases h
      · rw [f2] at h; cases h
      · rw [f3] at h; cases h
      · exact h h4
      · exact h h3
      · exact h h2
  exact ⟨hcl, (refused_unchanged c s _).1 hcl⟩

/-- ... and so is every other transaction guarded by VERSION compares that is not the probe: two puts, no failure
branch, a failure branch with several ops, a delete, several compares … -/
theorem near_probe_rejected_general (c : Cfg) (s : BState) (t : TxnReq)
    (hver : ∀ cm ∈ t.compare, cm.target = .version) (hne : t.compare ≠ []) (hnp : ¬ CompactProbe t) :
    shimTxn c s t = (.error .unsupported, s) :=
  (refused_unchanged c s t).1 (classify_version_not_probe hver hne hnp)

/-- the near misses of the correspondence check (kbcheck/props/c16.py `near_probe_misses`, witness script
`near_probe_rejected`) classify as unsupported: put on another key; read of another key; ranged read; read
count_only / keys_only / at a revision; put with prev_kv / ignore_value / ignore_lease; compare with `range_end`;
two puts; no failure branch -/
theorem near_probe_rejected_witness :
    let cmp : Compare := { target := .version, key := compactRevKey }
    let K := compactRevKey
    classify { compare := [cmp], success := [.put { key := kA, val := v9 }], failure := [.range { key := K }] } = .unsupported ∧
    classify { compare := [cmp], success := [.put { key := K, val := v9 }], failure := [.range { key := kB }] } = .unsupported ∧
    classify { compare := [cmp], success := [.put { key := kA, val := v9 }], failure := [.range { key := kB }] } = .unsupported ∧
    classify { compare := [cmp], success := [.put { key := K, val := v9 }], failure := [.range { key := K, rangeEnd := pfxHi }] } = .unsupported ∧
    classify { compare := [cmp], success := [.put { key := K, val := v9 }], failure := [.range { key := K, countOnly := true }] } = .unsupported ∧
    classify { compare := [cmp], success := [.put { key := K, val := v9 }], failure := [.range { key := K, keysOnly := true }] } = .unsupported ∧
    classify { compare := [cmp], success := [.put { key := K, val := v9 }], failure := [.range { key := K, revision := 1003 }] } = .unsupported ∧
    classify { compare := [cmp], success := [.put { key := K, val := v9, prevKv := true }], failure := [.range { key := K }] } = .unsupported ∧
    classify { compare := [cmp], success := [.put { key := K, val := v9, ignoreValue := true }], failure := [.range { key := K }] } = .unsupported ∧
    classify { compare := [cmp], success := [.put { key := K, val := v9, ignoreLease := true }], failure := [.range { key := K }] } = .unsupported ∧
    classify { compare := [{ cmp with rangeEnd := pfxHi }], success := [.put { key := K, val := v9 }], failure := [.range { key := K }] } = .unsupported ∧
    classify { compare := [cmp], success := [.put { key := K, val := v9 }, .put { key := kA, val := v9 }], failure := [.range { key := K }] } = .unsupported ∧
    classify { compare := [cmp], success := [.put { key := K, val := v9 }], failure := [] } = .unsupported := by decide

example : ({ target := .version, key := compactRevKey } : Compare).target = .version ∧ kA ≠ compactRevKey ∧
    ¬ PlainGet { key := kB } compactRevKey := ⟨rfl, by decide, fun h => absurd h.1 (by decide)⟩
example : (∀ cm ∈ ({ compare := [{ target := .version, key := compactRevKey }], success := [.put { key := compactRevKey }] } : TxnReq).compare,
      cm.target = .version) ∧
    ¬ CompactProbe { compare := [{ target := .version, key := compactRevKey }], success := [.put { key := compactRevKey }] } :=
  ⟨by simp, fun h => by obtain ⟨_, _, _, heq, _⟩ := h.inv; simp at heq⟩

/-- the transaction of the refutation: the probe's compare, a put on /r/a, a read of /r/b -/
def nearProbe : TxnReq :=
  { compare := [{ target := .version, key := compactRevKey }], success := [.put { key := kA, val := v9 }],
    failure := [.range { key := kB }] }

/-- REFUTATION of the recogniser as it was before /repo 2870609 (`isCompactOld` / `shimTxnOld`): on `s3`
(/r/a, /r/b, /r/c), `If(Version(compact_rev_key) = 0).Then(Put /r/a v9).Else(Get /r/b)` was taken for the probe and
answered with the canned answer — NOT REJECTED (no error), NOT EXECUTED (store and revision counter unchanged; etcd
takes the success branch — `compact_rev_key` does not exist, its version is 0 — and writes /r/a = v9 at 1004), and
the answer is etcd's in neither branch (the failure branch would read /r/b, not an empty key-value). None of the
supported recognisers accepts it and it is not `Canonical` (`nearProbe_not_canonical`). With the repaired recogniser
the same transaction is refused. -/
theorem old_probe_recogniser_swallowed_put :
    isCompactOld nearProbe = true ∧ classifyOld nearProbe = .compact ∧
    (shimTxnOld cfg0 s3 nearProbe).1 =
      .ok { ok := false, hdr := 0, resps := [.range 0 [([], [], 0)] 1 false], wrote := false } ∧
    (shimTxnOld cfg0 s3 nearProbe).2.store = s3.store ∧ (shimTxnOld cfg0 s3 nearProbe).2.dealt = s3.dealt ∧
    (refTxn m3 nearProbe).map (fun x => (x.1.ok, x.1.wrote, x.1.hdr)) = .ok (true, true, 1004) ∧
    (refTxn m3 nearProbe).map (fun x => (x.2.get kA).map KVFull.proj) = .ok (some (kA, v9, 1004)) ∧
    isCreate nearProbe = none ∧ isDelete nearProbe = none ∧ isUpdate nearProbe = none ∧
    isCompact nearProbe = false ∧ classify nearProbe = .unsupported ∧
    (shimTxn cfg0 s3 nearProbe).1 = .error .unsupported := by decide

theorem nearProbe_not_canonical : ¬ Canonical nearProbe := by
  intro h
  unfold nearProbe at h
  cases h with
  | update cm p g n hc _ _ _ => exact absurd hc.1 (by decide)

/-- Whatever is answered without an error — NO exception — is `Canonical` or is the compaction probe answered with
its canned answer: `executed_only_if_canonical` with its exception spelled out structurally. -/
theorem answered_only_if_canonical_or_probe (c : Cfg) (s : BState) (t : TxnReq) (hreq : ReqOK t) (r : TxnResp)
    (hok : (shimTxn c s t).1 = .ok r) : Canonical t ∨ (CompactProbe t ∧ r = compactResp) := by
  by_cases hc : classify t = .compact
  · right
    rw [compact_canned c s t hc] at hok
    cases hok
    exact ⟨classify_compact_iff.mp hc, rfl⟩
  · exact .inl (executed_only_if_canonical c s t hreq hc r hok)

/-- `shim_sound` with its exception spelled out structurally: every structurally valid transaction that is not
kube-apiserver's compaction probe (`CompactProbe`: compare, put and plain Get all on `compact_rev_key`) is refused
with an error or answered as etcd prescribes — a transaction that merely LOOKS like the probe is covered. -/
theorem shim_sound_except_probe (c : Cfg) (s : BState) (m : Mvcc) (t : TxnReq) (hreq : ReqOK t)
    (hw : ∀ k, WHyp c s k) (ha : ∀ k, AbsAt c s m k) (h63 : s.dealt + 1 < 2 ^ 63) (hnp : ¬ CompactProbe t) :
    (∃ e, (shimTxn c s t).1 = .error e) ∨ Agree c s m t :=
  shim_sound c s m t hreq hw ha h63 (fun h => hnp (classify_compact_iff.mp h))

example : ReqOK nearProbe ∧ ¬ CompactProbe nearProbe :=
  ⟨⟨by decide, by simp [nearProbe, Op.keyGiven, kA], by simp [nearProbe, Op.keyGiven, kB], by decide⟩,
   fun h => by have := classify_compact_iff.mpr h; revert this; decide⟩

/-! ### reads -/

/-- Range over a proper interval `[key, range_end)`, any limit, at revision 0 or any revision up to the
committed one, no option the shim ignores: same header,
same key-values in the same order, same more-flag; Count never exceeds etcd's and is equal whenever
there is no more (`range_count_partial` part; for the other case see `limited_count_wrong`).
The magic revision 1888 (/repo e617587): the only request left outside is the UNLIMITED plain range at revision
exactly 1888 — `hmagic` asks for a limit (or `count_only`) THERE and nothing anywhere else; a page of a
paginated list at revision 1888 is covered (`paginated_list_at_magic_revision_matches_ref`). Before the repair the
hypothesis had to be `r.revision ≠ getPartitionMagic` (`old_magic_swallowed_page_two`). -/
theorem range_matches_ref (c : Cfg) (s : BState) (recs : List Rec) (hst : StoreAbs c s recs) (r : RangeReq)
    (hp : PlainRange r) (hco : r.countOnly = false) (hk : r.key ≠ []) (hka : Alphabet r.key)
    (hea : Alphabet r.rangeEnd) (hlt : cmp r.key r.rangeEnd = .lt) (hr0 : 0 ≤ r.revision)
    (hrc : r.revision ≤ s.committed)
    (hmagic : r.revision = getPartitionMagic → r.limit ≠ 0 ∨ r.countOnly = true) (hcb : s.committed < 2 ^ 64) :
    ∃ a b, shimRange c s r = .ok a ∧ refRangeH (histOf recs s.committed) r = .ok b ∧
      a.hdr = b.hdr ∧ a.kvs = b.kvs ∧ a.more = b.more ∧ a.count ≤ b.count ∧ (a.more = false → a.count = b.count) :=
  range_list_sound c s recs hst r hp hco hk hka hea hlt hr0 hrc hmagic hcb

/-- Count of a limited range: exactly the page length plus one when there is more — equal to etcd's
count iff the range holds at most `limit + 1` keys. -/
theorem range_count_partial (c : Cfg) (s : BState) (recs : List Rec) (hst : StoreAbs c s recs) (r : RangeReq)
    (hp : PlainRange r) (hco : r.countOnly = false) (hk : r.key ≠ []) (hka : Alphabet r.key)
    (hea : Alphabet r.rangeEnd) (hlt : cmp r.key r.rangeEnd = .lt) (hr0 : 0 ≤ r.revision)
    (hrc : r.revision ≤ s.committed)
    (hmagic : r.revision = getPartitionMagic → r.limit ≠ 0 ∨ r.countOnly = true) (hcb : s.committed < 2 ^ 64) :
    ∃ a, shimRange c s r = .ok a ∧ a.count = a.kvs.length + (if a.more then 1 else 0) := by
  have hee := isEmpty_false_of_ne (ne_nil_of_lt hlt)
  obtain ⟨res, hres, _⟩ := C03.list_spec c hst.single s hst.store hst.sorted hst.keys
    r.key r.rangeEnd hka hea hlt (toU64 r.revision) r.limit.toNat
  have hm : magicGuard r = false := magicGuard_false_of hmagic
  exact ⟨⟨res.hdr, res.kvs, res.kvs.length + (if res.more then 1 else 0), res.more⟩,
    by simp [shimRange, hee, hm, hco, hres, liftScan], rfl⟩

/-- Point read (empty `range_end`) at revision 0 or any revision up to the committed one: the whole
response equals etcd's. -/
theorem range_get_matches_ref (c : Cfg) (s : BState) (recs : List Rec) (hst : StoreAbs c s recs) (r : RangeReq)
    (hp : PlainRange r) (hco : r.countOnly = false) (hlim : r.limit = 0) (hend : r.rangeEnd = [])
    (hk : r.key ≠ []) (hka : Alphabet r.key) (hr0 : 0 ≤ r.revision) (hrc : r.revision ≤ s.committed)
    (hcb : s.committed < 2 ^ 64) :
    ∃ a, shimRange c s r = .ok a ∧ refRangeH (histOf recs s.committed) r = .ok a :=
  range_get_sound c s recs hst r hp hco hlim hend hk hka hr0 hrc hcb

/-- `count_only` over a proper interval at the current revision (as Kubernetes issues it): the whole
response equals etcd's. -/
theorem range_count_only_matches_ref (c : Cfg) (s : BState) (recs : List Rec) (hst : StoreAbs c s recs)
    (r : RangeReq) (hp : PlainRange r) (hco : r.countOnly = true) (hk : r.key ≠ []) (hka : Alphabet r.key)
    (hea : Alphabet r.rangeEnd) (hlt : cmp r.key r.rangeEnd = .lt) (hr0 : r.revision = 0) :
    ∃ a, shimRange c s r = .ok a ∧ refRangeH (histOf recs s.committed) r = .ok a :=
  range_count_sound c s recs hst r hp hco hk hka hea hlt hr0

/-- the decoded store of `s3` -/
def recs3 : List Rec :=
  [ { key := kA, rev := 0, val := be64 1001, ik := encode kA 0 }, { key := kA, rev := 1001, val := v1, ik := encode kA 1001 },
    { key := kB, rev := 0, val := be64 1002, ik := encode kB 0 }, { key := kB, rev := 1002, val := v2, ik := encode kB 1002 },
    { key := kC, rev := 0, val := be64 1003, ik := encode kC 0 }, { key := kC, rev := 1003, val := v3, ik := encode kC 1003 } ]

theorem s3_store_abs : StoreAbs cfg0 s3 recs3 :=
  ⟨by decide, by decide, by decide, by decide, rfl, rfl⟩

/-- Three keys, limit 1: the shim answers Count = 2, etcd 3. (With limit 2 it answers 3.) -/
theorem limited_count_wrong :
    shimRange cfg0 s3 { key := pfxLo, rangeEnd := pfxHi, limit := 1 } =
      .ok { hdr := 1003, kvs := [(kA, v1, 1001)], count := 2, more := true } ∧
    refRangeH (histOf recs3 1003) { key := pfxLo, rangeEnd := pfxHi, limit := 1 } =
      .ok { hdr := 1003, kvs := [(kA, v1, 1001)], count := 3, more := true } ∧
    (shimRange cfg0 s3 { key := pfxLo, rangeEnd := pfxHi, limit := 2 }).map (·.count) = .ok 3 := by decide

/-- `count_only` does not validate its bounds: `range_end = "\0"` (all keys ≥ key) counts 0, inverted
bounds count keys of the reversed interval; the same bounds are refused by List. -/
theorem count_bounds_unchecked :
    (shimRange cfg0 s3 { key := pfxLo, rangeEnd := [0], countOnly := true }).map (·.count) = .ok 0 ∧
    (refRangeH (histOf recs3 1003) { key := pfxLo, rangeEnd := [0], countOnly := true }).map (·.count) = .ok 3 ∧
    (shimRange cfg0 s3 { key := kC, rangeEnd := kA, countOnly := true }).map (·.count) = .ok 1 ∧
    (refRangeH (histOf recs3 1003) { key := kC, rangeEnd := kA, countOnly := true }).map (·.count) = .ok 0 ∧
    shimRange cfg0 s3 { key := pfxLo, rangeEnd := [0] } = .error (.backend .invalid) ∧
    shimRange cfg0 s3 { key := kC, rangeEnd := kA } = .error (.backend .invalid) := by decide

/-! ### the partition-listing magic revision 1888 (/repo e617587)

`RPCServer.Range` answers a request with a `range_end` at revision `GetPartitionMagic` (1888) with the engine's
partition borders (kubebrain-client's in-band partition protocol). 1888 is an ORDINARY revision on engines whose
revisions count commits (Badger, the in-memory engine) and in every store initialised near 1000: before /repo
e617587 the test was the revision ALONE, so page 2 of a paginated list whose first page carried header revision
1888 (kube-apiserver's continue request: `limit > 0`, `revision = 1888`) and a count at revision 1888 were answered
with border keys (`old_magic_swallowed_page_two`). Now the guard is `revision = 1888 ∧ limit = 0 ∧ ¬count_only`. -/

/-- The guard of the partition-listing branch and the whole dispatch chain of `RPCServer.Range` AS THE EXTRACTOR
FINDS THEM IN kv.go on this run (`KB/Generated/Consts.lean`, harness/cmd/kbextract/rangedispatch.go): dropping a
conjunct of the guard (e.g. reverting /repo e617587: `["Revision==GetPartitionMagic"]`), adding one, reordering the
chain or changing the magic's value makes this `decide` fail. -/
theorem magic_guard_as_in_source :
    Generated.partitionMagicGuard = ["Revision==GetPartitionMagic", "Limit==0", "!CountOnly"] ∧
    Generated.rangeDispatch =
      [(["len(RangeEnd)==0"], "Get"), (["Revision==GetPartitionMagic", "Limit==0", "!CountOnly"], "GetPartitions"),
       (["CountOnly"], "Count"), ([], "List")] ∧
    Generated.partitionMagic = 1888 ∧ getPartitionMagic = 1888 ∧ Generated.constsUnresolved = [] := by decide

/-- ... and READ AS A PROGRAM (`dispatchBy`, `guardHolds`: every conjunct interpreted on the request, an unknown
conjunct = no answer) the regenerated chain selects, for EVERY request, the branch the model's `shimRange` takes,
and the regenerated guard is the model's `magicGuard`. -/
theorem range_dispatch_as_in_source (r : RangeReq) :
    dispatchBy Generated.rangeDispatch r = some (rangeBranch r).method ∧
    guardHolds Generated.partitionMagicGuard r = some (magicGuard r) := by
  obtain ⟨hg, hd, -, -, -⟩ := magic_guard_as_in_source
  rw [hg, hd]
  have a1 : atomHolds "len(RangeEnd)==0" r = some r.rangeEnd.isEmpty := by simp [atomHolds]
  have a2 : atomHolds "Revision==GetPartitionMagic" r = some (r.revision == getPartitionMagic) := by simp [atomHolds]
  have a3 : atomHolds "Limit==0" r = some (r.limit == 0) := by simp [atomHolds]
  have a4 : atomHolds "!CountOnly" r = some (!r.countOnly) := by simp [atomHolds]
  have a5 : atomHolds "CountOnly" r = some r.countOnly := by simp [atomHolds]
  simp only [dispatchBy, guardHolds, a1, a2, a3, a4, a5, rangeBranch, magicGuard]
  rcases Bool.eq_false_or_eq_true r.rangeEnd.isEmpty with he | he <;>
  rcases Bool.eq_false_or_eq_true (r.revision == getPartitionMagic) with hm | hm <;>
  rcases Bool.eq_false_or_eq_true (r.limit == 0) with hl | hl <;>
  rcases Bool.eq_false_or_eq_true r.countOnly with hc | hc <;>
  simp [he, hm, hl, hc, RangeBranch.method]

/-- which requests the model sends to which branch, and what `shimRange` is on each -/
theorem shimRange_by_branch (c : Cfg) (s : BState) (r : RangeReq) :
    (rangeBranch r = .partitions → shimRange c s r = .ok (partitionListing c s r)) ∧
    (rangeBranch r ≠ .partitions → shimRange c s r = shimRangePlain c s r) := by
  unfold rangeBranch shimRange shimRangePlain
  cases r.rangeEnd.isEmpty <;> cases magicGuard r <;> cases r.countOnly <;> simp

/-- THE PARTITION LISTING IS ONLY FOR THE PLAIN UNLIMITED REQUEST: the partition-listing branch is taken iff
`revision = 1888 ∧ limit = 0 ∧ ¬count_only ∧ range_end ≠ []`; there the answer is `partitionListing` (borders); and
EVERYWHERE ELSE `RPCServer.Range` is the dispatcher without any magic (`shimRangePlain`: Get / Count / List by
`range_end` and `count_only` alone). -/
theorem partition_listing_only_for_plain_unlimited (c : Cfg) (s : BState) (r : RangeReq) :
    (rangeBranch r = .partitions ↔ r.revision = 1888 ∧ r.limit = 0 ∧ r.countOnly = false ∧ r.rangeEnd ≠ []) ∧
    (r.revision = 1888 ∧ r.limit = 0 ∧ r.countOnly = false ∧ r.rangeEnd ≠ [] →
      shimRange c s r = .ok (partitionListing c s r)) ∧
    (¬ (r.revision = 1888 ∧ r.limit = 0 ∧ r.countOnly = false ∧ r.rangeEnd ≠ []) →
      shimRange c s r = shimRangePlain c s r) := by
  have hiff : rangeBranch r = .partitions ↔
      r.revision = 1888 ∧ r.limit = 0 ∧ r.countOnly = false ∧ r.rangeEnd ≠ [] := by
    have h1888 : getPartitionMagic = 1888 := by decide
    have hg := magicGuard_iff r
    rw [h1888] at hg
    unfold rangeBranch
    cases he : r.rangeEnd with
    | nil => simp
    | cons x xs =>
      cases hm : magicGuard r with
      | true =>
        have := hg.mp hm
        simp [this.1, this.2.1, this.2.2]
      | false =>
        have hn : ¬ (r.revision = 1888 ∧ r.limit = 0 ∧ r.countOnly = false) := fun h => by
          have := hg.mpr h; rw [hm] at this; cases this
        cases hc : r.countOnly <;> simp_all
  obtain ⟨h1, h2⟩ := shimRange_by_branch c s r
  exact ⟨hiff, fun h => h1 (hiff.mpr h), fun h => h2 (fun hb => h (hiff.mp hb))⟩

/-- THE REMAINING AMBIGUITY, kept visible: an UNLIMITED, non-count range (`range_end` given) at revision EXACTLY
1888 is still answered with the partition borders — internal keys, empty values, mod revision 0, `more = false`,
on every state, whatever the history is. This is the protocol's own in-band signalling (a kubebrain-aware client
asks for the partitions with exactly this request; nothing in it distinguishes it from a reader's). On an engine
whose revisions are TSO timestamps no store revision equals 1888; where store revisions CAN equal 1888 (Badger,
the in-memory engine: revisions count commits) an unpaginated list at the explicit revision 1888
(`resourceVersionMatch=Exact` without a limit) is a residual deviation from etcd (`magic_revision_hijacked` gives the
numbers). Removing it needs a protocol decision (a discriminator no etcd client sends), not a guard. The check
records it as an OBSERVATION (`range-unlimited-at-magic-revision-is-partition-listing`), not as a violation. -/
theorem unlimited_plain_range_at_magic_is_partition_listing (c : Cfg) (s : BState) (r : RangeReq)
    (hend : r.rangeEnd ≠ []) (hrev : r.revision = 1888) (hlim : r.limit = 0) (hco : r.countOnly = false) :
    shimRange c s r = .ok (partitionListing c s r) ∧
    (partitionListing c s r).hdr = s.committed ∧ (partitionListing c s r).more = false ∧
    ∀ kv ∈ (partitionListing c s r).kvs, kv.2.1 = [] ∧ kv.2.2 = 0 := by
  refine ⟨(partition_listing_only_for_plain_unlimited c s r).2.1 ⟨hrev, hlim, hco, hend⟩, rfl, rfl, ?_⟩
  intro kv hkv
  simp only [partitionListing, List.mem_map] at hkv
  obtain ⟨k, _, rfl⟩ := hkv
  exact ⟨rfl, rfl⟩

/-- the state of the magic-revision witnesses: `sm3` = three creates from revision 1885 (/r/a@1886, /r/b@1887,
/r/c@1888): the committed revision IS the magic -/
def sm0 : BState := { ring := Ring.new 4, dealt := 1885, committed := 1885 }
def sm3 : BState :=
  (shimTxn cfg0 (shimTxn cfg0 (shimTxn cfg0 sm0 (k8sCreate kA v1 0)).2 (k8sCreate kB v2 0)).2 (k8sCreate kC v3 0)).2

/-- the decoded store of `sm3` -/
def recsM : List Rec :=
  [ { key := kA, rev := 0, val := be64 1886, ik := encode kA 0 }, { key := kA, rev := 1886, val := v1, ik := encode kA 1886 },
    { key := kB, rev := 0, val := be64 1887, ik := encode kB 0 }, { key := kB, rev := 1887, val := v2, ik := encode kB 1887 },
    { key := kC, rev := 0, val := be64 1888, ik := encode kC 0 }, { key := kC, rev := 1888, val := v3, ik := encode kC 1888 } ]

/-- the hypotheses of the range theorems hold on `sm3`, whose committed revision is 1888 -/
theorem sm3_store_abs : StoreAbs cfg0 sm3 recsM ∧ sm3.committed = 1888 :=
  ⟨⟨by decide, by decide, by decide, by decide, rfl, rfl⟩, by decide⟩

/-- The numbers of the remaining ambiguity on `sm3`: the unlimited plain range at revision 1888 is answered with the
two borders of the single partition (etcd: the three keys), at revision 1887 with the two keys of that revision; a
point read at 1888 is a point read. -/
theorem magic_revision_hijacked :
    sm3.committed = 1888 ∧
    shimRange cfg0 sm3 { key := pfxLo, rangeEnd := pfxHi, revision := 1888 } =
      .ok { hdr := 1888, kvs := [(encode pfxLo 0, [], 0), (encode pfxHi 0, [], 0)], count := 2, more := false } ∧
    refRangeH (histOf recsM 1888) { key := pfxLo, rangeEnd := pfxHi, revision := 1888 } =
      .ok { hdr := 1888, kvs := [(kA, v1, 1886), (kB, v2, 1887), (kC, v3, 1888)], count := 3, more := false } ∧
    (shimRange cfg0 sm3 { key := pfxLo, rangeEnd := pfxHi, revision := 1887 }).map (·.kvs) =
      .ok [(kA, v1, 1886), (kB, v2, 1887)] ∧
    shimRange cfg0 sm3 { key := kC, revision := 1888 } =
      .ok { hdr := 1888, kvs := [(kC, v3, 1888)], count := 1, more := false } := by decide

/-- A PAGE OF A PAGINATED LIST AT THE MAGIC REVISION (`limit > 0`, `revision = 1888` — kube-apiserver's continue
request after a first page with header revision 1888) is answered like a page at any other revision: the
reference's answer (`range_succ_bounds_match_ref` at the magic; ARBITRARY bounds, so the continue key
`lastKey ++ "\0"` is covered). -/
theorem paginated_list_at_magic_revision_matches_ref (c : Cfg) (s : BState) (recs : List Rec)
    (hst : StoreAbs c s recs) (r : RangeReq) (hp : PlainRange r) (hco : r.countOnly = false) (hk : r.key ≠ [])
    (hlt : cmp r.key r.rangeEnd = .lt) (hrev : r.revision = getPartitionMagic) (hlim : 0 < r.limit)
    (hrc : getPartitionMagic ≤ s.committed) (hcb : s.committed < 2 ^ 64) :
    ∃ a b, shimRange c s r = .ok a ∧ refRangeH (histOf recs s.committed) r = .ok b ∧
      a.hdr = b.hdr ∧ a.kvs = b.kvs ∧ a.more = b.more ∧ a.count ≤ b.count ∧ (a.more = false → a.count = b.count) := by
  have h0 : (0 : Int) ≤ getPartitionMagic := by decide
  exact range_list_sound_bounds c s recs hst r hp hco hk hlt (by rw [hrev]; exact h0) (by rw [hrev]; exact hrc)
    (fun _ => .inl (by omega)) hcb

/-- A COUNT AT THE MAGIC REVISION (`count_only`, `revision = 1888`) is the count of THAT revision — etcd's whole
response (before /repo e617587: the number of partition borders, with the borders as key-values). -/
theorem count_at_magic_revision_matches_ref (c : Cfg) (s : BState) (recs : List Rec) (hst : StoreAbs c s recs)
    (r : RangeReq) (hp : PlainRange r) (hco : r.countOnly = true) (hk : r.key ≠ []) (hlt : cmp r.key r.rangeEnd = .lt)
    (hrev : r.revision = getPartitionMagic) (hrc : getPartitionMagic ≤ s.committed) (hcb : s.committed < 2 ^ 64) :
    ∃ a, shimRange c s r = .ok a ∧ refRangeH (histOf recs s.committed) r = .ok a := by
  have h0 : (0 : Int) < getPartitionMagic := by decide
  exact range_count_rev_sound c s recs hst r hp hco hk hlt (by rw [hrev]; exact h0) (by rw [hrev]; exact hrc) hcb

/-- REFUTATION of `RPCServer.Range` as it was before /repo e617587 (`shimRangeOld`: the magic revision tested before
limit and `count_only`), on `sm3` (/r/a@1886, /r/b@1887, /r/c@1888; committed revision 1888): the first page of a
paginated list at "latest" carries header revision 1888 and `more`; the CONTINUE REQUEST kube-apiserver then sends
— `key = /r/a\0`, `limit = 1`, `revision = 1888` — was answered with two internal border keys (empty values, mod
revision 0) and `more = false`: the list ended there, /r/b and /r/c were never returned; a count at revision 1888
answered 2 (the number of borders, and carried them as key-values). The repaired `shimRange` answers both as the
reference does (page: /r/b@1887, more; count: 3). The hypotheses of the range theorems hold on `sm3`
(`sm3_store_abs`), so `hmagic` could not simply be dropped before the repair. -/
theorem old_magic_swallowed_page_two :
    sm3.committed = 1888 ∧
    shimRangeOld cfg0 sm3 { key := pfxLo, rangeEnd := pfxHi, limit := 1 } =
      .ok { hdr := 1888, kvs := [(kA, v1, 1886)], count := 2, more := true } ∧
    shimRangeOld cfg0 sm3 { key := kA ++ [0], rangeEnd := pfxHi, limit := 1, revision := 1888 } =
      .ok { hdr := 1888, kvs := [(encode kA (2 ^ 64 - 1) ++ [0], [], 0), (encode pfxHi 0, [], 0)], count := 2,
            more := false } ∧
    shimRange cfg0 sm3 { key := kA ++ [0], rangeEnd := pfxHi, limit := 1, revision := 1888 } =
      .ok { hdr := 1888, kvs := [(kB, v2, 1887)], count := 2, more := true } ∧
    refRangeH (histOf recsM 1888) { key := kA ++ [0], rangeEnd := pfxHi, limit := 1, revision := 1888 } =
      .ok { hdr := 1888, kvs := [(kB, v2, 1887)], count := 2, more := true } ∧
    shimRangeOld cfg0 sm3 { key := pfxLo, rangeEnd := pfxHi, countOnly := true, revision := 1888 } =
      .ok { hdr := 1888, kvs := [(encode pfxLo 0, [], 0), (encode pfxHi 0, [], 0)], count := 2, more := false } ∧
    shimRange cfg0 sm3 { key := pfxLo, rangeEnd := pfxHi, countOnly := true, revision := 1888 } =
      .ok { hdr := 1888, kvs := [], count := 3, more := false } ∧
    refRangeH (histOf recsM 1888) { key := pfxLo, rangeEnd := pfxHi, countOnly := true, revision := 1888 } =
      .ok { hdr := 1888, kvs := [], count := 3, more := false } := by decide

/-- ... and the repaired dispatcher differs from the old one ONLY on requests at the magic revision that carry a
limit or `count_only`: everywhere else (every other revision, and the plain unlimited request at 1888) the two
answer alike — the repair changes nothing else. -/
theorem old_and_new_differ_only_at_magic (c : Cfg) (s : BState) (r : RangeReq)
    (h : ¬ (r.revision = 1888 ∧ (r.limit ≠ 0 ∨ r.countOnly = true))) :
    shimRangeOld c s r = shimRange c s r := by
  have h1888 : getPartitionMagic = 1888 := by decide
  have hg : magicGuardOld r = magicGuard r := by
    unfold magicGuardOld magicGuard
    rw [h1888]
    by_cases hr : r.revision = 1888
    · have hl : r.limit = 0 := Classical.byContradiction fun hl => h ⟨hr, .inl hl⟩
      have hc : r.countOnly = false := by
        cases hc : r.countOnly with
        | false => rfl
        | true => exact absurd ⟨hr, .inr hc⟩ h
      simp [hr, hl, hc]
    · have : (r.revision == 1888) = false := by simpa using hr
      simp [this]
  unfold shimRangeOld shimRange
  rw [hg]

/-- `count_only` AT AN EXPLICIT REVISION (/repo 5f2847c; formerly the observation `count_only_ignores_revision`:
the revision was dropped): over a proper interval with ARBITRARY bounds (any byte strings — since /repo 23c8b93;
before: keys or successors `K ++ [0]` of keys), at EVERY revision `0 < R ≤ committed` — the magic 1888 included
since /repo e617587 (before, the hypothesis `r.revision ≠ getPartitionMagic` was needed: a count at revision 1888
answered the number of partition borders) —, the whole response —
header, no kvs, Count = the number of keys of the range AT `R`, no more — equals etcd's. (A `range_end` of `"\0"`,
etcd's "from key" marker, cannot be the end of a proper interval above a non-empty key: `end_ne_zero_of_lt`.) -/
theorem count_only_at_revision_matches_ref (c : Cfg) (s : BState) (recs : List Rec) (hst : StoreAbs c s recs)
    (r : RangeReq) (hp : PlainRange r) (hco : r.countOnly = true) (hk : r.key ≠ []) (hlt : cmp r.key r.rangeEnd = .lt)
    (hr0 : 0 < r.revision) (hrc : r.revision ≤ s.committed)
    (hcb : s.committed < 2 ^ 64) :
    ∃ a, shimRange c s r = .ok a ∧ refRangeH (histOf recs s.committed) r = .ok a :=
  range_count_rev_sound c s recs hst r hp hco hk hlt hr0 hrc hcb

/-- ... and at the CURRENT revision (`range_count_only_matches_ref` for arbitrary bounds). -/
theorem count_only_any_bounds_matches_ref (c : Cfg) (s : BState) (recs : List Rec) (hst : StoreAbs c s recs)
    (r : RangeReq) (hp : PlainRange r) (hco : r.countOnly = true) (hk : r.key ≠ []) (hlt : cmp r.key r.rangeEnd = .lt)
    (hr0 : r.revision = 0) :
    ∃ a, shimRange c s r = .ok a ∧ refRangeH (histOf recs s.committed) r = .ok a :=
  range_count_sound_bounds c s recs hst r hp hco hk hlt hr0

/-- ... and BELOW THE COMPACTION FLOOR it is refused (on every state, any bounds of a proper interval), like
the same range without `count_only` (C08 `list_refused_below_floor`); etcd answers `ErrCompacted`. (No exception
for the magic revision any more: a count at revision 1888 below the floor is refused too — /repo e617587.) -/
theorem count_only_below_floor_refused (c : Cfg) (s : BState) (r : RangeReq) (hco : r.countOnly = true)
    (hlt : cmp r.key r.rangeEnd = .lt) (hr0 : 0 < r.revision) (hr63 : r.revision < 2 ^ 63)
    (hfl : toU64 r.revision < floorOf c s.store) :
    shimRange c s r = .error (.backend .belowFloor) := by
  have hee := isEmpty_false_of_ne (ne_nil_of_lt hlt)
  have hm : magicGuard r = false := magicGuard_false_of_count hco
  have hz : (toU64 r.revision == 0) = false := by
    have : toU64 r.revision ≠ 0 := by
      rw [toU64_of_nonneg (by omega) (by omega)]
      omega
    simpa using this
  have hbf : belowFloor c s.store (toU64 r.revision) = true := by simp [belowFloor, hfl]
  simp [shimRange, hee, hm, hco, hr0, doList, hlt, hz, scanParts, hbf, liftScan]

/-- The numbers (formerly `count_only_ignores_revision`: Count 2 at revision 1003): after the delete of /r/a at
1004, `count_only` at revision 1003 counts the three keys of THAT revision (= the length of the range read
there), at revision 0 the two current ones; after a compaction at 1004 the count at 1003 is refused like the
range read, the current one is still answered. -/
theorem count_only_counts_revision :
    let s4 := (shimTxn cfg0 s3 (k8sDelete kA 1001)).2
    let s5 := (doCompact cfg0 s4 1004 (fun _ => .ok)).2
    (shimRange cfg0 s4 { key := pfxLo, rangeEnd := pfxHi, revision := 1003, countOnly := true }) =
      .ok { hdr := 1004, kvs := [], count := 3, more := false } ∧
    (shimRange cfg0 s4 { key := pfxLo, rangeEnd := pfxHi, revision := 1003 }).map (·.kvs.length) = .ok 3 ∧
    (shimRange cfg0 s4 { key := pfxLo, rangeEnd := pfxHi, countOnly := true }).map (·.count) = .ok 2 ∧
    shimRange cfg0 s5 { key := pfxLo, rangeEnd := pfxHi, revision := 1003, countOnly := true } =
      .error (.backend .belowFloor) ∧
    shimRange cfg0 s5 { key := pfxLo, rangeEnd := pfxHi, revision := 1003 } = .error (.backend .belowFloor) ∧
    (shimRange cfg0 s5 { key := pfxLo, rangeEnd := pfxHi, countOnly := true }).map (·.count) = .ok 2 := by decide

/-! ### range bounds with bytes at or below the split byte (/repo 146f0bb: `K ++ [0]`; /repo 23c8b93: ANY bound):
pagination, single-key ranges, bounds outside the key alphabet -/

/-- `range_matches_ref` for ARBITRARY bounds — keys over the alphabet, successors `K ++ [0]` of such keys (the
continue key of a paginated list `lastKey ++ "\0"`, the end of a single-key range `[k, k ++ "\0")`), and since
/repo 23c8b93 every other byte string (`K ++ "\x01"`, `K ++ "#"`, `K ++ "\0\0"`, `K ++ "\0b"`, a bound starting
with a low byte): same header, same key-values in the same order, same more-flag as etcd on the RAW keys. The
only hypotheses left on the bounds are those of a proper interval above a non-empty key. -/
theorem range_succ_bounds_match_ref (c : Cfg) (s : BState) (recs : List Rec) (hst : StoreAbs c s recs) (r : RangeReq)
    (hp : PlainRange r) (hco : r.countOnly = false) (hk : r.key ≠ []) (hlt : cmp r.key r.rangeEnd = .lt)
    (hr0 : 0 ≤ r.revision) (hrc : r.revision ≤ s.committed)
    (hmagic : r.revision = getPartitionMagic → r.limit ≠ 0 ∨ r.countOnly = true)
    (hcb : s.committed < 2 ^ 64) :
    ∃ a b, shimRange c s r = .ok a ∧ refRangeH (histOf recs s.committed) r = .ok b ∧
      a.hdr = b.hdr ∧ a.kvs = b.kvs ∧ a.more = b.more ∧ a.count ≤ b.count ∧ (a.more = false → a.count = b.count) :=
  range_list_sound_bounds c s recs hst r hp hco hk hlt hr0 hrc hmagic hcb

/-- The numbers on `s3` (keys /r/a, /r/b, /r/c): the page after /r/a starts at /r/b (before the fix: at /r/a
again — with page size 1 the listing never advanced), `[/r/a, /r/a\0)` is exactly /r/a (before: empty),
the counts over such bounds are etcd's (before: off by one), at the current and at an old revision. -/
theorem pagination_witness :
    shimRange cfg0 s3 { key := pfxLo, rangeEnd := pfxHi, limit := 1 } =
      .ok { hdr := 1003, kvs := [(kA, v1, 1001)], count := 2, more := true } ∧
    shimRange cfg0 s3 { key := kA ++ [0], rangeEnd := pfxHi, limit := 1 } =
      .ok { hdr := 1003, kvs := [(kB, v2, 1002)], count := 2, more := true } ∧
    shimRange cfg0 s3 { key := kB ++ [0], rangeEnd := pfxHi, limit := 1 } =
      .ok { hdr := 1003, kvs := [(kC, v3, 1003)], count := 1, more := false } ∧
    shimRange cfg0 s3 { key := kA, rangeEnd := kA ++ [0] } =
      .ok { hdr := 1003, kvs := [(kA, v1, 1001)], count := 1, more := false } ∧
    refRangeH (histOf recs3 1003) { key := kA, rangeEnd := kA ++ [0] } =
      .ok { hdr := 1003, kvs := [(kA, v1, 1001)], count := 1, more := false } ∧
    (shimRange cfg0 s3 { key := kA ++ [0], rangeEnd := pfxHi, countOnly := true }).map (·.count) = .ok 2 ∧
    (shimRange cfg0 s3 { key := pfxLo, rangeEnd := kB ++ [0], countOnly := true }).map (·.count) = .ok 2 ∧
    (shimRange cfg0 s3 { key := kA ++ [0], rangeEnd := pfxHi, countOnly := true, revision := 1002 }).map (·.count) = .ok 1 := by
  decide

/-- The numbers on `s3` (keys /r/a, /r/b, /r/c) for bounds with OTHER low bytes (/repo 23c8b93; before, the bound
`/r/a\x01` was encoded before the records of /r/a: `[/r/a, /r/a\x01)` was empty and a range from `/r/a\x01`
answered /r/a): `[/r/a, /r/a\x01)` and `[/r/a, /r/a#)` are exactly /r/a, a range from `/r/a\x01`, `/r/a\0\0`,
`/r/a\0b` starts at /r/b, `[/r/a\x01, /r/a\x02)` (encoded alike) is empty — everywhere the answer of the
reference on raw keys. -/
theorem low_byte_bounds_witness :
    shimRange cfg0 s3 { key := kA, rangeEnd := kA ++ [1] } =
      .ok { hdr := 1003, kvs := [(kA, v1, 1001)], count := 1, more := false } ∧
    refRangeH (histOf recs3 1003) { key := kA, rangeEnd := kA ++ [1] } =
      .ok { hdr := 1003, kvs := [(kA, v1, 1001)], count := 1, more := false } ∧
    shimRange cfg0 s3 { key := kA, rangeEnd := kA ++ [35] } =
      .ok { hdr := 1003, kvs := [(kA, v1, 1001)], count := 1, more := false } ∧
    (shimRange cfg0 s3 { key := kA ++ [1], rangeEnd := pfxHi, limit := 1 }).map (·.kvs) = .ok [(kB, v2, 1002)] ∧
    refRangeH (histOf recs3 1003) { key := kA ++ [1], rangeEnd := pfxHi, limit := 1 } =
      .ok { hdr := 1003, kvs := [(kB, v2, 1002)], count := 2, more := true } := by
  decide

theorem low_byte_bounds_witness' :
    (shimRange cfg0 s3 { key := kA ++ [0, 0], rangeEnd := pfxHi, limit := 1 }).map (·.kvs) = .ok [(kB, v2, 1002)] ∧
    (shimRange cfg0 s3 { key := kA ++ [0, 98], rangeEnd := pfxHi, limit := 1 }).map (·.kvs) = .ok [(kB, v2, 1002)] ∧
    (shimRange cfg0 s3 { key := kA ++ [1], rangeEnd := kA ++ [2] }).map (·.kvs) = .ok [] ∧
    refRangeH (histOf recs3 1003) { key := kA ++ [1], rangeEnd := kA ++ [2] } =
      .ok { hdr := 1003, kvs := [], count := 0, more := false } ∧
    (shimRange cfg0 s3 { key := kA ++ [1], rangeEnd := pfxHi, countOnly := true }).map (·.count) = .ok 2 ∧
    (shimRange cfg0 s3 { key := pfxLo, rangeEnd := kB ++ [36], countOnly := true }).map (·.count) = .ok 2 := by
  decide

/-! ### watch-create: the range-stream shape needs both borders (/repo 5b8c053) -/

/-- A watch-create with a NEGATIVE start revision (the range-stream shape) and an empty key or an empty
`range_end` is refused — cancelled at once, `backend.ListByStream` is not called (before the fix the
request reached it; on a multi-region TiKV engine that crashed the process). -/
theorem range_stream_needs_borders (key stop : Bytes) (rev : Int) (hneg : rev < 0) (he : key = [] ∨ stop = []) :
    watchCreate key stop rev = .refused := by
  rcases he with rfl | rfl <;> simp [watchCreate, hneg]

/-- ... and with both borders it is the streamed range at the revision `-rev`; a non-negative start revision
is a watch (of a key starting with "/"), whatever `range_end` is. -/
theorem watch_create_shapes (key stop : Bytes) (rev : Int) :
    (rev < 0 → key ≠ [] → stop ≠ [] → watchCreate key stop rev = .rangeStream key stop (toU64 (-rev))) ∧
    (0 ≤ rev → watchCreate key stop rev = if isPureWatch key then .watch key (toU64 rev) else .refused) := by
  constructor
  · intro hneg hk hs
    have h1 := isEmpty_false_of_ne hk
    have h2 := isEmpty_false_of_ne hs
    simp [watchCreate, hneg, h1, h2]
  · intro h0
    have : ¬ rev < 0 := by omega
    cases hp : isPureWatch key <;> simp [watchCreate, this, hp]

/-! ### watch events -/

/-- A committed write's event as the watch stream carries it: creates and updates are PUT with the new
key-value and its mod revision; a delete is DELETE with the key and the deletion revision, and the
previous key-value (value and mod revision before the delete). -/
theorem watch_event_shape (w : WEvent) :
    shimEvent (mkEvent w) =
      (if w.verb = .delete then { isDelete := true, kv := (w.key, [], w.rev), prev := some (w.key, w.val, w.prevRev) }
       else { isDelete := false, kv := (w.key, w.val, w.rev), prev := none }) := by
  cases hv : w.verb <;> simp [shimEvent, mkEvent, hv]

/-- ... which is the event etcd emits for the same state change. -/
theorem watch_event_matches_ref (m m' : Mvcc) (w : WEvent) (old : KVFull)
    (hold : m.get w.key = some old) (hproj : old.proj = (w.key, w.val, w.prevRev))
    (hgone : m'.get w.key = none) (hv : w.verb = .delete) :
    refEvent m m' w.key w.rev = some (shimEvent (mkEvent w)) := by
  simp [refEvent, hold, hgone, shimEvent, mkEvent, hv, hproj]

theorem watch_put_matches_ref (m m' : Mvcc) (w : WEvent) (e : KVFull)
    (hnew : m'.get w.key = some e) (hproj : e.proj = (w.key, w.val, w.rev)) (hmod : e.mod = w.rev)
    (hv : w.verb ≠ .delete) :
    refEvent m m' w.key w.rev = some (shimEvent (mkEvent w)) := by
  cases hverb : w.verb with
  | delete => exact absurd hverb hv
  | create => cases hm : m.get w.key <;> simp [refEvent, hm, hnew, shimEvent, mkEvent, hverb, hproj, hmod]
  | put => cases hm : m.get w.key <;> simp [refEvent, hm, hnew, shimEvent, mkEvent, hverb, hproj, hmod]

/-! ### non-vacuity: the hypotheses of the implications above are satisfiable -/

/-- the hypotheses of `shim_sound` hold on the empty store (for every key) -/
example : (∀ k, WHyp cfg0 s0 k) ∧ (∀ k, AbsAt cfg0 s0 { rev := 1000 } k) ∧ s0.dealt + 1 < 2 ^ 63 :=
  ⟨fun k => ⟨rfl, by decide, by simp [idxOK, getInternal_empty, s0, Store.get]⟩,
   fun k => ⟨rfl, by simp [Mvcc.get, curKv_eq, getInternal_empty, s0], by simp⟩, by decide⟩
example : ReqOK (k8sUpdate kA v1 1001 0) ∧ classify (k8sUpdate kA v1 1001 0) ≠ .compact :=
  ⟨⟨by decide, by simp [k8sUpdate, Op.keyGiven, kA], by simp [k8sUpdate, Op.keyGiven, kA], by decide⟩, by decide⟩
example : Canonical (k8sCreate kA v1 0) := .create _ _ ⟨rfl, rfl, rfl, rfl, rfl⟩ ⟨by decide, rfl, rfl, rfl⟩ (by decide)
example : WHyp cfg0 s3 kA ∧ WHyp cfg0 s3 kD := ⟨⟨rfl, by decide, by decide⟩, ⟨rfl, by decide, by decide⟩⟩
example : AbsAt cfg0 s3 m3 kA ∧ AbsAt cfg0 s3 m3 kD :=
  ⟨⟨by decide, by decide, by decide⟩, ⟨by decide, by decide, by decide⟩⟩
example : curKv cfg0 s3 kD = none ∧ curKv cfg0 s3 kA ≠ none := by decide
-- the delete op of Kubernetes' delete shapes: no `range_end`, no `prev_kv` (hypotheses `he`, `hp` of `unguarded_delete_missing_flag`, `Canonical.gdelete / udelete`)
example : ({ key := kD } : DelReq).key ≠ [] ∧ ({ key := kD } : DelReq).rangeEnd = [] ∧ ({ key := kD } : DelReq).prevKv = false ∧
    PlainGet { key := kD } ({ key := kD } : DelReq).key ∧
    Canonical (k8sDeleteUnguarded kD) ∧ Canonical (k8sDelete kB 1002) :=
  ⟨by decide, rfl, rfl, plainGet_of_key kD, .udelete _ _ (by decide) rfl rfl (plainGet_of_key kD),
   .gdelete _ _ _ 1002 ⟨rfl, rfl, rfl, rfl, rfl⟩ (by decide) (by decide) rfl rfl (plainGet_of_key kB)⟩
example : classify { compare := [{ key := kA, target := .version }], success := [.put { key := kA }] } = .unsupported := by
  decide
example : ∃ (m m' : Mvcc) (w : WEvent) (old : KVFull), m.get w.key = some old ∧
    old.proj = (w.key, w.val, w.prevRev) ∧ m'.get w.key = none ∧ w.verb = .delete :=
  ⟨m3, { m3 with kvs := m3.kvs.drop 1 },
   { rev := 1004, prevRev := 1001, valid := true, verb := .delete, key := kA, val := v1 },
   { key := kA, val := v1, mod := 1001, create := 1001, version := 1 }, by decide, by decide, by decide, rfl⟩
example : PlainRange { key := pfxLo, rangeEnd := pfxHi, limit := 1 } ∧ Alphabet pfxLo ∧ Alphabet pfxHi ∧
    cmp pfxLo pfxHi = .lt := ⟨⟨rfl, rfl, rfl, rfl, rfl, rfl⟩, by decide, by decide, by decide⟩

-- paginated_list_at_magic_revision_matches_ref / count_at_magic_revision_matches_ref: on `sm3` (`sm3_store_abs`) the
-- continue request of a paginated list and a count at revision 1888 satisfy every hypothesis
example : StoreAbs cfg0 sm3 recsM ∧
    PlainRange { key := kA ++ [0], rangeEnd := pfxHi, limit := 1, revision := 1888 } ∧ kA ++ [0] ≠ [] ∧
    cmp (kA ++ [0]) pfxHi = .lt ∧ (1888 : Int) = getPartitionMagic ∧ (0 : Int) < 1 ∧
    getPartitionMagic ≤ (sm3.committed : Int) ∧ sm3.committed < 2 ^ 64 :=
  ⟨sm3_store_abs.1, ⟨rfl, rfl, rfl, rfl, rfl, rfl⟩, by decide, by decide, by decide, by decide, by decide, by decide⟩
-- range_matches_ref's `hmagic`: satisfied AT the magic revision by a limited request, and vacuously anywhere else
example : ((({ limit := 2, revision := 1888 } : RangeReq).revision = getPartitionMagic →
      ({ limit := 2, revision := 1888 } : RangeReq).limit ≠ 0 ∨ ({ limit := 2, revision := 1888 } : RangeReq).countOnly = true)) ∧
    (({ revision := 1887 } : RangeReq).revision = getPartitionMagic →
      ({ revision := 1887 } : RangeReq).limit ≠ 0 ∨ ({ revision := 1887 } : RangeReq).countOnly = true) :=
  ⟨fun _ => .inl (by decide), fun h => absurd h (by decide)⟩
-- old_and_new_differ_only_at_magic / unlimited_plain_range_at_magic_is_partition_listing
example : ¬ (({ rangeEnd := pfxHi, revision := 1888 } : RangeReq).revision = 1888 ∧
    (({ rangeEnd := pfxHi, revision := 1888 } : RangeReq).limit ≠ 0 ∨
     ({ rangeEnd := pfxHi, revision := 1888 } : RangeReq).countOnly = true)) := by decide

-- range_succ_bounds_match_ref / count_only_*: a proper interval with low-byte bounds above a non-empty key
example : PlainRange { key := kA ++ [1], rangeEnd := kA ++ [36, 98] } ∧ kA ++ [1] ≠ [] ∧
    cmp (kA ++ [1]) (kA ++ [36, 98]) = .lt ∧ ¬ Alphabet (kA ++ [1]) ∧ ¬ Alphabet (kA ++ [36, 98]) :=
  ⟨⟨rfl, rfl, rfl, rfl, rfl, rfl⟩, by decide, by decide, by decide, by decide⟩

example : kA ≠ [] ∧ m3.kvs.Pairwise (fun a b => a.key ≠ b.key) := by decide
example : (match m3.get kA with | none => (1000 : Nat) ≠ 0 | some e => 1000 ≠ e.mod) := by
  show (1000 : Nat) ≠ 1001
  decide
example : (match m3.get kD with | none => (1000 : Nat) ≠ 0 | some e => 1000 ≠ e.mod) := by
  show (1000 : Nat) ≠ 0
  decide
example : ∃ e, m3.get kA = some e ∧ e.mod ≠ 0 ∧ (0 : Nat) < 1000 ∧ 1000 ≠ e.mod := ⟨_, rfl, by decide, by decide, by decide⟩
example : m3.get kD = none := by decide
example : ∃ r, (shimTxn cfg0 s0 (k8sDelete kA 5)).1 = .ok r ∧ r.ok = false :=
  ⟨{ ok := false, hdr := 1001, resps := [.range 1001 [] 0 false], wrote := false }, by decide, rfl⟩
example : backendCall (.create { key := kA, val := v1 }) ≠ none ∧
    backendCall (classify (k8sUpdate kA v9 1001 0)) = some (.update kA v9 1001 0) := by decide

end KB.C16
