/-
  C05 — a watch delivers exactly the matching changes, once, in order — or is closed.

  Model: KB.Watch (ring.go literally; pipeline LTS of backend.go:208-270, watcherhub.go, watch.go).
  Helper lemmas: KB.Lemmas.WatchRing (index arithmetic), KB.Lemmas.Watch (the inductive invariant).
  All theorems quantify over ALL capacities (`PCfg`, only `0 < ringCap` is required: `NewRing(0)` cannot
  `Add`) and ALL schedules of the LTS built from the actions of the code after d65a4b9 (`Act.fixed`).
-/
import KB.Watch
import KB.Lemmas.WatchRing
import KB.Lemmas.Watch
namespace KB.C05
open KB KB.Watch

/-! ### the event cache -/

/-- For every capacity `cap > 0` and every sequence of `Add`s with strictly increasing revisions:
the ring's window is the last `min n cap` events; `FindEvents S` — with the LITERAL index arithmetic,
`sort.Search` contract and two-segment copy of ring.go (`Ring.findLit`) — answers empty / high / low
exactly per `findSpec` and otherwise exactly the cached events with revision ≥ S, in order, wrap-around
included (no nil entry, no slice panic); the simplified `Ring.find` used by the sequential model
(KB.Backend) computes the same. -/
theorem ring_find_spec (cap : Nat) (hcap : 0 < cap) (evs : List Event) (hs : SortedRev evs) (S : Nat) :
    (ringOf cap evs).window = evs.drop (evs.length - cap) ∧
    (ringOf cap evs).findLit S = findSpec cap evs S ∧
    (ringOf cap evs).find S = findSpec cap evs S :=
  ⟨ringOf_window cap hcap evs, ringOf_findLit cap hcap evs hs S, ringOf_find cap hcap evs hs S⟩

/-- The loop of Go's `sort.Search` (binary search, literally) returns what `findLit` assumes of it
(`searchFirst`: the first index at which the predicate holds) whenever the predicate is monotone. -/
theorem sort_search_contract (n : Nat) (f : Nat → Bool)
    (mono : ∀ i j, i ≤ j → j < n → f i = true → f j = true) : goSearch n f = searchFirst n f :=
  goSearch_eq_searchFirst n f mono

/-- ... and on every ring built by `Add`s with increasing revisions the predicate handed to
`sort.Search` by `FindEvents` IS monotone: the literal binary search returns the index `findLit` uses. -/
theorem find_uses_sort_search (cap : Nat) (hcap : 0 < cap) (evs : List Event) (hs : SortedRev evs) (S : Nat) :
    goSearch ((ringOf cap evs).e - (ringOf cap evs).s) ((ringOf cap evs).searchPred S) =
    searchFirst ((ringOf cap evs).e - (ringOf cap evs).s) ((ringOf cap evs).searchPred S) := by
  have hinv := ringOf_inv cap hcap evs
  apply goSearch_eq_searchFirst
  intro i j hij hj hi
  rw [hinv.e_eq, hinv.s_eq] at hj
  have hjlt : evs.length - cap + j < evs.length := by omega
  have hilt : evs.length - cap + i < evs.length := by omega
  unfold Ring.searchPred at hi ⊢
  rw [hinv.s_eq, hinv.at_eq _ (by omega) hilt] at hi
  rw [hinv.s_eq, hinv.at_eq _ (by omega) hjlt]
  rw [List.getElem?_eq_getElem hilt] at hi
  rw [List.getElem?_eq_getElem hjlt]
  simp only [decide_eq_true_eq] at hi ⊢
  rcases Nat.lt_or_eq_of_le hij with hlt | heq
  · have := (List.pairwise_iff_getElem.mp hs) (evs.length - cap + i) (evs.length - cap + j) hilt hjlt (by omega)
    omega
  · subst heq; exact hi

/-- what the spec means, spelled out: with at least one cached event, `oldest`/`newest` being the ends
of the window -/
theorem find_spec_cases (cap : Nat) (evs : List Event) (S : Nat) :
    (evs.drop (evs.length - cap) = [] → findSpec cap evs S = .empty) ∧
    (∀ oldest newest, (evs.drop (evs.length - cap)).head? = some oldest →
      (evs.drop (evs.length - cap)).getLast? = some newest →
      (S > newest.rev → findSpec cap evs S = .high) ∧
      (¬ S > newest.rev → S < oldest.rev → findSpec cap evs S = .low oldest.rev) ∧
      (¬ S > newest.rev → ¬ S < oldest.rev →
        findSpec cap evs S = .events newest.rev
          ((evs.drop (evs.length - cap)).filter (fun e => decide (S ≤ e.rev))))) := by
  refine ⟨?_, ?_⟩
  · intro h; unfold findSpec; simp only []; rw [h]; rfl
  · intro oldest newest ho hn
    unfold findSpec
    simp only []
    rw [ho, hn]
    refine ⟨fun h => by simp [h], fun h1 h2 => by simp [h1, h2], fun h1 h2 => by simp [h1, h2]⟩

example : SortedRev [⟨.create, 5, [1], [], 5⟩, ⟨.put, 7, [1], [], 7⟩] := by
  simp [SortedRev]

/-! ### the stream of an accepted watcher -/

/-- MAIN INVARIANT. Over all schedules of the pipeline (fixed fan-out), for every watcher — whatever
its registration raced with — the sequence delivered to the client is a prefix of the specified one:
for `S > 0` of `filter (rev ≥ S ∧ hasPrefix P) (all events produced so far)`; for `S = 0` of the
`P`-filtered events from the point `subAt` on (everything not yet fanned out when it subscribed). -/
theorem watch_prefix_of_spec (c : PCfg) (hcap : 0 < c.ringCap) (s : WState) (hr : Reachable c s)
    (w : W) (hw : w ∈ s.ws) : w.delivered <+: specOf w s.produced := by
  have hg := ginv_reachable hcap hr
  have hwi := hg.ws w hw
  have hp := hwi.phase
  cases hph : w.phase with
  | live =>
    rw [hph] at hp
    obtain ⟨hs, _⟩ := hp
    rw [← hs]
    simp only [W.stream, List.append_assoc]
    exact List.prefix_append _ _
  | subscribed =>
    rw [hph] at hp
    have := List.append_eq_nil_iff.mp (List.append_eq_nil_iff.mp hp.2).1
    rw [this.1]; exact List.nil_prefix
  | cacheRead r =>
    rw [hph] at hp
    have := List.append_eq_nil_iff.mp (List.append_eq_nil_iff.mp hp.2.1).1
    rw [this.1]; exact List.nil_prefix
  | refused =>
    rw [hph] at hp
    have := List.append_eq_nil_iff.mp (List.append_eq_nil_iff.mp hp).1
    rw [this.1]; exact List.nil_prefix
  | hung =>
    rw [hph] at hp
    rw [hp]; exact List.nil_prefix

/-- non-vacuity of `watch_prefix_of_spec` (and of the hand-over from cache to live): watcher 0 (S = 1)
subscribes after event 1 was fanned out; event 2 is produced before, event 3 after the cache read, both
reach it through its subscription in one batch; the decision hands out the cached [1, 2] and sets the
live filter to 3: the duplicate of 2 is dropped, the client sees 1, 2, 3. -/
example :
    let c : PCfg := { ringCap := 2, subCap := 4, outCap := 4 }
    let e (r : Nat) : Event := ⟨.create, r, [1], [], r⟩
    let sched : List Watch.Act :=
      [.produce (e 1), .flush, .fanout, .subscribe [] 1, .produce (e 2), .readCache 0, .produce (e 3), .flush,
       .decide 0, .fanout, .forward 0, .forward 0, .consume 0, .consume 0]
    (∀ a ∈ sched, a.fixed = true) ∧
    (run c (WState.init c) sched).ws.map (fun w => (w.from_, w.delivered.map (·.rev))) = [(3, [1, 2, 3])] := by
  decide

/-- the two readings of the specification -/
theorem spec_pos (w : W) (h : w.start ≠ 0) (E : List Event) :
    specOf w E = E.filter (fun e => decide (w.start ≤ e.rev) && hasPrefix e.key w.pfx) := by
  simp [specOf, h, matches_]

theorem spec_zero (w : W) (h : w.start = 0) (E : List Event) :
    specOf w E = (E.drop w.subAt).filter (fun e => hasPrefix e.key w.pfx) := by
  simp only [specOf, h, if_true]; rfl

/-- `S = 0`: the point from which events are delivered is not after the subscription: every event
produced after `AddWatcher` returned is part of the specified stream. -/
theorem zero_start_covers_everything_after_subscription (c : PCfg) (hcap : 0 < c.ringCap) (s : WState)
    (hr : Reachable c s) (w : W) (hw : w ∈ s.ws) :
    w.subAt ≤ w.subProduced ∧ w.subProduced ≤ s.produced.length :=
  ((ginv_reachable hcap hr).ws w hw).subLe

/-- strictly increasing revisions, hence no duplicate; every delivered event is a produced one that
matches (right kind, key, value, previous revision: the `Event` itself) -/
theorem delivered_strictly_increasing (c : PCfg) (hcap : 0 < c.ringCap) (s : WState) (hr : Reachable c s)
    (w : W) (hw : w ∈ s.ws) : SortedRev w.delivered ∧ ∀ e ∈ w.delivered, e ∈ s.produced ∧ hasPrefix e.key w.pfx = true ∧ w.start ≤ e.rev := by
  have hpre := watch_prefix_of_spec c hcap s hr w hw
  have hsort := (ginv_reachable hcap hr).sorted
  have hsub : (specOf w s.produced).Sublist s.produced := by
    unfold specOf
    split
    · exact (List.filter_sublist).trans (List.drop_sublist _ _)
    · exact List.filter_sublist
  refine ⟨List.Pairwise.sublist (hpre.sublist.trans hsub) hsort, ?_⟩
  intro e he
  have hmem : e ∈ specOf w s.produced := hpre.subset he
  unfold specOf at hmem
  split at hmem
  · rename_i h0
    have := List.mem_filter.mp hmem
    exact ⟨List.mem_of_mem_drop this.1, by simpa [matches_] using this.2, by omega⟩
  · have := List.mem_filter.mp hmem
    have h2 := this.2
    simp only [Bool.and_eq_true, decide_eq_true_eq, matches_] at h2
    exact ⟨this.1, h2.2, h2.1⟩

/-- no gap at quiescence: a live watcher whose subscription is still open has, once the pipeline is
drained (nothing in flight, nothing buffered), received the COMPLETE specified stream. -/
theorem complete_when_drained (c : PCfg) (hcap : 0 < c.ringCap) (s : WState) (hr : Reachable c s)
    (w : W) (hw : w ∈ s.ws) (hl : w.phase.isLive = true) (hopen : w.subClosed = false)
    (hq : inflight s = []) (h1 : w.sub = []) (h2 : w.hand = []) (h3 : w.out = []) :
    w.delivered = specOf w s.produced := by
  have hwi := (ginv_reachable hcap hr).ws w hw
  obtain ⟨rest, hr1, hr2⟩ := hwi.rest
  have hp := hwi.phase
  cases hph : w.phase with
  | live =>
    rw [hph] at hp
    obtain ⟨hs, _⟩ := hp
    rw [hr2 hopen, hq, h1] at hr1
    simp only [List.flatten_nil, List.append_nil] at hr1
    rw [← hr1] at hs
    simpa [W.stream, h2, h3] using hs
  | subscribed => simp [hph, Phase.isLive] at hl
  | cacheRead r => simp [hph, Phase.isLive] at hl
  | refused => simp [hph, Phase.isLive] at hl
  | hung => simp [hph, Phase.isLive] at hl

/-- a refused (or hung) watch delivers nothing -/
theorem refused_delivers_nothing (c : PCfg) (hcap : 0 < c.ringCap) (s : WState) (hr : Reachable c s)
    (w : W) (hw : w ∈ s.ws) (h : w.phase.isLive = false) : w.delivered = [] := by
  have hpre := watch_prefix_of_spec c hcap s hr w hw
  have hp := ((ginv_reachable hcap hr).ws w hw).phase
  cases hph : w.phase with
  | live => simp [hph, Phase.isLive] at h
  | subscribed =>
    rw [hph] at hp
    exact (List.append_eq_nil_iff.mp (List.append_eq_nil_iff.mp hp.2).1).1
  | cacheRead r =>
    rw [hph] at hp
    exact (List.append_eq_nil_iff.mp (List.append_eq_nil_iff.mp hp.2.1).1).1
  | refused =>
    rw [hph] at hp
    exact (List.append_eq_nil_iff.mp (List.append_eq_nil_iff.mp hp).1).1
  | hung => rw [hph] at hp; exact hp

/-- `catchUpEvents` never blocks with the constants of the source (regenerated: `resultChanLength`,
`eventBatchSize`): whatever the number of cached events, the catch-up loop terminates and cuts them into
at most `resultChanLength` batches, so the `hung` phase of the model is unreachable for the real
capacities. -/
theorem catch_up_never_blocks (ringCap subCap : Nat) (evs : List Event) :
    let c : PCfg := { ringCap := ringCap, subCap := subCap }
    ∃ chunks, catchUpChunks c evs = some chunks ∧ chunks.length ≤ c.outCap := by
  intro c
  have hout : c.outCap = 100 := rfl
  have hb : c.batchMax = 300 := rfl
  unfold catchUpChunks
  by_cases he : evs.isEmpty = true
  · exact ⟨[], by simp [he], by simp⟩
  · simp only [he, Bool.false_eq_true, if_false]
    have hne : evs.length ≠ 0 := by
      intro h0; exact he (List.isEmpty_iff.mpr (List.length_eq_zero_iff.mp h0))
    unfold catchUpBatch
    rw [hout, hb]
    by_cases hbig : evs.length > 100 * 300
    · simp only [hbig, if_true]
      have hpos : evs.length / (100 - 1) ≠ 0 := by omega
      simp only [hpos, if_false]
      exact ⟨_, rfl, cuLoop_length_le _ (by omega) 99 _ _ (by omega)⟩
    · simp only [hbig, if_false]
      have h300 : (300 : Nat) ≠ 0 := by omega
      simp only [h300, if_false]
      exact ⟨_, rfl, cuLoop_length_le 300 (by omega) 99 _ _ (by omega)⟩

theorem decision_is_live_or_refused (ringCap subCap committed : Nat) (w : W) (ret : FindRet)
    (hph : w.phase = .cacheRead ret) :
    let c : PCfg := { ringCap := ringCap, subCap := subCap }
    (w.decide c committed).phase.isLive = true ∨ (w.decide c committed).phase.isRefused = true := by
  intro c
  unfold W.decide
  rw [hph]
  simp only
  cases decideRet w.pfx w.start committed ret with
  | refuse => right; rfl
  | live f cu =>
    obtain ⟨chunks, h1, h2⟩ := catch_up_never_blocks ringCap subCap cu
    left
    simp only [c, h1, h2, if_true]
    rfl

/-! ### overflow -/

/-- Once a batch was not delivered to a subscriber (its buffer was full: ghost `missed`), the
subscription is closed in the same step, and from then on — over every continuation of the schedule —
nothing is ever put into it again: its queue only shrinks, and for a live watcher the totality of what
the client has received or will receive (`W.total`: delivered ++ result channel ++ batch in hand ++
filtered queue) never changes, so the stream only drains what it already had (a prefix of the
specification by `watch_prefix_of_spec`) and can then only close. -/
theorem no_continue_after_gap (c : PCfg) (hcap : 0 < c.ringCap) (s : WState) (hr : Reachable c s)
    (i : Nat) (w : W) (hw : s.ws[i]? = some w) (hm : w.missed = true)
    (sched : List Watch.Act) (hfix : ∀ a ∈ sched, a.fixed = true) :
    w.subClosed = true ∧
    ∃ w', (run c s sched).ws[i]? = some w' ∧ w'.subClosed = true ∧ w'.sub <:+ w.sub ∧
      (w.phase.isLive = true → w'.total = w.total ∧ w.delivered <+: w'.delivered ∧ w'.delivered <+: w.total) := by
  have hwi := (ginv_reachable hcap hr).ws w (List.mem_of_getElem? hw)
  have hc := hwi.closed hm
  refine ⟨hc, ?_⟩
  obtain ⟨w', hw', hf⟩ := frozen_run c sched hfix hw hc
  refine ⟨w', hw', hf.closed, hf.sub, fun hl => ?_⟩
  obtain ⟨_, ht, hp⟩ := hf.live hl
  refine ⟨ht, hp, ?_⟩
  rw [← ht]
  simp only [W.total, W.stream, List.append_assoc]
  exact List.prefix_append _ _

/-- when the frozen stream has been drained, the next step of `processEvents` closes the result channel -/
theorem closed_after_drain (c : PCfg) (w : W) (hl : w.phase.isLive = true) (hc : w.subClosed = true)
    (h1 : w.sub = []) (h2 : w.hand = []) (h3 : w.outClosed = false) : (w.forward c).outClosed = true := by
  simp [W.forward, hl, hc, h1, h2, h3]

/-- hypotheses of `no_continue_after_gap` are satisfiable: a watcher with a one-slot buffer misses the
second batch (and is closed at once) -/
example :
    let c : PCfg := { ringCap := 4, subCap := 1, outCap := 1 }
    let e1 : Event := ⟨.create, 1, [1], [], 1⟩
    let e2 : Event := ⟨.create, 2, [1], [], 2⟩
    let s := run c (WState.init c)
      [.subscribe [] 0, .readCache 0, .produce e1, .flush, .fanout, .produce e2, .flush, .fanout]
    s.ws.map (fun w => (w.missed, w.subClosed, w.sub.length)) = [(true, true, 1)] := by decide

/-! ### refusal -/

/-- the decision table refuses exactly in the `low` case and in the empty-and-not-future case -/
theorem decide_refuses_iff (pfx : Bytes) (S committed : Nat) (ret : FindRet) :
    (∀ f cu, decideRet pfx S committed ret ≠ .live f cu) ↔
    ((∃ o, ret = .low o) ∨ (ret = .empty ∧ S ≤ committed)) := by
  cases ret with
  | empty =>
    by_cases h : S > committed
    · have : decideRet pfx S committed .empty = .live S [] := by simp [decideRet, h]
      constructor
      · intro hh; exact absurd this (hh S [])
      · rintro (⟨o, ho⟩ | ⟨_, hle⟩)
        · cases ho
        · omega
    · have : decideRet pfx S committed .empty = .refuse := by simp [decideRet, h]
      constructor
      · intro _; exact .inr ⟨rfl, by omega⟩
      · intro _ f cu hh; rw [this] at hh; cases hh
  | high =>
    constructor
    · intro hh; exact absurd rfl (hh S [])
    · rintro (⟨o, ho⟩ | ⟨he, _⟩)
      · cases ho
      · cases he
  | low o =>
    constructor
    · intro _; exact .inl ⟨o, rfl⟩
    · intro _ f cu hh; cases hh
  | events n evs =>
    constructor
    · intro hh
      by_cases hc : (evs.filter (matches_ pfx)).isEmpty = true
      · exact absurd (by simp [decideRet, hc]) (hh S [])
      · exact absurd (by simp [decideRet, hc]) (hh (n + 1) (evs.filter (matches_ pfx)))
    · rintro (⟨o, ho⟩ | ⟨he, _⟩)
      · cases ho
      · cases he

theorem findSpec_empty_iff (cap : Nat) (evs : List Event) (S : Nat) :
    findSpec cap evs S = .empty ↔ evs.drop (evs.length - cap) = [] := by
  unfold findSpec
  simp only []
  generalize evs.drop (evs.length - cap) = win
  cases win with
  | nil => simp
  | cons x xs =>
    have hne : (x :: xs) ≠ [] := by simp
    cases hl : (x :: xs).getLast? with
    | none => exact absurd (List.getLast?_eq_none_iff.mp hl) hne
    | some n =>
      simp only [List.head?_cons]
      constructor
      · intro h
        split at h
        · cases h
        · split at h <;> cases h
      · intro h; cases h

theorem findSpec_low_iff (cap : Nat) (evs : List Event) (S : Nat) (hs : SortedRev evs) :
    (∃ o, findSpec cap evs S = .low o) ↔
    ∃ oldest, (evs.drop (evs.length - cap)).head? = some oldest ∧ S < oldest.rev := by
  have hsw : SortedRev (evs.drop (evs.length - cap)) := List.Pairwise.sublist (List.drop_sublist _ _) hs
  unfold findSpec
  simp only []
  generalize evs.drop (evs.length - cap) = win at hsw
  cases win with
  | nil => simp
  | cons x xs =>
    have hne : (x :: xs) ≠ [] := by simp
    cases hl : (x :: xs).getLast? with
    | none => exact absurd (List.getLast?_eq_none_iff.mp hl) hne
    | some n =>
      have hle : x.rev ≤ n.rev := sorted_le_last hsw hl x (by simp)
      simp only [List.head?_cons]
      by_cases h1 : S > n.rev
      · simp only [h1, if_true]
        constructor
        · rintro ⟨o, ho⟩; cases ho
        · rintro ⟨o, ho, hlt⟩; injection ho with ho; subst ho; omega
      · simp only [h1, if_false]
        by_cases h2 : S < x.rev
        · simp only [h2, if_true]
          exact ⟨fun _ => ⟨x, rfl, h2⟩, fun _ => ⟨_, rfl⟩⟩
        · simp only [h2, if_false]
          constructor
          · rintro ⟨o, ho⟩; cases ho
          · rintro ⟨o, ho, hlt⟩; injection ho with ho; subst ho; omega

/-- REFUSAL, over all reachable states: when `Watch` (start revision S > 0) takes its decision, it
returns an error exactly when, at the moment the cache was read, either the cache was empty (nothing
had been produced) and S is not in the future (`S ≤ committed` at decision time), or S lies below the
oldest cached event (the needed history has been evicted). In every other case — S above the newest, or
inside the window — the watch is accepted (or, if the catch-up does not fit the result channel, hangs:
impossible for the real constants, see DESIGN-C05.md). -/
theorem refused_iff (c : PCfg) (hcap : 0 < c.ringCap) (s : WState) (hr : Reachable c s)
    (i : Nat) (w : W) (hw : s.ws[i]? = some w) (ret : FindRet) (hph : w.phase = .cacheRead ret) :
    let cached := (s.produced.take w.readAt).drop ((s.produced.take w.readAt).length - c.ringCap)
    (∃ w', (act c s (.decide i)).ws[i]? = some w' ∧ w'.phase.isRefused = true) ↔
    ((cached = [] ∧ w.start ≤ s.committed) ∨ (∃ oldest, cached.head? = some oldest ∧ w.start < oldest.rev)) := by
  intro cached
  have hg := ginv_reachable hcap hr
  have hwi := hg.ws w (List.mem_of_getElem? hw)
  have hp := hwi.phase
  rw [hph] at hp
  obtain ⟨_, _, _, _, _, hret⟩ := hp
  have hsort2 : SortedRev cached :=
    List.Pairwise.sublist ((List.drop_sublist _ _).trans (List.take_sublist _ _)) hg.sorted
  have hstep : (act c s (.decide i)).ws[i]? = some (w.decide c s.committed) := by
    simp only [act]; rw [getElem?_updAt hw]; simp
  have href : (w.decide c s.committed).phase.isRefused = true ↔
      (∀ f cu, decideRet w.pfx w.start s.committed ret ≠ .live f cu) := by
    unfold W.decide
    rw [hph]
    simp only
    cases hd : decideRet w.pfx w.start s.committed ret with
    | refuse => simp [Phase.isRefused]
    | live f cu =>
      simp only
      constructor
      · intro h
        split at h
        · split at h <;> simp [Phase.isRefused] at h
        · simp [Phase.isRefused] at h
      · intro h; exact absurd rfl (h f cu)
  have hiff : (∃ w', (act c s (.decide i)).ws[i]? = some w' ∧ w'.phase.isRefused = true) ↔
      (w.decide c s.committed).phase.isRefused = true := by
    constructor
    · rintro ⟨w', hw', hrf⟩
      rw [hstep] at hw'
      injection hw' with hw'
      subst hw'; exact hrf
    · intro h; exact ⟨_, hstep, h⟩
  rw [hiff, href, decide_refuses_iff, hret, findSpec_empty_iff,
    findSpec_low_iff _ _ _ (List.Pairwise.sublist (List.take_sublist _ _) hg.sorted)]
  exact Or.comm

/-- hypotheses of `refused_iff` are satisfiable, and both sides hold: with a one-slot cache holding
event 2, a watch from revision 1 is refused -/
example :
    let c : PCfg := { ringCap := 1, subCap := 4, outCap := 4 }
    let e (r : Nat) : Event := ⟨.create, r, [1], [], r⟩
    let s := run c (WState.init c) [.produce (e 1), .produce (e 2), .subscribe [] 1, .readCache 0]
    (s.ws.map (fun w => (w.readAt, match w.phase with | .cacheRead (.low o) => o | _ => 0)) = [(2, 2)]) ∧
    ((act c s (.decide 0)).ws.map (fun w => w.phase.isRefused) = [true]) := by
  decide

/-! ### the pre-fix defect -/

/-- WITNESS of the negation for the code BEFORE d65a4b9 (`go w.DeleteWatcher(sub, true)` in the slow
branch; model actions `fanoutAsync` + `deleteRun`): watcher 0 (S = 1, one-slot buffers) misses event 2
because its buffer is full, `processEvents` then frees a slot, event 3 is fanned out to the
still-registered subscriber, and only then the spawned deletion runs. The client receives 1, 3: the
stream continued past an event it did not deliver. -/
def asyncSchedule : List Watch.Act :=
  let e (r : Nat) : Event := ⟨.create, r, [1], [], r⟩
  [.subscribe [] 1, .readCache 0, .decide 0,
   .commit 1, .produce (e 1), .flush, .fanoutAsync,
   .commit 2, .produce (e 2), .flush, .fanoutAsync,      -- buffer full: `go DeleteWatcher` spawned, event 2 missed
   .forward 0,                                           -- processEvents takes event 1 in hand: one free slot
   .commit 3, .produce (e 3), .flush, .fanoutAsync,      -- event 3 is delivered to the dropped subscriber
   .deleteRun 0,                                         -- the deletion finally runs
   .forward 0, .consume 0, .forward 0, .forward 0, .consume 0, .forward 0]

def asyncCfg : PCfg := { ringCap := 4, subCap := 1, outCap := 1 }

theorem async_delete_continues_after_gap :
    let s := run asyncCfg (WState.init asyncCfg) asyncSchedule
    s.produced.map (·.rev) = [1, 2, 3] ∧
    s.ws.map (fun w => (w.start, w.missed, w.outClosed, w.delivered.map (·.rev),
                        (specOf w s.produced).map (·.rev))) = [(1, true, true, [1, 3], [1, 2, 3])] := by
  decide

/-- the same schedule with the fixed fan-out (the deletion is part of the fan-out step): the stream
stops at the gap -/
theorem fixed_fanout_stops_at_gap :
    let sched := asyncSchedule.map (fun a => match a with | .fanoutAsync => Watch.Act.fanout | a => a)
    let s := run asyncCfg (WState.init asyncCfg) sched
    s.ws.map (fun w => (w.missed, w.outClosed, w.delivered.map (·.rev))) = [(true, true, [1])] := by
  decide

end KB.C05
