/-
  C20 (request part) — no request can crash or wedge a node.
  The model's handlers are total functions over ALL request structures (any bytes, any revision), so
  "answers with a response or an error" holds of the model by construction; the substantive statements
  are: (1) hostile revisions (negative through the etcd API = huge after the uint64 cast, far-future,
  zero) take the rejection path and their revision is still resolved; (2) after ANY schedule of ANY
  requests the node keeps serving: once in-flight requests have returned the read revision catches up
  (C04) and a following create + read of a fresh key behaves normally; (3) `Decode`'s slice-bound
  panics are not reachable from stored internal keys.
-/
import KB.Lemmas.Serve
namespace KB.C20Requests
open KB Generated

/-- `uint64(x)` for an `int64` x, as in backendshim.go / watch.go. -/
def castRev (x : Int) : Nat := (x % (2 ^ 64 : Int)).toNat

theorem cast_nonneg (x : Int) (h0 : 0 ≤ x) (h1 : x < 2 ^ 63) : castRev x = x.toNat := by
  sorry

/-- A negative etcd revision becomes a revision at or above 2^63: beyond anything ever dealt. -/
theorem cast_negative_is_far_future (x : Int) (hx : x < 0) (hlo : -(2 ^ 63 : Int) ≤ x) :
    2 ^ 63 ≤ castRev x ∧ castRev x < 2 ^ 64 := by
  sorry

/-- Such a guarded update is rejected with the drift error in its very first step, and the revision it
consumed is reported to the sequencer (slot filled): it cannot wedge the node. -/
theorem far_future_update_rejected_and_resolved (g : G) (id : Nat) (k v : Bytes) (exp : Nat)
    (hfree : g.client id = none) (hexp : g.dealt + 1 < exp) :
    let g' := run g [.begin id (.update k v exp), .step id .none]
    g'.client id = none ∧ (∃ d ∈ g'.done, d.id = id ∧ d.res = .error .drift ∧ d.rev = g.dealt + 1) ∧
    (∃ w ∈ g'.slots, w.rev = g.dealt + 1 ∧ w.valid = false) := by
  sorry

/-- Same for a guarded delete of an existing key. -/
theorem far_future_delete_rejected_and_resolved (g : G) (id : Nat) (k : Bytes) (exp : Nat)
    (hfree : g.client id = none) (hexp : g.dealt + 1 < exp) (v : Bytes) (m : Nat)
    (hfound : bget g.cfg g.store k 0 = .found v m) :
    let g' := run g [.begin id (.delete k exp), .step id .none, .step id .none]
    g'.client id = none ∧ (∃ d ∈ g'.done, d.id = id ∧ d.res = .error .drift ∧ d.rev = g.dealt + 1) ∧
    (∃ w ∈ g'.slots, w.rev = g.dealt + 1 ∧ w.valid = false) := by
  sorry

/-- Keeps serving: in ANY state reachable by ANY requests (hostile or not, with storage faults), once
nothing is in flight, a create of a key that has no index record succeeds at the next revision, the
sequencer then makes it readable (committed reaches it), and the point read returns it. -/
theorem probe_after_anything {g0 g : G} (h0 : C02.Init g0) (hs : C02.StoreOK g0) (hr : Reachable g0 g)
    (hq : g.clients = []) (hb : g.dealt + 1 < 2 ^ 64) (hcm : g.cfg.q.casMissingNotFound = false)
    (id : Nat) (k v : Bytes) (hk : Alphabet k) (hv : v ≠ tombstone)
    (hfresh : g.store.get (idxKey k) = none) :
    let g1 := run g ([.begin id (.create k v), .step id .none, .step id .none] ++
                      List.replicate (g.dealt + 1 - g.committed) Action.seq)
    (∃ d ∈ g1.done, d.id = id ∧ d.res = .ok (g.dealt + 1)) ∧ g1.committed = g.dealt + 1 ∧
    bget g1.cfg g1.store k 0 = .found v (g.dealt + 1) := by
  sorry

/-- `Decode` never panics on what the store holds: every internal key written by the backend is an
`encode k r`, which is at least 13 bytes long and decodes. -/
theorem stored_keys_decode (k : Bytes) (r : Nat) (hr : r < 2 ^ 64) :
    decode (encode k r) = .ok k r ∧ 13 ≤ (encode k r).length := by
  sorry

/-- and the two raw records outside the magic range (`<prefix>/compact_key`) are never handed to
`Decode` by a scan of an object range: they do not lie between two encoded bounds. -/
theorem compact_key_outside_object_ranges (c : Cfg) (a b : Bytes) (ha : Alphabet a) (hb : Alphabet b)
    (h0 : c.pfx.head? ≠ some 87) :
    ¬ (ble (encode a 0) (compactKeyOf c) = true ∧ blt (compactKeyOf c) (encode b 0) = true) := by
  sorry

end KB.C20Requests
