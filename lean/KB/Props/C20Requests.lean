/-
  C20 (request part) — no request can crash or wedge a node.
  The model's handlers are total functions over ALL request structures (any bytes, any revision), so
  "answers with a response or an error" holds of the model by construction; the substantive statements
  are: (1) hostile revisions (negative through the etcd API = huge after the uint64 cast, far-future,
  zero) take the rejection path and their revision is still resolved; (2) after ANY schedule of ANY
  requests the node keeps serving: once in-flight requests have returned the read revision catches up
  (C04) and a following create + read of a fresh key behaves normally; (3) since /repo 5ace897 `Decode`
  reports a key too short to be an internal key instead of indexing out of range: NO key in the store and NO
  partition border (client-supplied range-stream borders of 1, 4, 12 bytes included) makes a range read, a
  count or a streamed range panic — `list_never_panics`, `stream_with_any_borders_never_panics`; the one panic
  left in the backend model is characterised (`compact_panics_only_in_ttl_pass`).
-/
import KB.Lemmas.Serve
import KB.Lemmas.Total
namespace KB.C20Requests
open KB Generated

/-- `uint64(x)` for an `int64` x, as in backendshim.go / watch.go. -/
def castRev (x : Int) : Nat := (x % (2 ^ 64 : Int)).toNat

theorem cast_nonneg (x : Int) (h0 : 0 ≤ x) (h1 : x < 2 ^ 63) : castRev x = x.toNat := by
  unfold castRev
  have e : (2 : Int) ^ 64 = 18446744073709551616 := by decide
  have e3 : (2 : Int) ^ 63 = 9223372036854775808 := by decide
  rw [e]; rw [e3] at h1
  rw [Int.emod_eq_of_lt h0 (by omega)]

/-- A negative etcd revision becomes a revision at or above 2^63: beyond anything ever dealt. -/
theorem cast_negative_is_far_future (x : Int) (hx : x < 0) (hlo : -(2 ^ 63 : Int) ≤ x) :
    2 ^ 63 ≤ castRev x ∧ castRev x < 2 ^ 64 := by
  unfold castRev
  have e : (2 : Int) ^ 64 = 18446744073709551616 := by decide
  have e3 : (2 : Int) ^ 63 = 9223372036854775808 := by decide
  have n : (2 : Nat) ^ 64 = 18446744073709551616 := by decide
  have n3 : (2 : Nat) ^ 63 = 9223372036854775808 := by decide
  rw [e]; rw [e3] at hlo; rw [n, n3]
  omega

/-- Such a guarded update is rejected with the drift error in its very first step, and the revision it
consumed is reported to the sequencer (slot filled): it cannot wedge the node. The drift path is taken by
every expectation at or above the revision the request is dealt (`dealt + 1 ≤ exp`; backend.go `deal`:
`rev <= prevRevision`), the boundary case included. `hopen`: the request is dealt a revision at all - since /repo
624b477 `Deal` refuses while the sequencer's ring is full, and then NO revision is consumed
(`C04.window_full_is_refused_not_panicked`): 100000 such requests behind one slow write no longer kill the node. -/
theorem far_future_update_rejected_and_resolved (g : G) (id : Nat) (k v : Bytes) (exp : Nat)
    (hfree : g.client id = none) (hopen : g.windowFull = false) (hexp : g.dealt + 1 ≤ exp) :
    let g' := run g [.begin id (.update k v exp), .step id .none]
    g'.client id = none ∧ (∃ d ∈ g'.done, d.id = id ∧ d.res = .error .drift ∧ d.rev = g.dealt + 1) ∧
    (∃ w ∈ g'.slots, w.rev = g.dealt + 1 ∧ w.valid = false) := by
  intro g'
  have hg' := run_update_drift g id k v exp hfree hopen hexp
  refine ⟨?_, ?_, ?_⟩
  · show G.client (run _ _) id = none
    rw [hg']; exact hfree
  · refine ⟨{ id := id, kind := .update k v exp, res := .error .drift, rev := g.dealt + 1,
              beginDealt := g.dealt, endDealt := g.dealt + 1 }, ?_, rfl, rfl, rfl⟩
    show _ ∈ G.done (run _ _)
    rw [hg']; exact List.mem_append_right _ (List.mem_singleton.mpr rfl)
  · refine ⟨mkW (g.dealt + 1) exp false .put k v, ?_, rfl, rfl⟩
    show _ ∈ G.slots (run _ _)
    rw [hg']; exact List.mem_append_right _ (List.mem_singleton.mpr rfl)

/-- Same for a guarded delete of an existing key. -/
theorem far_future_delete_rejected_and_resolved (g : G) (id : Nat) (k : Bytes) (exp : Nat)
    (hfree : g.client id = none) (hopen : g.windowFull = false) (hexp : g.dealt + 1 ≤ exp) (v : Bytes) (m : Nat)
    (hfound : bget g.cfg g.store k 0 = .found v m) :
    let g' := run g [.begin id (.delete k exp), .step id .none, .step id .none]
    g'.client id = none ∧ (∃ d ∈ g'.done, d.id = id ∧ d.res = .error .drift ∧ d.rev = g.dealt + 1) ∧
    (∃ w ∈ g'.slots, w.rev = g.dealt + 1 ∧ w.valid = false) := by
  intro g'
  have hg' := run_delete_drift g id k exp hfree hopen hexp v m hfound
  refine ⟨?_, ?_, ?_⟩
  · show G.client (run _ _) id = none
    rw [hg']; exact hfree
  · refine ⟨{ id := id, kind := .delete k exp, res := .error .drift, rev := g.dealt + 1,
              beginDealt := g.dealt, endDealt := g.dealt + 1 }, ?_, rfl, rfl, rfl⟩
    show _ ∈ G.done (run _ _)
    rw [hg']; exact List.mem_append_right _ (List.mem_singleton.mpr rfl)
  · refine ⟨mkW (g.dealt + 1) m false .delete k v, ?_, rfl, rfl⟩
    show _ ∈ G.slots (run _ _)
    rw [hg']; exact List.mem_append_right _ (List.mem_singleton.mpr rfl)

/-- Counterexample to `probe_after_anything` as stated. From the empty initial state, request 1 creates the
hostile key `"2$\xff\xff\xff\xff\xff\xff\xff\xfe"` (it contains the split byte `$`, so it is outside the documented
alphabet) and the sequencer consumes it: the state is quiescent, `dealt = committed = 1`. The probe creates
`"2"`: the create succeeds at revision 2 and `committed` reaches 2 — but every internal key of the hostile
key lies between `("2", 2)` and `("2", 2^64-1)`, so the descending point read of `"2"` meets a record of the
other key first, decode-and-compare fails and the read answers "not found". All hypotheses of
`probe_after_anything` hold (also `v ≠ []` and the identifier is unused). -/
def cexHostile : Bytes := [50, 36, 255, 255, 255, 255, 255, 255, 255, 254]
def cexSched : List Action := [.begin 1 (.create cexHostile [1]), .step 1 .none, .step 1 .none, .seq]
def cexG : G := run {} cexSched

theorem probe_after_anything_counterexample :
    C02.Init {} ∧ C02.StoreOK {} ∧ Reachable {} cexG ∧ cexG.clients = [] ∧ cexG.dealt + 1 < 2 ^ 64 ∧
    cexG.cfg.q.casMissingNotFound = false ∧ Alphabet [50] ∧ ([1] : Bytes) ≠ tombstone ∧ ([1] : Bytes) ≠ [] ∧
    cexG.store.get (idxKey [50]) = none ∧
    (let g1 := run cexG ([.begin 7 (.create [50] [1]), .step 7 .none, .step 7 .none] ++
                      List.replicate (cexG.dealt + 1 - cexG.committed) Action.seq)
     (∃ d ∈ g1.done, d.id = 7 ∧ d.res = .ok (cexG.dealt + 1)) ∧ g1.committed = cexG.dealt + 1 ∧
     bget g1.cfg g1.store [50] 0 = .notFound 0 ∧
     bget g1.cfg g1.store [50] 0 ≠ .found [1] (cexG.dealt + 1)) := by
  refine ⟨⟨by decide, rfl, rfl, rfl⟩, ⟨[], rfl, List.Pairwise.nil, by simp, by decide⟩, ⟨cexSched, rfl⟩,
    by decide, by decide, by decide, by decide, by decide, by decide, by decide, ?_, by decide, by decide, by decide⟩
  exact ⟨⟨7, .create [50] [1], .ok 2, 2, 1, 2⟩, by decide, by decide, by decide⟩

/-- hence the statement of `probe_after_anything` is refutable -/
theorem probe_after_anything_false :
    ¬ (∀ {g0 g : G} (_ : C02.Init g0) (_ : C02.StoreOK g0) (_ : Reachable g0 g)
      (_ : g.clients = []) (_ : g.dealt + 1 < 2 ^ 64) (_ : g.cfg.q.casMissingNotFound = false)
      (id : Nat) (k v : Bytes) (_ : Alphabet k) (_ : v ≠ tombstone)
      (_ : g.store.get (idxKey k) = none),
      let g1 := run g ([.begin id (.create k v), .step id .none, .step id .none] ++
                        List.replicate (g.dealt + 1 - g.committed) Action.seq)
      (∃ d ∈ g1.done, d.id = id ∧ d.res = .ok (g.dealt + 1)) ∧ g1.committed = g.dealt + 1 ∧
      bget g1.cfg g1.store k 0 = .found v (g.dealt + 1)) := by
  intro h
  obtain ⟨h0, hs, hr, hq, hb, hcm, hk, hv, _, hfresh, _, _, _, hne⟩ := probe_after_anything_counterexample
  exact hne (h h0 hs hr hq hb hcm 7 [50] [1] hk hv hfresh).2.2

/-- Corrected statement: the same, for a store that holds only records of keys over the documented alphabet
(`hal`; true of every state reached by requests whose keys are over the alphabet, see
`probe_after_alphabet_requests`). The first two conjuncts (the create succeeds, the read revision catches up)
do not need `hal`. `hopen`: the sequencer is not a whole ring of unconsumed slots behind (`Deal` would refuse the
probe: /repo 624b477); it holds e.g. whenever the read revision has caught up. -/
theorem probe_after_anything {g0 g : G} (h0 : C02.Init g0) (hs : C02.StoreOK g0) (hr : Reachable g0 g)
    (hq : g.clients = []) (hp : g.retryPc = none) (hb : g.dealt + 1 < 2 ^ 64) (hopen : g.windowFull = false)
    (_hcm : g.cfg.q.casMissingNotFound = false)
    (hal : ∀ kv ∈ g.store, ∃ k' r, kv.1 = encode k' r ∧ Alphabet k')
    (id : Nat) (k v : Bytes) (hk : Alphabet k) (hv : v ≠ tombstone)
    (hfresh : g.store.get (idxKey k) = none) :
    let g1 := run g ([.begin id (.create k v), .step id .none, .step id .none] ++
                      List.replicate (g.dealt + 1 - g.committed) Action.seq)
    (∃ d ∈ g1.done, d.id = id ∧ d.res = .ok (g.dealt + 1)) ∧ g1.committed = g.dealt + 1 ∧
    bget g1.cfg g1.store k 0 = .found v (g.dealt + 1) :=
  probe_serves h0 hs hr hq hp hb hopen hal id k v hk hv hfresh

/-- Why `hp` ("the retry loop is not in the middle of a repair"): with no request in flight but the retry
loop between its read and its commit, the probe's create is acknowledged, yet the read revision cannot pass the
revision the repair holds until the repair commits (the probe is then served, `C04.quiescent_catches_up`). -/
def midRepairSched : List Action :=
  [.begin 1 (.create [97] [1]), .step 1 .none, .step 1 .uncApplied, .seq, .retryRead]

theorem probe_needs_idle_repair :
    let g := run {} midRepairSched
    let g1 := run g ([.begin 7 (.create [98] [1]), .step 7 .none, .step 7 .none] ++
                      List.replicate (g.dealt + 1 - g.committed) Action.seq)
    g.clients = [] ∧ g.retryPc ≠ none ∧ (∃ d ∈ g1.done, d.id = 7 ∧ d.res = .ok (g.dealt + 1)) ∧
      g1.committed < g.dealt + 1 ∧
      (run g1 [.retryCommit .none, .seq, .seq]).committed = g.dealt + 1 := by
  decide

/-- The corrected statement at the level of requests: after ANY schedule (any interleaving, any expected
revisions, any values, storage faults, retries) of requests whose keys are over the documented alphabet, once
nothing is in flight (no request, and the retry loop not in the middle of a repair), a create of a key without index record succeeds at the next revision, the read revision
catches up and the point read returns it. -/
theorem probe_after_alphabet_requests {g0 : G} (h0 : C02.Init g0) (hs : C02.StoreOK g0) (sched : List Action)
    (hsa : ∀ a ∈ sched, ∀ id kind, a = .begin id kind → Alphabet kind.key)
    (hq : (run g0 sched).clients = []) (hp : (run g0 sched).retryPc = none) (hb : (run g0 sched).dealt + 1 < 2 ^ 64)
    (hopen : (run g0 sched).windowFull = false)
    (id : Nat) (k v : Bytes) (hk : Alphabet k) (hv : v ≠ tombstone)
    (hfresh : (run g0 sched).store.get (idxKey k) = none) :
    let g := run g0 sched
    let g1 := run g ([.begin id (.create k v), .step id .none, .step id .none] ++
                      List.replicate (g.dealt + 1 - g.committed) Action.seq)
    (∃ d ∈ g1.done, d.id = id ∧ d.res = .ok (g.dealt + 1)) ∧ g1.committed = g.dealt + 1 ∧
    bget g1.cfg g1.store k 0 = .found v (g.dealt + 1) :=
  probe_serves h0 hs ⟨sched, rfl⟩ hq hp hb hopen ((AlphaInv.init h0 hs).run sched hsa).st id k v hk hv hfresh

/-- `Decode` decodes what the store holds: every internal key written by the backend is an `encode k r`, which
is at least 13 bytes long and decodes. (Before /repo 5ace897 this was what kept `Decode`'s index-out-of-range
away from stored keys; now `Decode` is total — next theorems.) -/
theorem stored_keys_decode (k : Bytes) (r : Nat) (hr : r < 2 ^ 64) :
    decode (encode k r) = .ok k r ∧ 13 ≤ (encode k r).length := by
  refine ⟨decode_encode k r hr, ?_⟩
  rw [encode_length, magic_length]; omega

/-- `Decode` is total: ANY bytes are decoded or reported, never an index out of range (/repo 5ace897). -/
theorem decode_total (ik : Bytes) : decode ik ≠ .panic ∧ (decode ik = .err ∨ ∃ k r, decode ik = .ok k r) :=
  ⟨decode_never_panics ik, KB.decode_total ik⟩

/-- Border adjustment (`adjustPartitionsBorders`) is total: ANY partition borders — whatever the engine hands
over, client-supplied bytes clipped into a region included. -/
theorem adjustBorders_total (ps : List (Bytes × Bytes)) : ∃ out, adjustBorders none ps = some out :=
  KB.adjustBorders_total none ps

/-- ... in particular a short border (1 byte, the bare magic, 12 bytes) is left alone, where the old code died
(`C10.old_decode_panics`). -/
theorem short_border_left_alone (pe : Option Bytes) (s e : Bytes) (he : e.length < 13) (rest out : List (Bytes × Bytes))
    (hne : rest ≠ []) (h : adjustBorders (some e) rest = some out) :
    adjustBorders pe ((s, e) :: rest) = some ((pe.getD s, e) :: out) := by
  rw [adjustBorders.eq_3 pe s e rest (fun h => hne h), decode_short he]
  simp [h]

/-- A STREAMED RANGE WITH ANY BORDERS NEVER PANICS: for ARBITRARY client-supplied border bytes `start`, `stop`
(`ListByStream` hands them to the scanner as they are: 1 byte, the bare magic, 12 bytes, anything), ANY
partitioning (any region borders `c.splits`, in any order), ANY store (well-formed or not), any revision — the
answer of `doStream` / `scanParts` is a result or an error, never the crash of the scan goroutine. -/
theorem stream_with_any_borders_never_panics (c : Cfg) (s : BState) (start stop : Bytes) (rev : Nat) :
    ((∃ res, doStream c s start stop rev = .ok res) ∨ (∃ e, doStream c s start stop rev = .error e)) ∧
    ((∃ outs, scanParts c s.store start stop rev = .ok outs) ∨ (∃ e, scanParts c s.store start stop rev = .error e)) :=
  ⟨ScanRes.notPanic_iff.mp (doStream_notPanic c s start stop rev),
   ScanRes.notPanic_iff.mp (scanParts_notPanic c s.store start stop rev)⟩

/-- ... `doStream` in fact always hands back a stream (a scan error becomes its terminator). -/
theorem stream_always_answers (c : Cfg) (s : BState) (start stop : Bytes) (rev : Nat) :
    ∃ res, doStream c s start stop rev = .ok res := by
  have hnp := scanParts_notPanic c s.store start stop (if rev == 0 then s.committed else rev)
  unfold doStream
  simp only []
  split
  · exact ⟨_, rfl⟩
  · exact ⟨_, rfl⟩
  · rename_i h; rw [h] at hnp; exact hnp.elim

/-- RANGE READS AND COUNTS NEVER PANIC: any store, any bounds (any bytes), any limit, any revision, any
partitioning. -/
theorem list_never_panics (c : Cfg) (s : BState) (key stop : Bytes) (rev limit : Nat) :
    ((∃ res, doList c s key stop rev limit = .ok res) ∨ (∃ e, doList c s key stop rev limit = .error e)) ∧
    ((∃ res, doCount c s key stop = .ok res) ∨ (∃ e, doCount c s key stop = .error e)) :=
  ⟨ScanRes.notPanic_iff.mp (doList_notPanic c s key stop rev limit),
   ScanRes.notPanic_iff.mp (doCount_notPanic c s key stop)⟩

/-- WHAT REMAINS ABLE TO PANIC IN THE BACKEND MODEL, and why: only a compaction, only in its TTL pass
(`compactIfExpired`, scanner.go: `binary.BigEndian.Uint64(value)` on the revision record of an event key) — on
an engine WITHOUT native TTL (TiKV), with a non-zero timeout revision, on a revision record (revision 0) of a key
under the events prefix whose value is shorter than 8 bytes. The backend writes revision-record values of 8 or 9
bytes only (C10 `parseRevision_live`, `parseRevision_deleted`), so this takes a store not written by the backend. -/
theorem compact_panics_only_in_ttl_pass (c : Cfg) (s : BState) (rev : Nat) (mask : Nat → DelOutcome)
    (h : ¬ ((∃ r, (doCompact c s rev mask).1 = .ok r) ∨ (∃ e, (doCompact c s rev mask).1 = .error e))) :
    c.q.supportTTL = false ∧
      ∃ (w : WCfg) (recs : List Rec), w.supportTTL = false ∧ w.timeout ≠ 0 ∧ w.eventsPfx = eventsPrefixOf c ∧
        ∃ r ∈ recs, r.rev = 0 ∧ isEventKey w r.key = true ∧ r.val.length < 8 :=
  doCompact_panic_source (fun hnp => h (ScanRes.notPanic_iff.mp hnp))

/-- ... never on an engine with native TTL (memkv, Badger). -/
theorem compact_never_panics_native_ttl (c : Cfg) (hq : c.q.supportTTL = true) (s : BState) (rev : Nat)
    (mask : Nat → DelOutcome) :
    (∃ r, (doCompact c s rev mask).1 = .ok r) ∨ (∃ e, (doCompact c s rev mask).1 = .error e) :=
  ScanRes.notPanic_iff.mp (doCompact_notPanic_native_ttl c hq s rev mask)

/-- The numbers: a two-region engine split at an internal key, a streamed range whose END is 1 byte, the bare
magic (4 bytes — the request that killed the process before /repo 5ace897: the TiKV adapter clips the end into
every region, `adjustPartitionsBorders` decodes it) or 12 bytes, and whose START is such bytes: each is answered
with an (empty) stream; the old `Decode` indexed out of range on the very same borders. -/
theorem short_border_stream_witness :
    let c : Cfg := { q := Quirks.tikv, splits := [encode [47, 114, 47, 98] 0] }
    let s : BState := { ring := Ring.new 1, dealt := 1000, committed := 1000, store := [(encode [47, 114, 47, 97] 5, [1])] }
    (∀ b ∈ [[47], magic, magic ++ [36, 0, 0, 0, 0, 0, 0, 0]],
      (match doStream c s [47, 114, 47] b 0 with | .ok r => r.endErr == none | _ => false) = true ∧
      (match doStream c s b [47, 114, 48] 0 with | .ok r => r.endErr == none | _ => false) = true) ∧
    decodeOld [47] = .panic ∧ decodeOld magic = .panic := by
  decide

/-- and the two raw records outside the magic range (`<prefix>/compact_key`) are never handed to
`Decode` by a scan of an object range: they do not lie between two encoded bounds. -/
theorem compact_key_outside_object_ranges (c : Cfg) (a b : Bytes) (ha : Alphabet a) (hb : Alphabet b)
    (h0 : c.pfx.head? ≠ some 87) :
    ¬ (ble (encode a 0) (compactKeyOf c) = true ∧ blt (compactKeyOf c) (encode b 0) = true) := by
  have _ := ha; have _ := hb
  rintro ⟨h1, h2⟩
  rw [ble_iff] at h1
  rw [blt_iff] at h2
  cases hp : c.pfx with
  | nil =>
    apply h1
    simp [compactKeyOf, hp, encode, magic, cmp_cons_cons]
  | cons x xs =>
    rw [hp] at h0
    simp only [List.head?_cons, ne_eq, Option.some.injEq] at h0
    simp only [compactKeyOf, hp, encode, magic, List.cons_append, cmp_cons_cons] at h1 h2
    by_cases hx : x < 87
    · simp [hx] at h1
      omega
    · have : 87 < x := by omega
      simp [this, hx] at h2

/-! Non-vacuity of the implications added with /repo 5ace897. -/
example : ([87, 251, 128, 139] : Bytes).length < 13 ∧ ([(([1] : Bytes), ([2] : Bytes))] : List (Bytes × Bytes)) ≠ [] ∧
    adjustBorders (some [87, 251, 128, 139]) [([1], [2])] = some [([87, 251, 128, 139], [2])] := by decide
-- compact_panics_only_in_ttl_pass: its hypothesis (the compaction is answered with neither a result nor an error) occurs —
-- TiKV, a mark older than the TTL, a revision record of an event key with a 1-byte value
example : ¬ ((∃ r, (doCompact { q := Quirks.tikv, pfx := [47, 114], ttl := 1 }
      { ring := Ring.new 4, dealt := 1000, committed := 1000, marks := [(900, 0)], now := 10,
        store := [(encode [47, 114, 47, 101, 118, 101, 110, 116, 115, 47, 120] 0, [1])] } 950 (fun _ => .ok)).1 = .ok r) ∨
    (∃ e, (doCompact { q := Quirks.tikv, pfx := [47, 114], ttl := 1 }
      { ring := Ring.new 4, dealt := 1000, committed := 1000, marks := [(900, 0)], now := 10,
        store := [(encode [47, 114, 47, 101, 118, 101, 110, 116, 115, 47, 120] 0, [1])] } 950 (fun _ => .ok)).1 = .error e)) := by
  rw [← ScanRes.notPanic_iff]
  decide
example : Quirks.memkv.supportTTL = true ∧ Quirks.badger.supportTTL = true ∧ Quirks.tikv.supportTTL = false := by decide

end KB.C20Requests
