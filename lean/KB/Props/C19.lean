/-
  C19 — "Concurrent requests are free of data races" (level: PARTIAL).

  GENERIC (KB.Locks, proved for ALL traces): `lock_discipline_race_free` — in the abstract trace model
  (threads; acquire / release of mutexes and RW-mutexes; sync/atomic operations; plain reads / writes;
  happens-before = program order + write-release → acquire + read-release → write-acquire + atomic → later
  atomic on the same location; lock semantics = mutual exclusion, `WellFormed`, itself derived from an
  operational lock machine, `accepted_wellFormed`), a location whose accesses obey the static discipline
    (A) only sync/atomic accesses, or (B) one common lock held at every access, exclusively at every write,
    or (C) read-only once shared, — each up to thread-confined / pre-publication accesses —
  has no data race in any trace that conforms to the table.
  INSTANCE (finite quantifier: all syntactic accesses to the tracked fields, regenerated from /repo by
  harness/cmd/kbextract/locks.go on every run): `lock_table_disciplined_partial` by `decide`;
  the FULL instance `LockTableDisciplined` is false on the current tree — `lock_table_offenders` lists
  exactly the locations that violate the discipline:
    * scanner.compactRecordQueue.list  (container/list behind scanner.compactHistories: pushed by every
      Compact, no lock; two concurrent Compact requests race — reproduced with `go test -race`),
    * leader.leaderElection.leader     (plain bool written by the election callbacks, read by every request),
    * election.resourceLock.record/tso (rewritten by the election loop on every renewal, read by Describe()
      from request goroutines; the address of `record` is also handed to client-go),
    * etcd.watcher.watches             (`len(w.watches)` read after Unlock in watcher.Start)
  — all four reproduced by the race detector (harness/racetest, `bin/check C19`).
  TRUSTED (this is why the level is partial): the extractor's lexical lock analysis and its `Conforms`
  reading (the listed locks really are held, on the same owner object, whenever the access executes);
  the memkv batch protocol's client obligations; thread-confinement / pre-publication claims; the
  abstract memory model (channel, WaitGroup, Once and goroutine-start edges are not modelled: fewer
  happens-before edges than Go, so the model errs towards reporting races); only the tracked fields
  are covered; third-party engines (badger, tikv client) and third-party data structures' internals are
  out of scope (the skip list and container/list are treated as single locations).
-/
import KB.Locks
import KB.Generated.LockTable
namespace KB.C19
open KB KB.Locks KB.Generated

/-! ### the generic theorem -/

/-- If every non-confined access to a location is atomic, or every such access holds one common lock
(exclusively when writing), or every such access is a read, then no well-formed trace conforming to the
table has a data race on that location. -/
theorem lock_discipline_race_free (tbl : List Access) (tr : Trace)
    (hwf : WellFormed tr) (hc : Conforms tbl tr)
    (x : Loc) (hd : locDisciplined tbl x.field = true) : RaceFreeOn tr x :=
  disciplined_no_race tbl tr hwf hc x hd

/-- whole-table form, with an exception list -/
theorem lock_discipline_race_free_table (tbl : List Access) (except : List Name)
    (hd : tableDisciplinedExcept tbl except = true)
    (tr : Trace) (hwf : WellFormed tr) (hc : Conforms tbl tr)
    (x : Loc) (hx : x.field ∉ except) : RaceFreeOn tr x :=
  table_disciplined_no_race tbl except hd tr hwf hc x hx

/-- the same for traces accepted by the operational lock machine (mutual exclusion is then a theorem,
not a hypothesis) -/
theorem lock_discipline_race_free_operational (tbl : List Access) (except : List Name)
    (hd : tableDisciplinedExcept tbl except = true)
    (tr : Trace) (hacc : Accepted tr) (hc : Conforms tbl tr)
    (x : Loc) (hx : x.field ∉ except) : RaceFreeOn tr x :=
  table_disciplined_no_race tbl except hd tr (accepted_wellFormed tr hacc) hc x hx

/-! ### the instance: the lock table of the current tree -/

/-- every access to a tracked field was classified, every lock expression typed -/
theorem lock_table_resolved : lockTableUnresolved = [] := by decide

/-- every tracked location occurs in the table -/
theorem lock_table_covers : (lockTableLocations.all fun x => (fieldsOf lockTable).contains x) = true := by
  decide +kernel

/-- THE FULL INSTANCE: every tracked location obeys the discipline. FALSE on the current tree. -/
def LockTableDisciplined : Prop := tableDisciplined lockTable = true

/-- the locations that violate the discipline on the current tree -/
def offending : List Name :=
  [b!"election.resourceLock.record", b!"election.resourceLock.tso", b!"etcd.watcher.watches",
   b!"leader.leaderElection.leader", b!"scanner.compactRecordQueue.list"]

/-- PARTIAL INSTANCE (finite quantifier: all syntactic accesses): every tracked location except the
offending ones obeys the discipline. -/
theorem lock_table_disciplined_partial : tableDisciplinedExcept lockTable offending = true := by
  decide +kernel

/-- WITNESS: exactly the offending locations violate the discipline … -/
theorem lock_table_offenders : undisciplined lockTable = offending := by decide +kernel

/-- … hence the full instance does not hold. -/
theorem lock_table_not_disciplined : ¬ LockTableDisciplined := by
  have h : tableDisciplined lockTable = false := by decide +kernel
  intro h'
  rw [LockTableDisciplined, h] at h'
  exact absurd h' (by decide)

/-- C19 on the current tree, partial: in every execution (trace accepted by the lock machine) that
conforms to the extracted table, no tracked location other than the offending ones has a data race. -/
theorem tracked_locations_race_free_partial (tr : Trace) (hacc : Accepted tr) (hc : Conforms lockTable tr)
    (x : Loc) (hx : x.field ∉ offending) : RaceFreeOn tr x :=
  lock_discipline_race_free_operational lockTable offending lock_table_disciplined_partial tr hacc hc x hx

/-! ### satisfiability of the hypotheses, non-vacuity of the conclusion (details in KB.Locks) -/

example : locDisciplined exTbl b!"f" = true ∧ Accepted exTrace ∧ WellFormed exTrace ∧ Conforms exTbl exTrace :=
  ⟨exTbl_disciplined, exTrace_accepted, exTrace_wf, exTrace_conforms⟩
example : RaceFreeOn exTrace exLoc := lock_discipline_race_free exTbl exTrace exTrace_wf exTrace_conforms exLoc exTbl_disciplined
/-- two unlocked plain writes by different threads ARE a race in the model -/
example : RaceOn exBad exLoc 0 1 := exBad_race

end KB.C19
