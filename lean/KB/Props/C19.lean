/-
  C19 — "Concurrent requests are free of data races" (level: PARTIAL).

  GENERIC (KB.Locks, proved for ALL traces): `lock_discipline_race_free` — in the abstract trace model
  (threads; acquire / release of mutexes and RW-mutexes; sync/atomic operations; plain reads / writes;
  happens-before = program order + write-release → acquire + read-release → write-acquire + atomic → later
  atomic on the same location; lock semantics = mutual exclusion, `WellFormed`, itself derived from an
  operational lock machine, `accepted_wellFormed`), a location whose accesses obey the static discipline
    (A) only sync/atomic accesses, or (B) one common lock held at every access, exclusively at every write,
    or (C) read-only once shared, — each up to thread-confined / pre-publication accesses —
  has no data race in any trace that conforms to the table.
  INSTANCE (finite quantifier: all syntactic accesses to the tracked fields, regenerated from /repo by
  harness/cmd/kbextract/locks.go on every run): **`lock_table_disciplined`** by `decide` — EVERY tracked
  location obeys the discipline — hence `tracked_locations_race_free` for every tracked location.
  History: until the fixes 697fb5c (mutex in the scanner's compaction history), 94d3c25 (atomic leader flag),
  d3cd8cd (mutex around resourceLock.record / tso) and 24436ee (etcd watcher: no `len(w.watches)` after Unlock)
  the instance held only outside five offending locations, each of which the race detector reproduced;
  `lock_table_no_offenders` (`undisciplined lockTable = []`) is the regression guard: reverting any of
  those fixes makes it (and `lock_table_disciplined`) fail, and harness/racetest then reports the race.
  TRUSTED (this is why the level is partial): the extractor's lexical lock analysis and its `Conforms`
  reading (the listed locks really are held, on the same owner object, whenever the access executes);
  the memkv batch protocol's client obligations; thread-confinement / pre-publication claims; the
  abstract memory model (channel, WaitGroup, Once and goroutine-start edges are not modelled: fewer
  happens-before edges than Go, so the model errs towards reporting races); only the tracked fields
  are covered; third-party engines (badger, tikv client) and third-party data structures' internals are
  out of scope (the skip list and container/list are treated as single locations).
-/
import KB.Locks
import KB.Generated.LockTable
namespace KB.C19
open KB KB.Locks KB.Generated

/-! ### the generic theorem -/

/-- If every non-confined access to a location is atomic, or every such access holds one common lock
(exclusively when writing), or every such access is a read, then no well-formed trace conforming to the
table has a data race on that location. -/
theorem lock_discipline_race_free (tbl : List Access) (tr : Trace)
    (hwf : WellFormed tr) (hc : Conforms tbl tr)
    (x : Loc) (hd : locDisciplined tbl x.field = true) : RaceFreeOn tr x :=
  disciplined_no_race tbl tr hwf hc x hd

/-- whole-table form, with an exception list -/
theorem lock_discipline_race_free_table (tbl : List Access) (except : List Name)
    (hd : tableDisciplinedExcept tbl except = true)
    (tr : Trace) (hwf : WellFormed tr) (hc : Conforms tbl tr)
    (x : Loc) (hx : x.field ∉ except) : RaceFreeOn tr x :=
  table_disciplined_no_race tbl except hd tr hwf hc x hx

/-- the same for traces accepted by the operational lock machine (mutual exclusion is then a theorem,
not a hypothesis) -/
theorem lock_discipline_race_free_operational (tbl : List Access) (except : List Name)
    (hd : tableDisciplinedExcept tbl except = true)
    (tr : Trace) (hacc : Accepted tr) (hc : Conforms tbl tr)
    (x : Loc) (hx : x.field ∉ except) : RaceFreeOn tr x :=
  table_disciplined_no_race tbl except hd tr (accepted_wellFormed tr hacc) hc x hx

/-! ### the instance: the lock table of the current tree -/

/-- every access to a tracked field was classified, every lock expression typed -/
theorem lock_table_resolved : lockTableUnresolved = [] := by decide

/-- every tracked location occurs in the table -/
theorem lock_table_covers : (lockTableLocations.all fun x => (fieldsOf lockTable).contains x) = true := by
  decide +kernel

/-- THE FULL INSTANCE (statement): every tracked location obeys the discipline. -/
def LockTableDisciplined : Prop := tableDisciplined lockTable = true

/-- THE FULL INSTANCE (finite quantifier: all syntactic accesses of the regenerated table): every tracked
location obeys the lock discipline. -/
theorem lock_table_disciplined : LockTableDisciplined := by
  unfold LockTableDisciplined
  decide +kernel

/-- no location violates the discipline (the list that used to name five offenders is empty) -/
theorem lock_table_no_offenders : undisciplined lockTable = [] := by decide +kernel

/-- the discipline holds for each tracked location individually -/
theorem lock_table_each_location : ∀ x ∈ lockTableLocations, locDisciplined lockTable x = true := by
  have h : (lockTableLocations.all fun x => locDisciplined lockTable x) = true := by decide +kernel
  exact fun x hx => List.all_eq_true.mp h x hx

/-- C19 for the tracked locations: in every execution (trace accepted by the lock machine) that conforms to
the extracted table, NO location has a data race. -/
theorem tracked_locations_race_free (tr : Trace) (hacc : Accepted tr) (hc : Conforms lockTable tr)
    (x : Loc) : RaceFreeOn tr x :=
  lock_discipline_race_free_operational lockTable [] lock_table_disciplined tr hacc hc x (by simp)

/-! ### satisfiability of the hypotheses, non-vacuity of the conclusion (details in KB.Locks) -/

example : locDisciplined exTbl b!"f" = true ∧ Accepted exTrace ∧ WellFormed exTrace ∧ Conforms exTbl exTrace :=
  ⟨exTbl_disciplined, exTrace_accepted, exTrace_wf, exTrace_conforms⟩
example : RaceFreeOn exTrace exLoc := lock_discipline_race_free exTbl exTrace exTrace_wf exTrace_conforms exLoc exTbl_disciplined
/-- two unlocked plain writes by different threads ARE a race in the model -/
example : RaceOn exBad exLoc 0 1 := exBad_race

end KB.C19
