/-
  Order facts for C15 — regenerated from the source (harness/cmd/kbextract/order.go →
  KB/Generated/OrderFacts.lean). The model's `newLeader` step is atomic: it installs the engine
  timestamp of the lock write as the start revision and only then accepts requests. These `decide`d
  theorems are the tie for exactly that atomicity.
-/
import KB.Generated.OrderFacts
namespace KB.OrderC15
open KB.Generated

/-- C15: in `OnStartedLeading` the start revision is installed before the node reports itself leader
(the write paths are gated by `IsLeader()` only), and the flag is raised exactly once. -/
theorem revision_installed_before_leader_flag : leaderInstallsRevisionBeforeFlag = true := by decide

/-- C15: the lock's `Update` hands a failed engine-timestamp read back to the elector instead of
leaving timestamp 0 in the lock description. -/
theorem lock_update_reports_oracle_error : lockUpdateReportsOracleError = true := by decide

/-- C15 / C18: `naiveTSO.Commit` only ever RAISES the committed revision and the deal cursor, each with a
compare-and-swap loop (no plain store, no single unchecked swap): concurrent callers — follower read-revision syncs,
the started-leading callback — cannot lower either counter nor lose the start revision. -/
theorem tso_commit_only_raises : tsoCommitOnlyRaises = true := by decide

/-- C18 / C15: the peer `/status` handler reads the revision it reports AFTER it has seen the leader flag raised. With
`revision_installed_before_leader_flag` this is why a follower is never told a pre-promotion revision by a node that answers
as the leader: whatever request overlaps `OnStartedLeading` is answered 400 or with a revision at or above the election
timestamp. (The role model answers `/status` atomically; this fact is the tie for that atomicity.) -/
theorem status_reads_revision_after_leader_flag : statusReadsRevisionAfterLeaderFlag = true := by decide

end KB.OrderC15
