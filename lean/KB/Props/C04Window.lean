/-
  C04 / C20 — the sequencer's ring always has a slot for a dealt revision (/repo 624b477).
  The outcome of every dealt revision waits in a ring of `ringLen` slots (`watchersChanCapacity` = `tso.MaxInFlight` =
  100000, `Cfg.ringLen`; slot index = revision mod ringLen) until all earlier revisions are resolved; `notify` stops the
  process ("watch push buffer full") when `revision - committed ≥ ringLen`. Since 624b477 `tso.Deal` REFUSES to hand out
  `dealt + 1` while `dealt + 1 - committed ≥ ringLen` (`G.windowFull`): the request is answered with an error, consumes no
  revision and needs no slot (`G.refuse`, ghost log `G.refused`); the repair loop keeps its queue head and tries again.
  Model: KB.Sys — `stepClient` = refusal at the steps that deal (`dealSite`), else `stepClientCore`; `stepRetryRead`.
  `Cfg.dealUnguarded = true` is the `Deal` before the fix (refutation).
  No bound on the number of requests in flight is assumed anywhere: the window is an invariant.
  Real code: the scheduling suite cannot issue 100000 requests and /repo exposes no verif-only way to shrink the ring
  (pkg/backend/verif_export.go has none; `MaxInFlight` is a constant): the tie is this theorem + the regenerated
  constant (`ring_len_is_the_generated_constant`) + the shape facts of `Deal` (KB.Props.C18Cas / OrderC04).
-/
import KB.Lemmas.Window
import KB.Props.OrderC04
namespace KB.C04Window
open KB KB.C04 KB.Window

/-- The initial condition about the ring: the guarded `Deal`, at least one slot. -/
def RingOK (g0 : G) : Prop := g0.cfg.dealUnguarded = false ∧ 0 < g0.cfg.ringLen

instance (g0 : G) : Decidable (RingOK g0) := by unfold RingOK; infer_instance

/-- **The window.** In every reachable state the dealt revision is less than a whole ring ahead of the committed one. -/
theorem window_holds {g0 g : G} (h0 : Init g0) (hring : RingOK g0) (hr : Reachable g0 g) :
    g.dealt < g.committed + g.cfg.ringLen ∧ 0 < g.cfg.ringLen ∧ g.cfg.dealUnguarded = false := by
  have hw : WInv g0.view := ⟨hring.1, hring.2, by
    show g0.dealt < g0.committed + g0.cfg.ringLen
    have := h0.1; have := hring.2; omega⟩
  have h := hr.closed WInv.closed hw
  exact ⟨h.2.2, h.2.1, h.1⟩

/-- **`notify` never finds the ring full**: every dealt, unresolved revision `r` — whoever holds it: a request in
flight, the repair loop between its read and its commit, a filled slot — satisfies `r - committed < ringLen`, the
negation of the fail-stop test of `notify` (`KB.OrderC04.notify_guard_matches_ring_len`). No bound on the number of
requests in flight is assumed. -/
theorem notify_never_overflows {g0 g : G} (h0 : Init g0) (hring : RingOK g0) (hr : Reachable g0 g) :
    (∀ r, g.committed < r → r ≤ g.dealt → r - g.committed < g.cfg.ringLen) ∧
    (∀ c ∈ g.clients, ∀ r, inflightRev c = some r → r - g.committed < g.cfg.ringLen) ∧
    (∀ r, repairRev g = some r → r - g.committed < g.cfg.ringLen) ∧
    (∀ w ∈ g.slots, w.rev - g.committed < g.cfg.ringLen) := by
  have hw := (window_holds h0 hring hr).1
  have hpos := (window_holds h0 hring hr).2.1
  have hs := sinv h0 hr
  have hall : ∀ r, r ≤ g.dealt → r - g.committed < g.cfg.ringLen := by
    intro r h2
    omega
  refine ⟨fun r _ h2 => hall r h2, ?_, ?_, ?_⟩
  · intro c hc r hi
    rw [inflightRev_eq] at hi
    exact hall r (hs.inflD c hc r hi).2
  · intro r hi
    exact hall r (hs.rpcR r hi).2
  · intro w hwm
    exact hall w.rev (hs.slotR w hwm).2

/-- **Every unresolved revision has its own slot**: two dealt, unresolved revisions never share a ring index
(`KB.OrderC04.ring_window_injective` lifted to the reachable states) — so the slot of a revision still in flight is
empty when its request reports it, and the sequencer never reads another revision's outcome from it. -/
theorem slot_always_free {g0 g : G} (h0 : Init g0) (hring : RingOK g0) (hr : Reachable g0 g)
    (r1 r2 : Nat) (h1 : g.committed < r1) (h1' : r1 ≤ g.dealt) (h2 : g.committed < r2) (h2' : r2 ≤ g.dealt)
    (h : r1 % g.cfg.ringLen = r2 % g.cfg.ringLen) : r1 = r2 := by
  have hw := (window_holds h0 hring hr).1
  exact KB.OrderC04.ring_window_injective g.cfg.ringLen g.committed r1 r2 h1 (by omega) h2 (by omega) h

/-- ... in particular: the ring index of a revision held by a request in flight (or by the repair loop) is that of no
filled slot and of no other request in flight. -/
theorem inflight_slot_is_empty {g0 g : G} (h0 : Init g0) (hring : RingOK g0) (hr : Reachable g0 g)
    (c : Client) (hc : c ∈ g.clients) (r : Nat) (hi : inflightRev c = some r) :
    (∀ w ∈ g.slots, w.rev % g.cfg.ringLen ≠ r % g.cfg.ringLen) ∧
    (∀ c' ∈ g.clients, ∀ r', inflightRev c' = some r' → r' % g.cfg.ringLen = r % g.cfg.ringLen → c' = c) ∧
    (∀ r', repairRev g = some r' → r' % g.cfg.ringLen ≠ r % g.cfg.ringLen) := by
  have hs := sinv h0 hr
  rw [inflightRev_eq] at hi
  have hr1 := hs.inflR c hc r hi
  have hr2 := (hs.inflD c hc r hi).2
  refine ⟨?_, ?_, ?_⟩
  · intro w hw e
    have := slot_always_free h0 hring hr w.rev r (hs.slotR w hw).1 (hs.slotR w hw).2 hr1 hr2 e
    exact hs.slotInfl w hw c hc (by rw [this]; exact hi)
  · intro c' hc' r' hi' e
    rw [inflightRev_eq] at hi'
    have := slot_always_free h0 hring hr r' r (hs.inflR c' hc' r' hi') (hs.inflD c' hc' r' hi').2 hr1 hr2 e
    exact hs.inflU c' hc' c hc r (this ▸ hi') hi
  · intro r' hi' e
    have := slot_always_free h0 hring hr r' r (hs.rpcR r' hi').1 (hs.rpcR r' hi').2 hr1 hr2 e
    exact hs.rpcInfl c hc r hi (by rw [← this]; exact hi')

/-- **A full window is a refusal, not a panic.** In ANY state whose window is full, a request at a step that deals
returns at once: answered with an error (the delete of a missing key: "not found" under header 0), recorded without a
revision; nothing is dealt, no slot is touched, nothing is written, no other request is affected. -/
theorem window_full_is_refused_not_panicked (g : G) (c : Client) (f : Fault) (hd : dealSite c = true)
    (hfull : g.windowFull = true) :
    stepClient g c f = g.refuse c (refusal c) ∧
    (stepClient g c f).dealt = g.dealt ∧ (stepClient g c f).committed = g.committed ∧
    (stepClient g c f).slots = g.slots ∧ (stepClient g c f).store = g.store ∧ (stepClient g c f).wlog = g.wlog ∧
    (stepClient g c f).done = g.done ∧ (stepClient g c f).retryQ = g.retryQ ∧
    (∀ x, x ∈ (stepClient g c f).clients ↔ x ∈ g.clients ∧ x.id ≠ c.id) ∧
    (∃ d, (stepClient g c f).refused = g.refused ++ [d] ∧ d.id = c.id ∧ d.rev = 0 ∧
      (d.res = .error .other ∨ d.res = .notFound 0)) := by
  have e : stepClient g c f = g.refuse c (refusal c) := by simp [stepClient, hd, hfull]
  rw [e]
  refine ⟨rfl, rfl, rfl, rfl, rfl, rfl, rfl, rfl, ?_, ⟨_, rfl, rfl, rfl, refusal_cases c⟩⟩
  intro x
  simp [G.refuse]

/-- ... and the repair loop: with the window full it deals nothing and stays at the top of `retry()`; its queue only
loses heads that need no repair. -/
theorem window_full_repair_waits (g : G) (hfull : g.windowFull = true) :
    (stepRetryRead g).dealt = g.dealt ∧ (stepRetryRead g).retryPc = g.retryPc ∧
    (stepRetryRead g).slots = g.slots ∧ (stepRetryRead g).store = g.store := by
  apply SysStore.stepRetryRead_cases (P := fun g' => g'.dealt = g.dealt ∧ g'.retryPc = g.retryPc ∧
    g'.slots = g.slots ∧ g'.store = g.store)
  · intros; exact ⟨rfl, rfl, rfl, rfl⟩
  · intros; exact ⟨rfl, rfl, rfl, rfl⟩
  · intros; exact ⟨rfl, rfl, rfl, rfl⟩
  · intro _ _ _ _ _ _ _ hopen
    rw [hfull] at hopen; cases hopen
  · intros; exact ⟨rfl, rfl, rfl, rfl⟩

/-- A refused request holds no revision: nothing it could have dealt is left unresolved (`C04.done_resolved` is about
the requests that were dealt one). -/
theorem refused_hold_no_revision {g0 g : G} (h : g0.refused = []) (hr : Reachable g0 g) :
    ∀ d ∈ g.refused, d.rev = 0 := by
  obtain ⟨s, rfl⟩ := hr
  exact run_refused (by rw [h]; intro d hd; cases hd) s

/-- The model's ring is the regenerated constant of the source (`watchersChanCapacity` of pkg/backend/backend.go). -/
theorem ring_len_is_the_generated_constant : ({} : Cfg).ringLen = Generated.watchersChanCapacity ∧
    ({} : Cfg).dealUnguarded = false ∧ RingOK {} := ⟨rfl, rfl, rfl, by decide⟩

/-! ### A ring of 3 slots: one parked write and three later requests -/

/-- request 1 is dealt revision 1 and parks before its commit; requests 2, 3, 4 (deletes of missing keys: they
consume a revision without touching the engine) run to completion -/
def parked : List Action :=
  [ .begin 1 (.create [47, 97] [1]), .step 1 .none,
    .begin 2 (.delete [47, 98] 0), .step 2 .none, .step 2 .none,
    .begin 3 (.delete [47, 99] 0), .step 3 .none, .step 3 .none,
    .begin 4 (.delete [47, 100] 0), .step 4 .none, .step 4 .none ]

def ring3 : G := { cfg := { ringLen := 3 } }
def ring3Old : G := { cfg := { ringLen := 3, dealUnguarded := true } }

set_option maxRecDepth 100000 in
/-- **The `Deal` before 624b477 overflows the ring.** With the unguarded `Deal` the schedule reaches a state in which
revision 1 (still in flight) and revision 4 (reported) share ring index 1, and in which `notify`'s fail-stop test
`revision - committed ≥ ringLen` holds for revisions 3 and 4: the real node has panicked on the request goroutine at
revision 3 (had it not, the slot of revision 1 would be overwritten / never readable). -/
theorem old_deal_overflows_ring :
    let g := run ring3Old parked
    Init ring3Old ∧ g.committed = 0 ∧ g.dealt = 4 ∧ g.clients.map inflightRev = [some 1] ∧
    g.slots.map (·.rev) = [2, 3, 4] ∧ 1 % g.cfg.ringLen = 4 % g.cfg.ringLen ∧
    ¬ (g.dealt < g.committed + g.cfg.ringLen) ∧ (g.slots.filter (fun w => w.rev - g.committed ≥ g.cfg.ringLen)).map (·.rev) = [3, 4] ∧
    g.refused = [] := by
  decide

set_option maxRecDepth 100000 in
/-- The same schedule with the `Deal` as it is: with revisions 1 and 2 dealt the window of a 3-slot ring is full (`2 + 1 - 0 ≥ 3`): requests 3 and 4 are refused ("not found" under header 0 for these
deletes of missing keys), consume nothing; the window holds; once request 1 commits and the sequencer has run, a new
request is dealt revision 3. -/
theorem guarded_deal_refuses_instead :
    let g := run ring3 parked
    Init ring3 ∧ RingOK ring3 ∧ g.committed = 0 ∧ g.dealt = 2 ∧ g.clients.map inflightRev = [some 1] ∧
    g.slots.map (·.rev) = [2] ∧ g.dealt < g.committed + g.cfg.ringLen ∧
    g.refused.map (fun d => (d.id, d.res, d.rev)) = [(3, .notFound 0, 0), (4, .notFound 0, 0)] ∧
    (let g' := run g [.step 1 .none, .seq, .seq, .begin 5 (.delete [47, 99] 0), .step 5 .none, .step 5 .none]
     g'.committed = 2 ∧ g'.dealt = 3 ∧ g'.done.map (fun d => (d.id, d.rev)) = [(2, 2), (1, 1), (5, 3)]) := by
  decide

/-! Non-vacuity: the hypotheses of `window_holds` … `inflight_slot_is_empty` hold of the 3-slot run (and of the empty
default state: `ring_len_is_the_generated_constant`); those of `window_full_is_refused_not_panicked` /
`window_full_repair_waits` of its final state. -/
set_option maxRecDepth 100000 in
example : ∃ (g0 g : G) (c : Client) (r : Nat), Init g0 ∧ RingOK g0 ∧ Reachable g0 g ∧ c ∈ g.clients ∧
    inflightRev c = some r :=
  ⟨ring3, run ring3 parked, ⟨1, .create [47, 97] [1], .createCommit 1, 0⟩, 1, by decide, by decide, ⟨_, rfl⟩, by decide, rfl⟩

set_option maxRecDepth 100000 in
example : ∃ (g : G) (c : Client), dealSite c = true ∧ g.windowFull = true ∧ c ∈ g.clients :=
  ⟨run ring3 (parked ++ [.begin 6 (.update [47, 97] [2] 1)]), ⟨6, .update [47, 97] [2] 1, .start, 2⟩, rfl, by decide,
    by decide⟩

#print axioms window_holds
#print axioms notify_never_overflows
#print axioms slot_always_free
#print axioms inflight_slot_is_empty
#print axioms window_full_is_refused_not_panicked
#print axioms window_full_repair_waits
#print axioms refused_hold_no_revision
#print axioms ring_len_is_the_generated_constant
#print axioms old_deal_overflows_ring
#print axioms guarded_deal_refuses_instead

end KB.C04Window
