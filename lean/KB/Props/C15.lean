/-
  C15 — Revisions keep increasing across leader changes and restarts.
  A node that becomes leader calls `SetCurrentRevision(ts)` with the engine timestamp `ts` of its last
  lock write (leader.go:93-108, election.go Describe). The theorems: IF `ts` is at or above every
  revision present in the store THEN the new leader's state is a well-formed initial state of KB.Sys —
  so every theorem of C01/C02/C04 applies to it — every revision it hands out is above every stored
  one, and reads at its revision see everything. Whether the hypothesis holds is a property of the
  engine's clock: assumed (and checked on every run) for memkv (wall-clock ns) and tikv (PD TSO);
  FALSE for Badger (ReadTs = number of committed update transactions): `badger_clock_can_lag`.
-/
import KB.Lemmas.Restart
namespace KB.C15
open KB Generated

/-- The state of a freshly elected leader over an existing store. -/
def newLeader (cfg : Cfg) (store : Store) (ts : Nat) : G :=
  { cfg := cfg, store := store, dealt := ts, committed := ts }

/-- `ts` dominates everything in the store (the clock hypothesis), in the form C02.StoreOK needs. -/
def ClockOK (store : Store) (ts : Nat) : Prop :=
  ∃ recs : List Rec, store = encodeStore recs ∧ SortedRecs recs ∧
    (∀ r ∈ recs, Alphabet r.key ∧ r.rev ≤ ts ∧
      (r.rev = 0 → ∃ m t, parseRevision r.val = some (m, t) ∧ m ≤ ts)) ∧ ts < 2 ^ 64 - 2 ^ 32

/-- Under the clock hypothesis a new leader starts in a well-formed initial state: all of C01, C02, C04 apply. -/
theorem new_leader_init (cfg : Cfg) (store : Store) (ts : Nat) (h : ClockOK store ts) :
    C02.Init (newLeader cfg store ts) ∧ C02.StoreOK (newLeader cfg store ts) :=
  ⟨⟨⟨rfl, rfl, rfl, rfl, rfl⟩, rfl, rfl, rfl⟩, h⟩

/-- Counterexample to `new_revisions_above_store` as stated: the store holding `(/a, 5)` is also the
encoding of the "decoding" `(/a, 2 ^ 64 + 5)`; the new leader (ts = 5) hands out revision 6. -/
theorem new_revisions_above_store_counterexample :
    let recs : List Rec := [{ key := [47, 97], rev := 5, val := [1], ik := [] }]
    let recs' : List Rec := [{ key := [47, 97], rev := 2 ^ 64 + 5, val := [1], ik := [] }]
    let g := run (newLeader {} (encodeStore recs) 5) [.begin 1 (.create [47, 98] [1]), .step 1 .none, .step 1 .none]
    encodeStore recs = encodeStore recs' ∧ g.done.map (·.rev) = [6] ∧
      (∀ r ∈ recs, Alphabet r.key ∧ r.rev ≤ 5 ∧ r.rev ≠ 0) ∧ SortedRecs recs := by
  decide

/-- Every revision the new leader hands out is greater than every (8-byte) revision already in the store. -/
theorem new_revisions_above_store (cfg : Cfg) (store : Store) (ts : Nat) (h : ClockOK store ts)
    {g : G} (hr : Reachable (newLeader cfg store ts) g) (d : Done) (hd : d ∈ g.done)
    (recs : List Rec) (hst : store = encodeStore recs) (r : Rec) (hrm : r ∈ recs) (hrb : r.rev < 2 ^ 64) :
    r.rev < d.rev := by
  obtain ⟨recs', hst', _, hall, hts⟩ := h
  have hb' : ∀ r' ∈ recs', r'.rev < 2 ^ 64 := fun r' hr' => by
    have := (hall r' hr').2.1
    omega
  obtain ⟨r', hr', _, e⟩ := rec_of_encodeStore_eq (hst.symm.trans hst') hrm hrb hb'
  have h1 : r.rev ≤ ts := e ▸ (hall r' hr').2.1
  have h0 := (new_leader_init cfg store ts ⟨recs', hst', ‹_›, hall, hts⟩).1
  have h2 := (C02.stamps_bracket h0 hr d hd).1
  have h3 : ts ≤ d.beginDealt :=
    (hr.closed (LowInv.closed ts) (LowInv.init (g := newLeader cfg store ts) rfl rfl)).dn d hd
  omega

/-- Counterexample to `reads_see_everything` as stated: nothing bounds `ts` (nor the stored revisions)
by `2 ^ 64 - 1`. -/
theorem reads_see_everything_counterexample :
    let recs : List Rec := [{ key := [47, 97], rev := 2 ^ 64, val := [1], ik := [] }]
    (∀ r ∈ recs, r.rev ≤ 2 ^ 64) ∧ readAt (2 ^ 64) recs [47, 97] ≠ readAt (2 ^ 64 - 1) recs [47, 97] := by
  decide

/-- Everything written before remains visible: a read at the new leader's revision is the read of
the latest state (`ts < 2 ^ 64` is part of the clock hypothesis `ClockOK`). -/
theorem reads_see_everything {recs : List Rec} (ts : Nat) (hall : ∀ r ∈ recs, r.rev ≤ ts)
    (hts : ts < 2 ^ 64) (k : Bytes) : readAt ts recs k = readAt (2 ^ 64 - 1) recs k := by
  unfold readAt
  rw [visible_eq_of_all_le (R' := 2 ^ 64 - 1) (fun r hr => ⟨hall r hr, by have := hall r hr; omega⟩) k]

/-! ### the Badger clock -/

/-- What a request does to the two counters: a successful write is one revision and one commit;
a failed one (condition failed, key not found) consumes a revision without a commit. -/
inductive ReqOutcome where
  | applied | failed
  deriving Repr, DecidableEq

structure Counters where
  dealt : Nat      -- revision counter of the old leader
  commits : Nat    -- Badger's ReadTs
  maxStored : Nat  -- largest revision written to the store
  deriving Repr, DecidableEq

def countStep (c : Counters) : ReqOutcome → Counters
  | .applied => { dealt := c.dealt + 1, commits := c.commits + 1, maxStored := c.dealt + 1 }
  | .failed => { c with dealt := c.dealt + 1 }

/-- As long as every request is applied the Badger clock keeps up... -/
theorem badger_clock_ok_without_failures (c : Counters) (h : c.maxStored ≤ c.commits) (hd : c.dealt ≤ c.commits)
    (l : List ReqOutcome) (hl : ∀ o ∈ l, o = .applied) :
    (l.foldl countStep c).maxStored ≤ (l.foldl countStep c).commits := by
  induction l generalizing c with
  | nil => exact h
  | cons o os ih =>
    have ho : o = .applied := hl o (List.mem_cons_self ..)
    subst ho
    simp only [List.foldl_cons]
    apply ih
    · simp only [countStep]; omega
    · simp only [countStep]; omega
    · intro o ho; exact hl o (List.mem_cons_of_mem _ ho)

/-- ... but one failed request followed by an applied one makes it lag behind the store for good:
the clock hypothesis is false for Badger (known finding). -/
theorem badger_clock_can_lag :
    let c := [ReqOutcome.failed, .applied].foldl countStep { dealt := 2, commits := 2, maxStored := 2 }
    c.commits < c.maxStored := by decide

/-- and then the property fails in the model: the new leader (ts = 2) over a store holding revision 4
rejects a correctly guarded update with "revision drift back". -/
theorem lagging_clock_breaks_guarded_write :
    let store := encodeStore [ { key := [47, 97], rev := 0, val := be64 4, ik := [] },
                               { key := [47, 97], rev := 4, val := [1], ik := [] } ]
    let g := run (newLeader {} store 2) [.begin 1 (.update [47, 97] [2] 4), .step 1 .none]
    g.done.map (·.res) = [.error .drift] := by
  decide

end KB.C15
