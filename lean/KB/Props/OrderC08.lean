/-
  Order facts for C08 — regenerated from the source (harness/cmd/kbextract/order.go →
  KB/Generated/OrderFacts.lean).
-/
import KB.Generated.OrderFacts
namespace KB.OrderC08
open KB.Generated

/-- C08 / C03: a scan (List without limit, Count, ListByStream, and the limited range) takes its snapshot
timestamp before it compares its revision with the compaction record: a read that passes the check scans a
snapshot older than any compaction accepted afterwards (the model's read step samples the snapshot and then
checks the floor). -/
theorem timestamp_before_floor_check : scanTakesTimestampBeforeFloorCheck = true := by decide

end KB.OrderC08
