/-
  Order facts for C05 — statement-order / call-count facts regenerated from the source
  (harness/cmd/kbextract/order.go → KB/Generated/OrderFacts.lean). The models are atomic where the code is
  sequential; these `decide`d theorems are the tie for exactly those places: a reordering in the source
  stops them from checking.
-/
import KB.Generated.OrderFacts
namespace KB.OrderC05
open KB.Generated

/-- C05: events enter the cache before they are broadcast. -/
theorem cache_before_broadcast : seqCacheBeforeBroadcast = true := by decide

/-- C05: a watch subscribes before it reads the cache. -/
theorem subscribe_before_cache_read : watchSubscribesBeforeCacheRead = true := by decide

/-- C05: the fan-out loop spawns no asynchronous deletion of a slow subscriber. -/
theorem slow_subscribers_deleted_synchronously : hubAsyncDeletes = 0 := by decide

end KB.OrderC05
