/-
  Order facts for C05 — statement-order / call-count facts regenerated from the source
  (harness/cmd/kbextract/order.go → KB/Generated/OrderFacts.lean). The models are atomic where the code is
  sequential; these `decide`d theorems are the tie for exactly those places: a reordering in the source
  stops them from checking.
-/
import KB.Generated.OrderFacts
namespace KB.OrderC05
open KB.Generated

/-- C05: events enter the cache before they are broadcast. -/
theorem cache_before_broadcast : seqCacheBeforeBroadcast = true := by decide

/-- C05: a watch subscribes before it reads the cache. -/
theorem subscribe_before_cache_read : watchSubscribesBeforeCacheRead = true := by decide

/-- C05: the fan-out loop spawns no asynchronous deletion of a slow subscriber. -/
theorem slow_subscribers_deleted_synchronously : hubAsyncDeletes = 0 := by decide

/-- C05 / C16 / C13: the etcd watch server finds a watch registered and forgets it in ONE critical section (`watcher.Cancel`):
of two overlapping cancels of one id - the watch goroutine's own refusal and the client's cancel request - exactly one answers
`canceled`. (The watch model ends a watch in one step; this fact is the tie for that atomicity. Dynamic counterpart:
racetest `TestWatchIdsAndCancelsOnOneStream`.) -/
theorem watch_forgotten_under_the_lookup_lock : watchCancelForgetsUnderTheLookupLock = true := by decide

end KB.OrderC05
