/-
  C18 / C15 — the revision allocator `naiveTSO` (/repo/pkg/backend/tso/tso.go) at ATOMIC-INSTRUCTION
  granularity, for every set of goroutines and every interleaving.

  Model: KB.TsoCas (one step = one sync/atomic operation of Deal / GetRevision / Commit; an execution is a
  list of thread ids; `run s sched`). Helper lemmas: KB.Lemmas.TsoCas. Every theorem below quantifies over
  ALL states satisfying the invariant `WF` (in particular every `init c d calls`: any number of goroutines
  at the entry of any calls, on registers with any contents — `invariant_holds_initially`) and over ALL
  schedules; "later" is expressed by schedule concatenation `p ++ q`.

    1. `deal_monotone` (unconditional, even with the pre-fix routines), `committed_monotone`
    2. `deals_unique`, `deal_results_increase_in_real_time` (Deal is a load / load / check / compare-and-swap
       loop since 624b477: "before B executed its add" = B's call is still in progress, `Pc.dealing`)
    2w. the window (624b477): `dealt_stays_in_window` — every revision v a Deal returned satisfies
       `v ≤ committed + (W - 1)` in the state it was returned in and in EVERY later state (the exact step-level
       guarantee is `deal_checked_against_loaded_value`: `v ≤ c + (W - 1)` for the committed value `c` that Deal
       loaded, and committed only grows), `dealt_distance_below_window`, `cursor_stays_in_window` (the cursor
       itself, Commits included), `dealt_stays_in_ring` (with the regenerated constants);
       `refused_only_when_window_full` + `refusal_iff_window_full_for_loaded_values` (a refusal is justified by
       the LOADED values; it can be stale w.r.t. the registers' present values: `refusal_can_be_stale`);
       `old_deal_leaves_window` / `current_deal_refuses` (W = 3, by evaluation)
    3. `commit_postcondition`
    4. `deal_after_commit_is_above` (C15: a new leader's first revision exceeds the start revision it
       installed) and `get_after_commit_is_at_least`, `get_results_monotone_in_real_time` (C18: a follower's
       synced read revision never goes back)
    5. `commit_terminates_when_alone` — FIVE steps from any point inside the call, four from its entry
       (`commit_call_alone_takes_four`); the bound "4 from any state" asked for first is false, witness
       `four_steps_not_enough_midway` (a stale compare-and-swap costs one extra round);
       `failed_cas_means_progress(_deal)`, and the bound `commit_failures_bounded(_deal)`: the failed
       compare-and-swaps of one Commit are at most the changes OTHER threads make to the register while it is
       below `r` (each of them a raise: `change_below_is_a_raise`); the same for Deal's compare-and-swap:
       `failed_deal_cas_means_progress`, `failed_deal_cas_register_was_raised`, `deal_failures_bounded`,
       `deal_change_is_a_raise`, `deal_terminates_when_alone`
    6. refutations for the routines before the repairs db7d4ff / 55a7cb8, by evaluation of concrete
       schedules: `old_commit_lowers`, `old_deal_cas_lost`, `old_deal_cas_lost_to_deal`; the same schedules
       under the current routines: `current_commit_keeps`, `current_deal_cas_retried`, `current_deal_after_commit`
    7. the tie to the source: `source_matches_lts` over the facts regenerated from tso.go by
       harness/cmd/kbextract/tsoshape.go on every run.

  Out of scope: wrap-around of the uint64 registers (revisions are `Nat`); `Init` racing with the routines
  (no non-test code calls it: `tsoInitCallSites = 0` is part of `source_matches_lts`); Go's memory model
  below sync/atomic (the LTS is sequentially consistent, which is what sync/atomic guarantees).
  `decide` is used only on concrete schedules and on the regenerated facts.
-/
import KB.TsoCas
import KB.Lemmas.TsoCas
import KB.Generated.OrderFacts
import KB.Generated.Consts
namespace KB.C18Cas
open KB.TsoCas KB.Generated

/-! ## the invariant -/

/-- Any number of goroutines at the entry of any calls, on registers with any contents, any window. -/
theorem invariant_holds_initially (W c d : Nat) (calls : List Call) : WF (init W c d calls) := wf_init W c d calls

theorem invariant_preserved_by_every_step {s : State} (h : WF s) (t : Nat) : WF (step s t) := wf_step h t

theorem invariant_along_every_execution {s : State} (h : WF s) (sched : List Nat) : WF (run s sched) := wf_run h sched

example : WF (init 100 4 9 [.deal, .commit 7, .get, .commit 2, .deal]) := wf_init _ _ _ _

/-! ## 1. the registers never decrease -/

/-- `dealRevision` never decreases — in ANY state, even with threads running the pre-fix routines. -/
theorem deal_monotone (s : State) (p q : List Nat) : (run s p).deal ≤ (run s (p ++ q)).deal := by
  rw [run_append]; exact run_deal_mono _ q

/-- `committedRevision` never decreases along any execution of the current routines. -/
theorem committed_monotone {s : State} (h : WF s) (p q : List Nat) :
    (run s p).committed ≤ (run s (p ++ q)).committed := by
  rw [run_append]; exact run_committed_mono (wf_noPlainStore (wf_run h p)) q

/-- … more generally whenever no thread runs the plain store of the code before db7d4ff. -/
theorem committed_monotone_without_plain_store {s : State} (h : NoPlainStore s) (p q : List Nat) :
    (run s p).committed ≤ (run s (p ++ q)).committed := by
  rw [run_append]; exact run_committed_mono (noPlainStore_run h p) q

example : (run (init 100 3 3 [.commit 9, .commit 5, .deal]) [0, 0, 1, 2, 1]).committed = 9 ∧
    (run (init 100 3 3 [.commit 9, .commit 5, .deal]) ([0, 0, 1, 2, 1] ++ [1, 1, 0, 0])).committed = 9 := by decide

/-! ## 2. Deal -/

/-- Two different Deal calls that have returned, returned different revisions. -/
theorem deals_unique {s : State} (h : WF s) (p : List Nat) {i j a b : Nat}
    (hi : (run s p).threads[i]? = some (.dealDone a)) (hj : (run s p).threads[j]? = some (.dealDone b))
    (hne : i ≠ j) : a ≠ b := by
  intro hab
  subst hab
  exact hne ((wf_run h p).distinct i j a hi hj)

example : (run (init 100 3 3 [.deal, .commit 9, .deal]) [0, 0, 0, 1, 1, 1, 1, 2, 2, 2]).threads[0]? = some (.dealDone 4) ∧
    (run (init 100 3 3 [.deal, .commit 9, .deal]) [0, 0, 0, 1, 1, 1, 1, 2, 2, 2]).threads[2]? = some (.dealDone 10) := by decide

/-- If Deal call `a` had returned while Deal call `b` was still in progress (`b` had not executed its successful
compare-and-swap; in particular: had not begun), `a`'s result is below `b`'s. -/
theorem deal_results_increase_in_real_time {s : State} (h : WF s) (p q : List Nat) {a b va vb : Nat} {pcb : Pc}
    (ha : (run s p).threads[a]? = some (.dealDone va))
    (hb : (run s p).threads[b]? = some pcb) (hpcb : pcb.dealing = true)
    (hb' : (run s (p ++ q)).threads[b]? = some (.dealDone vb)) : va < vb := by
  rw [run_append] at hb'
  have h1 := (wf_run h p).loc a _ ha
  simp only [Local] at h1
  exact Nat.lt_of_le_of_lt h1.2.1 (deal_result_above q hb hpcb hb')

example : (run (init 100 3 3 [.deal, .deal, .commit 9]) [0, 0, 0, 2, 2, 1, 1]).threads[0]? = some (.dealDone 4) ∧
    (run (init 100 3 3 [.deal, .deal, .commit 9]) [0, 0, 0, 2, 2, 1, 1]).threads[1]? = some (.dealCas 4 9) ∧
    (Pc.dealCas 4 9).dealing = true ∧
    (run (init 100 3 3 [.deal, .deal, .commit 9]) ([0, 0, 0, 2, 2, 1, 1] ++ [2, 2, 1, 1, 1, 1])).threads[1]? = some (.dealDone 10) := by
  decide

/-! ## 2w. the window: a dealt revision is never `W` or more ahead of the committed one -/

/-- The exact guarantee of one Deal, at the step that returns: the value is the loaded cursor + 1, the cursor
still had the loaded value, and the result is within the window of the committed value THIS Deal loaded
(`c0`, possibly long ago; the register's present value is at least that: `WF`). -/
theorem deal_checked_against_loaded_value (s : State) {t dealt c0 v : Nat} (ht : s.threads[t]? = some (.dealCas dealt c0))
    (hv : (step s t).threads[t]? = some (.dealDone v)) :
    v = dealt + 1 ∧ s.deal = dealt ∧ (dealt < c0 ∨ dealt + 1 - c0 < s.window) ∧ v ≤ c0 + (s.window - 1) := by
  rw [step_threads_self ht] at hv
  simp only [stepPc] at hv
  by_cases h1 : c0 ≤ dealt ∧ s.window ≤ dealt + 1 - c0
  · simp [h1] at hv
  · by_cases h2 : s.deal = dealt
    · simp [h1, h2] at hv
      omega
    · simp [h1, h2] at hv

/-- Every revision `v` a Deal has returned is within the window of the committed revision — in the state it was
returned in (`q = []`) and, because the committed revision only grows, in every later state:
`v ≤ committed + (W - 1)` (for `W = 0` nothing above `committed` is ever dealt). -/
theorem dealt_stays_in_window {s : State} (h : WF s) (p q : List Nat) {t v : Nat}
    (ht : (run s p).threads[t]? = some (.dealDone v)) :
    v ≤ (run s (p ++ q)).committed + (s.window - 1) := by
  have ht' : (run s (p ++ q)).threads[t]? = some (.dealDone v) := by
    rw [run_append]; exact done_stable ht rfl q
  have := (wf_run h (p ++ q)).loc t _ ht'
  simp only [Local, run_window] at this
  exact this.2.2

/-- … as a distance: `v - committed < W` (truncated subtraction: 0 when the committed revision has passed `v`). -/
theorem dealt_distance_below_window {s : State} (h : WF s) (hW : 0 < s.window) (p q : List Nat) {t v : Nat}
    (ht : (run s p).threads[t]? = some (.dealDone v)) : v - (run s (p ++ q)).committed < s.window := by
  have := dealt_stays_in_window h p q ht
  omega

/-- The cursor itself: from a state with `deal ≤ committed + (W - 1)` (e.g. `deal = committed`: a fresh `NewTSO()`,
or after `Init`) the deal cursor never leaves the window, whatever Deals and Commits interleave — a Commit raises
`deal` only to a revision it has already made `committed` reach. So at most `W - 1` revisions are ever dealt
and not committed. -/
theorem cursor_stays_in_window {s : State} (h : WF s) (hw : s.deal ≤ s.committed + (s.window - 1)) (p : List Nat) :
    (run s p).deal ≤ (run s p).committed + (s.window - 1) := by
  have := run_cursor_window h hw p
  rwa [run_window] at this

example : (run (init 3 0 0 [.deal, .deal, .commit 1, .deal, .deal]) [0, 0, 0, 1, 1, 1, 3, 3, 3, 2, 2, 2, 2, 4, 4, 4]).threads
    = [.dealDone 1, .dealDone 2, .commitDone 1, .dealRefused 2 0, .dealDone 3] := by decide

/-- A refused Deal had loaded values that fill the window: `dealt ≥ committed₀ ∧ dealt + 1 - committed₀ ≥ W`, both
loaded from the registers earlier (`dealt ≤ deal`, `committed₀ ≤ committed` now). -/
theorem refused_only_when_window_full {s : State} (h : WF s) (p : List Nat) {t dealt c0 : Nat}
    (ht : (run s p).threads[t]? = some (.dealRefused dealt c0)) :
    c0 ≤ dealt ∧ s.window ≤ dealt + 1 - c0 ∧ dealt ≤ (run s p).deal ∧ c0 ≤ (run s p).committed := by
  have := (wf_run h p).loc t _ ht
  simp only [Local, run_window] at this
  omega

/-- At the moment of the check: the step from `dealCas dealt c0` refuses exactly when the loaded values fill the window. -/
theorem refusal_iff_window_full_for_loaded_values (s : State) {t dealt c0 : Nat} (ht : s.threads[t]? = some (.dealCas dealt c0)) :
    (step s t).threads[t]? = some (.dealRefused dealt c0) ↔ (c0 ≤ dealt ∧ s.window ≤ dealt + 1 - c0) := by
  rw [step_threads_self ht]
  simp only [stepPc]
  by_cases h1 : c0 ≤ dealt ∧ s.window ≤ dealt + 1 - c0
  · simp [h1]
  · by_cases h2 : s.deal = dealt <;> simp [h1, h2]

/-- The refusal is conservative, not exact: between the loads and the check a Commit may have emptied the window
(here: W = 3, two revisions dealt, thread 2 loads `deal = 2, committed = 0`, Commit 2 finishes, thread 2 refuses
although `deal + 1 - committed = 1` now). The caller is told to try again. -/
theorem refusal_can_be_stale :
    let s := run (init 3 0 0 [.deal, .deal, .deal, .commit 2]) [0, 0, 0, 1, 1, 1, 2, 2, 3, 3, 3, 3, 2]
    s.threads[2]? = some (.dealRefused 2 0) ∧ s.threads[3]? = some (.commitDone 2) ∧ s.deal + 1 - s.committed = 1 := by
  decide

/-- W = 3, nothing committed: the one-instruction Deal of the code before 624b477 hands out revision 3 = committed + W
(no slot in a ring of 3) … -/
theorem old_deal_leaves_window :
    let s := run { window := 3, committed := 0, deal := 0, threads := [.dealAddOld, .dealAddOld, .dealAddOld] } [0, 1, 2]
    s.threads[2]? = some (.dealDone 3) ∧ s.committed = 0 ∧ s.window ≤ 3 - s.committed := by
  decide

/-- … the current Deal refuses the third call and the cursor stays at 2. -/
theorem current_deal_refuses :
    let s := run (init 3 0 0 [.deal, .deal, .deal]) [0, 0, 0, 1, 1, 1, 2, 2, 2]
    s.threads = [.dealDone 1, .dealDone 2, .dealRefused 2 0] ∧ s.deal = 2 ∧ s.committed = 0 := by
  decide

/-! ## 3. Commit's postcondition, now and for ever -/

/-- When a `Commit r` call is done, `committed ≥ r ∧ deal ≥ r` holds in that state (`q = []`) and in every
later state. -/
theorem commit_postcondition {s : State} (h : WF s) (p q : List Nat) {t r : Nat}
    (ht : (run s p).threads[t]? = some (.commitDone r)) :
    r ≤ (run s (p ++ q)).committed ∧ r ≤ (run s (p ++ q)).deal := by
  have ht' : (run s (p ++ q)).threads[t]? = some (.commitDone r) := by
    rw [run_append]; exact done_stable ht rfl q
  have := (wf_run h (p ++ q)).loc t _ ht'
  simpa only [Local] using this

example : (run (init 100 3 3 [.commit 9, .deal, .commit 5]) [0, 0, 1, 0, 0, 0, 0]).threads[0]? = some (.commitDone 9) := by
  decide

/-! ## 4. after a Commit -/

/-- A Deal whose (successful) add executes after a `Commit r` call finished — a Deal still in progress, or not
yet begun, when the Commit finished — returns a value above `r`. -/
theorem deal_after_commit_is_above {s : State} (h : WF s) (p q : List Nat) {t b r v : Nat} {pcb : Pc}
    (ht : (run s p).threads[t]? = some (.commitDone r))
    (hb : (run s p).threads[b]? = some pcb) (hpcb : pcb.dealing = true)
    (hb' : (run s (p ++ q)).threads[b]? = some (.dealDone v)) : r < v := by
  rw [run_append] at hb'
  have h1 := (wf_run h p).loc t _ ht
  simp only [Local] at h1
  exact Nat.lt_of_le_of_lt h1.2 (deal_result_above q hb hpcb hb')

/-- thread 2 has not begun; thread 1 loaded `deal = 3` BEFORE the Commit finished: its compare-and-swap fails and it
goes round again -/
example : (run (init 100 3 3 [.commit 9, .deal, .deal]) [0, 0, 1, 0, 0, 0, 0]).threads[0]? = some (.commitDone 9) ∧
    (run (init 100 3 3 [.commit 9, .deal, .deal]) [0, 0, 1, 0, 0, 0, 0]).threads[2]? = some .dealLoadD ∧
    (run (init 100 3 3 [.commit 9, .deal, .deal]) [0, 0, 1, 0, 0, 0, 0]).threads[1]? = some (.dealLoadC 3) ∧
    (run (init 100 3 3 [.commit 9, .deal, .deal]) ([0, 0, 1, 0, 0, 0, 0] ++ [2, 2, 2, 1, 1, 1, 1, 1])).threads[2]? = some (.dealDone 10) ∧
    (run (init 100 3 3 [.commit 9, .deal, .deal]) ([0, 0, 1, 0, 0, 0, 0] ++ [2, 2, 2, 1, 1, 1, 1, 1])).threads[1]? = some (.dealDone 11) := by
  decide

/-- A GetRevision whose load executes after a `Commit r` call finished returns at least `r`. -/
theorem get_after_commit_is_at_least {s : State} (h : WF s) (p q : List Nat) {t g r v : Nat}
    (ht : (run s p).threads[t]? = some (.commitDone r)) (hg : (run s p).threads[g]? = some .getLoad)
    (hg' : (run s (p ++ q)).threads[g]? = some (.getDone v)) : r ≤ v := by
  rw [run_append] at hg'
  have h1 := (wf_run h p).loc t _ ht
  simp only [Local] at h1
  exact Nat.le_trans h1.1 (get_result_above q (wf_noPlainStore (wf_run h p)) hg hg')

/-- If GetRevision call `a` had returned before call `b` executed its load, `b` does not return less:
the read revision never goes back, whatever Commits (late, out of order, concurrent) happen in between. -/
theorem get_results_monotone_in_real_time {s : State} (h : WF s) (p q : List Nat) {a b va vb : Nat}
    (ha : (run s p).threads[a]? = some (.getDone va)) (hb : (run s p).threads[b]? = some .getLoad)
    (hb' : (run s (p ++ q)).threads[b]? = some (.getDone vb)) : va ≤ vb := by
  rw [run_append] at hb'
  have h1 := (wf_run h p).loc a _ ha
  simp only [Local] at h1
  exact Nat.le_trans h1 (get_result_above q (wf_noPlainStore (wf_run h p)) hb hb')

example : (run (init 100 3 3 [.commit 9, .get, .commit 5, .get]) [0, 0, 2, 1]).threads[1]? = some (.getDone 9) ∧
    (run (init 100 3 3 [.commit 9, .get, .commit 5, .get]) [0, 0, 2, 1]).threads[3]? = some .getLoad ∧
    (run (init 100 3 3 [.commit 9, .get, .commit 5, .get]) ([0, 0, 2, 1] ++ [2, 2, 2, 3])).threads[3]? = some (.getDone 9) ∧
    (run (init 100 3 3 [.commit 9, .get, .commit 5, .get]) ([0, 0, 2, 1] ++ [2, 2, 2, 3])).threads[2]? = some (.commitDone 5) := by
  decide

/-! ## 5. termination and the cost of contention -/

/-- From ANY point inside a `Commit r` call — whatever the other threads did before — the thread scheduled
alone finishes within five steps. -/
theorem commit_terminates_when_alone (s : State) {t r : Nat} {pc : Pc}
    (ht : s.threads[t]? = some pc) (hc : pc.inCommit r = true) :
    (run s (List.replicate 5 t)).threads[t]? = some (.commitDone r) := by
  rw [(run_solo 5 ht).2.2, solo_commit_five hc]

/-- From the entry of the call, four: load, compare-and-swap, load, compare-and-swap. -/
theorem commit_call_alone_takes_four (s : State) {t r : Nat} (ht : s.threads[t]? = some (.loadC r)) :
    (run s (List.replicate 4 t)).threads[t]? = some (.commitDone r) := by
  rw [(run_solo 4 ht).2.2, solo_commit_four]

/-- "Four from any state" is false: a thread parked at its first compare-and-swap with a stale value needs a fifth. -/
theorem four_steps_not_enough_midway :
    (run { window := 100, committed := 2, deal := 0, threads := [.casC 5 1] } (List.replicate 4 0)).threads[0]? = some (.casD 5 0) ∧
    (run { window := 100, committed := 2, deal := 0, threads := [.casC 5 1] } (List.replicate 5 0)).threads[0]? = some (.commitDone 5) := by
  decide

example : (run (init 100 0 0 [.commit 5, .commit 2]) [0, 1, 1]).threads[0]? = some (.casC 5 0) ∧
    (run (init 100 0 0 [.commit 5, .commit 2]) [0, 1, 1]).committed = 2 := by decide

/-- A compare-and-swap on `committed` fails (the thread goes back to its load) exactly when the value it
loaded is below `r` and is no longer the register's value: someone else wrote in between. -/
theorem failed_cas_means_progress (s : State) {t r cur : Nat} (ht : s.threads[t]? = some (.casC r cur)) :
    (step s t).threads[t]? = some (.loadC r) ↔ (cur < r ∧ s.committed ≠ cur) := by
  rw [step_threads_self ht]
  simp only [stepPc]
  by_cases h1 : r ≤ cur
  · simp [h1]; omega
  · by_cases h2 : s.committed = cur
    · simp [h1, h2]
    · simp [h1, h2]; omega

/-- … and under the invariant "differs" means "was raised since this thread loaded it". -/
theorem failed_cas_register_was_raised {s : State} (h : WF s) {t r cur : Nat} (ht : s.threads[t]? = some (.casC r cur))
    (hf : (step s t).threads[t]? = some (.loadC r)) : cur < s.committed ∧ cur < r := by
  have h1 := (failed_cas_means_progress s ht).mp hf
  have h2 := h.loc t _ ht
  simp only [Local] at h2
  omega

theorem failed_cas_means_progress_deal (s : State) {t r cur : Nat} (ht : s.threads[t]? = some (.casD r cur)) :
    (step s t).threads[t]? = some (.loadD r) ↔ (cur < r ∧ s.deal ≠ cur) := by
  rw [step_threads_self ht]
  simp only [stepPc]
  by_cases h1 : r ≤ cur
  · simp [h1]; omega
  · by_cases h2 : s.deal = cur
    · simp [h1, h2]
    · simp [h1, h2]; omega

example : (run (init 100 0 0 [.commit 5, .commit 2]) [0, 1, 1]).threads[0]? = some (.casC 5 0) ∧
    (step (run (init 100 0 0 [.commit 5, .commit 2]) [0, 1, 1]) 0).threads[0]? = some (.loadC 5) := by decide

/-- With the current routines a change of `committed` is a raise. -/
theorem change_below_is_a_raise {s : State} (h : NoPlainStore s) (i : Nat)
    (hc : (step s i).committed ≠ s.committed) : s.committed < (step s i).committed :=
  Nat.lt_of_le_of_ne (step_committed_mono h i) (Ne.symm hc)

/-- Along ANY schedule, the failed compare-and-swaps of a `Commit r` on `committed` (counted from the entry
of the call) are at most the steps of OTHER threads that change `committed` while it is below `r`. -/
theorem commit_failures_bounded (s : State) (p : List Nat) {t r : Nat} (ht : s.threads[t]? = some (.loadC r)) :
    failsC t r s p ≤ changesBelowC t r s p := by
  have h := failsC_le t r s p
  have hp : pendingFailC s t r = false := by simp [pendingFailC, ht]
  simpa [hp] using h

/-- The same for the second loop (`deal` is changed by Deals as well as by Commits). -/
theorem commit_failures_bounded_deal (s : State) (p : List Nat) {t r : Nat} (ht : s.threads[t]? = some (.loadD r)) :
    failsD t r s p ≤ changesBelowD t r s p := by
  have h := failsD_le t r s p
  have hp : pendingFailD s t r = false := by simp [pendingFailD, ht]
  simpa [hp] using h

/-- The bound is attained: one failure, one raise by the other thread. -/
example : failsC 0 5 (init 100 0 0 [.commit 5, .commit 2]) [0, 1, 1, 0, 0, 0, 0, 0] = 1 ∧
    changesBelowC 0 5 (init 100 0 0 [.commit 5, .commit 2]) [0, 1, 1, 0, 0, 0, 0, 0] = 1 := by decide

example : failsD 0 5 (init 100 0 0 [.commit 5, .deal, .deal]) [0, 0, 0, 1, 1, 1, 0, 0, 2, 2, 2, 0, 0, 0] = 2 ∧
    changesBelowD 0 5 (init 100 0 0 [.commit 5, .deal, .deal]) [0, 0, 0, 1, 1, 1, 0, 0, 2, 2, 2, 0, 0, 0] = 2 := by decide

/-- Deal's compare-and-swap fails (the thread goes back to its first load) exactly when the window check passed and
the cursor is no longer the value loaded. -/
theorem failed_deal_cas_means_progress (s : State) {t dealt c0 : Nat} (ht : s.threads[t]? = some (.dealCas dealt c0)) :
    (step s t).threads[t]? = some .dealLoadD ↔ (¬ (c0 ≤ dealt ∧ s.window ≤ dealt + 1 - c0) ∧ s.deal ≠ dealt) := by
  rw [step_threads_self ht]
  simp only [stepPc]
  by_cases h1 : c0 ≤ dealt ∧ s.window ≤ dealt + 1 - c0
  · simp [h1]
  · by_cases h2 : s.deal = dealt <;> simp [h1, h2]

/-- … and under the invariant "no longer the value loaded" means RAISED: another Deal's add, or a Commit. -/
theorem failed_deal_cas_register_was_raised {s : State} (h : WF s) {t dealt c0 : Nat}
    (ht : s.threads[t]? = some (.dealCas dealt c0)) (hf : (step s t).threads[t]? = some .dealLoadD) : dealt < s.deal := by
  have h1 := (failed_deal_cas_means_progress s ht).mp hf
  have h2 := h.loc t _ ht
  simp only [Local] at h2
  omega

/-- Every change of `deal`, by any routine, is a raise. -/
theorem deal_change_is_a_raise (s : State) (i : Nat) (hc : (step s i).deal ≠ s.deal) : s.deal < (step s i).deal :=
  Nat.lt_of_le_of_ne (step_deal_mono s i) (Ne.symm hc)

/-- Along ANY schedule, the failed compare-and-swaps of thread `t`'s Deal (counted from the entry of the call) are at
most the steps of OTHER threads that change `deal` (successful adds of other Deals, successful raises of Commits). -/
theorem deal_failures_bounded (s : State) (p : List Nat) {t : Nat} (ht : s.threads[t]? = some .dealLoadD) :
    failsDeal t s p ≤ changesD t s p := by
  have h := failsDeal_le t s p
  have hp : staleDeal s t = false := by simp [staleDeal, ht]
  simpa [hp] using h

example : failsDeal 0 (init 100 0 0 [.deal, .deal, .commit 7]) [0, 0, 1, 1, 1, 0, 0, 0, 2, 2, 2, 2, 0, 0, 0, 0] = 2 ∧
    changesD 0 (init 100 0 0 [.deal, .deal, .commit 7]) [0, 0, 1, 1, 1, 0, 0, 0, 2, 2, 2, 2, 0, 0, 0, 0] = 2 ∧
    (run (init 100 0 0 [.deal, .deal, .commit 7]) [0, 0, 1, 1, 1, 0, 0, 0, 2, 2, 2, 2, 0, 0, 0, 0]).threads[0]? = some (.dealDone 8) := by
  decide

/-- From ANY point inside a Deal call the thread scheduled alone finishes within five steps (three from the entry),
with a revision or a refusal. -/
theorem deal_terminates_when_alone (s : State) {t : Nat} {pc : Pc} (ht : s.threads[t]? = some pc) (hd : pc.inDeal = true) :
    (∃ v, (run s (List.replicate 5 t)).threads[t]? = some (.dealDone v)) ∨
    (∃ a b, (run s (List.replicate 5 t)).threads[t]? = some (.dealRefused a b)) := by
  rw [(run_solo 5 ht).2.2]
  rcases solo_deal_five (W := s.window) (c := s.committed) (d := s.deal) hd with ⟨v, h⟩ | ⟨a, b, h⟩
  · exact Or.inl ⟨v, by rw [h]⟩
  · exact Or.inr ⟨a, b, by rw [h]⟩

theorem deal_call_alone_takes_three (s : State) {t : Nat} (ht : s.threads[t]? = some .dealLoadD) :
    (∃ v, (run s (List.replicate 3 t)).threads[t]? = some (.dealDone v)) ∨
    (∃ a b, (run s (List.replicate 3 t)).threads[t]? = some (.dealRefused a b)) := by
  rw [(run_solo 3 ht).2.2]
  rcases solo_dealLoadD s.window 0 s.committed s.deal with ⟨v, h⟩ | ⟨a, b, h⟩
  · exact Or.inl ⟨v, by rw [h]⟩
  · exact Or.inr ⟨a, b, by rw [h]⟩

/-! ## 6. the routines before the repairs -/

/-- Two calls Commit 5 (thread 0) and Commit 3 (thread 1), the first to completion, then the second. -/
def lateLowSchedule : List Nat := [0, 0, 0, 0, 1, 1, 1, 1]

/-- Before db7d4ff (plain store): the later Commit 3 puts `committed` back below 5 although Commit 5 is done —
`commit_postcondition` and `committed_monotone` fail. -/
theorem old_commit_lowers :
    let s := run { window := 100, committed := 0, deal := 0, threads := [.oldStoreC 5, .oldStoreC 3] } lateLowSchedule
    s.threads[0]? = some (.oldDone 5) ∧ s.threads[1]? = some (.oldDone 3) ∧ s.committed = 3 ∧ s.committed < 5 := by
  decide

/-- The same schedule, current routine: both done, nothing lowered. -/
theorem current_commit_keeps :
    let s := run (init 100 0 0 [.commit 5, .commit 3]) lateLowSchedule
    s.threads[0]? = some (.commitDone 5) ∧ s.threads[1]? = some (.commitDone 3) ∧ s.committed = 5 ∧ s.deal = 5 := by
  decide

/-- Commit 7 (thread 0) loads `deal`, Commit 5 (thread 1) runs to completion, thread 0 goes on. -/
def lostCasSchedule : List Nat := [0, 0, 0, 1, 1, 1, 1, 0, 0, 0]

/-- Before 55a7cb8 (single compare-and-swap on `deal`, result ignored): Commit 7 finishes with `deal = 5 < 7`. -/
theorem old_deal_cas_lost :
    let s := run { window := 100, committed := 0, deal := 0, threads := [.midLoadC 7, .midLoadC 5] } lostCasSchedule
    s.threads[0]? = some (.oldDone 7) ∧ s.threads[1]? = some (.oldDone 5) ∧ s.committed = 7 ∧ s.deal = 5 ∧ s.deal < 7 := by
  decide

/-- … and so does the routine before db7d4ff, which has the same tail. -/
theorem oldest_deal_cas_lost :
    let s := run { window := 100, committed := 0, deal := 0, threads := [.oldStoreC 7, .oldStoreC 5] } [0, 0, 1, 1, 1, 0]
    s.threads[0]? = some (.oldDone 7) ∧ s.threads[1]? = some (.oldDone 5) ∧ s.deal = 5 ∧ s.deal < 7 := by
  decide

/-- The same schedule, current routine: the failed compare-and-swap is retried; done with `deal = 7`. -/
theorem current_deal_cas_retried :
    let s := run (init 100 0 0 [.commit 7, .commit 5]) lostCasSchedule
    s.threads[0]? = some (.commitDone 7) ∧ s.threads[1]? = some (.commitDone 5) ∧ s.committed = 7 ∧ s.deal = 7 := by
  decide

/-- Commit 7 (thread 0: the started-leading callback installing the start revision 7) loads `deal`, a Deal
(thread 1) moves the cursor, thread 0 goes on to completion, then a Deal (thread 2: the new leader's first write). -/
def lostToDealSchedule : List Nat := [0, 0, 0, 1, 1, 1, 0, 0, 0, 2, 2, 2]

/-- Before 55a7cb8 (Deal was the one-instruction add then): the Deal issued AFTER Commit 7 finished returns 2, not above 7 (`deal_after_commit_is_above` fails). -/
theorem old_deal_cas_lost_to_deal :
    let s := run { window := 100, committed := 0, deal := 0, threads := [.midLoadC 7, .dealAddOld, .dealAddOld] } lostToDealSchedule
    s.threads[0]? = some (.oldDone 7) ∧ s.threads[2]? = some (.dealDone 2) ∧ s.deal = 2 ∧ s.deal < 7 := by
  decide

/-- The same schedule, current routine: the Deal after Commit 7 returns 8. -/
theorem current_deal_after_commit :
    let s := run (init 100 0 0 [.commit 7, .deal, .deal]) lostToDealSchedule
    s.threads[0]? = some (.commitDone 7) ∧ s.threads[2]? = some (.dealDone 8) ∧ s.deal = 8 := by
  decide

/-! ## 7. the source is the routine the LTS models -/

/-- Regenerated from /repo/pkg/backend/tso/tso.go on every run (harness/cmd/kbextract/tsoshape.go): `Commit` is
exactly the two raise loops of `loadC/casC/loadD/casD`; `Deal` is exactly the loop load `dealRevision` / load
`committedRevision` / refuse when `dealt >= committed && dealt+1-committed >= MaxInFlight` / compare-and-swap
`dealRevision` from `dealt` to `dealt+1` and return it (`dealLoadD/dealLoadC/dealCas`); `MaxInFlight` is the backend's
slot ring `watchersChanCapacity` (pkg/backend/backend.go, KB/Generated/Consts.lean); `GetRevision` is one atomic load of
`committedRevision`; `Init` two plain stores that no non-test code calls; the two registers are touched nowhere
else; and the extractor recognised everything it saw. A rewrite of tso.go breaks this proof. -/
theorem source_matches_lts :
    tsoCommitShape = expectedShape ∧ tsoDealShape = expectedDealShape ∧ tsoMaxInFlight = watchersChanCapacity ∧
    0 < tsoMaxInFlight ∧ tsoGetIsAtomicLoad = true ∧
    tsoRegistersOnlyTouchedInTso = true ∧ tsoRegisterMentions = 12 ∧
    tsoInitShape = ["store:committedRevision", "store:dealRevision"] ∧ tsoInitCallSites = 0 ∧
    tsoShapeUnresolved = [] ∧ constsUnresolved = [] := by decide

/-- `dealt_stays_in_window` with the regenerated constants: on a node whose window is the source's `MaxInFlight`,
a dealt revision is less than the sequencer's ring length ahead of the committed revision, for ever. -/
theorem dealt_stays_in_ring {s : State} (h : WF s) (hW : s.window = tsoMaxInFlight) (p q : List Nat) {t v : Nat}
    (ht : (run s p).threads[t]? = some (.dealDone v)) :
    v - (run s (p ++ q)).committed < watchersChanCapacity := by
  have h1 := source_matches_lts
  have h2 := dealt_distance_below_window h (by rw [hW]; exact h1.2.2.2.1) p q ht
  rw [hW, h1.2.2.1] at h2
  exact h2

/-- The source is none of the routines refuted above. -/
theorem source_is_not_a_prefix_routine :
    tsoCommitShape ≠ oldShape ∧ tsoCommitShape ≠ midShape ∧ tsoDealShape ≠ oldDealShape := by decide

end KB.C18Cas
