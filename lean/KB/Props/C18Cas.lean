/-
  C18 / C15 — the revision allocator `naiveTSO` (/repo/pkg/backend/tso/tso.go) at ATOMIC-INSTRUCTION
  granularity, for every set of goroutines and every interleaving.

  Model: KB.TsoCas (one step = one sync/atomic operation of Deal / GetRevision / Commit; an execution is a
  list of thread ids; `run s sched`). Helper lemmas: KB.Lemmas.TsoCas. Every theorem below quantifies over
  ALL states satisfying the invariant `WF` (in particular every `init c d calls`: any number of goroutines
  at the entry of any calls, on registers with any contents — `invariant_holds_initially`) and over ALL
  schedules; "later" is expressed by schedule concatenation `p ++ q`.

    1. `deal_monotone` (unconditional, even with the pre-fix routines), `committed_monotone`
    2. `deals_unique`, `deal_results_increase_in_real_time`
    3. `commit_postcondition`
    4. `deal_after_commit_is_above` (C15: a new leader's first revision exceeds the start revision it
       installed) and `get_after_commit_is_at_least`, `get_results_monotone_in_real_time` (C18: a follower's
       synced read revision never goes back)
    5. `commit_terminates_when_alone` — FIVE steps from any point inside the call, four from its entry
       (`commit_call_alone_takes_four`); the bound "4 from any state" asked for first is false, witness
       `four_steps_not_enough_midway` (a stale compare-and-swap costs one extra round);
       `failed_cas_means_progress(_deal)`, and the bound `commit_failures_bounded(_deal)`: the failed
       compare-and-swaps of one Commit are at most the changes OTHER threads make to the register while it is
       below `r` (each of them a raise: `change_below_is_a_raise`)
    6. refutations for the routines before the repairs db7d4ff / 55a7cb8, by evaluation of concrete
       schedules: `old_commit_lowers`, `old_deal_cas_lost`, `old_deal_cas_lost_to_deal`; the same schedules
       under the current routines: `current_commit_keeps`, `current_deal_cas_retried`, `current_deal_after_commit`
    7. the tie to the source: `source_matches_lts` over the facts regenerated from tso.go by
       harness/cmd/kbextract/tsoshape.go on every run.

  Out of scope: wrap-around of the uint64 registers (revisions are `Nat`); `Init` racing with the routines
  (no non-test code calls it: `tsoInitCallSites = 0` is part of `source_matches_lts`); Go's memory model
  below sync/atomic (the LTS is sequentially consistent, which is what sync/atomic guarantees).
  `decide` is used only on concrete schedules and on the regenerated facts.
-/
import KB.TsoCas
import KB.Lemmas.TsoCas
import KB.Generated.OrderFacts
namespace KB.C18Cas
open KB.TsoCas KB.Generated

/-! ## the invariant -/

/-- Any number of goroutines at the entry of any calls, on registers with any contents. -/
theorem invariant_holds_initially (c d : Nat) (calls : List Call) : WF (init c d calls) := wf_init c d calls

theorem invariant_preserved_by_every_step {s : State} (h : WF s) (t : Nat) : WF (step s t) := wf_step h t

theorem invariant_along_every_execution {s : State} (h : WF s) (sched : List Nat) : WF (run s sched) := wf_run h sched

example : WF (init 4 9 [.deal, .commit 7, .get, .commit 2, .deal]) := wf_init _ _ _

/-! ## 1. the registers never decrease -/

/-- `dealRevision` never decreases — in ANY state, even with threads running the pre-fix routines. -/
theorem deal_monotone (s : State) (p q : List Nat) : (run s p).deal ≤ (run s (p ++ q)).deal := by
  rw [run_append]; exact run_deal_mono _ q

/-- `committedRevision` never decreases along any execution of the current routines. -/
theorem committed_monotone {s : State} (h : WF s) (p q : List Nat) :
    (run s p).committed ≤ (run s (p ++ q)).committed := by
  rw [run_append]; exact run_committed_mono (wf_noPlainStore (wf_run h p)) q

/-- … more generally whenever no thread runs the plain store of the code before db7d4ff. -/
theorem committed_monotone_without_plain_store {s : State} (h : NoPlainStore s) (p q : List Nat) :
    (run s p).committed ≤ (run s (p ++ q)).committed := by
  rw [run_append]; exact run_committed_mono (noPlainStore_run h p) q

example : (run (init 3 3 [.commit 9, .commit 5, .deal]) [0, 0, 1, 2, 1]).committed = 9 ∧
    (run (init 3 3 [.commit 9, .commit 5, .deal]) ([0, 0, 1, 2, 1] ++ [1, 1, 0, 0])).committed = 9 := by decide

/-! ## 2. Deal -/

/-- Two different Deal calls that have returned, returned different revisions. -/
theorem deals_unique {s : State} (h : WF s) (p : List Nat) {i j a b : Nat}
    (hi : (run s p).threads[i]? = some (.dealDone a)) (hj : (run s p).threads[j]? = some (.dealDone b))
    (hne : i ≠ j) : a ≠ b := by
  intro hab
  subst hab
  exact hne ((wf_run h p).distinct i j a hi hj)

example : (run (init 3 3 [.deal, .commit 9, .deal]) [1, 1, 0, 1, 1, 1, 1, 2]).threads[0]? = some (.dealDone 4) ∧
    (run (init 3 3 [.deal, .commit 9, .deal]) [1, 1, 0, 1, 1, 1, 1, 2]).threads[2]? = some (.dealDone 10) := by decide

/-- If Deal call `a` had returned before Deal call `b` executed its add, `a`'s result is below `b`'s. -/
theorem deal_results_increase_in_real_time {s : State} (h : WF s) (p q : List Nat) {a b va vb : Nat}
    (ha : (run s p).threads[a]? = some (.dealDone va)) (hb : (run s p).threads[b]? = some .dealAdd)
    (hb' : (run s (p ++ q)).threads[b]? = some (.dealDone vb)) : va < vb := by
  rw [run_append] at hb'
  have h1 := (wf_run h p).loc a _ ha
  simp only [Local] at h1
  exact Nat.lt_of_le_of_lt h1.2 (deal_result_above q hb hb')

example : (run (init 3 3 [.deal, .deal, .commit 9]) [0, 2, 2]).threads[0]? = some (.dealDone 4) ∧
    (run (init 3 3 [.deal, .deal, .commit 9]) [0, 2, 2]).threads[1]? = some .dealAdd ∧
    (run (init 3 3 [.deal, .deal, .commit 9]) ([0, 2, 2] ++ [2, 2, 1])).threads[1]? = some (.dealDone 10) := by decide

/-! ## 3. Commit's postcondition, now and for ever -/

/-- When a `Commit r` call is done, `committed ≥ r ∧ deal ≥ r` holds in that state (`q = []`) and in every
later state. -/
theorem commit_postcondition {s : State} (h : WF s) (p q : List Nat) {t r : Nat}
    (ht : (run s p).threads[t]? = some (.commitDone r)) :
    r ≤ (run s (p ++ q)).committed ∧ r ≤ (run s (p ++ q)).deal := by
  have ht' : (run s (p ++ q)).threads[t]? = some (.commitDone r) := by
    rw [run_append]; exact done_stable ht rfl q
  have := (wf_run h (p ++ q)).loc t _ ht'
  simpa only [Local] using this

example : (run (init 3 3 [.commit 9, .deal, .commit 5]) [0, 0, 1, 0, 0, 0, 0]).threads[0]? = some (.commitDone 9) := by
  decide

/-! ## 4. after a Commit -/

/-- A Deal whose add executes after a `Commit r` call finished returns a value above `r`. -/
theorem deal_after_commit_is_above {s : State} (h : WF s) (p q : List Nat) {t b r v : Nat}
    (ht : (run s p).threads[t]? = some (.commitDone r)) (hb : (run s p).threads[b]? = some .dealAdd)
    (hb' : (run s (p ++ q)).threads[b]? = some (.dealDone v)) : r < v := by
  rw [run_append] at hb'
  have h1 := (wf_run h p).loc t _ ht
  simp only [Local] at h1
  exact Nat.lt_of_le_of_lt h1.2 (deal_result_above q hb hb')

example : (run (init 3 3 [.commit 9, .deal, .deal]) [0, 0, 1, 0, 0, 0, 0]).threads[0]? = some (.commitDone 9) ∧
    (run (init 3 3 [.commit 9, .deal, .deal]) [0, 0, 1, 0, 0, 0, 0]).threads[2]? = some .dealAdd ∧
    (run (init 3 3 [.commit 9, .deal, .deal]) ([0, 0, 1, 0, 0, 0, 0] ++ [2])).threads[2]? = some (.dealDone 10) := by
  decide

/-- A GetRevision whose load executes after a `Commit r` call finished returns at least `r`. -/
theorem get_after_commit_is_at_least {s : State} (h : WF s) (p q : List Nat) {t g r v : Nat}
    (ht : (run s p).threads[t]? = some (.commitDone r)) (hg : (run s p).threads[g]? = some .getLoad)
    (hg' : (run s (p ++ q)).threads[g]? = some (.getDone v)) : r ≤ v := by
  rw [run_append] at hg'
  have h1 := (wf_run h p).loc t _ ht
  simp only [Local] at h1
  exact Nat.le_trans h1.1 (get_result_above q (wf_noPlainStore (wf_run h p)) hg hg')

/-- If GetRevision call `a` had returned before call `b` executed its load, `b` does not return less:
the read revision never goes back, whatever Commits (late, out of order, concurrent) happen in between. -/
theorem get_results_monotone_in_real_time {s : State} (h : WF s) (p q : List Nat) {a b va vb : Nat}
    (ha : (run s p).threads[a]? = some (.getDone va)) (hb : (run s p).threads[b]? = some .getLoad)
    (hb' : (run s (p ++ q)).threads[b]? = some (.getDone vb)) : va ≤ vb := by
  rw [run_append] at hb'
  have h1 := (wf_run h p).loc a _ ha
  simp only [Local] at h1
  exact Nat.le_trans h1 (get_result_above q (wf_noPlainStore (wf_run h p)) hb hb')

example : (run (init 3 3 [.commit 9, .get, .commit 5, .get]) [0, 0, 2, 1]).threads[1]? = some (.getDone 9) ∧
    (run (init 3 3 [.commit 9, .get, .commit 5, .get]) [0, 0, 2, 1]).threads[3]? = some .getLoad ∧
    (run (init 3 3 [.commit 9, .get, .commit 5, .get]) ([0, 0, 2, 1] ++ [2, 2, 2, 3])).threads[3]? = some (.getDone 9) ∧
    (run (init 3 3 [.commit 9, .get, .commit 5, .get]) ([0, 0, 2, 1] ++ [2, 2, 2, 3])).threads[2]? = some (.commitDone 5) := by
  decide

/-! ## 5. termination and the cost of contention -/

/-- From ANY point inside a `Commit r` call — whatever the other threads did before — the thread scheduled
alone finishes within five steps. -/
theorem commit_terminates_when_alone (s : State) {t r : Nat} {pc : Pc}
    (ht : s.threads[t]? = some pc) (hc : pc.inCommit r = true) :
    (run s (List.replicate 5 t)).threads[t]? = some (.commitDone r) := by
  rw [(run_solo 5 ht).2.2, solo_commit_five hc]

/-- From the entry of the call, four: load, compare-and-swap, load, compare-and-swap. -/
theorem commit_call_alone_takes_four (s : State) {t r : Nat} (ht : s.threads[t]? = some (.loadC r)) :
    (run s (List.replicate 4 t)).threads[t]? = some (.commitDone r) := by
  rw [(run_solo 4 ht).2.2, solo_commit_four]

/-- "Four from any state" is false: a thread parked at its first compare-and-swap with a stale value needs a fifth. -/
theorem four_steps_not_enough_midway :
    (run { committed := 2, deal := 0, threads := [.casC 5 1] } (List.replicate 4 0)).threads[0]? = some (.casD 5 0) ∧
    (run { committed := 2, deal := 0, threads := [.casC 5 1] } (List.replicate 5 0)).threads[0]? = some (.commitDone 5) := by
  decide

example : (run (init 0 0 [.commit 5, .commit 2]) [0, 1, 1]).threads[0]? = some (.casC 5 0) ∧
    (run (init 0 0 [.commit 5, .commit 2]) [0, 1, 1]).committed = 2 := by decide

/-- A compare-and-swap on `committed` fails (the thread goes back to its load) exactly when the value it
loaded is below `r` and is no longer the register's value: someone else wrote in between. -/
theorem failed_cas_means_progress (s : State) {t r cur : Nat} (ht : s.threads[t]? = some (.casC r cur)) :
    (step s t).threads[t]? = some (.loadC r) ↔ (cur < r ∧ s.committed ≠ cur) := by
  rw [step_threads_self ht]
  simp only [stepPc]
  by_cases h1 : r ≤ cur
  · simp [h1]; omega
  · by_cases h2 : s.committed = cur
    · simp [h1, h2]
    · simp [h1, h2]; omega

/-- … and under the invariant "differs" means "was raised since this thread loaded it". -/
theorem failed_cas_register_was_raised {s : State} (h : WF s) {t r cur : Nat} (ht : s.threads[t]? = some (.casC r cur))
    (hf : (step s t).threads[t]? = some (.loadC r)) : cur < s.committed ∧ cur < r := by
  have h1 := (failed_cas_means_progress s ht).mp hf
  have h2 := h.loc t _ ht
  simp only [Local] at h2
  omega

theorem failed_cas_means_progress_deal (s : State) {t r cur : Nat} (ht : s.threads[t]? = some (.casD r cur)) :
    (step s t).threads[t]? = some (.loadD r) ↔ (cur < r ∧ s.deal ≠ cur) := by
  rw [step_threads_self ht]
  simp only [stepPc]
  by_cases h1 : r ≤ cur
  · simp [h1]; omega
  · by_cases h2 : s.deal = cur
    · simp [h1, h2]
    · simp [h1, h2]; omega

example : (run (init 0 0 [.commit 5, .commit 2]) [0, 1, 1]).threads[0]? = some (.casC 5 0) ∧
    (step (run (init 0 0 [.commit 5, .commit 2]) [0, 1, 1]) 0).threads[0]? = some (.loadC 5) := by decide

/-- With the current routines a change of `committed` is a raise. -/
theorem change_below_is_a_raise {s : State} (h : NoPlainStore s) (i : Nat)
    (hc : (step s i).committed ≠ s.committed) : s.committed < (step s i).committed :=
  Nat.lt_of_le_of_ne (step_committed_mono h i) (Ne.symm hc)

/-- Along ANY schedule, the failed compare-and-swaps of a `Commit r` on `committed` (counted from the entry
of the call) are at most the steps of OTHER threads that change `committed` while it is below `r`. -/
theorem commit_failures_bounded (s : State) (p : List Nat) {t r : Nat} (ht : s.threads[t]? = some (.loadC r)) :
    failsC t r s p ≤ changesBelowC t r s p := by
  have h := failsC_le t r s p
  have hp : pendingFailC s t r = false := by simp [pendingFailC, ht]
  simpa [hp] using h

/-- The same for the second loop (`deal` is changed by Deals as well as by Commits). -/
theorem commit_failures_bounded_deal (s : State) (p : List Nat) {t r : Nat} (ht : s.threads[t]? = some (.loadD r)) :
    failsD t r s p ≤ changesBelowD t r s p := by
  have h := failsD_le t r s p
  have hp : pendingFailD s t r = false := by simp [pendingFailD, ht]
  simpa [hp] using h

/-- The bound is attained: one failure, one raise by the other thread. -/
example : failsC 0 5 (init 0 0 [.commit 5, .commit 2]) [0, 1, 1, 0, 0, 0, 0, 0] = 1 ∧
    changesBelowC 0 5 (init 0 0 [.commit 5, .commit 2]) [0, 1, 1, 0, 0, 0, 0, 0] = 1 := by decide

example : failsD 0 5 (init 0 0 [.commit 5, .deal, .deal]) [0, 0, 0, 1, 0, 0, 2, 0, 0, 0] = 2 ∧
    changesBelowD 0 5 (init 0 0 [.commit 5, .deal, .deal]) [0, 0, 0, 1, 0, 0, 2, 0, 0, 0] = 2 := by decide

/-! ## 6. the routines before the repairs -/

/-- Two calls Commit 5 (thread 0) and Commit 3 (thread 1), the first to completion, then the second. -/
def lateLowSchedule : List Nat := [0, 0, 0, 0, 1, 1, 1, 1]

/-- Before db7d4ff (plain store): the later Commit 3 puts `committed` back below 5 although Commit 5 is done —
`commit_postcondition` and `committed_monotone` fail. -/
theorem old_commit_lowers :
    let s := run { committed := 0, deal := 0, threads := [.oldStoreC 5, .oldStoreC 3] } lateLowSchedule
    s.threads[0]? = some (.oldDone 5) ∧ s.threads[1]? = some (.oldDone 3) ∧ s.committed = 3 ∧ s.committed < 5 := by
  decide

/-- The same schedule, current routine: both done, nothing lowered. -/
theorem current_commit_keeps :
    let s := run (init 0 0 [.commit 5, .commit 3]) lateLowSchedule
    s.threads[0]? = some (.commitDone 5) ∧ s.threads[1]? = some (.commitDone 3) ∧ s.committed = 5 ∧ s.deal = 5 := by
  decide

/-- Commit 7 (thread 0) loads `deal`, Commit 5 (thread 1) runs to completion, thread 0 goes on. -/
def lostCasSchedule : List Nat := [0, 0, 0, 1, 1, 1, 1, 0, 0, 0]

/-- Before 55a7cb8 (single compare-and-swap on `deal`, result ignored): Commit 7 finishes with `deal = 5 < 7`. -/
theorem old_deal_cas_lost :
    let s := run { committed := 0, deal := 0, threads := [.midLoadC 7, .midLoadC 5] } lostCasSchedule
    s.threads[0]? = some (.oldDone 7) ∧ s.threads[1]? = some (.oldDone 5) ∧ s.committed = 7 ∧ s.deal = 5 ∧ s.deal < 7 := by
  decide

/-- … and so does the routine before db7d4ff, which has the same tail. -/
theorem oldest_deal_cas_lost :
    let s := run { committed := 0, deal := 0, threads := [.oldStoreC 7, .oldStoreC 5] } [0, 0, 1, 1, 1, 0]
    s.threads[0]? = some (.oldDone 7) ∧ s.threads[1]? = some (.oldDone 5) ∧ s.deal = 5 ∧ s.deal < 7 := by
  decide

/-- The same schedule, current routine: the failed compare-and-swap is retried; done with `deal = 7`. -/
theorem current_deal_cas_retried :
    let s := run (init 0 0 [.commit 7, .commit 5]) lostCasSchedule
    s.threads[0]? = some (.commitDone 7) ∧ s.threads[1]? = some (.commitDone 5) ∧ s.committed = 7 ∧ s.deal = 7 := by
  decide

/-- Commit 7 (thread 0: the started-leading callback installing the start revision 7) loads `deal`, a Deal
(thread 1) moves the cursor, thread 0 goes on to completion, then a Deal (thread 2: the new leader's first write). -/
def lostToDealSchedule : List Nat := [0, 0, 0, 1, 0, 0, 0, 2]

/-- Before 55a7cb8: the Deal issued AFTER Commit 7 finished returns 2, not above 7 (`deal_after_commit_is_above` fails). -/
theorem old_deal_cas_lost_to_deal :
    let s := run { committed := 0, deal := 0, threads := [.midLoadC 7, .dealAdd, .dealAdd] } lostToDealSchedule
    s.threads[0]? = some (.oldDone 7) ∧ s.threads[2]? = some (.dealDone 2) ∧ s.deal = 2 ∧ s.deal < 7 := by
  decide

/-- The same schedule, current routine: the Deal after Commit 7 returns 8. -/
theorem current_deal_after_commit :
    let s := run (init 0 0 [.commit 7, .deal, .deal]) lostToDealSchedule
    s.threads[0]? = some (.commitDone 7) ∧ s.threads[2]? = some (.dealDone 8) ∧ s.deal = 8 := by
  decide

/-! ## 7. the source is the routine the LTS models -/

/-- Regenerated from /repo/pkg/backend/tso/tso.go on every run (harness/cmd/kbextract/tsoshape.go): `Commit` is
exactly the two raise loops of `loadC/casC/loadD/casD`, `Deal` one atomic add of 1 on `dealRevision`, `GetRevision`
one atomic load of `committedRevision`, `Init` two plain stores that no non-test code calls, the two registers
are touched nowhere else, and the extractor recognised everything it saw. A rewrite of tso.go breaks this proof. -/
theorem source_matches_lts :
    tsoCommitShape = expectedShape ∧ tsoDealIsAtomicAdd = true ∧ tsoGetIsAtomicLoad = true ∧
    tsoRegistersOnlyTouchedInTso = true ∧ tsoRegisterMentions = 10 ∧
    tsoInitShape = ["store:committedRevision", "store:dealRevision"] ∧ tsoInitCallSites = 0 ∧
    tsoShapeUnresolved = [] := by decide

/-- The source is neither of the two routines refuted above. -/
theorem source_is_not_a_prefix_routine : tsoCommitShape ≠ oldShape ∧ tsoCommitShape ≠ midShape := by decide

end KB.C18Cas
