/-
  C02 — Revisions are unique and agree with real time and with each key's history; a response
  header is never smaller than the revision of data it carries.
  Model: KB.Sys (all interleavings) for the write paths, KB.Backend for the read responses.
-/
import KB.Lemmas.Sys
import KB.Props.C04
namespace KB.C02
open KB

/-- Well-formed initial store for the write path: only encoded records of keys over the alphabet,
every index record parses, and nothing stored is above the dealt counter. -/
def StoreOK (g : G) : Prop :=
  ∃ recs : List Rec, g.store = encodeStore recs ∧ SortedRecs recs ∧
    (∀ r ∈ recs, Alphabet r.key ∧ r.rev ≤ g.dealt ∧
      (r.rev = 0 → ∃ m t, parseRevision r.val = some (m, t) ∧ m ≤ g.dealt)) ∧ g.dealt < 2 ^ 64 - 2 ^ 32

def Init (g : G) : Prop := C04.Init g ∧ g.hist = [] ∧ g.wlog = [] ∧ g.done = []

theorem finv {g0 g : G} (h0 : Init g0) (hr : Reachable g0 g) : FInv g.view :=
  C04.finv h0.1 h0.2.2.2 hr

/-- Every write attempt is stamped with a revision no other attempt ever receives. -/
theorem deal_unique {g0 g : G} (h0 : Init g0) (hr : Reachable g0 g) :
    (g.done.map (·.rev)).Nodup ∧
    (∀ d ∈ g.done, ∀ c ∈ g.clients, C04.inflightRev c ≠ some d.rev) ∧
    (∀ c1 ∈ g.clients, ∀ c2 ∈ g.clients, ∀ r, C04.inflightRev c1 = some r → C04.inflightRev c2 = some r → c1 = c2) := by
  obtain ⟨hs, hd⟩ := finv h0 hr
  simp only [C04.inflightRev_eq]
  refine ⟨hd.dNodup, ?_, hs.inflU⟩
  intro d hdm c hc hi
  exact hd.dHeld d hdm c hc (Pc.held_of_inflight hi)

/-- Real-time order: if one request completed before another began, it has the smaller revision.
(`endDealt`/`beginDealt` are ghost stamps of the monotone dealt counter at return / begin.) -/
theorem realtime_order {g0 g : G} (h0 : Init g0) (hr : Reachable g0 g) (a b : Done)
    (ha : a ∈ g.done) (hb : b ∈ g.done) (hab : a.endDealt ≤ b.beginDealt) : a.rev < b.rev := by
  have hd := (finv h0 hr).2
  have h1 := hd.dR a ha
  have h2 := hd.dR b hb
  omega

/-- ... and the stamps are faithful: a request's own revision lies strictly above the counter at its
begin and at or below the counter at its end. -/
theorem stamps_bracket {g0 g : G} (h0 : Init g0) (hr : Reachable g0 g) (d : Done) (hd : d ∈ g.done) :
    d.beginDealt < d.rev ∧ d.rev ≤ d.endDealt ∧ d.endDealt ≤ g.dealt :=
  (finv h0 hr).2.dR d hd

theorem hdrOf_mono (n : Nat) (kvs : List (Bytes × Bytes × Nat)) : n ≤ hdrOf n kvs := by
  unfold hdrOf
  induction kvs generalizing n with
  | nil => exact Nat.le_refl _
  | cons x xs ih => exact Nat.le_trans (Nat.le_max_left _ _) (ih _)

/-- The header of a range response is at least the revision of every kv it carries. -/
theorem hdrOf_ge (n : Nat) (kvs : List (Bytes × Bytes × Nat)) : ∀ kv ∈ kvs, kv.2.2 ≤ hdrOf n kvs := by
  induction kvs generalizing n with
  | nil => intro kv h; cases h
  | cons x xs ih =>
    intro kv h
    rcases List.mem_cons.mp h with rfl | h
    · exact Nat.le_trans (Nat.le_max_right n _) (hdrOf_mono _ xs)
    · exact ih _ kv h

/-- Point read: header = max(committed, mod revision). -/
theorem get_header_ge_data (c : Cfg) (s : BState) (key : Bytes) (rev : Nat) (k v : Bytes) (m : Nat)
    (h : (doGet c s key rev).2 = some (k, v, m)) : m ≤ (doGet c s key rev).1 := by
  unfold doGet at h ⊢
  split at h
  · cases h
  · rename_i v' m' heq
    simp only [Option.some.injEq, Prod.mk.injEq] at h
    obtain ⟨_, _, rfl⟩ := h
    exact Nat.le_max_right _ _

/-- Range read. -/
theorem list_header_ge_data (c : Cfg) (s : BState) (a b : Bytes) (R n : Nat) (res : ListRes)
    (h : doList c s a b R n = .ok res) : ∀ kv ∈ res.kvs, kv.2.2 ≤ res.hdr := by
  unfold doList at h
  split at h
  · cases h
  · simp only at h
    split at h
    · cases h
    · split at h
      · split at h
        · cases h
          intro kv hkv
          exact hdrOf_ge _ _ kv hkv
        · cases h
        · cases h
      · split at h
        · cases h
          intro kv hkv
          exact hdrOf_ge _ _ kv hkv
        · cases h
        · cases h

end KB.C02
