/-
  C02 — Revisions are unique and agree with real time and with each key's history; a response
  header is never smaller than the revision of data it carries.
  Model: KB.Sys (all interleavings) for the write paths, KB.Backend for the read responses.
-/
import KB.Lemmas.Sys
import KB.Props.C04
namespace KB.C02
open KB

/-- Well-formed initial store for the write path: only encoded records of keys over the alphabet,
every index record parses, and nothing stored is above the dealt counter. -/
def StoreOK (g : G) : Prop :=
  ∃ recs : List Rec, g.store = encodeStore recs ∧ SortedRecs recs ∧
    (∀ r ∈ recs, Alphabet r.key ∧ r.rev ≤ g.dealt ∧
      (r.rev = 0 → ∃ m t, parseRevision r.val = some (m, t) ∧ m ≤ g.dealt)) ∧ g.dealt < 2 ^ 64 - 2 ^ 32

def Init (g : G) : Prop := C04.Init g ∧ g.hist = [] ∧ g.wlog = [] ∧ g.done = []

/-- Every write attempt is stamped with a revision no other attempt ever receives. -/
theorem deal_unique {g0 g : G} (h0 : Init g0) (hr : Reachable g0 g) :
    (g.done.map (·.rev)).Nodup ∧
    (∀ d ∈ g.done, ∀ c ∈ g.clients, C04.inflightRev c ≠ some d.rev) ∧
    (∀ c1 ∈ g.clients, ∀ c2 ∈ g.clients, ∀ r, C04.inflightRev c1 = some r → C04.inflightRev c2 = some r → c1 = c2) := by
  sorry

/-- Real-time order: if one request completed before another began, it has the smaller revision.
(`endDealt`/`beginDealt` are ghost stamps of the monotone dealt counter at return / begin.) -/
theorem realtime_order {g0 g : G} (h0 : Init g0) (hr : Reachable g0 g) (a b : Done)
    (ha : a ∈ g.done) (hb : b ∈ g.done) (hab : a.endDealt ≤ b.beginDealt) : a.rev < b.rev := by
  sorry

/-- ... and the stamps are faithful: a request's own revision lies strictly above the counter at its
begin and at or below the counter at its end. -/
theorem stamps_bracket {g0 g : G} (h0 : Init g0) (hr : Reachable g0 g) (d : Done) (hd : d ∈ g.done) :
    d.beginDealt < d.rev ∧ d.rev ≤ d.endDealt ∧ d.endDealt ≤ g.dealt := by
  sorry

/-- Point read: header = max(committed, mod revision). -/
theorem get_header_ge_data (c : Cfg) (s : BState) (key : Bytes) (rev : Nat) (k v : Bytes) (m : Nat)
    (h : (doGet c s key rev).2 = some (k, v, m)) : m ≤ (doGet c s key rev).1 := by
  sorry

/-- Range read. -/
theorem list_header_ge_data (c : Cfg) (s : BState) (a b : Bytes) (R n : Nat) (res : ListRes)
    (h : doList c s a b R n = .ok res) : ∀ kv ∈ res.kvs, kv.2.2 ≤ res.hdr := by
  sorry

end KB.C02
