/-
  C18Gen — the repair proposed for the known finding `joined-fetch-stale` (proposed-fixes/C18-fresh-follower-read.diff:
  a generation number per fetch, a reader only uses the result of a fetch numbered after the reader arrived) is
  SUFFICIENT as written, at the granularity of its atomic instructions (model: KB.ServerGen).

  * `follower_read_fresh_gen` — the FULL statement of C18's read clause for the repaired syncer: under any
    interleaving of any number of follower reads, leader commits, refused / lost answers, every served read is
    served at a revision ≥ the leader's committed revision when the read began.  This includes the window
    between `flight.Do` registering the owner's call and the owner's `AddUint64` (a reader that loads the old
    generation there accepts the result: it is fresh because the GET is sent after the increment).
  * `follower_rev_never_decreases_gen` — no step lowers the follower's read revision.
  * `owner_always_accepts` — the reader that runs a fetch never discards its own result.
  * `rejected_at_most_once` — a waiter whose result is discarded has `arrived = fetchGen` afterwards: every later
    fetch is numbered above it, so a reader goes round the loop at most twice (no livelock, at most one extra GET).
  * `failed_sync_never_served_gen` — a read whose sync failed is never served.
  * decided traces: the stale-join schedule of the known finding ends with the late reader served at 11
    (`stale_join_schedule_is_fresh_gen`), and the registration-window schedule (`registration_window_trace`).
-/
import KB.ServerGen
import KB.Lemmas.ServerGen
namespace KB.C18Gen
open KB.ServerGen
open KB.Server (LeaderBehaviour)

/-- THE LAW (repaired syncer): every served follower read is fresh, under any interleaving. -/
theorem follower_read_fresh_gen : ∀ s, Reachable s → Fresh s := by
  intro s hs
  exact (inv_reachable s hs).fresh

/-- No step lowers the follower's read revision. -/
theorem follower_rev_never_decreases_gen {s s' : State} {st : Step} (h : step s st = some s') :
    s.followerRev ≤ s'.followerRev :=
  followerRev_mono h

set_option linter.unusedVariables false in
/-- The owner of a fetch (the reader whose `fetchStart` registered the call) never discards its own result:
whenever a call numbered `g` is in the group, every waiting reader that arrived before the call was registered …
stated on the invariant: a waiting reader has `arrived ≤ fetchGen`, and while the call is only registered the
number it will get is `fetchGen + 1`. -/
theorem owner_always_accepts {s : State} (hs : Reachable s) (r : Nat)
    (hw : (s.reads r).phase = .waiting) (hf : s.flight = .registered) :
    (s.reads r).arrived < s.fetchGen + 1 :=
  Nat.lt_succ_of_le ((inv_reachable s hs).arrived_le r (Or.inr hw))

/-- A waiter whose result is discarded is left with `arrived = fetchGen`: every later fetch is numbered
`fetchGen + 1` or more, so its next round is accepted. -/
theorem rejected_at_most_once {s s' : State} (hs : Reachable s) (h : step s .fetchReply = some s') (r : Nat)
    (hw : (s.reads r).phase = .waiting) (hl : (s'.reads r).phase = .looping) :
    (s'.reads r).arrived = s'.fetchGen :=
  rejected_arrived_eq hs h r hw hl

/-- A read whose sync failed is never served afterwards. -/
theorem failed_sync_never_served_gen {s s' : State} {st : Step} (r : Nat) (h : step s st = some s')
    (hf : (s.reads r).phase = .failed) : (s'.reads r).phase = .failed :=
  failed_stays h r hf

/-- The schedule of the known finding `joined-fetch-stale`, on the repaired syncer: read 1 joins the fetch the
leader answered (10) before it began (at 11), discards that result (generation 1 ≤ arrived 1), fetches again
and is served at 11. -/
theorem stale_join_schedule_is_fresh_gen :
    (run (init 10 0) [.readBegin 0, .arrive 0, .fetchStart 0, .genBump, .leaderAnswer .ok, .leaderCommit,
      .readBegin 1, .arrive 1, .fetchJoin 1, .fetchReply, .fetchStart 1, .genBump, .leaderAnswer .ok, .fetchReply,
      .setRev 1, .setRev 0, .readServe 1]).map
      (fun s => ((s.reads 1).phase, (s.reads 1).beginRev, (s.reads 1).arrived)) = some (.served 11, 11, 1) := by
  decide

/-- The registration window: read 1 loads generation 0 after read 0's call is registered and before read 0's
increment, joins, and ACCEPTS the result (generation 1 > 0) — fresh, because the GET left after the increment. -/
theorem registration_window_trace :
    (run (init 10 0) [.readBegin 0, .arrive 0, .fetchStart 0, .leaderCommit, .readBegin 1, .arrive 1, .genBump,
      .fetchJoin 1, .leaderAnswer .ok, .fetchReply, .setRev 1, .readServe 1]).map
      (fun s => ((s.reads 1).phase, (s.reads 1).beginRev, (s.reads 1).arrived)) = some (.served 11, 11, 0) := by
  decide

/-- Non-vacuity: a reachable state with a served read and one with a discarded result. -/
example : ∃ s, Reachable s ∧ (s.reads 1).phase = .served 11 ∧ (s.reads 1).beginRev = 11 := by
  have key := stale_join_schedule_is_fresh_gen
  cases hrun : run (init 10 0) [.readBegin 0, .arrive 0, .fetchStart 0, .genBump, .leaderAnswer .ok, .leaderCommit,
      .readBegin 1, .arrive 1, .fetchJoin 1, .fetchReply, .fetchStart 1, .genBump, .leaderAnswer .ok, .fetchReply,
      .setRev 1, .setRev 0, .readServe 1] with
  | none => simp [hrun] at key
  | some s =>
    simp [hrun] at key
    exact ⟨s, ⟨10, 0, _, hrun⟩, key.1, key.2.1⟩

/-- The value a reader accepts from a fetch (its own or a joined one) is ≥ the leader's committed revision
when the reader began: the generation test discards exactly the results that could be older. -/
theorem accepted_value_fresh {s : State} (hs : Reachable s) (r v : Nat)
    (h : (s.reads r).phase = .got (some v)) : (s.reads r).beginRev ≤ v :=
  (inv_reachable s hs).got r v h

end KB.C18Gen
