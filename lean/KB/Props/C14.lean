/-
  C14 — the leader lock is taken by at most one candidate per observed state.

  Model: KB.Election (`resourceLock` of /repo/pkg/backend/election/election.go over `KB.commit`).
  All theorems hold for EVERY engine contract `c.q : Quirks` (memkv, badger, tikv, pre-fix tikv), for
  ANY number of candidates (indexed by `Nat`), for ALL schedules (`List Step` = an interleaving of the
  candidates' get / create / update calls) and from ANY initial state; `e ∈ trace c st sched` ranges
  over every executed step of the schedule with the states around it.

  A candidate's "last read record" is `lastVal`; the CAS of `Update` expects `expected cd =
  lastVal.getD []` (Go passes the possibly-nil slice). On well-formed states (`WF`: initialised
  candidates have a non-nil `lastVal`; true of fresh locks, preserved by all steps) the two coincide,
  which the `_wf` versions state.
-/
import KB.Election
import KB.Lemmas.Election
namespace KB.C14
open KB KB.Election

/-! ### update: only if the record is still what the candidate last read -/

/-- A successful `Update` by candidate `i` happened on a record equal to the bytes `i` remembered
(`expected` = its `lastVal`), `i` was initialised, the record becomes what it wrote, and its
`lastVal` is NOT refreshed. -/
theorem update_only_if_unchanged (c : Cfg) (st : State) (sched : List Step) (e : Entry)
    (he : e ∈ trace c st sched) (i : Nat) (rec : Bytes) (hs : e.step = .update i rec)
    (hok : e.out = .ok) :
    (e.pre.cands i).tso ≠ 0 ∧ stored c e.pre = some (expected (e.pre.cands i)) ∧
    stored c e.post = some rec ∧ (e.post.cands i).lastVal = (e.pre.cands i).lastVal := by
  obtain ⟨ho, hp⟩ := trace_mem c st sched e he
  rw [hs] at ho hp
  rw [ho] at hok
  rcases update_cases c e.pre i rec with ⟨_, u⟩ | ⟨ht, hst, u⟩ | ⟨_, _, u | ⟨_, _, u⟩⟩
  · simp [step, u] at hok
  · refine ⟨ht, hst, ?_, ?_⟩
    · rw [hp]; simp [step, u, stored_written]
    · rw [hp]; simp [step, u, written, setCand]
  · simp [step, u] at hok
  · simp [step, u] at hok

/-- On runs from a well-formed state: the stored record at that moment IS the candidate's `lastVal`. -/
theorem update_only_if_unchanged_wf (c : Cfg) (st : State) (hwf : WF st) (sched : List Step) (e : Entry)
    (he : e ∈ trace c st sched) (i : Nat) (rec : Bytes) (hs : e.step = .update i rec)
    (hok : e.out = .ok) :
    stored c e.pre = (e.pre.cands i).lastVal ∧ (e.pre.cands i).lastVal ≠ none := by
  obtain ⟨ht, hst, _, _⟩ := update_only_if_unchanged c st sched e he i rec hs hok
  have hw := wf_trace c st sched hwf e he
  exact ⟨by rw [hst, expected_of_wf hw ht], hw i ht⟩

/-- An `Update` before any successful `Get` / `Create` is refused and changes nothing. -/
theorem update_uninitialised (c : Cfg) (st : State) (i : Nat) (rec : Bytes)
    (h : (st.cands i).tso = 0) : update c st i rec = (.notInitialised, st) := by
  rcases update_cases c st i rec with ⟨_, u⟩ | ⟨ht, _, _⟩ | ⟨ht, _, _⟩
  · exact u
  · exact absurd h ht
  · exact absurd h ht

/-- `Update` of a missing record never succeeds, whatever the engine: a failed condition, or
`notFound` for the pre-fix tikv adapter (`casMissingNotFound`). -/
theorem update_missing_fails (c : Cfg) (st : State) (i : Nat) (rec : Bytes) (h : stored c st = none) :
    (update c st i rec).2 = st ∧
    ((update c st i rec).1 = .notInitialised ∨ (update c st i rec).1 = .condFailed ∨
      ((update c st i rec).1 = .notFound ∧ c.q.casMissingNotFound = true)) := by
  rcases update_cases c st i rec with ⟨_, u⟩ | ⟨_, hst, _⟩ | ⟨_, _, u | ⟨hq, _, u⟩⟩
  · simp [u]
  · rw [h] at hst; simp at hst
  · simp [u]
  · simp [u, hq]

/-! ### create: at most once -/

/-- A successful `Create` found the record absent, stores exactly its record and remembers it. -/
theorem create_only_if_absent (c : Cfg) (st : State) (sched : List Step) (e : Entry)
    (he : e ∈ trace c st sched) (i : Nat) (rec : Bytes) (hs : e.step = .create i rec)
    (hok : e.out = .ok) :
    stored c e.pre = none ∧ stored c e.post = some rec ∧ (e.post.cands i).lastVal = some rec := by
  obtain ⟨ho, hp⟩ := trace_mem c st sched e he
  rw [hs] at ho hp
  rw [ho] at hok
  rcases create_cases c e.pre i rec with ⟨hn, u⟩ | ⟨v, _, u⟩
  · refine ⟨hn, ?_, ?_⟩
    · rw [hp]; simp [step, u, stored_written]
    · rw [hp]; simp [step, u, written, setCand]
  · simp [step, u] at hok

/-- Once present, the record is never absent again. -/
theorem record_never_absent (c : Cfg) (st : State) (sched : List Step) (h : stored c st ≠ none) :
    stored c (run c st sched) ≠ none := by
  induction sched generalizing st with
  | nil => exact h
  | cons s rest ih => exact ih _ (step_stored_some c st s h)

/-- No `Create` succeeds in a run that starts with the record present. -/
theorem create_none_if_present (c : Cfg) (st : State) (sched : List Step) (h : stored c st ≠ none) :
    createOks (trace c st sched) = 0 := by
  induction sched generalizing st with
  | nil => rfl
  | cons s rest ih =>
    simp only [trace, createOks_cons]
    rw [ih _ (step_stored_some c st s h)]
    have : Entry.isCreateOk { pre := st, step := s, out := (step c st s).1, post := (step c st s).2 } = false := by
      cases s with
      | get i => simp [Entry.isCreateOk]
      | update i rec => simp [Entry.isCreateOk]
      | create i rec =>
        rcases create_cases c st i rec with ⟨hn, _⟩ | ⟨v, _, u⟩
        · exact absurd hn h
        · simp [Entry.isCreateOk, step, u]
    simp [this]

/-- In any run at most one `Create` succeeds (and none if the record was there initially). -/
theorem create_at_most_once (c : Cfg) (st : State) (sched : List Step) :
    createOks (trace c st sched) ≤ 1 ∧ (stored c st ≠ none → createOks (trace c st sched) = 0) := by
  refine ⟨?_, create_none_if_present c st sched⟩
  induction sched generalizing st with
  | nil => simp [trace, createOks]
  | cons s rest ih =>
    simp only [trace, createOks_cons]
    by_cases hc : Entry.isCreateOk { pre := st, step := s, out := (step c st s).1, post := (step c st s).2 } = true
    · -- the record is present from here on: no further create succeeds
      have hpres : stored c (step c st s).2 ≠ none := by
        cases s with
        | get i => simp [Entry.isCreateOk] at hc
        | update i rec => simp [Entry.isCreateOk] at hc
        | create i rec =>
          rcases create_cases c st i rec with ⟨_, u⟩ | ⟨v, _, u⟩
          · simp [step, u, stored_written]
          · simp [Entry.isCreateOk, step, u] at hc
      rw [create_none_if_present c _ rest hpres]
      simp [hc]
    · have := ih (step c st s).2
      simp [hc]
      exact this

/-! ### no double acquire from the same observed record -/

/-- A candidate `j` holding a stale observation `v` (the stored record is no longer `v`) cannot
succeed with `Update`, however the other candidates (and `j`'s own updates) are interleaved, as long
as `j` does not re-read (`Get` / `Create`) and nobody writes the very bytes `v` back. -/
theorem stale_update_fails (c : Cfg) (st : State) (j : Nat) (v : Bytes) (mid : List Step) (rec : Bytes)
    (hl : (st.cands j).lastVal = some v) (hs : stored c st ≠ some v)
    (hfresh : ∀ s ∈ mid, s.writes ≠ some v) (hnr : ∀ s ∈ mid, s.rereads j = false) :
    (update c (run c st mid) j rec).1 ≠ .ok ∧ (update c (run c st mid) j rec).2 = run c st mid := by
  induction mid generalizing st with
  | nil =>
    simp only [run]
    rcases update_cases c st j rec with ⟨_, u⟩ | ⟨_, hst, _⟩ | ⟨_, _, u | ⟨_, _, u⟩⟩
    · simp [u]
    · rw [hst] at hs; simp [expected, hl] at hs
    · simp [u]
    · simp [u]
  | cons s rest ih =>
    simp only [run]
    apply ih
    · rw [step_lastVal c st s j (hnr s (List.mem_cons_self ..))]; exact hl
    · rcases step_stored c st s with e | ⟨_, r, hw, e⟩
      · rw [e]; exact hs
      · rw [e]
        intro h
        exact hfresh s (List.mem_cons_self ..) (by rw [hw, h])
    · exact fun s' h' => hfresh s' (List.mem_cons_of_mem _ h')
    · exact fun s' h' => hnr s' (List.mem_cons_of_mem _ h')

/-- Two candidates `i`, `j` observed the same record `v` and both try to acquire by writing a record
different from `v`. Whoever is first (`i`) wins; then in ANY continuation `mid` in which `j` does not
re-read and nobody restores the bytes `v`, `j`'s `Update` fails and changes nothing. (Also covers
`i = j`: a second `Update` without re-reading fails — `Update` does not refresh `lastVal`.) -/
theorem no_double_acquire (c : Cfg) (st : State) (i j : Nat) (v ri rj : Bytes) (mid : List Step)
    (hi : (st.cands i).lastVal = some v) (hj : (st.cands j).lastVal = some v) (hri : ri ≠ v)
    (hok : (update c st i ri).1 = .ok)
    (hfresh : ∀ s ∈ mid, s.writes ≠ some v) (hnr : ∀ s ∈ mid, s.rereads j = false) :
    stored c st = some v ∧
    (update c (run c (update c st i ri).2 mid) j rj).1 ≠ .ok ∧
    (update c (run c (update c st i ri).2 mid) j rj).2 = run c (update c st i ri).2 mid := by
  rcases update_cases c st i ri with ⟨_, u⟩ | ⟨_, hst, u⟩ | ⟨_, _, u | ⟨_, _, u⟩⟩
  · simp [u] at hok
  · refine ⟨by simpa [expected, hi] using hst, ?_⟩
    apply stale_update_fails c _ j v mid rj
    · have := step_lastVal c st (.update i ri) j rfl
      simp only [step] at this
      rw [this]; exact hj
    · rw [u]; simp [stored_written, hri]
    · exact hfresh
    · exact hnr
  · simp [u] at hok
  · simp [u] at hok

/-- The freshness hypothesis of `no_double_acquire` is necessary (ABA): the CAS compares bytes, so if a
third candidate writes the very bytes `v` back, the stale candidate's update succeeds. Records written
by client-go's elector carry the renew time and the transition counter, which makes them fresh. -/
theorem no_double_acquire_needs_fresh :
    ∃ (c : Cfg) (st : State) (i j : Nat) (v ri rj : Bytes) (mid : List Step),
      (st.cands i).lastVal = some v ∧ (st.cands j).lastVal = some v ∧ ri ≠ v ∧
      (update c st i ri).1 = .ok ∧ (∀ s ∈ mid, s.rereads j = false) ∧
      (update c (run c (update c st i ri).2 mid) j rj).1 = .ok :=
  ⟨{ key := [1] }, run { key := [1] } (State.fresh []) [.create 0 [7], .get 1], 0, 1, [7], [8], [9],
    [.get 2, .update 2 [7]], by decide, by decide, by decide, by decide, by decide, by decide⟩

/-! ### no silent overwrite -/

/-- Every change of the stored record is a successful `Create` that found it absent, or a successful
`Update` by an initialised candidate whose remembered bytes equalled the previous record; the new
record is the one that step wrote. -/
theorem no_silent_overwrite (c : Cfg) (st : State) (sched : List Step) (e : Entry)
    (he : e ∈ trace c st sched) (hch : stored c e.post ≠ stored c e.pre) :
    e.out = .ok ∧
    ((∃ i rec, e.step = .create i rec ∧ stored c e.pre = none ∧ stored c e.post = some rec) ∨
     (∃ i rec, e.step = .update i rec ∧ (e.pre.cands i).tso ≠ 0 ∧
        stored c e.pre = some (expected (e.pre.cands i)) ∧ stored c e.post = some rec)) := by
  obtain ⟨ho, hp⟩ := trace_mem c st sched e he
  have hok : e.out = .ok := by
    rcases step_stored c e.pre e.step with h | ⟨h, _⟩
    · rw [hp, h] at hch; exact absurd rfl hch
    · rw [ho]; exact h
  refine ⟨hok, ?_⟩
  cases hs : e.step with
  | get i =>
    exfalso
    rw [hs] at hp
    rcases get_cases c e.pre i with ⟨_, u⟩ | ⟨v, _, u⟩ <;> rw [hp] at hch <;> simp [step, u, stored] at hch
  | create i rec =>
    obtain ⟨h1, h2, _⟩ := create_only_if_absent c st sched e he i rec hs hok
    exact .inl ⟨i, rec, rfl, h1, h2⟩
  | update i rec =>
    obtain ⟨h0, h1, h2, _⟩ := update_only_if_unchanged c st sched e he i rec hs hok
    exact .inr ⟨i, rec, rfl, h0, h1, h2⟩

/-- Same on runs from a well-formed state, with the candidate's `lastVal` itself. -/
theorem no_silent_overwrite_wf (c : Cfg) (st : State) (hwf : WF st) (sched : List Step) (e : Entry)
    (he : e ∈ trace c st sched) (hch : stored c e.post ≠ stored c e.pre) :
    e.out = .ok ∧
    ((∃ i rec, e.step = .create i rec ∧ stored c e.pre = none) ∨
     (∃ i rec, e.step = .update i rec ∧ stored c e.pre = (e.pre.cands i).lastVal)) := by
  obtain ⟨hok, h | h⟩ := no_silent_overwrite c st sched e he hch
  · obtain ⟨i, rec, hs, hn, _⟩ := h
    exact ⟨hok, .inl ⟨i, rec, hs, hn⟩⟩
  · obtain ⟨i, rec, hs, _, _, _⟩ := h
    exact ⟨hok, .inr ⟨i, rec, hs, (update_only_if_unchanged_wf c st hwf sched e he i rec hs hok).1⟩⟩

/-- A call that does not answer `ok` leaves the record, the engine and every candidate untouched. -/
theorem failed_step_changes_nothing (c : Cfg) (st : State) (s : Step) (h : (step c st s).1 ≠ .ok) :
    (step c st s).2 = st := step_not_ok_state c st s h

/-- Fresh locks are well-formed, and well-formedness is kept by every schedule. -/
theorem wf_reachable (c : Cfg) (s : Store) (sched : List Step) : WF (run c (State.fresh s) sched) :=
  wf_run c _ sched (wf_fresh s)

/-! ### non-vacuity: concrete runs on which the hypotheses hold -/

section Examples

def cM : Cfg := { q := Quirks.memkv, key := [47, 101] }
def cT : Cfg := { q := Quirks.tikvOld, key := [47, 101] }
def r0 : Bytes := [123, 48, 125]
def r1 : Bytes := [123, 49, 125]
def r2 : Bytes := [123, 50, 125]

def outs (c : Cfg) (sched : List Step) : List Outcome := (trace c (State.fresh []) sched).map (·.out)

/-- two candidates race for the initial create: exactly one wins -/
example : outs cM [.get 0, .get 1, .create 0 r0, .create 1 r1] = [.notFound, .notFound, .ok, .condFailed] := by
  decide
example : createOks (trace cM (State.fresh []) [.create 0 r0, .create 1 r1, .create 0 r2]) = 1 := by decide

/-- a successful update exists (hypotheses of `update_only_if_unchanged` are satisfiable) -/
example : outs cM [.create 0 r0, .get 1, .update 1 r1] = [.ok, .ok, .ok] := by decide

/-- both observe r0; the first update wins, the second fails (hypotheses of `no_double_acquire`) -/
example : outs cM [.create 0 r0, .get 1, .get 2, .update 1 r1, .update 2 r2, .get 0, .update 2 r2]
    = [.ok, .ok, .ok, .ok, .condFailed, .ok, .condFailed] := by decide

/-- `Update` does not refresh `lastVal`: a second update without re-reading fails; after a `Get` it works -/
example : outs cM [.create 0 r0, .update 0 r1, .update 0 r2, .get 0, .update 0 r2]
    = [.ok, .ok, .condFailed, .ok, .ok] := by decide

/-- update before any get/create; update after a get that found nothing -/
example : outs cM [.update 0 r0, .get 0, .update 0 r0] = [.notInitialised, .notFound, .notInitialised] := by
  decide

/-- pre-fix tikv: update of a missing record by an initialised candidate answers notFound, elsewhere condFailed -/
example : (update cT { (State.fresh []) with cands := fun _ => { lastVal := some r0, tso := 5 } } 0 r1).1
    = .notFound := by decide
example : (update cM { (State.fresh []) with cands := fun _ => { lastVal := some r0, tso := 5 } } 0 r1).1
    = .condFailed := by decide

/-- the record changes (hypothesis of `no_silent_overwrite`) -/
example : stored cM (run cM (State.fresh []) [.create 0 r0]) ≠ stored cM (State.fresh []) := by decide

end Examples

end KB.C14
