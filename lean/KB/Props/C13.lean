/-
  C13 — Range results do not depend on how the engine partitions the key space.
  Model: KB.Engine.partitions (engine borders), KB.Scan.sortParts / adjustBorders
  (scanner.adjustPartitionsBorders), KB.Backend.scanParts / doStream (one worker per partition,
  merge in partition order; forked stream receivers).
-/
import KB.Lemmas.Partition
import KB.Lemmas.Total
namespace KB.C13
open KB Generated

def readRevOf (R committed : Nat) : Nat := if R == 0 then committed else R

/-- A border an engine that splits at existing keys can produce: a well-formed internal key
(any raw key over the alphabet, any revision). -/
def GoodBorder (b : Bytes) : Prop := ∃ k r, Alphabet k ∧ r < 2 ^ 64 ∧ b = encode k r

/-- The worker loop distributes over a split of the records at a key boundary. -/
theorem scan_append (R : Nat) (l1 l2 : List Rec) (h : ∀ x ∈ l1, ∀ y ∈ l2, x.key ≠ y.key) :
    scanRecs R (l1 ++ l2) = scanRecs R l1 ++ scanRecs R l2 :=
  scanRecs_append R l1 l2 h

/-- Border adjustment is TOTAL (/repo 5ace897: `Decode` reports a border too short to be an internal key instead
of indexing out of range): whatever partitions the engine hands over — borders that are client-supplied bytes
clipped into a region included — there is an adjusted partition list; the hypothesis `adjustBorders none ps =
some out` of the theorems below is always satisfiable. -/
theorem adjustment_total (ps : List (Bytes × Bytes)) : ∃ out, adjustBorders none ps = some out :=
  adjustBorders_total none ps

/-- ... hence a partitioned scan never panics on account of its borders or of the keys it meets: any store, any
start and end bytes, any region borders (`KB.C20Requests.stream_with_any_borders_never_panics` for the streamed
range). -/
theorem partitioned_scan_never_panics (c : Cfg) (st : Store) (start stop : Bytes) (rev : Nat) :
    (∃ outs, scanParts c st start stop rev = .ok outs) ∨ (∃ e, scanParts c st start stop rev = .error e) :=
  ScanRes.notPanic_iff.mp (scanParts_notPanic c st start stop rev)

/-- After adjustment every interior border that decodes is an index-record position. -/
theorem adjusted_borders_are_index_positions (ps : List (Bytes × Bytes)) (out : List (Bytes × Bytes))
    (h : adjustBorders none ps = some out) :
    ∀ i, i + 1 < out.length → ∀ k r, decode (out[i]!).2 = .ok k r → r = 0 :=
  (adjustBorders_spec none ps out h).2.2.2.2

/-- Adjustment keeps the partitions contiguous (each start is the previous end) and keeps the
outer bounds. -/
theorem adjusted_contiguous (ps : List (Bytes × Bytes)) (out : List (Bytes × Bytes))
    (h : adjustBorders none ps = some out) :
    out.length = ps.length ∧ (∀ i, i + 1 < out.length → (out[i + 1]!).1 = (out[i]!).2) ∧
    (out.head?.map (·.1) = ps.head?.map (·.1)) ∧ (out.getLast?.map (·.2) = ps.getLast?.map (·.2)) := by
  obtain ⟨h1, h2, h3, h4, _⟩ := adjustBorders_spec none ps out h
  exact ⟨h1, h2, by simpa using h3, h4⟩

/-- Main theorem: for any placement of (well-formed) engine borders — between keys, on an index
record, in the middle of one key's versions — the concatenation in partition order of the
per-partition worker outputs is the unpartitioned result. -/
theorem partitioned_eq_whole (c : Cfg) {recs : List Rec} (hs : SortedRecs recs)
    (hk : ∀ r ∈ recs, Alphabet r.key ∧ r.rev < 2 ^ 64)
    (splits : List Bytes) (hsorted : splits.Pairwise (fun x y => cmp x y = .lt))
    (hgood : ∀ b ∈ splits, GoodBorder b)
    (a b : Bytes) (ha : Alphabet a) (hb : Alphabet b) (hab : cmp a b = .lt) (R : Nat) :
    ∃ outs, scanParts { c with splits := splits } (encodeStore recs) (encode a 0) (encode b 0) R = .ok outs ∧
      outs.flatten = scanRecs R (recs.filter (fun r => ble a r.key && blt r.key b)) :=
  scanParts_encodeStore c hs hk splits hsorted hgood a b ha hb hab R

/-- Streamed range: every data batch names the revision it was read at, and there is exactly one
terminator, last, carrying the error if any (by construction of `doStream`; the content is that
`doStream` is what the harness observes of ListByStream — see the correspondence suite). -/
theorem stream_shape (c : Cfg) (s : BState) (start stop : Bytes) (R : Nat) (res : StreamRes)
    (h : doStream c s start stop R = .ok res) :
    (∀ b ∈ res.batches, b.1 = readRevOf R s.committed) ∧ res.endHdr = readRevOf R s.committed := by
  unfold doStream at h
  simp only at h
  split at h
  · cases h
    refine ⟨?_, rfl⟩
    intro b hb
    simp only [List.mem_map] at hb
    obtain ⟨_, _, rfl⟩ := hb
    rfl
  · cases h
    exact ⟨by simp, rfl⟩
  · cases h

end KB.C13
