/-
  C07 with the ttl pass switched on — the compaction of an engine WITHOUT native ttl (TiKV), whose worker also
  expires Events (`worker.compactIfExpired`, scanner.go): timeout revision `T ≠ 0`, `supportTTL = false`.
  Model: `KB.passLoop` / `KB.passRun` — the worker loop as it runs, record by record, every call executed against
  the live store under an arbitrary failure mask before the next record is looked at (what the versions of an expired
  Event are in for depends on the OUTCOME of the expiry batch made at its revision record — since /repo 74218cc ONE
  write batch: compare-and-delete of the record + deletes of the versions the snapshot shows —: `goneEventRawKey` /
  `liveEventRawKey`). A crash after n calls is the mask that fails every call from n on.

  What is proved, for every sorted store, every `R`, every `T ≠ 0`, every mask:
  * a key that is not an Event, or an Event whose revision record names a revision above `T` (its newest change is
    younger than the ttl), or an Event whose revision record the pass did not remove (its expiry batch
    failed, whatever the class of the failure): every read at every revision ≥ R is unchanged, point and range,
    and what the pass removed of it is what the ordinary compaction rules remove;
  * all-or-nothing under every mask / crash point and "every key stays writable": `KB.Props.C07Atomic`;
  * the refutation of the rule as it was before "fix: the ttl pass spares the versions of an Event whose revision
    record is not expired" (`old_ttl_pass_removes_live_version`).
  In the real code `T` is the revision of an earlier compaction mark (`getTimeoutRevision`), so `T ≤ R` as long as
  compactions are requested at non-decreasing revisions; the theorems do NOT need that hypothesis (the examples
  satisfy it: `T = 5`, `R = 7`).
-/
import KB.Lemmas.ExpirePass
import KB.Lemmas.Expire
namespace KB.C07Expire
open KB KB.Compact KB.ExpirePass Generated

/-- the store after one worker's pass over `recs` -/
def finalStore (c : WCfg) (mask : Nat → DelOutcome) (recs : List Rec) : Store :=
  (passRun c mask { store := encodeStore recs } recs).2.store

/-- the decoded store after the pass -/
def after (c : WCfg) (mask : Nat → DelOutcome) (recs : List Rec) : List Rec :=
  recs.filter (fun r => ((finalStore c mask recs).get r.ik).isSome)

/-- the newest change of `k` is younger than the ttl: its revision record names a revision above the timeout
revision -/
def Young (c : WCfg) (recs : List Rec) (k : Bytes) : Prop :=
  ∃ i ∈ recs, i.key = k ∧ i.rev = 0 ∧ 8 ≤ i.val.length ∧ c.timeout < fromBE (i.val.take 8)

/-- the revision record of `k` is still there after the pass -/
def IndexKept (c : WCfg) (mask : Nat → DelOutcome) (recs : List Rec) (k : Bytes) : Prop :=
  ∃ i ∈ recs, i.key = k ∧ i.rev = 0 ∧ 8 ≤ i.val.length ∧ (finalStore c mask recs).get i.ik ≠ none

/-- not expired: what C17 says the ttl pass must not remove -/
def NotExpired (c : WCfg) (recs : List Rec) (k : Bytes) : Prop := isEventKey c k = false ∨ Young c recs k

/-- the keys the ttl pass of THIS run has to leave to the ordinary compaction rules -/
def Spared (c : WCfg) (mask : Nat → DelOutcome) (recs : List Rec) (k : Bytes) : Prop :=
  NotExpired c recs k ∨ IndexKept c mask recs k

theorem protOK_of_spared {c : WCfg} {mask : Nat → DelOutcome} {recs : List Rec} {sp : Bytes → Bool}
    (h : ∀ k, sp k = true → Spared c mask recs k) : ProtOK c sp (finalStore c mask recs) recs := by
  intro k hk hev
  rcases h k hk with (h | ⟨i, hi, h1, h2, h3, h4⟩) | ⟨i, hi, h1, h2, h3, h4⟩
  · rw [hev] at h; cases h
  · exact ⟨i, hi, h1, h2, h3, .inl h4⟩
  · exact ⟨i, hi, h1, h2, h3, .inr h4⟩

section
variable {recs : List Rec} (hs : SortedRecs recs) (hw : WellKeyed recs)
  (hk : ∀ r ∈ recs, Alphabet r.key ∧ r.rev < 2 ^ 64) (hne : ∀ r ∈ recs, r.key ≠ [])
  (c : WCfg) (hcomp : c.compact = true) (httl : c.supportTTL = false) (hT : c.timeout ≠ 0)
  (mask : Nat → DelOutcome)
include hs hw hk hne hcomp httl hT

/-- What the pass removes of a spared key is what compaction at `R` may remove: at or below `R`; a revision record
only with the deletion flag; a version only when it is a deletion marker or superseded by a newer version ≤ R of the
same key. In particular the ttl pass removes NOTHING of it. -/
theorem spared_removed_is_deletable (k : Bytes) (hsp : Spared c mask recs k) (d : Rec) (hd : d ∈ recs)
    (hdk : d.key = k) (hgone : (finalStore c mask recs).get d.ik = none) : Deletable c.R recs d := by
  have hP : ProtOK c (fun k' => k' == k) (finalStore c mask recs) recs :=
    protOK_of_spared (fun k' hk' => by rw [beq_iff_eq.1 hk']; exact hsp)
  exact (passRun_inv hs hw hk hne hcomp httl hT hP).2 d (mem_pf.2 ⟨hd, by simp [hdk]⟩) hgone

/-- **Main theorem.** A compaction pass at `R` WITH the ttl pass enabled (engine without native ttl, timeout
revision `T ≠ 0`), whatever delete calls succeed, fail (with whatever class of error) or are cut short: for every
key that is not an Event, or whose newest change is younger than the ttl (revision record above `T`), or whose
revision record the pass did not remove, every read at every revision ≥ R returns exactly what it returned
before. -/
theorem spared_reads_unchanged (k : Bytes) (hsp : Spared c mask recs k) (R' : Nat) (hR : c.R ≤ R') :
    readAt R' (after c mask recs) k = readAt R' recs k := by
  have hP : ProtOK c (fun k' => k' == k) (finalStore c mask recs) recs :=
    protOK_of_spared (fun k' hk' => by rw [beq_iff_eq.1 hk']; exact hsp)
  obtain ⟨hTC, hDel⟩ := passRun_inv hs hw hk hne hcomp httl hT hP
  have hkeep : ∀ d : Rec, ((finalStore c mask recs).get d.ik).isSome = false ↔
      (finalStore c mask recs).get d.ik = none := by
    intro d; cases (finalStore c mask recs).get d.ik <;> simp
  unfold after
  apply readAt_filter_key hs _ c.R R' hR k
  · intro d hd hdk hkd
    exact hDel d (mem_pf.2 ⟨hd, by simp [hdk]⟩) ((hkeep d).1 hkd)
  · intro t ht htk hkt htomb hpos w hw' hwk h0 hlt
    rw [hkeep w]
    exact hTC t (mem_pf.2 ⟨ht, by simp [htk]⟩) ((hkeep t).1 hkt) htomb hpos w
      (mem_pf.2 ⟨hw', by simp [hwk, htk]⟩) hwk h0 hlt

/-- The statement of C07 for the pass with expiry: a key that is NOT an event key, or whose revision record has a
revision above the timeout revision (newest change younger than the ttl) reads the same at every revision ≥ R. -/
theorem compact_preserves_reads (k : Bytes) (hk' : NotExpired c recs k) (R' : Nat) (hR : c.R ≤ R') :
    readAt R' (after c mask recs) k = readAt R' recs k :=
  spared_reads_unchanged hs hw hk hne c hcomp httl hT mask k (.inl hk') R' hR

/-- Range form: restricted to any set `sp` of spared keys the range read at every revision ≥ R is unchanged. -/
theorem spared_scan_unchanged (sp : Bytes → Bool) (hsp : ∀ k, sp k = true → Spared c mask recs k)
    (R' : Nat) (hR : c.R ≤ R') :
    (scanRecs R' (after c mask recs)).filter (fun e => sp e.1) = (scanRecs R' recs).filter (fun e => sp e.1) :=
  scan_filter_on hs _ R' sp
    (fun k hk' => spared_reads_unchanged hs hw hk hne c hcomp httl hT mask k (hsp k hk') R' hR)

/-- … in particular restricted to the keys that are not expired. -/
theorem compact_preserves_scan (sp : Bytes → Bool) (hsp : ∀ k, sp k = true → NotExpired c recs k)
    (R' : Nat) (hR : c.R ≤ R') :
    (scanRecs R' (after c mask recs)).filter (fun e => sp e.1) = (scanRecs R' recs).filter (fun e => sp e.1) :=
  spared_scan_unchanged hs hw hk hne c hcomp httl hT mask sp (fun k h => .inl (hsp k h)) R' hR

/-- An EXPIRED Event (revision record at or below the timeout revision) whose revision record the pass did not
remove — its compare-and-delete failed: the engine refused it with whatever class of error, or the record had
changed — loses NONE of its versions to expiry: whatever the pass removed of it is what the ordinary compaction rules
remove (superseded versions ≤ R, deletion markers), and every read at every revision ≥ R is unchanged. -/
theorem expired_index_failure_spares_versions (i : Rec) (hi : i ∈ recs) (hi0 : i.rev = 0)
    (h8 : 8 ≤ i.val.length) (_hexp : fromBE (i.val.take 8) ≤ c.timeout)
    (hkept : (finalStore c mask recs).get i.ik ≠ none) :
    (∀ w ∈ recs, w.key = i.key → (finalStore c mask recs).get w.ik = none → Deletable c.R recs w) ∧
    ∀ R', c.R ≤ R' → readAt R' (after c mask recs) i.key = readAt R' recs i.key := by
  have hsp : Spared c mask recs i.key := .inr ⟨i, hi, rfl, hi0, h8, hkept⟩
  exact ⟨fun w hw' hwk hg => spared_removed_is_deletable hs hw hk hne c hcomp httl hT mask i.key hsp w hw' hwk hg,
    fun R' hR => spared_reads_unchanged hs hw hk hne c hcomp httl hT mask i.key hsp R' hR⟩

end

/-- **Wholly.** An EXPIRED Event — revision record and every version at or below the timeout revision — in a pass
all of whose calls succeed: revision record and versions are gone together (in ONE engine call when the revision
record is there: `KB.C07Atomic`); the key reads absent at every revision and has no record left (so it can be created
again). (`hmax`: `expireEvent` iterates the versions below revision `MaxUint64`; no revision that large is ever
dealt.) -/
theorem expired_key_removed_wholly {recs : List Rec} (hs : SortedRecs recs) (hw : WellKeyed recs)
    (hk : ∀ r ∈ recs, Alphabet r.key ∧ r.rev < 2 ^ 64)
    (c : WCfg) (httl : c.supportTTL = false) (hT : c.timeout ≠ 0)
    (mask : Nat → DelOutcome) (hok : ∀ i, mask i = .ok) (k : Bytes) (hev : isEventKey c k = true)
    (hidx : ∀ i ∈ recs, i.key = k → i.rev = 0 → 8 ≤ i.val.length ∧ fromBE (i.val.take 8) ≤ c.timeout)
    (hver : ∀ w ∈ recs, w.key = k → w.rev ≤ c.timeout)
    (hmax : ∀ w ∈ recs, w.key = k → w.rev < 2 ^ 64 - 1) :
    (∀ w ∈ recs, w.key = k → (finalStore c mask recs).get w.ik = none) ∧
    (∀ w ∈ after c mask recs, w.key ≠ k) ∧ ∀ R', readAt R' (after c mask recs) k = none := by
  have hgone : ∀ w ∈ recs, w.key = k → (finalStore c mask recs).get w.ik = none := by
    have hk0 : k ≠ [] := by
      intro h0
      rw [h0, isEventKey_nil] at hev; cases hev
    apply pass_removes_expired hs hw hk httl hT hok hev hidx hver hmax recs [] {} [] []
      { store := encodeStore recs, lastFailed := [] } rfl
    exact ⟨rfl, encodeStore_sorted hs hk, by decide, .inr ⟨fun _ h => by simp at h,
      fun w hwm _ => by rw [hw w hwm]; exact encodeStore_get hs hk hwm, fun h => hk0 h.symm, fun h => hk0 h.symm⟩⟩
  have hnot : ∀ w ∈ after c mask recs, w.key ≠ k := by
    intro w hwa hwk
    have := List.mem_filter.1 hwa
    rw [hgone w this.1 hwk] at this
    exact absurd this.2 (by decide)
  refine ⟨hgone, hnot, fun R' => ?_⟩
  unfold readAt visible
  have : (after c mask recs).filter (fun r => r.key == k && decide (0 < r.rev) && decide (r.rev ≤ R')) = [] := by
    rw [List.filter_eq_nil_iff]
    intro w hwa
    simp [hnot w hwa]
  rw [this]; rfl

/-! ### one step: a failed expiry batch is remembered -/

/-- `expireEvent` returns an error exactly when it made the call and the call did not remove the Event: the engine
answered with an error — of the failed-condition class or any other — or the record under the iterator had changed. -/
theorem expireErr_iff (mask : Nat → DelOutcome) (st : CompState) (ik v raw : Bytes) :
    expireErr mask st ik v raw = true ↔
      ¬ (st.lastFailed ≠ [] ∧ st.lastFailed = raw) ∧
      (mask st.calls = .fail ∨ mask st.calls = .failCas ∨ st.store.get ik ≠ some v) := by
  unfold expireErr
  by_cases h1 : st.lastFailed = [] <;> by_cases h2 : st.lastFailed = raw <;>
    cases hm : mask st.calls <;> simp [h1, h2, List.length_pos_iff]

/-- The worker loop at the expired revision record `r` of an Event whose expiry batch returns an error: NOTHING of
the Event is removed (revision record and versions are one batch), the key is remembered (`liveEventRawKey`), and
from then on `compactIfExpired` answers "not expired" for EVERY version of that key — they are left to the ordinary
rules. -/
theorem failed_index_delete_is_remembered (c : WCfg) (mask : Nat → DelOutcome) (snap : List Rec) (p : Prev)
    (live gone : Bytes) (st : CompState) (r : Rec) (rs : List Rec) (hidx : expiry c live gone r = .idx)
    (herr : expireErr mask st r.ik r.val r.key = true) :
    (runExpire mask st r.ik r.val (versionsOf r.key snap) r.key).store = st.store ∧
    passLoop c mask snap p live gone st (r :: rs) =
      (.expire r.ik r.val (versionsOf r.key snap) r.key ::
        (passLoop c mask snap p r.key gone (runExpire mask st r.ik r.val (versionsOf r.key snap) r.key) rs).1,
       (passLoop c mask snap p r.key gone (runExpire mask st r.ik r.val (versionsOf r.key snap) r.key) rs).2) ∧
    ∀ w : Rec, w.key = r.key → w.rev ≠ 0 → gone ≠ r.key → expireStep c r.key gone snap w = none := by
  refine ⟨?_, ?_, ?_⟩
  · rcases runExpire_cases mask st r.ik r.val (versionsOf r.key snap) r.key with ⟨_, _, h⟩ | ⟨_, h, _⟩ | ⟨_, _, h, _⟩
    · rw [h] at herr; cases herr
    · rw [h] at herr; cases herr
    · exact h
  · rw [passLoop_cons, hidx]
    simp only [herr, if_true]
  · intro w hwk hw0 hg
    unfold expireStep
    rcases expiry_cases c r.key gone w with h0 | ⟨_, _, _, ⟨_, h, _⟩ | ⟨_, h, _, _⟩ | ⟨_, h, _, _⟩ | ⟨_, _, h⟩ |
        ⟨_, _, _, h, _⟩⟩
    · rw [h0]
    · exact absurd h hw0
    · exact absurd h hw0
    · exact absurd h hw0
    · exact absurd (hwk ▸ h).symm hg
    · exact absurd hwk h

/-! ### the rule as it was before the fix -/

/-- the decoded store after a pass of the OLD worker (`workerActsOld`: every record of an event key at or below the
timeout revision expires on its own) -/
def afterOld (c : WCfg) (mask : Nat → DelOutcome) (recs : List Rec) : List Rec :=
  let st := runDeletes mask { store := encodeStore recs } (workerActsOld c recs)
  recs.filter (fun r => (st.store.get r.ik).isSome)

/-- events directory `/e/`, Event `/e/x`, non-event key `/n` -/
def exPfx : Bytes := [47, 101, 47]
def exE : Bytes := [47, 101, 47, 120]
def exN : Bytes := [47, 110]
/-- compaction at 7, timeout revision 5 (an earlier compaction mark: `T ≤ R`) -/
def exCfg : WCfg := { R := 7, compact := true, timeout := 5, supportTTL := false, eventsPfx := exPfx }
/-- the Event was created at 3 (value `[1]`) and updated at 9 (value `[2]`): its revision record says 9; `/n` was
created at 4 and updated at 6 -/
def exRecs : List Rec :=
  [ { key := exE, rev := 0, val := be64 9, ik := encode exE 0 },
    { key := exE, rev := 3, val := [1], ik := encode exE 3 },
    { key := exE, rev := 9, val := [2], ik := encode exE 9 },
    { key := exN, rev := 0, val := be64 6, ik := encode exN 0 },
    { key := exN, rev := 4, val := [7], ik := encode exN 4 },
    { key := exN, rev := 6, val := [8], ik := encode exN 6 } ]

/-- **Refutation of the old rule.** The Event `/e/x` was updated at 9 — after the mark at 5, its newest change is
younger than the ttl — and the compaction runs at 7. The OLD ttl pass removes the version at 3 (it is ≤ 5) although
it is what every read in [7, 9) returns: `readAt 7` flips from `[1]` to absent (point and range read), i.e.
`Compact(7)` made a live Event vanish from reads at 7. The worker as it is now remembers the key when it sees the
revision record and leaves the version alone; the hypotheses of the main theorem hold for this store. -/
theorem old_ttl_pass_removes_live_version :
    SortedRecs exRecs ∧ WellKeyed exRecs ∧ (∀ r ∈ exRecs, Alphabet r.key ∧ r.rev < 2 ^ 64) ∧
    (∀ r ∈ exRecs, r.key ≠ []) ∧
    exCfg.compact = true ∧ exCfg.supportTTL = false ∧ exCfg.timeout ≠ 0 ∧ exCfg.timeout ≤ exCfg.R ∧
    isEventKey exCfg exE = true ∧ isEventKey exCfg exN = false ∧
    -- before the pass
    readAt 7 exRecs exE = some ([1], 3) ∧ scanRecs 7 exRecs = [(exE, [1], 3), (exN, [8], 6)] ∧
    -- the old rule: the live version is gone
    readAt 7 (afterOld exCfg (fun _ => .ok) exRecs) exE = none ∧
    scanRecs 7 (afterOld exCfg (fun _ => .ok) exRecs) = [(exN, [8], 6)] ∧
    -- the rule as it is: unchanged (only `/n`'s superseded version at 4 is compacted)
    readAt 7 (after exCfg (fun _ => .ok) exRecs) exE = some ([1], 3) ∧
    scanRecs 7 (after exCfg (fun _ => .ok) exRecs) = [(exE, [1], 3), (exN, [8], 6)] ∧
    (after exCfg (fun _ => .ok) exRecs).map (fun r => (r.key, r.rev)) =
      [(exE, 0), (exE, 3), (exE, 9), (exN, 0), (exN, 6)] := by
  decide

/-! Non-vacuity -/
example : Young exCfg exRecs exE := ⟨_, List.mem_cons_self, rfl, rfl, by decide, by decide⟩
example : NotExpired exCfg exRecs exN := .inl (by decide)
example (R' : Nat) (hR : 7 ≤ R') (mask : Nat → DelOutcome) :
    readAt R' (after exCfg mask exRecs) exE = readAt R' exRecs exE :=
  compact_preserves_reads (by decide) (by decide) (by decide) (by decide) exCfg rfl rfl (by decide) mask exE
    (.inr ⟨_, List.mem_cons_self, rfl, rfl, by decide, by decide⟩) R' hR

/-- the range read restricted to the two keys (both not expired), under any mask -/
example (R' : Nat) (hR : 7 ≤ R') (mask : Nat → DelOutcome) :
    (scanRecs R' (after exCfg mask exRecs)).filter (fun e => e.1 == exE || e.1 == exN) =
      (scanRecs R' exRecs).filter (fun e => e.1 == exE || e.1 == exN) :=
  compact_preserves_scan (by decide) (by decide) (by decide) (by decide) exCfg rfl rfl (by decide) mask
    (fun k => k == exE || k == exN)
    (fun k hk => by
      have hk' : (k == exE) = true ∨ (k == exN) = true := by simpa using hk
      rcases hk' with h | h
      · rw [beq_iff_eq.1 h]; exact .inr ⟨_, List.mem_cons_self, rfl, rfl, by decide, by decide⟩
      · rw [beq_iff_eq.1 h]; exact .inl (by decide)) R' hR

/-- an EXPIRED Event (newest change at 4 ≤ 5) with two versions, next to `/n` -/
def exOld : List Rec :=
  [ { key := exE, rev := 0, val := be64 4, ik := encode exE 0 },
    { key := exE, rev := 3, val := [1], ik := encode exE 3 },
    { key := exE, rev := 4, val := [2], ik := encode exE 4 },
    { key := exN, rev := 0, val := be64 6, ik := encode exN 0 },
    { key := exN, rev := 6, val := [8], ik := encode exN 6 } ]
example : SortedRecs exOld ∧ WellKeyed exOld := by decide
example : isEventKey exCfg exE = true ∧
    (∀ i ∈ exOld, i.key = exE → i.rev = 0 → 8 ≤ i.val.length ∧ fromBE (i.val.take 8) ≤ exCfg.timeout) ∧
    (∀ w ∈ exOld, w.key = exE → w.rev ≤ exCfg.timeout) ∧ (∀ w ∈ exOld, w.key = exE → w.rev < 2 ^ 64 - 1) := by decide
/-- all calls succeed: revision record and both versions go together — in one call -/
example : (passRun exCfg (fun _ => .ok) { store := encodeStore exOld } exOld).2.trace =
    [.expire (encode exE 0) 2] := by decide
example : (after exCfg (fun _ => .ok) exOld).map (fun r => (r.key, r.rev)) = [(exN, 0), (exN, 6)] := by decide
/-- the expiry batch (call 0) fails with a failed-condition error: nothing expires; the
version at 3, superseded by the one at 4 ≤ 7, is compacted by the ordinary rule; reads at ≥ 7 see `[2]` as before -/
example : (after exCfg (fun i => if i = 0 then .failCas else .ok) exOld).map (fun r => (r.key, r.rev)) =
    [(exE, 0), (exE, 4), (exN, 0), (exN, 6)] := by decide
/-- the hypotheses of `expired_index_failure_spares_versions` for that run: the revision record is expired and still there -/
example : fromBE ((be64 4).take 8) ≤ exCfg.timeout ∧
    (finalStore exCfg (fun i => if i = 0 then .failCas else .ok) exOld).get (encode exE 0) ≠ none := by decide
/-- … with any other error the key is also the `lastCompactFailedRawKey`: nothing of it is touched -/
example : after exCfg (fun i => if i = 0 then .fail else .ok) exOld = exOld := by decide
/-- the rule BEFORE 8442634 with the same failed-condition error (on the compare-and-delete of the revision record,
a call of its own then) removed both versions and left the revision record behind -/
example : (afterOld exCfg (fun i => if i = 0 then .failCas else .ok) exOld).map (fun r => (r.key, r.rev)) =
    [(exE, 0), (exN, 0), (exN, 6)] := by decide
example : expiry exCfg [] [] { key := exE, rev := 0, val := be64 4, ik := encode exE 0 } = .idx ∧
    expireErr (fun i => if i = 0 then .failCas else .ok) { store := encodeStore exOld } (encode exE 0) (be64 4) exE = true := by
  decide

end KB.C07Expire

#print axioms KB.C07Expire.spared_removed_is_deletable
#print axioms KB.C07Expire.spared_reads_unchanged
#print axioms KB.C07Expire.compact_preserves_reads
#print axioms KB.C07Expire.spared_scan_unchanged
#print axioms KB.C07Expire.compact_preserves_scan
#print axioms KB.C07Expire.expired_index_failure_spares_versions
#print axioms KB.C07Expire.expired_key_removed_wholly
#print axioms KB.C07Expire.expireErr_iff
#print axioms KB.C07Expire.failed_index_delete_is_remembered
#print axioms KB.C07Expire.old_ttl_pass_removes_live_version
