/-
  C10 — Internal key encoding is reversible and order-preserving.
  Property theorems only; helper lemmas live in KB.Lemmas.Coder / KB.Bytes.
  Model: KB.Coder (encode / decode / parseRevision / prefixEnd), constants regenerated from
  /repo/pkg/backend/coder/normal.go, rev.go and pkg/backend/util.go.
-/
import KB.Lemmas.Coder
namespace KB.C10
open KB Generated

/-- Side condition tying the model's alphabet to the documented one: every byte greater than
`'$'` (0x24) is greater than the split byte *as it is in the source now*. -/
theorem documented_alphabet (k : Bytes) (h : ∀ b ∈ k, 36 < b) : Alphabet k := by
  intro b hb; have := h b hb; unfold splitByte; omega

/-- Round trip; needs no alphabet. -/
theorem decode_encode (k : Bytes) (r : Nat) (hr : r < 2 ^ 64) : decode (encode k r) = .ok k r :=
  KB.decode_encode k r hr

/-- Encoded keys sort by key first and revision second. -/
theorem encode_lt_iff {k1 k2 : Bytes} {r1 r2 : Nat} (h1 : Alphabet k1) (h2 : Alphabet k2)
    (hr1 : r1 < 2 ^ 64) (hr2 : r2 < 2 ^ 64) :
    blt (encode k1 r1) (encode k2 r2) = true ↔ (blt k1 k2 = true ∨ (k1 = k2 ∧ r1 < r2)) := by
  rw [blt_iff, encode_cmp h1 h2 hr1 hr2, blt_iff]
  by_cases h : k1 = k2
  · subst h; simp [Nat.compare_eq_lt]
  · simp [h]

theorem encode_le_iff {k1 k2 : Bytes} {r1 r2 : Nat} (h1 : Alphabet k1) (h2 : Alphabet k2)
    (hr1 : r1 < 2 ^ 64) (hr2 : r2 < 2 ^ 64) :
    ble (encode k1 r1) (encode k2 r2) = true ↔ (blt k1 k2 = true ∨ (k1 = k2 ∧ r1 ≤ r2)) := by
  rw [ble_iff, encode_cmp h1 h2 hr1 hr2, blt_iff]
  by_cases h : k1 = k2
  · subst h; simp [Nat.compare_eq_gt]
  · simp only [h, if_false, false_and, or_false]
    have := @cmp_eq_iff k1 k2
    cases hc : cmp k1 k2 <;> simp_all

/-- The index record (revision 0) of a key sorts before all of its versions. -/
theorem index_first {k : Bytes} {r : Nat} (h : Alphabet k) (hr : r < 2 ^ 64) :
    ble (encode k 0) (encode k r) = true := by
  rw [encode_le_iff h h (by decide) hr]; exact .inr ⟨rfl, Nat.zero_le _⟩

/-- All records of one key are contiguous: anything between two of them belongs to that key. -/
theorem contiguous {k k' : Bytes} {r1 r2 r' : Nat} (h : Alphabet k) (h' : Alphabet k')
    (hr1 : r1 < 2 ^ 64) (hr2 : r2 < 2 ^ 64) (hr' : r' < 2 ^ 64)
    (hlo : ble (encode k r1) (encode k' r') = true) (hhi : ble (encode k' r') (encode k r2) = true) :
    k' = k := by
  rw [encode_le_iff h h' hr1 hr'] at hlo
  rw [encode_le_iff h' h hr' hr2] at hhi
  rcases hlo with hlo | ⟨rfl, _⟩
  · rcases hhi with hhi | ⟨rfl, _⟩
    · rw [blt_iff] at hlo hhi
      have := cmp_lt_trans hlo hhi
      simp at this
    · rfl
  · rfl

/-- The bounds computed for a raw range `[a, b)` enclose exactly the records of the raw keys in it. -/
theorem range_bounds_exact {a b k : Bytes} {r : Nat} (ha : Alphabet a) (hb : Alphabet b)
    (hk : Alphabet k) (hr : r < 2 ^ 64) :
    (ble (encode a 0) (encode k r) = true ∧ blt (encode k r) (encode b 0) = true) ↔
      (ble a k = true ∧ blt k b = true) := by
  rw [encode_le_iff ha hk (by decide) hr, encode_lt_iff hk hb hr (by decide), ble_iff_lt_or_eq, blt_iff]
  constructor
  · rintro ⟨h1, h2⟩
    refine ⟨?_, ?_⟩
    · rcases h1 with h1 | ⟨h1, _⟩
      · exact .inl h1
      · exact .inr h1
    · rcases h2 with h2 | ⟨_, h2⟩
      · exact h2
      · omega
  · rintro ⟨h1, h2⟩
    refine ⟨?_, .inl h2⟩
    rcases h1 with h1 | h1
    · exact .inl h1
    · exact .inr ⟨h1, Nat.zero_le _⟩

/-- Prefix end: for a prefix with some byte below 0xff, `[p, prefixEnd p)` is exactly the keys
with prefix `p`. -/
theorem prefix_end_exact {p k : Bytes} (hp : ∀ b ∈ p, b < 256) (hk : ∀ b ∈ k, b < 256)
    (hne : ∃ b ∈ p, b ≠ 255) :
    hasPrefix k p = true ↔ (ble p k = true ∧ blt k (prefixEnd p) = true) := by
  cases he : prefixEndAux p with
  | none =>
    obtain ⟨b, hb, hb'⟩ := hne
    exact absurd (prefixEndAux_none hp he b hb) hb'
  | some e =>
    have := prefix_end_exact_aux (k := k) hp hk he
    simpa [prefixEnd, he] using this

/-- Degenerate prefixes (empty or all 0xff) yield the `noPrefixEnd` sentinel `[0]`. -/
theorem prefix_end_degenerate {p : Bytes} (h : ∀ b ∈ p, b = 255) : prefixEnd p = noPrefixEnd := by
  simp [prefixEnd, prefixEndAux_all255 h]

/-- The sentinel is below every non-empty key over the alphabet, so a range `[p, [0])` with
`p` over the alphabet is inverted and the range handlers reject it (List: `Compare(Key, End) >= 0`). -/
theorem sentinel_inverts {p : Bytes} (hp : Alphabet p) (hne : p ≠ []) :
    ble noPrefixEnd p = true := by
  cases p with
  | nil => exact absurd rfl hne
  | cons x xs =>
    have : splitByte < x := hp x (by simp)
    unfold splitByte at this
    have h1 : 0 < x := by omega
    simp [noPrefixEnd, ble, cmp_cons_cons, h1]

/-- Index-record value parser: total classification by length. -/
theorem parseRevision_live (r : Nat) (hr : r < 2 ^ 64) : parseRevision (be64 r) = some (r, false) := by
  have hl : (be64 r).length = 8 := by simp [be64]
  have : (be64 r).take 8 = be64 r := by rw [← hl]; exact List.take_length
  simp [parseRevision, hl, revisionValueLength, this, fromBE_be64 hr]

theorem parseRevision_deleted (r f : Nat) (hr : r < 2 ^ 64) :
    parseRevision (be64 r ++ [f]) = some (r, true) := by
  have hl : (be64 r).length = 8 := by simp [be64]
  have : (be64 r ++ [f]).take 8 = be64 r := by rw [← hl]; simp
  simp [parseRevision, hl, revisionValueLength, revisionValueLengthWithDeletionFlag, this, fromBE_be64 hr]

theorem parseRevision_other (b : Bytes) (h8 : b.length ≠ 8) (h9 : b.length ≠ 9) : parseRevision b = none := by
  simp [parseRevision, revisionValueLength, revisionValueLengthWithDeletionFlag, h8, h9]

/-! ### `Decode` is total (/repo 5ace897): a key too short to be an internal key is an error, not an index out of range -/

/-- `Decode` never indexes out of range: on NO input is the answer of the model `panic`. -/
theorem decode_never_panics (ik : Bytes) : decode ik ≠ .panic := KB.decode_never_panics ik

/-- Every byte string is either decoded or reported as not an internal key. -/
theorem decode_total (ik : Bytes) : decode ik = .err ∨ ∃ k r, decode ik = .ok k r := KB.decode_total ik

/-- A key shorter than magic (4) + split byte (1) + revision (8) is reported ... -/
theorem decode_short_is_error {ik : Bytes} (h : ik.length < 13) : decode ik = .err := KB.decode_short h

/-- ... and whatever decodes is at least that long. -/
theorem decode_ok_length {ik k : Bytes} {r : Nat} (h : decode ik = .ok k r) : 13 ≤ ik.length :=
  KB.decode_ok_length h

/-- The repair changed nothing where the old `Decode` gave an answer. -/
theorem decode_eq_old {ik : Bytes} (h : decodeOld ik ≠ .panic) : decode ik = decodeOld ik := KB.decode_eq_old h

/-- THE DEFECT (before /repo 5ace897), by evaluation: the old `Decode` indexed out of range on the empty key, on
a 1-byte key (`internalKey[:4]`), on the bare magic (4 bytes) and on magic + 4 bytes (`internalKey[len-9]`), next
to the repaired answers. (From 9 bytes on the byte at `len-9` of a key with the right magic is a magic byte, not
the split byte, up to 12 bytes: the old code reported those as errors already.) -/
theorem old_decode_panics :
    decodeOld [] = .panic ∧ decodeOld [47] = .panic ∧ decodeOld magic = .panic ∧
    decodeOld (magic ++ [36, 0, 0, 0]) = .panic ∧
    decode [] = .err ∧ decode [47] = .err ∧ decode magic = .err ∧
    decode (magic ++ [36, 0, 0, 0]) = .err ∧
    decodeOld (magic ++ [36, 0, 0, 0, 0, 0, 0, 0]) = .err ∧
    decode (magic ++ [36, 0, 0, 0, 0, 0, 0, 0]) = .err ∧
    decode (magic ++ [36, 0, 0, 0, 0, 0, 0, 0, 7]) = .ok [] 7 := by decide

/-! ### range bounds with bytes at or below the split byte (`encodeBound` = `backend.encodeRangeBound`, /repo
23c8b93: a bound is cut at its FIRST such byte): for EVERY raw bound — arbitrary bytes — the encoded bounds
enclose exactly the records of the raw keys between the raw bounds -/

/-- The model's cut byte and loop shape are those of the source as it is now (regenerated): the bound is cut at
the first byte `<=` the constant, and the constant is the coder's split byte. -/
theorem bound_cut_as_in_source :
    rangeBoundShape = "first:<=:keyRevisionSeparator" ∧ rangeBoundSeparator = splitByte ∧ constsUnresolved = [] := by
  decide

/-- What `encodeRangeBound` computes: a bound over the alphabet is its index key; a bound `P ++ c :: rest` whose
first byte at or below the separator is `c` is "just after every version of `P`". -/
theorem encodeBound_cases (b : Bytes) :
    (Alphabet b ∧ encodeBound b = encode b 0) ∨
    (∃ P c rest, Alphabet P ∧ c ≤ splitByte ∧ b = P ++ c :: rest ∧ encodeBound b = encode P (2 ^ 64 - 1) ++ [0]) :=
  bound_cases b

/-- (i) Every version of `K` sorts before the bound "just after K". -/
theorem versions_before_succ_bound {K : Bytes} {r : Nat} (hK : Alphabet K) (hr : r < 2 ^ 64) :
    blt (encode K r) (encodeBound (K ++ [0])) = true := by
  rw [blt_iff, encode_cmp_succ hK hK hr]; simp

/-- (i') ... and before every bound `K ++ c :: rest` with `c` at or below the separator (`K ++ [1]`, `K ++ "#"`,
`K ++ "$x"`, the continue key of a continue key `K ++ [0, 0]`, ...). -/
theorem versions_before_low_bound {K : Bytes} {r c : Nat} (hK : Alphabet K) (hr : r < 2 ^ 64)
    (hc : c ≤ splitByte) (rest : Bytes) : blt (encode K r) (encodeBound (K ++ c :: rest)) = true := by
  rw [blt_iff, encodeBound_cut hK hc rest, encode_cmp_after hK hK hr]; simp

/-- (ii) Every record of a key at or after `K ++ [0]` — a proper extension of `K`, or greater — sorts
after the bound "just after K" (strictly: the bound is no record's key). -/
theorem succ_bound_before_greater {K K' : Bytes} {r : Nat} (hK : Alphabet K) (hK' : Alphabet K')
    (hr : r < 2 ^ 64) (h : ble (K ++ [0]) K' = true) : blt (encodeBound (K ++ [0])) (encode K' r) = true := by
  have h1 : cmp K' K = .gt := by
    have := (ble_succ_iff K' K).mp h
    rwa [blt_iff, ← cmp_gt_iff] at this
  rw [blt_iff, ← cmp_gt_iff, encode_cmp_succ hK' hK hr]; simp [h1]

/-- ... and every record of a key at or before `K` sorts before it. -/
theorem le_before_succ_bound {K K' : Bytes} {r : Nat} (hK : Alphabet K) (hK' : Alphabet K')
    (hr : r < 2 ^ 64) (h : ble K' K = true) : blt (encode K' r) (encodeBound (K ++ [0])) = true := by
  rw [ble_iff] at h
  rw [blt_iff, encode_cmp_succ hK' hK hr]; simp [h]

/-- An upper bound — ANY byte string — is above exactly the records of the raw keys below it. -/
theorem bound_upper_iff {b k : Bytes} {r : Nat} (hk : Alphabet k) (hr : r < 2 ^ 64) :
    blt (encode k r) (encodeBound b) = true ↔ blt k b = true := by
  rw [blt_iff, blt_iff]; exact encode_lt_bound_iff hk hr b

/-- A lower bound — ANY byte string — is at or below exactly the records of the raw keys at or above it. -/
theorem bound_lower_iff {a k : Bytes} {r : Nat} (hk : Alphabet k) (hr : r < 2 ^ 64) :
    ble (encodeBound a) (encode k r) = true ↔ ble a k = true := by
  rw [← not_blt_iff_ble, ← not_blt_iff_ble]
  have := @bound_upper_iff a k r hk hr
  cases h1 : blt (encode k r) (encodeBound a) <;> cases h2 : blt k a <;> simp_all

/-- The bounds computed for a raw range `[a, b)` — `a`, `b` ARBITRARY byte strings — enclose exactly the records
of the raw keys in it. In particular `[encodeBound (K ++ [0]), encodeBound hi)` holds the records of the keys
`k'` with `K ++ [0] ≤ k' < hi` (not `K`), `[encodeBound lo, encodeBound (K ++ [1]))` those with
`lo ≤ k' < K ++ [1]`, i.e. `lo ≤ k' ≤ K` (`K` included). Generalises `range_bounds_exact`. -/
theorem range_bounds_exact' {a b k : Bytes} {r : Nat} (hk : Alphabet k) (hr : r < 2 ^ 64) :
    (ble (encodeBound a) (encode k r) = true ∧ blt (encode k r) (encodeBound b) = true) ↔
      (ble a k = true ∧ blt k b = true) := by
  rw [bound_lower_iff hk hr, bound_upper_iff hk hr]

/-- `lo ≤ k' < K ++ [0]` is `lo ≤ k' ≤ K`, and `K ++ [0] ≤ k'` is `K < k'` (any byte strings). -/
theorem succ_is_successor (k K : Bytes) :
    (blt k (K ++ [0]) = true ↔ ble k K = true) ∧ (ble (K ++ [0]) k = true ↔ blt K k = true) :=
  ⟨blt_succ_iff k K, ble_succ_iff k K⟩

/-- Among keys over the alphabet EVERY bound `P ++ c :: rest` with `c` at or below the separator is "just after
`P`": `k < P ++ c :: rest` iff `k ≤ P`. -/
theorem low_bound_is_after (k P : Bytes) (hk : Alphabet k) {c : Nat} (hc : c ≤ splitByte) (rest : Bytes) :
    blt k (P ++ c :: rest) = true ↔ ble k P = true := by
  rw [blt_iff, ble_iff]; exact cmp_cut_lt_iff hk P hc rest

/-- Encoded bounds are ordered like the raw bounds, WEAKLY, for arbitrary byte strings (a proper raw interval is
scanned ascending or not at all) ... -/
theorem bounds_ordered {a b : Bytes} (hab : cmp a b = .lt) : cmp (encodeBound a) (encodeBound b) ≠ .gt :=
  encodeBound_mono hab

/-- ... the strongest form: strictly, unless both bounds have a low byte behind the same key `P` — then they are
encoded alike. -/
theorem bounds_ordered_strong {a b : Bytes} (hab : cmp a b = .lt) :
    cmp (encodeBound a) (encodeBound b) = .lt ∨
      (encodeBound a = encodeBound b ∧ ∃ P, cutLow a = some P ∧ cutLow b = some P) :=
  encodeBound_lt_or_eq hab

/-- ... strictly as soon as one of the two bounds is over the alphabet (the statement before 23c8b93, for more
bounds). -/
theorem bounds_ordered_strict {a b : Bytes} (h : Alphabet a ∨ Alphabet b) (hab : cmp a b = .lt) :
    cmp (encodeBound a) (encodeBound b) = .lt := encodeBound_lt h hab

/-- Two raw bounds are encoded alike iff they are equal or both are cut behind the same key. -/
theorem encodeBound_eq_iff (a b : Bytes) :
    encodeBound a = encodeBound b ↔ (a = b ∨ ∃ P, cutLow a = some P ∧ cutLow b = some P) :=
  KB.encodeBound_eq_iff a b

/-- Bounds encoded alike have NO key over the alphabet between them: nothing is lost by scanning the empty
interval. -/
theorem encodeBound_eq_no_key_between {a b : Bytes} (h : encodeBound a = encodeBound b) (k : Bytes)
    (hk : Alphabet k) : ¬ (ble a k = true ∧ blt k b = true) := by
  rw [← @range_bounds_exact' a b k 0 hk (by decide), h]
  rintro ⟨h1, h2⟩
  rw [← not_blt_iff_ble] at h1
  rw [h1] at h2; cases h2

/-- For raw bounds `a < b` where `b` has a low byte (is not itself a possible key): encoded alike IFF no key over
the alphabet lies in `[a, b)`. (For `b` over the alphabet the encodings always differ, even when no key lies
between — `no_key_between_but_different`: the scanned interval is then non-empty but holds no record.) -/
theorem encodeBound_eq_iff_no_key_between {a b : Bytes} (hab : cmp a b = .lt) (hb : ¬ Alphabet b) :
    encodeBound a = encodeBound b ↔ ∀ k, Alphabet k → ¬ (ble a k = true ∧ blt k b = true) := by
  constructor
  · exact encodeBound_eq_no_key_between
  · intro hno
    cases hcb : cutLow b with
    | none => exact absurd (cutLow_none_iff.mp hcb) hb
    | some Q =>
      obtain ⟨hQ, c, rest, eb, hc⟩ := cutLow_some hcb
      cases hca : cutLow a with
      | none =>
        -- `a` itself is a key in [a, b)
        exact absurd ⟨by simp [ble], blt_iff.mpr hab⟩ (hno a (cutLow_none_iff.mp hca))
      | some P =>
        rcases encodeBound_lt_or_eq hab with hlt | ⟨he, _⟩
        · -- the keys differ: the key of `b` lies in [a, b)
          exfalso
          obtain ⟨hP, c', rest', ea, hc'⟩ := cutLow_some hca
          have hPQ : cmp P Q = .lt := by
            rw [encodeBound_cmp] at hlt
            simp only [boundKey, hca, hcb, Option.getD_some, Option.isSome_some] at hlt
            by_cases e : P = Q
            · simp [e] at hlt
            · simpa [e] using hlt
          refine hno Q hQ ⟨?_, ?_⟩
          · rw [← not_blt_iff_ble, ea]
            have := (low_bound_is_after Q P hQ hc' rest')
            cases h1 : blt Q (P ++ c' :: rest')
            · rfl
            · have h2 := this.mp h1
              rw [ble_iff, cmp_swap P Q, hPQ] at h2
              exact absurd rfl h2
          · rw [eb]; exact (low_bound_is_after Q Q hQ hc rest).mpr (by simp [ble])
        · exact he

/-- ... the excluded case on a concrete pair: no key over the alphabet lies in `["a\0", "a%")` (the byte after
"a" would have to be below '%' = 0x25, i.e. not in the alphabet), yet the encodings differ. -/
theorem no_key_between_but_different :
    (∀ k, Alphabet k → ¬ (ble [97, 0] k = true ∧ blt k [97, 37] = true)) ∧
    cmp (encodeBound [97, 0]) (encodeBound [97, 37]) = .lt := by
  refine ⟨?_, by decide⟩
  intro k hk
  rintro ⟨h1, h2⟩
  match k, hk with
  | [], _ => simp [ble] at h1
  | x :: t, hk =>
    rw [ble_iff, cmp_cons_cons] at h1
    rw [blt_iff, cmp_cons_cons] at h2
    by_cases hx1 : 97 < x
    · have : ¬ x < 97 := by omega
      simp [hx1, this] at h2
    · by_cases hx2 : x < 97
      · simp [hx1, hx2] at h1
      · simp only [hx1, hx2, if_false] at h1 h2
        match t, hk with
        | [], _ => simp at h1
        | y :: u, hk =>
          have hy : splitByte < y := hk y (by simp)
          unfold splitByte at hy
          rw [cmp_cons_cons] at h2
          have h3 : ¬ y < 37 := by omega
          by_cases h4 : 37 < y
          · simp [h3, h4] at h2
          · have : y = 37 := by omega
            subst this
            cases u <;> simp at h2

/-- THE DEFECT (before /repo 146f0bb): the plain encoding of the bound `K ++ [0]` sorts before every
version of `K` — for every key and revision: a range starting there includes `K` again, a range ending
there misses `K`. -/
theorem old_bound_encoding_defect (K : Bytes) (r : Nat) :
    blt (encodeBoundOldest (K ++ [0])) (encode K r) = true := by
  have e1 : encode (K ++ [0]) 0 = (magic ++ K) ++ (0 :: splitByte :: be64 0) := by simp [encode]
  have e2 : encode K r = (magic ++ K) ++ (splitByte :: be64 r) := by simp [encode]
  unfold encodeBoundOldest
  rw [blt_iff, e1, e2, cmp_append_left, cmp_cons_cons]
  simp [splitByte]

/-- ... on the concrete key "/a" at revision 5 (by evaluation), next to the repaired bound. -/
theorem old_bound_encoding_witness :
    blt (encode ([47, 97] ++ [0]) 0) (encode [47, 97] 5) = true ∧
    blt (encode [47, 97] 5) (encodeBound ([47, 97] ++ [0])) = true ∧
    blt (encode [47, 97] (2 ^ 64 - 1)) (encodeBound ([47, 97] ++ [0])) = true ∧
    blt (encodeBound ([47, 97] ++ [0])) (encode [47, 97, 47, 98] 0) = true := by decide

/-- THE DEFECT OF THE 146f0bb VERSION (`encodeBoundOld`: only ONE trailing zero byte was recognised): for every
key `K`, every revision, every low byte `c` that is not a lone trailing zero, the old encoding of the bound
`K ++ c :: rest` sorts at or BEFORE the records of `K` — a range ending there misses `K`, a range starting there
includes it. -/
theorem bound_146f0bb_defect (K : Bytes) (r c : Nat) (hc : c < splitByte) (rest : Bytes)
    (hrest : (c :: rest).getLast? ≠ some 0) : blt (encodeBoundOld (K ++ c :: rest)) (encode K r) = true := by
  have hl : (K ++ c :: rest).getLast? ≠ some 0 := by
    rw [List.getLast?_append]; simpa [List.getLast?_cons_cons] using hrest
  have e1 : encode (K ++ c :: rest) 0 = (magic ++ K) ++ (c :: (rest ++ splitByte :: be64 0)) := by simp [encode]
  have e2 : encode K r = (magic ++ K) ++ (splitByte :: be64 r) := by simp [encode]
  unfold encodeBoundOld
  rw [if_neg hl, blt_iff, e1, e2, cmp_append_left, cmp_cons_cons]
  simp [hc]

/-- ... on the concrete key "/a" at revision 5, by evaluation, for the bounds `K ++ [1]`, `K ++ [0, 0]` (the
continue key of a continue key) and `K ++ [35]` (`"/a#"`): the 146f0bb version puts each of them BEFORE the record
of "/a" (so `[K, K ++ [1])` was empty and a range from `K ++ [1]` answered `K`), the repaired `encodeBound` AFTER
every version of "/a" and before the records of "/a/b"; on `K ++ [0]` the two versions agree. -/
theorem bound_146f0bb_witness :
    blt (encodeBoundOld ([47, 97] ++ [1])) (encode [47, 97] 5) = true ∧
    blt (encodeBoundOld ([47, 97] ++ [0, 0])) (encode [47, 97] 5) = true ∧
    blt (encodeBoundOld ([47, 97] ++ [35])) (encode [47, 97] 5) = true ∧
    blt (encode [47, 97] (2 ^ 64 - 1)) (encodeBound ([47, 97] ++ [1])) = true ∧
    blt (encode [47, 97] (2 ^ 64 - 1)) (encodeBound ([47, 97] ++ [0, 0])) = true ∧
    blt (encode [47, 97] (2 ^ 64 - 1)) (encodeBound ([47, 97] ++ [35])) = true ∧
    blt (encodeBound ([47, 97] ++ [1])) (encode [47, 97, 47, 98] 0) = true ∧
    blt (encodeBound ([47, 97] ++ [0, 0])) (encode [47, 97, 47, 98] 0) = true ∧
    blt (encodeBound ([47, 97] ++ [35])) (encode [47, 97, 47, 98] 0) = true ∧
    encodeBound ([47, 97] ++ [0]) = encodeBoundOld ([47, 97] ++ [0]) ∧
    encodeBound ([47, 97] ++ [1]) = encodeBound ([47, 97] ++ [2]) := by decide

/-- The repair changed nothing for the bounds the 146f0bb version handled: keys over the alphabet and their
immediate successors. -/
theorem encodeBound_eq_old {b : Bytes} (h : Alphabet b ∨ ∃ K, Alphabet K ∧ b = K ++ [0]) :
    encodeBound b = encodeBoundOld b := by
  rcases h with h | ⟨K, hK, rfl⟩
  · rw [encodeBound_of_alphabet h]
    have : ¬ b.getLast? = some 0 := by
      intro h0
      have := h 0 (List.mem_of_getLast? h0)
      omega
    simp [encodeBoundOld, this]
  · rw [encodeBound_succ hK]; simp [encodeBoundOld]

/-! Non-vacuity: concrete keys over the alphabet, prefixes of one another, with extreme revisions; concrete
bounds with low bytes. -/
example : Alphabet [47, 97] ∧ Alphabet [47, 97, 47, 98] ∧ (2 ^ 64 - 1 < 2 ^ 64) := by decide
example : blt (encode [47, 97] (2 ^ 64 - 1)) (encode [47, 97, 47, 98] 0) = true := by decide
example : decode (encode [] 0) = .ok [] 0 := by decide
example : Alphabet [47, 97] ∧ ble ([47, 97] ++ [0]) [47, 97, 47, 98] = true := ⟨by decide, by decide⟩
example : cmp ([47, 97] ++ [1]) ([47, 97] ++ [2]) = .lt ∧ ¬ Alphabet ([47, 97] ++ [2]) ∧
    encodeBound ([47, 97] ++ [1]) = encodeBound ([47, 97] ++ [2]) := by decide
example : (1 : Nat) < splitByte ∧ ([1] : Bytes).getLast? ≠ some 0 ∧ ([0, 0] : Bytes).getLast? = some 0 := by decide
example : decodeOld (encode [47] 3) ≠ .panic := by decide
example : ([47] : Bytes).length < 13 := by decide

end KB.C10
