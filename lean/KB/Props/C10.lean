/-
  C10 — Internal key encoding is reversible and order-preserving.
  Property theorems only; helper lemmas live in KB.Lemmas.Coder / KB.Bytes.
  Model: KB.Coder (encode / decode / parseRevision / prefixEnd), constants regenerated from
  /repo/pkg/backend/coder/normal.go, rev.go and pkg/backend/util.go.
-/
import KB.Lemmas.Coder
namespace KB.C10
open KB Generated

/-- Side condition tying the model's alphabet to the documented one: every byte greater than
`'$'` (0x24) is greater than the split byte *as it is in the source now*. -/
theorem documented_alphabet (k : Bytes) (h : ∀ b ∈ k, 36 < b) : Alphabet k := by
  intro b hb; have := h b hb; unfold splitByte; omega

/-- Round trip; needs no alphabet. -/
theorem decode_encode (k : Bytes) (r : Nat) (hr : r < 2 ^ 64) : decode (encode k r) = .ok k r :=
  KB.decode_encode k r hr

/-- Encoded keys sort by key first and revision second. -/
theorem encode_lt_iff {k1 k2 : Bytes} {r1 r2 : Nat} (h1 : Alphabet k1) (h2 : Alphabet k2)
    (hr1 : r1 < 2 ^ 64) (hr2 : r2 < 2 ^ 64) :
    blt (encode k1 r1) (encode k2 r2) = true ↔ (blt k1 k2 = true ∨ (k1 = k2 ∧ r1 < r2)) := by
  rw [blt_iff, encode_cmp h1 h2 hr1 hr2, blt_iff]
  by_cases h : k1 = k2
  · subst h; simp [Nat.compare_eq_lt]
  · simp [h]

theorem encode_le_iff {k1 k2 : Bytes} {r1 r2 : Nat} (h1 : Alphabet k1) (h2 : Alphabet k2)
    (hr1 : r1 < 2 ^ 64) (hr2 : r2 < 2 ^ 64) :
    ble (encode k1 r1) (encode k2 r2) = true ↔ (blt k1 k2 = true ∨ (k1 = k2 ∧ r1 ≤ r2)) := by
  rw [ble_iff, encode_cmp h1 h2 hr1 hr2, blt_iff]
  by_cases h : k1 = k2
  · subst h; simp [Nat.compare_eq_gt]
  · simp only [h, if_false, false_and, or_false]
    have := @cmp_eq_iff k1 k2
    cases hc : cmp k1 k2 <;> simp_all

/-- The index record (revision 0) of a key sorts before all of its versions. -/
theorem index_first {k : Bytes} {r : Nat} (h : Alphabet k) (hr : r < 2 ^ 64) :
    ble (encode k 0) (encode k r) = true := by
  rw [encode_le_iff h h (by decide) hr]; exact .inr ⟨rfl, Nat.zero_le _⟩

/-- All records of one key are contiguous: anything between two of them belongs to that key. -/
theorem contiguous {k k' : Bytes} {r1 r2 r' : Nat} (h : Alphabet k) (h' : Alphabet k')
    (hr1 : r1 < 2 ^ 64) (hr2 : r2 < 2 ^ 64) (hr' : r' < 2 ^ 64)
    (hlo : ble (encode k r1) (encode k' r') = true) (hhi : ble (encode k' r') (encode k r2) = true) :
    k' = k := by
  rw [encode_le_iff h h' hr1 hr'] at hlo
  rw [encode_le_iff h' h hr' hr2] at hhi
  rcases hlo with hlo | ⟨rfl, _⟩
  · rcases hhi with hhi | ⟨rfl, _⟩
    · rw [blt_iff] at hlo hhi
      have := cmp_lt_trans hlo hhi
      simp at this
    · rfl
  · rfl

/-- The bounds computed for a raw range `[a, b)` enclose exactly the records of the raw keys in it. -/
theorem range_bounds_exact {a b k : Bytes} {r : Nat} (ha : Alphabet a) (hb : Alphabet b)
    (hk : Alphabet k) (hr : r < 2 ^ 64) :
    (ble (encode a 0) (encode k r) = true ∧ blt (encode k r) (encode b 0) = true) ↔
      (ble a k = true ∧ blt k b = true) := by
  rw [encode_le_iff ha hk (by decide) hr, encode_lt_iff hk hb hr (by decide), ble_iff_lt_or_eq, blt_iff]
  constructor
  · rintro ⟨h1, h2⟩
    refine ⟨?_, ?_⟩
    · rcases h1 with h1 | ⟨h1, _⟩
      · exact .inl h1
      · exact .inr h1
    · rcases h2 with h2 | ⟨_, h2⟩
      · exact h2
      · omega
  · rintro ⟨h1, h2⟩
    refine ⟨?_, .inl h2⟩
    rcases h1 with h1 | h1
    · exact .inl h1
    · exact .inr ⟨h1, Nat.zero_le _⟩

/-- Prefix end: for a prefix with some byte below 0xff, `[p, prefixEnd p)` is exactly the keys
with prefix `p`. -/
theorem prefix_end_exact {p k : Bytes} (hp : ∀ b ∈ p, b < 256) (hk : ∀ b ∈ k, b < 256)
    (hne : ∃ b ∈ p, b ≠ 255) :
    hasPrefix k p = true ↔ (ble p k = true ∧ blt k (prefixEnd p) = true) := by
  cases he : prefixEndAux p with
  | none =>
    obtain ⟨b, hb, hb'⟩ := hne
    exact absurd (prefixEndAux_none hp he b hb) hb'
  | some e =>
    have := prefix_end_exact_aux (k := k) hp hk he
    simpa [prefixEnd, he] using this

/-- Degenerate prefixes (empty or all 0xff) yield the `noPrefixEnd` sentinel `[0]`. -/
theorem prefix_end_degenerate {p : Bytes} (h : ∀ b ∈ p, b = 255) : prefixEnd p = noPrefixEnd := by
  simp [prefixEnd, prefixEndAux_all255 h]

/-- The sentinel is below every non-empty key over the alphabet, so a range `[p, [0])` with
`p` over the alphabet is inverted and the range handlers reject it (List: `Compare(Key, End) >= 0`). -/
theorem sentinel_inverts {p : Bytes} (hp : Alphabet p) (hne : p ≠ []) :
    ble noPrefixEnd p = true := by
  cases p with
  | nil => exact absurd rfl hne
  | cons x xs =>
    have : splitByte < x := hp x (by simp)
    unfold splitByte at this
    have h1 : 0 < x := by omega
    simp [noPrefixEnd, ble, cmp_cons_cons, h1]

/-- Index-record value parser: total classification by length. -/
theorem parseRevision_live (r : Nat) (hr : r < 2 ^ 64) : parseRevision (be64 r) = some (r, false) := by
  have hl : (be64 r).length = 8 := by simp [be64]
  have : (be64 r).take 8 = be64 r := by rw [← hl]; exact List.take_length
  simp [parseRevision, hl, revisionValueLength, this, fromBE_be64 hr]

theorem parseRevision_deleted (r f : Nat) (hr : r < 2 ^ 64) :
    parseRevision (be64 r ++ [f]) = some (r, true) := by
  have hl : (be64 r).length = 8 := by simp [be64]
  have : (be64 r ++ [f]).take 8 = be64 r := by rw [← hl]; simp
  simp [parseRevision, hl, revisionValueLength, revisionValueLengthWithDeletionFlag, this, fromBE_be64 hr]

theorem parseRevision_other (b : Bytes) (h8 : b.length ≠ 8) (h9 : b.length ≠ 9) : parseRevision b = none := by
  simp [parseRevision, revisionValueLength, revisionValueLengthWithDeletionFlag, h8, h9]

/-! ### range bounds of the form `K ++ [0]` ("just after K"; `encodeBound` = `backend.encodeRangeBound`,
/repo 146f0bb): the encoded bounds enclose exactly the records of the raw keys between the raw bounds -/

/-- (i) Every version of `K` sorts before the bound "just after K". -/
theorem versions_before_succ_bound {K : Bytes} {r : Nat} (hK : Alphabet K) (hr : r < 2 ^ 64) :
    blt (encode K r) (encodeBound (K ++ [0])) = true := by
  rw [blt_iff, encode_cmp_succ hK hK hr]; simp

/-- (ii) Every record of a key at or after `K ++ [0]` — a proper extension of `K`, or greater — sorts
after the bound "just after K" (strictly: the bound is no record's key). -/
theorem succ_bound_before_greater {K K' : Bytes} {r : Nat} (hK : Alphabet K) (hK' : Alphabet K')
    (hr : r < 2 ^ 64) (h : ble (K ++ [0]) K' = true) : blt (encodeBound (K ++ [0])) (encode K' r) = true := by
  have h1 : cmp K' K = .gt := by
    have := (ble_succ_iff K' K).mp h
    rwa [blt_iff, ← cmp_gt_iff] at this
  rw [blt_iff, ← cmp_gt_iff, encode_cmp_succ hK' hK hr]; simp [h1]

/-- ... and every record of a key at or before `K` sorts before it. -/
theorem le_before_succ_bound {K K' : Bytes} {r : Nat} (hK : Alphabet K) (hK' : Alphabet K')
    (hr : r < 2 ^ 64) (h : ble K' K = true) : blt (encode K' r) (encodeBound (K ++ [0])) = true := by
  rw [ble_iff] at h
  rw [blt_iff, encode_cmp_succ hK' hK hr]; simp [h]

/-- A lower bound (a key over the alphabet or the successor of one) is at or below exactly the records
of the raw keys at or above it. -/
theorem bound_lower_iff {a k : Bytes} {r : Nat} (ha : RangeBound a) (hk : Alphabet k) (hr : r < 2 ^ 64) :
    ble (encodeBound a) (encode k r) = true ↔ ble a k = true := by
  cases ha with
  | key ha =>
    rw [encodeBound_of_alphabet ha, encode_le_iff ha hk (by decide) hr, ble_iff_lt_or_eq, blt_iff]
    constructor
    · rintro (h | ⟨h, _⟩)
      · exact .inl h
      · exact .inr h
    · rintro (h | h)
      · exact .inl h
      · exact .inr ⟨h, Nat.zero_le _⟩
  | succ hK =>
    rename_i K
    rw [ble_succ_iff, ← not_blt_iff_ble]
    constructor
    · intro h
      cases hc : blt K k
      · have hle : ble k K = true := not_blt_iff_ble.mp hc
        rw [le_before_succ_bound hK hk hr hle] at h
        cases h
      · rfl
    · intro h
      have hgt : ble (K ++ [0]) k = true := (ble_succ_iff k K).mpr h
      have := succ_bound_before_greater hK hk hr hgt
      rw [blt_iff] at this
      simp [blt, cmp_swap (encodeBound (K ++ [0])) (encode k r), this]

/-- An upper bound is above exactly the records of the raw keys below it. -/
theorem bound_upper_iff {b k : Bytes} {r : Nat} (hb : RangeBound b) (hk : Alphabet k) (hr : r < 2 ^ 64) :
    blt (encode k r) (encodeBound b) = true ↔ blt k b = true := by
  cases hb with
  | key hb =>
    rw [encodeBound_of_alphabet hb, encode_lt_iff hk hb hr (by decide)]
    constructor
    · rintro (h | ⟨_, h⟩)
      · exact h
      · omega
    · exact .inl
  | succ hK =>
    rename_i K
    rw [blt_succ_iff, blt_iff, encode_cmp_succ hk hK hr, ble_iff]
    cases cmp k K <;> simp

/-- The bounds computed for a raw range `[a, b)` whose ends are keys or successors of keys enclose exactly
the records of the raw keys in it: `[encodeBound (K ++ [0]), encodeBound hi)` holds the records of the
keys `k'` with `K ++ [0] ≤ k' < hi` (not `K`), `[encodeBound lo, encodeBound (K ++ [0]))` those with
`lo ≤ k' < K ++ [0]`, i.e. `lo ≤ k' ≤ K` (`K` included). Generalises `range_bounds_exact`. -/
theorem range_bounds_exact' {a b k : Bytes} {r : Nat} (ha : RangeBound a) (hb : RangeBound b)
    (hk : Alphabet k) (hr : r < 2 ^ 64) :
    (ble (encodeBound a) (encode k r) = true ∧ blt (encode k r) (encodeBound b) = true) ↔
      (ble a k = true ∧ blt k b = true) := by
  rw [bound_lower_iff ha hk hr, bound_upper_iff hb hk hr]

/-- `lo ≤ k' < K ++ [0]` is `lo ≤ k' ≤ K`, and `K ++ [0] ≤ k'` is `K < k'` (any byte strings). -/
theorem succ_is_successor (k K : Bytes) :
    (blt k (K ++ [0]) = true ↔ ble k K = true) ∧ (ble (K ++ [0]) k = true ↔ blt K k = true) :=
  ⟨blt_succ_iff k K, ble_succ_iff k K⟩

/-- Encoded bounds are ordered like the raw bounds (so a proper raw interval is scanned ascending). -/
theorem bounds_ordered {a b : Bytes} (ha : RangeBound a) (hb : RangeBound b) (hab : cmp a b = .lt) :
    cmp (encodeBound a) (encodeBound b) = .lt := encodeBound_lt ha hb hab

/-- THE DEFECT (before /repo 146f0bb): the plain encoding of the bound `K ++ [0]` sorts before every
version of `K` — for every key and revision: a range starting there includes `K` again, a range ending
there misses `K`. -/
theorem old_bound_encoding_defect (K : Bytes) (r : Nat) :
    blt (encode (K ++ [0]) 0) (encode K r) = true := by
  have e1 : encode (K ++ [0]) 0 = (magic ++ K) ++ (0 :: splitByte :: be64 0) := by simp [encode]
  have e2 : encode K r = (magic ++ K) ++ (splitByte :: be64 r) := by simp [encode]
  rw [blt_iff, e1, e2, cmp_append_left, cmp_cons_cons]
  simp [splitByte]

/-- ... on the concrete key "/a" at revision 5 (by evaluation), next to the repaired bound. -/
theorem old_bound_encoding_witness :
    blt (encode ([47, 97] ++ [0]) 0) (encode [47, 97] 5) = true ∧
    blt (encode [47, 97] 5) (encodeBound ([47, 97] ++ [0])) = true ∧
    blt (encode [47, 97] (2 ^ 64 - 1)) (encodeBound ([47, 97] ++ [0])) = true ∧
    blt (encodeBound ([47, 97] ++ [0])) (encode [47, 97, 47, 98] 0) = true := by decide

/-! Non-vacuity: concrete keys over the alphabet, prefixes of one another, with extreme revisions. -/
example : Alphabet [47, 97] ∧ Alphabet [47, 97, 47, 98] ∧ (2 ^ 64 - 1 < 2 ^ 64) := by decide
example : blt (encode [47, 97] (2 ^ 64 - 1)) (encode [47, 97, 47, 98] 0) = true := by decide
example : decode (encode [] 0) = .ok [] 0 := by decide
example : RangeBound [47, 97] ∧ RangeBound ([47, 97] ++ [0]) ∧ ble ([47, 97] ++ [0]) [47, 97, 47, 98] = true :=
  ⟨.key (by decide), .succ (by decide), by decide⟩

end KB.C10
