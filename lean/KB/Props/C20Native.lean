/-
  C20 (native handler part) — the glue of the native gRPC API (pkg/server/brain/read.go, write.go) neither
  crashes on any request shape nor changes what the backend answers.
  Model: KB.Native (`nativeStep` = validation → deadline / role guard → the backend model's function, answer handed
  on unchanged), tied to the REAL handlers by the differential suite `native` (kbcheck/native.py).
  Statements: (i) a refused request leaves the backend state untouched and is answered with an error, and the
  refusals come in the handlers' order; (ii) an accepted request is answered exactly by the backend model, on the
  same state (a follower's read: on the state with the leader's revision installed); (iii) the header/data clause of
  C02 holds of every native response; (iv) every request shape is answered, and no panic outcome is introduced by the
  handler layer — the one panic the backend has on a request SHAPE (nil Kv, txn.go:217) is cut off by validation
  (the request part of C20 is KB.Props.C20Requests: hostile revisions, `Decode` on stored keys).
-/
import KB.Native
import KB.Props.C02
import KB.Props.C20Requests
import KB.Lemmas.EtcdShape
namespace KB.C20Native
open KB

/-! ### (iv) every request shape is answered: a refusal, or the backend's answer -/

/-- Totality with content: whatever the request (empty fields, nil Kv, zero or huge revisions), the role, the
deadline and the reachability of the leader, the handler's answer is EITHER its own refusal with the state
untouched OR exactly what the backend answers on the state the call runs on. -/
theorem validate_total (c : Cfg) (env : NativeEnv) (s : BState) (r : NativeReq) :
    (∃ x, guard env r = some x ∧ nativeStep c env s r = (.refused x, s)) ∨
    (guard env r = none ∧ nativeStep c env s r = backendStep c env (preState env s r) r) := by
  unfold nativeStep
  cases h : guard env r with
  | some x => exact .inl ⟨x, rfl, rfl⟩
  | none => exact .inr ⟨rfl, rfl⟩

/-- the guards let a request through only if it passed validation -/
theorem guard_none_valid (env : NativeEnv) (r : NativeReq) (h : guard env r = none) : validate r = none := by
  unfold guard at h
  cases hv : validate r with
  | none => rfl
  | some e => rw [hv] at h; cases h

/-- validation cuts off the nil Kv -/
theorem nil_kv_invalid : validate (.update none) = some .invalid := rfl

/-- The nil-Kv request would crash the backend call (`r.Kv.Key`, txn.go:217); through the handler it is refused,
whatever the role and the deadline, and nothing is touched. -/
theorem nil_kv_never_reaches_backend (c : Cfg) (env : NativeEnv) (s : BState) :
    (backendStep c env s (.update none)).1.panics = true ∧
    nativeStep c env s (.update none) = (.refused .invalid, s) := ⟨rfl, rfl⟩

/-- the backend model answers a request with a Kv without the nil-dereference outcome -/
theorem backendStep_ne_panic (c : Cfg) (env : NativeEnv) (s : BState) (r : NativeReq) (h : r ≠ .update none) :
    (backendStep c env s r).1 ≠ .panic := by
  cases r with
  | update kv =>
    cases kv with
    | none => exact absurd rfl h
    | some x =>
      obtain ⟨k, v, e⟩ := x
      simp only [backendStep]
      split <;> simp
  | create k v =>
    simp only [backendStep]
    split <;> simp
  | _ => simp [backendStep]

/-- No panic outcome is introduced by the handler layer: the nil dereference is never an answer, … -/
theorem shim_answers_without_nil_deref (c : Cfg) (env : NativeEnv) (s : BState) (r : NativeReq) :
    (nativeStep c env s r).1 ≠ .panic := by
  rcases validate_total c env s r with ⟨x, _, h⟩ | ⟨hg, h⟩
  · rw [h]; simp
  · rw [h]
    apply backendStep_ne_panic
    intro hr
    have := guard_none_valid env r hg
    rw [hr] at this
    cases this

/-- … and whenever a native answer is a panic at all, the request had passed validation and the panic is the
backend model's own answer (`ScanRes.panic`) to that very call. Since /repo 5ace897 no key and no partition border
makes `Decode` index out of range (`C10.decode_never_panics`, `C20Requests.list_never_panics`); the only panic left in
the backend model is a compaction's TTL pass on a revision record shorter than 8 bytes, which the backend never
writes. -/
theorem shim_adds_no_panic (c : Cfg) (env : NativeEnv) (s : BState) (r : NativeReq)
    (h : (nativeStep c env s r).1.panics = true) :
    validate r = none ∧ r ≠ .update none ∧ (backendStep c env (preState env s r) r).1.panics = true := by
  rcases validate_total c env s r with ⟨x, _, hx⟩ | ⟨hg, hb⟩
  · rw [hx] at h; cases h
  · have hv := guard_none_valid env r hg
    refine ⟨hv, ?_, ?_⟩
    · intro hr; rw [hr] at hv; cases hv
    · rw [← hb]; exact h

/-! ### (i) refused requests -/

/-- Validation comes first: an invalid request is refused as invalid whatever the role, the deadline and the leader's
reachability. -/
theorem invalid_refused_first (c : Cfg) (env : NativeEnv) (s : BState) (r : NativeReq) (h : validate r ≠ none) :
    nativeStep c env s r = (.refused .invalid, s) := by
  unfold nativeStep guard
  cases hv : validate r with
  | none => exact absurd hv h
  | some e => rfl

/-- Then the deadline (Create / Update / Delete only), before the role is looked at. -/
theorem expired_refused_second (c : Cfg) (env : NativeEnv) (s : BState) (r : NativeReq) (hv : validate r = none)
    (hd : r.deadlineChecked = true) (he : env.expired = true) :
    nativeStep c env s r = (.refused .deadline, s) := by
  unfold nativeStep guard
  simp [hv, hd, he]

/-- Then the role: a follower refuses every write … -/
theorem follower_refuses_write (c : Cfg) (env : NativeEnv) (s : BState) (r : NativeReq) (hv : validate r = none)
    (hd : r.deadlineChecked = true → env.expired = false) (hw : r.isWrite = true) (hf : env.leader = false) :
    nativeStep c env s r = (.refused .notLeader, s) := by
  unfold nativeStep guard
  cases hdc : r.deadlineChecked with
  | false => simp [hv, hdc, hw, hf]
  | true => simp [hv, hdc, hd hdc, hw, hf]

/-- … and fails a read when it cannot learn the leader's revision. -/
theorem follower_read_fails_without_leader (c : Cfg) (env : NativeEnv) (s : BState) (r : NativeReq)
    (hv : validate r = none) (hw : r.isWrite = false) (hf : env.leader = false) (hn : env.leaderRev = none) :
    nativeStep c env s r = (.refused .syncFail, s) := by
  have hdc : r.deadlineChecked = false := by cases r <;> simp_all [NativeReq.isWrite, NativeReq.deadlineChecked]
  unfold nativeStep guard
  simp [hv, hdc, hw, hf, hn]

/-- (i) A request that fails validation, or carries an expired deadline (Create / Update / Delete), or is a write
arriving at a follower, or is a read at a follower that cannot reach its leader, leaves the backend state
unchanged and is answered with an error. -/
theorem refused_requests_do_not_touch_state (c : Cfg) (env : NativeEnv) (s : BState) (r : NativeReq)
    (h : validate r ≠ none ∨ (r.deadlineChecked = true ∧ env.expired = true) ∨
         (r.isWrite = true ∧ env.leader = false) ∨
         (r.isWrite = false ∧ env.leader = false ∧ env.leaderRev = none)) :
    (nativeStep c env s r).2 = s ∧ ∃ x, (nativeStep c env s r).1 = .refused x := by
  by_cases hv : validate r = none
  · rcases h with h | ⟨hd, he⟩ | ⟨hw, hf⟩ | ⟨hw, hf, hn⟩
    · exact absurd hv h
    · rw [expired_refused_second c env s r hv hd he]; exact ⟨rfl, _, rfl⟩
    · by_cases hx : r.deadlineChecked = true ∧ env.expired = true
      · rw [expired_refused_second c env s r hv hx.1 hx.2]; exact ⟨rfl, _, rfl⟩
      · have hd : r.deadlineChecked = true → env.expired = false := by
          intro hdc
          cases he : env.expired with
          | false => rfl
          | true => exact absurd ⟨hdc, he⟩ hx
        rw [follower_refuses_write c env s r hv hd hw hf]; exact ⟨rfl, _, rfl⟩
    · rw [follower_read_fails_without_leader c env s r hv hw hf hn]; exact ⟨rfl, _, rfl⟩
  · rw [invalid_refused_first c env s r hv]; exact ⟨rfl, _, rfl⟩

/-- Conversely the handler layer refuses ONLY for those reasons: a refusal is never invented for a valid request of a
leader within its deadline (the backend model's own errors are `.write (.error _)`, `.list (.error _)`, …, never
`.refused`). -/
theorem refused_only_for_a_reason (c : Cfg) (env : NativeEnv) (s : BState) (r : NativeReq) (x : Refusal)
    (h : (nativeStep c env s r).1 = .refused x) :
    validate r ≠ none ∨ (r.deadlineChecked = true ∧ env.expired = true) ∨ env.leader = false := by
  rcases validate_total c env s r with ⟨y, hg, _⟩ | ⟨_, hb⟩
  · unfold guard at hg
    cases hv : validate r with
    | some e => exact .inl (by simp)
    | none =>
      rw [hv] at hg
      simp only at hg
      by_cases hx : (r.deadlineChecked && env.expired) = true
      · exact .inr (.inl (by simpa using hx))
      · cases hl : env.leader with
        | false => exact .inr (.inr rfl)
        | true => simp [hx, hl] at hg
  · rw [hb] at h
    cases r with
    | update kv =>
      cases kv with
      | none => simp [backendStep] at h
      | some y =>
        obtain ⟨k, v, e⟩ := y
        simp only [backendStep] at h
        split at h <;> simp at h
    | create k v =>
      simp only [backendStep] at h
      split at h <;> simp at h
    | _ => simp [backendStep] at h

/-- A follower never applies a write (the C18 clause, at the native handlers). -/
theorem follower_never_writes (c : Cfg) (env : NativeEnv) (s : BState) (r : NativeReq)
    (hw : r.isWrite = true) (hf : env.leader = false) :
    (nativeStep c env s r).2 = s ∧ (nativeStep c env s r).1.isRefused = true := by
  obtain ⟨h1, x, h2⟩ := refused_requests_do_not_touch_state c env s r (.inr (.inr (.inl ⟨hw, hf⟩)))
  exact ⟨h1, by rw [h2]; rfl⟩

/-! ### (ii) accepted requests -/

/-- (ii) For a valid request at the leader (within its deadline) the answer and the new state are exactly the
backend's. -/
theorem accepted_is_backend (c : Cfg) (env : NativeEnv) (s : BState) (r : NativeReq) (hv : validate r = none)
    (hl : env.leader = true) (hd : r.deadlineChecked = true → env.expired = false) :
    nativeStep c env s r = backendStep c env s r := by
  have hp : preState env s r = s := by simp [preState, hl]
  unfold nativeStep guard
  cases hdc : r.deadlineChecked with
  | false => simp [hv, hdc, hl, hp]
  | true => simp [hv, hdc, hd hdc, hl, hp]

/-- … and for a valid request the backend's answer is the backend MODEL's function of KB.Backend itself (the two
shape guards of `backendStep` — empty value, nil Kv — are not taken). -/
theorem valid_backend_is_model (c : Cfg) (env : NativeEnv) (s : BState) (r : NativeReq) (hv : validate r = none) :
    backendStep c env s r =
      match r with
      | .create k v => ((.write (doCreate c s k v env.faults).1), (doCreate c s k v env.faults).2)
      | .update (some (k, v, e)) => ((.write (doUpdate c s k v e env.faults).1), (doUpdate c s k v e env.faults).2)
      | .update none => (.panic, s)
      | .delete k e => ((.write (doDelete c s k e env.faults).1), (doDelete c s k e env.faults).2)
      | .compact n => ((.compact (doCompact c s n env.mask).1), (doCompact c s n env.mask).2)
      | .get k n => (.get (doGet c s k n).1 (doGet c s k n).2, s)
      | .range k e n l => (.list (doList c s k e n l), s)
      | .count k e => (.count (doCount c s k e), s)
      | .parts k e => (.parts (doPartitions c k e), s)
      | .stream k e n => (.stream (doStream c s k e n), s) := by
  cases r with
  | create k v =>
    have : v.isEmpty = false := by
      cases hve : v.isEmpty with
      | false => rfl
      | true => simp [validate, hve] at hv
    simp [backendStep, this]
  | update kv =>
    cases kv with
    | none => rfl
    | some x =>
      obtain ⟨k, v, e⟩ := x
      have : v.isEmpty = false := by
        cases hve : v.isEmpty with
        | false => rfl
        | true => simp [validate, hve] at hv
      simp [backendStep, this]
  | _ => rfl

/-- A follower that reaches its leader serves a valid read from the backend after installing the leader's revision;
the read itself changes nothing further. -/
theorem follower_read_is_backend_at_leader_revision (c : Cfg) (env : NativeEnv) (s : BState) (r : NativeReq)
    (hv : validate r = none) (hw : r.isWrite = false) (hf : env.leader = false) (n : Nat)
    (hn : env.leaderRev = some n) :
    nativeStep c env s r = backendStep c env (setRev s n) r ∧ (nativeStep c env s r).2 = setRev s n := by
  have hdc : r.deadlineChecked = false := by cases r <;> simp_all [NativeReq.isWrite, NativeReq.deadlineChecked]
  have hp : preState env s r = setRev s n := by simp [preState, hw, hf, hn]
  have h1 : nativeStep c env s r = backendStep c env (setRev s n) r := by
    unfold nativeStep guard
    simp [hv, hdc, hw, hf, hn, hp]
  refine ⟨h1, ?_⟩
  rw [h1]
  cases r <;> first | rfl | simp [NativeReq.isWrite] at hw

/-- The leader's reads leave the backend state alone. -/
theorem leader_read_keeps_state (c : Cfg) (env : NativeEnv) (s : BState) (r : NativeReq)
    (hw : r.isWrite = false) (hl : env.leader = true) : (nativeStep c env s r).2 = s := by
  have hp : preState env s r = s := by simp [preState, hl]
  rcases validate_total c env s r with ⟨x, _, hx⟩ | ⟨_, hb⟩
  · rw [hx]
  · rw [hb, hp]
    cases r <;> first | rfl | simp [NativeReq.isWrite] at hw

/-! ### (iii) header ≥ data on native responses (lifting of C02 `get_header_ge_data`, `list_header_ge_data` and of the
failure-path clause `doUpdate_failed_kv` / `doDelete_failed_kv`) -/

theorem backend_header_ge_data (c : Cfg) (env : NativeEnv) (s : BState) (r : NativeReq) :
    (∀ hdr k v m, (backendStep c env s r).1 = .get hdr (some (k, v, m)) → m ≤ hdr) ∧
    (∀ res, (backendStep c env s r).1 = .list (.ok res) → ∀ kv ∈ res.kvs, kv.2.2 ≤ res.hdr) ∧
    (∀ hdr kv, (backendStep c env s r).1 = .write (.condFailed hdr (some kv)) → kv.2.2 ≤ hdr) := by
  cases r with
  | create k v =>
    refine ⟨?_, ?_, ?_⟩
    · intro hdr k' v' m h; simp only [backendStep] at h; split at h <;> simp at h
    · intro res h; simp only [backendStep] at h; split at h <;> simp at h
    · intro hdr kv h
      simp only [backendStep] at h
      split at h
      · simp at h
      · simp only [NativeAns.write.injEq] at h
        exact Etcd.doCreate_failed_kv c s k v env.faults hdr kv h
  | update kv =>
    cases kv with
    | none => simp [backendStep]
    | some x =>
      obtain ⟨k, v, e⟩ := x
      refine ⟨?_, ?_, ?_⟩
      · intro hdr k' v' m h; simp only [backendStep] at h; split at h <;> simp at h
      · intro res h; simp only [backendStep] at h; split at h <;> simp at h
      · intro hdr kv h
        simp only [backendStep] at h
        split at h
        · simp at h
        · simp only [NativeAns.write.injEq] at h
          exact Etcd.doUpdate_failed_kv c s k v e env.faults hdr kv h
  | delete k e =>
    refine ⟨by simp [backendStep], by simp [backendStep], ?_⟩
    intro hdr kv h
    simp only [backendStep, NativeAns.write.injEq] at h
    exact Etcd.doDelete_failed_kv c s k e env.faults hdr kv h
  | get k n =>
    refine ⟨?_, by simp [backendStep], by simp [backendStep]⟩
    intro hdr k' v' m h
    simp only [backendStep, NativeAns.get.injEq] at h
    obtain ⟨h1, h2⟩ := h
    rw [← h1]
    exact C02.get_header_ge_data c s k n k' v' m h2
  | range k e n l =>
    refine ⟨by simp [backendStep], ?_, by simp [backendStep]⟩
    intro res h
    simp only [backendStep, NativeAns.list.injEq] at h
    exact C02.list_header_ge_data c s k e n l res h
  | _ => simp [backendStep]

/-- (iii) Every native response satisfies the header/data clause of C02: a point read's header is at least the
revision of the kv it carries, a range response's header is at least the revision of every kv in it, and a failed
conditional write's header is at least the revision of the current kv it reports — at the leader and at a follower. -/
theorem native_header_ge_data (c : Cfg) (env : NativeEnv) (s : BState) (r : NativeReq) :
    (∀ hdr k v m, (nativeStep c env s r).1 = .get hdr (some (k, v, m)) → m ≤ hdr) ∧
    (∀ res, (nativeStep c env s r).1 = .list (.ok res) → ∀ kv ∈ res.kvs, kv.2.2 ≤ res.hdr) ∧
    (∀ hdr kv, (nativeStep c env s r).1 = .write (.condFailed hdr (some kv)) → kv.2.2 ≤ hdr) := by
  rcases validate_total c env s r with ⟨x, _, hx⟩ | ⟨_, hb⟩
  · rw [hx]; simp
  · rw [hb]; exact backend_header_ge_data c env (preState env s r) r

/-- A successful native delete answers with a header strictly above the revision of the previous kv it carries. -/
theorem native_delete_header_gt_prev (c : Cfg) (env : NativeEnv) (s : BState) (k : Bytes) (e rev : Nat) (v : Bytes)
    (m : Nat) (h : (nativeStep c env s (.delete k e)).1 = .write (.ok rev))
    (hf : bget c s.store k 0 = .found v m) : m < rev := by
  rcases validate_total c env s (.delete k e) with ⟨x, _, hx⟩ | ⟨_, hb⟩
  · rw [hx] at h; simp at h
  · have hp : preState env s (.delete k e) = s := by simp [preState, NativeReq.isWrite]
    rw [hb, hp] at h
    simp only [backendStep, NativeAns.write.injEq] at h
    unfold doDelete at h
    rw [hf] at h
    simp only at h
    split at h
    · simp at h
    · split at h
      · split at h <;> simp at h
      · split at h
        · simp at h
        · rename_i hlt
          split at h
          · simp only [WriteRes.ok.injEq] at h; omega
          · split at h <;> simp at h
          · simp at h

/-! ### hostile revisions through the native API (lifting of the drift rejection used by C20Requests) -/

/-- A guarded native update whose expected revision is at or above the revision it would be dealt (far-future values,
`2^64-1`, …) takes the rejection path: the leader answers the drift error, nothing else. -/
theorem native_far_future_update_rejected (c : Cfg) (env : NativeEnv) (s : BState) (k v : Bytes) (exp : Nat)
    (hk : k ≠ []) (hv : v ≠ []) (hl : env.leader = true) (he : env.expired = false) (hfs : env.faults = [])
    (hgt : s.dealt + 1 ≤ exp) :
    (nativeStep c env s (.update (some (k, v, exp)))).1 = .write (.error .drift) := by
  have hvalid : validate (.update (some (k, v, exp))) = none := by
    cases k with
    | nil => exact absurd rfl hk
    | cons a as =>
      cases v with
      | nil => exact absurd rfl hv
      | cons b bs => rfl
  rw [accepted_is_backend c env s _ hvalid hl (fun _ => he), valid_backend_is_model c env s _ hvalid]
  simp only [hfs]
  exact congrArg NativeAns.write (Etcd.doUpdate_drift c s k v exp hgt)

/-! ### Non-vacuity: the hypotheses of every implication above are satisfiable, and the conclusions have content -/

def exCfg : Cfg := {}
def exState : BState := { ring := Ring.new 4, dealt := 1000, committed := 1000 }
def follower : NativeEnv := { leader := false }
def followerWithLeader : NativeEnv := { leader := false, leaderRev := some 1500 }
def lateLeader : NativeEnv := { expired := true }

-- validate_total / refused_requests_do_not_touch_state: each disjunct
example : validate (.create [] [1]) ≠ none := by decide
example : validate (.update none) ≠ none := by decide
example : validate (.compact 0) ≠ none := by decide
example : validate (.range [47] [] 0 0) ≠ none := by decide
example : (NativeReq.create [47] [1]).deadlineChecked = true ∧ lateLeader.expired = true := by decide
example : (NativeReq.delete [47] 0).isWrite = true ∧ follower.leader = false := by decide
example : (NativeReq.get [47] 0).isWrite = false ∧ follower.leader = false ∧ follower.leaderRev = none := by decide
-- the refusals of the four kinds, each with the state returned as it was
example : (nativeStep exCfg {} exState (.create [47] [])).1.isRefused = true := by decide
example : (nativeStep exCfg lateLeader exState (.create [47] [1])).1.isRefused = true := by decide
example : (nativeStep exCfg follower exState (.compact 5)).1.isRefused = true := by decide
example : (nativeStep exCfg follower exState (.count [47] [48])).1.isRefused = true := by decide
-- invalid + expired + follower at once: validation answers
example : validate (.create [] []) ≠ none := by decide
-- expired_refused_second / follower_refuses_write / follower_read_fails_without_leader
example : validate (.create [47] [1]) = none ∧ (NativeReq.create [47] [1]).deadlineChecked = true ∧
    lateLeader.expired = true := by decide
example : validate (.compact 7) = none ∧ ((NativeReq.compact 7).deadlineChecked = true → lateLeader.expired = false) ∧
    (NativeReq.compact 7).isWrite = true := by decide
example : validate (.stream [47] [48] 0) = none ∧ (NativeReq.stream [47] [48] 0).isWrite = false := by decide
-- accepted_is_backend / valid_backend_is_model: a valid create at the leader is answered by doCreate and changes the state
example : validate (.create [47, 97] [1]) = none ∧ ({} : NativeEnv).leader = true ∧
    ((NativeReq.create [47, 97] [1]).deadlineChecked = true → ({} : NativeEnv).expired = false) := by decide
example : (nativeStep exCfg {} exState (.create [47, 97] [1])).2.dealt = 1001 := by decide
example : (nativeStep exCfg {} exState (.create [47, 97] [1])).2.committed = 1001 := by decide
-- an expired Compact is NOT refused by the handler (no deadline check there)
example : (nativeStep exCfg lateLeader exState (.compact 7)).1.isRefused = false := by decide
-- follower_read_is_backend_at_leader_revision: the leader's revision is installed, the header follows it
example : validate (.get [47, 97] 0) = none ∧ (NativeReq.get [47, 97] 0).isWrite = false ∧
    followerWithLeader.leader = false ∧ followerWithLeader.leaderRev = some 1500 := by decide
example : (nativeStep exCfg followerWithLeader exState (.get [47, 97] 0)).2.committed = 1500 := by decide
-- refused_only_for_a_reason / shim_adds_no_panic: premises occur
example : ∃ x, (nativeStep exCfg follower exState (.delete [47] 0)).1 = .refused x := ⟨_, rfl⟩
/-- a backend-model panic does pass through unchanged — the premise of `shim_adds_no_panic` is satisfiable. Since
/repo 5ace897 `Decode` reports a short key instead of indexing out of range, so a short key planted in the store no
longer does it (`short_key_no_longer_panics`); what is left in the backend model is the TTL pass of a compaction on an
engine without native TTL reading the 8-byte revision of an Event's revision record (`binary.BigEndian.Uint64` on a
value shorter than 8 bytes — a value the backend never writes: C10 `parseRevision_*`). -/
def ttlCfg : Cfg := { q := Quirks.tikv, pfx := [47, 114], ttl := 1 }
def badStore : BState :=
  { ring := Ring.new 4, dealt := 1000, committed := 1000, marks := [(900, 0)], now := 10,
    store := [(encode [47, 114, 47, 101, 118, 101, 110, 116, 115, 47, 120] 0, [1])] }
example : (nativeStep ttlCfg {} badStore (.compact 950)).1.panics = true := by decide
/-- the store of the former witness: an internal key shorter than the header -/
def shortKeyStore : BState := { exState with store := [([87, 251, 128, 139, 2], [1])] }
theorem short_key_no_longer_panics :
    (nativeStep exCfg {} shortKeyStore (.range [1] [255] 0 0)).1.panics = false := by decide
-- native_header_ge_data: a read that carries data, a failed guarded update that carries the current kv
def afterCreate : BState := (nativeStep exCfg {} exState (.create [47, 97] [1])).2
example : (nativeStep exCfg {} afterCreate (.get [47, 97] 0)).1 = .get 1001 (some ([47, 97], [1], 1001)) := rfl
set_option maxRecDepth 8000 in
example : (match (nativeStep exCfg {} afterCreate (.range [47] [48] 0 0)).1 with
    | .list (.ok res) => res.kvs == [([47, 97], [1], 1001)] && res.hdr == 1001
    | _ => false) = true := by decide
set_option maxRecDepth 8000 in
example : (nativeStep exCfg {} afterCreate (.update (some ([47, 97], [2], 7)))).1 =
    .write (.condFailed 1002 (some ([47, 97], [1], 1001))) := rfl
-- native_delete_header_gt_prev
set_option maxRecDepth 8000 in
example : (nativeStep exCfg {} afterCreate (.delete [47, 97] 0)).1 = .write (.ok 1002) ∧
    bget exCfg afterCreate.store [47, 97] 0 = .found [1] 1001 := ⟨rfl, rfl⟩
-- native_far_future_update_rejected
example : exState.dealt + 1 ≤ 2 ^ 64 - 1 := by decide

end KB.C20Native
