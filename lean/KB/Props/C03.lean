/-
  C03 — A read at a revision returns exactly the MVCC snapshot at that revision.
  Property theorems only. Model: KB.Scan (worker loop), KB.Backend (getInternal, doList, doCount),
  spec: KB.Spec (visible / readAt over a sorted decoded store).
-/
import KB.Lemmas.Scan
namespace KB.C03
open KB Generated

/-- The read revision a request is served at: an explicit one, or the committed revision. -/
def readRev (R committed : Nat) : Nat := if R == 0 then committed else R

/-- Range scan = snapshot, membership form: a kv is emitted iff it is the newest version ≤ R of its
key and not a deletion. Holds for every sorted decoded store (no other well-formedness needed). -/
theorem mem_scan_iff {recs : List Rec} (hs : SortedRecs recs) (R : Nat) (k v : Bytes) (r : Nat) :
    (k, v, r) ∈ scanRecs R recs ↔ readAt R recs k = some (v, r) :=
  mem_scanRecs_iff hs R k v r

/-- ... and the result is strictly sorted by key, hence every key appears at most once. -/
theorem scan_keys_sorted {recs : List Rec} (hs : SortedRecs recs) (R : Nat) :
    (scanRecs R recs).Pairwise (fun a b => cmp a.1 b.1 = .lt) :=
  scanRecs_sorted hs R

/-- Re-reading an old snapshot after further writes gives the same answer: records with a
revision above R (and index records, revision 0) are invisible to a read at R. -/
theorem stable_reread {recs : List Rec} (R : Nat) (k : Bytes) :
    readAt R (recs.filter (fun r => decide (0 < r.rev) && decide (r.rev ≤ R))) k = readAt R recs k := by
  rw [readAt_def, readAt_def, visible_filter_live]

/-- Any value other than the reserved deletion marker is returned byte for byte.
(The full statement "any non-empty value" is FALSE of the code: see `tombstone_value_lost`.) -/
theorem value_roundtrip_partial {recs : List Rec} (R : Nat) (k : Bytes) (r : Rec)
    (h : visible R recs k = some r) (hv : r.val ≠ tombstone) : readAt R recs k = some (r.val, r.rev) := by
  have ht : isTomb r.val = false := by simpa [isTomb] using hv
  simp [readAt, h, ht]

/-- Witness of the negation of the full statement (known finding): a record whose value is the
literal bytes "tombstone" reads as absent. Replayed on the implementation on every run. -/
theorem tombstone_value_lost :
    readAt 5 [{ key := [47, 97], rev := 5, val := tombstone, ik := encode [47, 97] 5 }] [47, 97] = none := by
  decide

/-- Point read (`getInternalVal`) on the encoded store, for every adapter deviation the interface
leaves open (`Quirks`): the first element of the descending iteration, after decode-and-compare,
is exactly the newest version ≤ R. -/
theorem get_spec (c : Cfg) {recs : List Rec} (hs : SortedRecs recs)
    (hk : ∀ r ∈ recs, Alphabet r.key ∧ r.rev < 2 ^ 64) (k : Bytes) (hka : Alphabet k)
    (R : Nat) (hR : R < 2 ^ 64) :
    getInternal c (encodeStore recs) k R =
      (visible (if R == 0 then 2 ^ 64 - 1 else R) recs k).map (fun r => (r.val, r.rev)) :=
  getInternal_encodeStore c hs hk k hka R hR

/-- Unlimited / limited range read through `Backend.List` on an engine with one partition:
the kvs are the scan of exactly the records of the raw keys in `[a, b)`; with a limit the first
`n` of them, and `more` is set exactly when the limit cut the result short. -/
theorem list_spec (c : Cfg) (hsplit : c.splits = []) (s : BState) {recs : List Rec}
    (hstore : s.store = encodeStore recs) (hs : SortedRecs recs)
    (hk : ∀ r ∈ recs, Alphabet r.key ∧ r.rev < 2 ^ 64)
    (a b : Bytes) (ha : Alphabet a) (hb : Alphabet b) (hab : cmp a b = .lt) (R n : Nat) :
    let full := scanRecs (readRev R s.committed) (recs.filter (fun r => ble a r.key && blt r.key b))
    ∃ res, doList c s a b R n = .ok res ∧ res.hdr = hdrOf s.committed res.kvs ∧
      res.kvs = (if n = 0 then full else full.take n) ∧ (res.more = true ↔ (0 < n ∧ n < full.length)) := by
  intro full
  have _ := hs  -- sortedness is not needed for this equation (kept in the statement for uniformity)
  have hfull : full = scanRecs (if R == 0 then s.committed else R) (recs.filter (inRange a b)) := rfl
  by_cases hn : n = 0
  · subst hn
    refine ⟨_, doList_unlimited c hsplit s hstore hk ha hb hab R, rfl, ?_, ?_⟩
    · simp [hfull]
    · simp
  · have hpos : 0 < n := by omega
    refine ⟨_, doList_limited c s hstore hk ha hb hab R hpos, rfl, ?_, ?_⟩
    · simp [hn, hfull]
    · simp [hpos, hfull]

/-- Count = number of kvs of the unlimited read at the committed revision. -/
theorem count_spec (c : Cfg) (hsplit : c.splits = []) (hcompat : c.etcdCompat = true) (s : BState)
    {recs : List Rec} (hstore : s.store = encodeStore recs) (hs : SortedRecs recs)
    (hk : ∀ r ∈ recs, Alphabet r.key ∧ r.rev < 2 ^ 64)
    (a b : Bytes) (ha : Alphabet a) (hb : Alphabet b) (hab : cmp a b = .lt) :
    doCount c s a b = .ok (s.committed,
      (scanRecs s.committed (recs.filter (fun r => ble a r.key && blt r.key b))).length) := by
  have _ := hs  -- not needed for this equation
  exact doCount_encodeStore c hsplit hcompat s hstore hk ha hb hab

/-! Non-vacuity: a sorted store with prefix-related keys, an index record, a tombstone. -/
def exRecs : List Rec :=
  [ { key := [47, 97], rev := 0, val := be64 7 ++ [0], ik := encode [47, 97] 0 },
    { key := [47, 97], rev := 3, val := [1], ik := encode [47, 97] 3 },
    { key := [47, 97], rev := 7, val := tombstone, ik := encode [47, 97] 7 },
    { key := [47, 97, 47, 98], rev := 0, val := be64 5, ik := encode [47, 97, 47, 98] 0 },
    { key := [47, 97, 47, 98], rev := 5, val := [2], ik := encode [47, 97, 47, 98] 5 } ]
example : SortedRecs exRecs := by decide
example : scanRecs 6 exRecs = [([47, 97], [1], 3), ([47, 97, 47, 98], [2], 5)] := by decide
example : scanRecs 7 exRecs = [([47, 97, 47, 98], [2], 5)] := by decide

end KB.C03
