/-
  C01 (creator part, /repo eb6d1d1) — a create over a deleted key whose deletion record is REWRITTEN while the request
  is in flight (the repair of an uncertain DELETE that had landed: N|deleted → M|deleted) is evaluated again instead of
  being answered "condition failed".
  Model: KB.Sys — the creator's bounded loop `Pc.createOver rev old att` / `Pc.createRecheck rev att` (each storage
  call one step), any number of clients, the repair loop's two steps interleaved anywhere, storage faults of all three
  kinds on every commit. `Cfg.creatorNoReeval = true` is the creator BEFORE the fix (refutation only).
  Ghost vocabulary: `g.wlog` (the batches the engine applied, in commit order), `g.done` (answers), `g.spans` (for each
  answered request the piece `wlog[beginLog, endLog)` applied while it was in flight);
  `keyState g0 l k` = (revision, deleted?) of `k`'s revision record after the applied writes `l`;
  `Live st` = the key is live in that state; `Refuses st rev` = live, or deleted at / above `rev`.
  /repo 42e5238: a deletion record at or ABOVE the create's revision (the repair was dealt its revision after the
  create; or the allocator lags) is answered with an ERROR, no longer with "condition failed": the key is absent, the
  condition did not fail. `Cfg.creatorTombAboveIsCf = true` is the creator between eb6d1d1 and that fix (refutation).
-/
import KB.Lemmas.CreatorLoop
namespace KB.C01Repair
open KB KB.SysStore KB.CreatorLoop

/-- **A failed condition of a create means the key was LIVE.** In every reachable state, for every create answered
"condition failed": at some moment `n` of the log between the request's begin and its answer the key was live — or the
creator gave up after its fourth compare-and-swap, and then at least 4 writes to that key were applied while the
request was in flight. Deletion records — below the create's revision (eb6d1d1: evaluated again) or at / above it
(42e5238: an error) — never produce "condition failed". (`hb`: revisions are uint64, as in `C01.chain`.) -/
theorem create_cf_justified_under_repair {g0 g : G} (h0 : C02.Init g0) (hs : C02.StoreOK g0) (hr : Reachable g0 g)
    (hb : g.dealt < 2 ^ 64) (hnew : g0.cfg.creatorNoReeval = false) (hfix : g0.cfg.creatorTombAboveIsCf = false)
    (d : Done) (hd : d ∈ g.done) (k v : Bytes) (hk : d.kind = .create k v)
    (hdr : Nat) (kv : Option (Bytes × Bytes × Nat)) (hres : d.res = .condFailed hdr kv) :
    ∃ s ∈ g.spans, s.id = d.id ∧ s.rev = d.rev ∧ s.beginLog ≤ s.endLog ∧ s.endLog ≤ g.wlog.length ∧
      ((∃ n, s.beginLog ≤ n ∧ n ≤ s.endLog ∧ Live (keyState g0 (g.wlog.take n) k)) ∨
       4 ≤ rewrites k ((g.wlog.take s.endLog).drop s.beginLog)) := by
  obtain ⟨s, hsm, h1, h2, h3, h4, h5⟩ := (JInv.reachable h0 hs hr hnew hb).dn d hd k v hdr kv hk hres
  refine ⟨s, hsm, h1, h2, h3, h4, ?_⟩
  rcases h5 with ⟨n, a, b, c⟩ | h5
  · rw [hfix] at c
    exact .inl ⟨n, a, b, c.live⟩
  · exact .inr h5

/-- The creator between eb6d1d1 and 42e5238 (`creatorTombAboveIsCf`): the weaker justification — live, OR deleted at /
above the create's revision; the second alternative is what 42e5238 turned into an error
(`old_creator_cf_when_repair_is_later` is the run that needs it). -/
theorem create_cf_justified_before_42e5238 {g0 g : G} (h0 : C02.Init g0) (hs : C02.StoreOK g0) (hr : Reachable g0 g)
    (hb : g.dealt < 2 ^ 64) (hnew : g0.cfg.creatorNoReeval = false) (hold : g0.cfg.creatorTombAboveIsCf = true)
    (d : Done) (hd : d ∈ g.done) (k v : Bytes) (hk : d.kind = .create k v)
    (hdr : Nat) (kv : Option (Bytes × Bytes × Nat)) (hres : d.res = .condFailed hdr kv) :
    ∃ s ∈ g.spans, s.id = d.id ∧ s.rev = d.rev ∧ s.beginLog ≤ s.endLog ∧ s.endLog ≤ g.wlog.length ∧
      ((∃ n, s.beginLog ≤ n ∧ n ≤ s.endLog ∧ Refuses (keyState g0 (g.wlog.take n) k) d.rev) ∨
       4 ≤ rewrites k ((g.wlog.take s.endLog).drop s.beginLog)) := by
  obtain ⟨s, hsm, h1, h2, h3, h4, h5⟩ := (JInv.reachable h0 hs hr hnew hb).dn d hd k v hdr kv hk hres
  refine ⟨s, hsm, h1, h2, h3, h4, ?_⟩
  rcases h5 with ⟨n, a, b, c⟩ | h5
  · rw [hold] at c
    exact .inl ⟨n, a, b, c.refuses⟩
  · exact .inr h5

/-- The same, naming the interferer: the key was already live when the request began, or one of the writes applied while
it was in flight made it live, or 4 writes to the key were applied meanwhile. Deletions (rewrites by the repair of an
uncertain delete included, whatever their revision) are not a reason. -/
theorem create_cf_names_the_interferer {g0 g : G} (h0 : C02.Init g0) (hs : C02.StoreOK g0) (hr : Reachable g0 g)
    (hb : g.dealt < 2 ^ 64) (hnew : g0.cfg.creatorNoReeval = false) (hfix : g0.cfg.creatorTombAboveIsCf = false)
    (d : Done) (hd : d ∈ g.done) (k v : Bytes) (hk : d.kind = .create k v)
    (hdr : Nat) (kv : Option (Bytes × Bytes × Nat)) (hres : d.res = .condFailed hdr kv) :
    ∃ s ∈ g.spans, s.id = d.id ∧ s.rev = d.rev ∧
      (Live (keyState g0 (g.wlog.take s.beginLog) k) ∨
       (∃ w ∈ (g.wlog.take s.endLog).drop s.beginLog, w.key = k ∧ w.val ≠ none) ∨
       4 ≤ rewrites k ((g.wlog.take s.endLog).drop s.beginLog)) := by
  obtain ⟨s, hsm, h1, h2, h3, h4, h5⟩ :=
    create_cf_justified_under_repair h0 hs hr hb hnew hfix d hd k v hk hdr kv hres
  refine ⟨s, hsm, h1, h2, ?_⟩
  rcases h5 with ⟨n, hbn, hne, href⟩ | h5
  · -- the log up to n = the log up to the begin ++ the piece in between
    have hlen : s.beginLog ≤ (g.wlog.take n).length := by rw [List.length_take]; omega
    have hsplit : g.wlog.take n = g.wlog.take s.beginLog ++ (g.wlog.take n).drop s.beginLog := by
      have : (g.wlog.take n).take s.beginLog = g.wlog.take s.beginLog := by
        rw [List.take_take, Nat.min_eq_left hbn]
      rw [← this, List.take_append_drop]
    have hsub : ∀ w ∈ (g.wlog.take n).drop s.beginLog, w ∈ (g.wlog.take s.endLog).drop s.beginLog := by
      intro w hw
      have e1 : g.wlog.take n = (g.wlog.take s.endLog).take n := by rw [List.take_take, Nat.min_eq_left hne]
      have e2 : g.wlog.take s.endLog = (g.wlog.take s.endLog).take n ++ (g.wlog.take s.endLog).drop n :=
        (List.take_append_drop n _).symm
      rw [e2, List.drop_append_of_le_length (by rw [← e1]; exact hlen), ← e1]
      exact List.mem_append_left _ hw
    rcases Nat.eq_zero_or_pos (rewrites k ((g.wlog.take n).drop s.beginLog)) with hz | hp
    · left
      rw [hsplit, keyState_append_of_none g0 hz] at href
      exact href
    · right; left
      rw [hsplit] at href
      obtain ⟨p, hst⟩ := href
      unfold keyState at hst
      cases hl : SysStore.lastW (g.wlog.take s.beginLog ++ (g.wlog.take n).drop s.beginLog) k with
      | none =>
        have := lastW_none_iff.mp hl
        rw [rewrites_append] at this
        omega
      | some q =>
        rw [hl] at hst
        simp only [Option.some.injEq, Prod.mk.injEq] at hst
        -- the last write to k lies in the piece applied while the request was in flight
        have hq : q ∈ (g.wlog.take n).drop s.beginLog ∧ q.key = k := by
          unfold SysStore.lastW at hl
          rw [List.filter_append] at hl
          have hne' : ((g.wlog.take n).drop s.beginLog).filter (fun w => w.key == k) ≠ [] := by
            intro e; unfold rewrites at hp; rw [e] at hp; simp at hp
          rw [List.getLast?_append] at hl
          cases hb' : (((g.wlog.take n).drop s.beginLog).filter (fun w => w.key == k)).getLast? with
          | none => exact absurd (List.getLast?_eq_none_iff.mp hb') hne'
          | some x =>
          rw [hb'] at hl
          have hxq : x = q := by simpa using hl
          subst hxq
          have := List.mem_filter.mp (List.mem_of_getLast? hb')
          exact ⟨this.1, by simpa using this.2⟩
        refine ⟨q, hsub q hq.1, hq.2, ?_⟩
        intro e
        have := hst.2
        rw [e] at this; simp at this
  · exact .inr (.inr h5)

/-- In KB.Sys the index record of a key never vanishes (compaction is not an action of this LTS: that race is
`KB.C07Race`), so the creator's "record gone: put-if-absent again" branch (`Pc.createRetry`, c592466) is not reachable
here, and the theorems above lose nothing by it. -/
theorem recreate_branch_needs_compaction {g0 g : G} (h0 : C02.Init g0) (hs : C02.StoreOK g0) (hr : Reachable g0 g)
    (hb : g.dealt < 2 ^ 64) (hnew : g0.cfg.creatorNoReeval = false) (c : Client) (hc : c ∈ g.clients) (rev : Nat) :
    c.pc ≠ .createRetry rev := by
  intro e
  have := ((JInv.reachable h0 hs hr hnew hb).cl c hc (by simp)).2
  simp [e] at this

/-- The sequential model (`KB.Backend.doCreate`, one request at a time) is unaffected: run alone, the creator's
first compare-and-swap is made against the record it has just read and cannot fail its condition, so the loop body
runs once — the creator as it is now (`creatorCreateNow`) IS the one-shot `creatorCreate` every sequential theorem
is about. -/
theorem sequential_creator_is_one_shot (c : Cfg) (st : Store) (key val : Bytes) (rev : Nat) (fs : List Fault) :
    creatorCreateNow c st key val rev fs = creatorCreate c st key val rev fs :=
  creatorCreateNow_eq c st key val rev fs

/-! ### The auditor's schedule (/tmp/auditout3-T2/1), from the empty store -/

/-- key `/a` -/
def k : Bytes := [47, 97]

/-- history: request 1 creates `/a` (revision 1); request 2 deletes it (revision N = 2): the commit LANDS, the engine
answers "outcome unknown", the sequencer queues revision 2 for repair -/
def pre : List Action :=
  [ .begin 1 (.create k [1]), .step 1 .none, .step 1 .none, .seq,
    .begin 2 (.delete k 0), .step 2 .none, .step 2 .none, .step 2 .uncApplied, .seq ]

/-- the race: the repair reads the key and is dealt M = 3; request 3 creates `/a`, is dealt C = 4, its put-if-absent
fails on 2|deleted; the repair commits (2|deleted → 3|deleted); the creator's compare-and-swap against 2|deleted fails;
it reads the record again (3|deleted, 3 < 4); its compare-and-swap against 3|deleted -/
def race : List Action :=
  [ .retryRead, .begin 3 (.create k [2]), .step 3 .none, .step 3 .none, .retryCommit .none,
    .step 3 .none, .step 3 .none, .step 3 .none ]

/-- the same race with the repair dealt its revision AFTER the create (C = 3 < M = 4) -/
def raceLate : List Action :=
  [ .begin 3 (.create k [2]), .step 3 .none, .step 3 .none, .retryRead, .retryCommit .none,
    .step 3 .none, .step 3 .none ]

/-- what a point read of `k` answers in state `g` (none = absent / deleted) -/
def readAt (g : G) (k : Bytes) : Option (Bytes × Nat) :=
  match bget g.cfg g.store k 0 with
  | .found v m => some (v, m)
  | .notFound _ => none

/-- the creator before eb6d1d1 -/
def gOld : G := { cfg := { creatorNoReeval := true, creatorTombAboveIsCf := true } }

/-- the creator between eb6d1d1 and 42e5238 -/
def gMid : G := { cfg := { creatorTombAboveIsCf := true } }

/-- a second create of a key that is live -/
def overLive : List Action :=
  [ .begin 1 (.create k [1]), .step 1 .none, .step 1 .none, .seq, .begin 3 (.create k [2]), .step 3 .none, .step 3 .none ]

theorem init_empty : C02.Init {} ∧ C02.StoreOK {} :=
  ⟨⟨⟨rfl, rfl, rfl, rfl, rfl⟩, rfl, rfl, rfl⟩, ⟨[], rfl, List.Pairwise.nil, by simp, by decide⟩⟩

set_option maxRecDepth 1000000 in
/-- **The create over the repaired deletion succeeds.** On the auditor's schedule the create is answered `ok` at C = 4:
the program counters show the path (put-if-absent refused → compare-and-swap on 2|deleted refused → read again →
compare-and-swap on 3|deleted), the log is create 1, delete 2, rewrite 3 (conditioned on 2), create 4 (over a deletion),
the record ends at 4 live, the key reads `[2]@4`, and the chain invariant (`C01.chain`) holds of the final log. -/
theorem create_over_repaired_deletion_succeeds :
    let g := run {} (pre ++ race)
    g.done.map (fun d => (d.id, d.res)) = [(1, .ok 1), (2, .error .uncertain), (3, .ok 4)] ∧
    (List.range (race.length + 1)).map (fun i => (run (run {} pre) (race.take i)).clients.map (·.pc)) =
      [[], [], [.start], [.createCommit 4], [.createOver 4 (be8 2 ++ [0]) 0], [.createOver 4 (be8 2 ++ [0]) 0],
       [.createRecheck 4 0], [.createOver 4 (be8 3 ++ [0]) 1], []] ∧
    g.wlog.map (fun w => (w.rev, w.val, w.exp)) =
      [(1, some [1], .absent), (2, none, .rev 1), (3, none, .rev 2), (4, some [2], .absent)] ∧
    g.store.get (idxKey k) = some (be8 4) ∧ readAt g k = some ([2], 4) ∧ g.clients = [] ∧
    (∀ i w, g.wlog[i]? = some w → C01.ChainAt {} g.wlog i w) := by
  refine ⟨by decide, by decide, by decide, by decide, by decide, by decide, ?_⟩
  intro i w hw
  exact C01.chain init_empty.1 init_empty.2 ⟨pre ++ race, rfl⟩ (by decide) i w hw

set_option maxRecDepth 1000000 in
/-- **Refutation for the creator before eb6d1d1.** Same schedule, pre-repair creator: the create is answered
"condition failed" although a point read of the key answers "absent" in EVERY state of the run from the moment the
delete had landed, and nothing but the delete and its rewrite was ever applied to the key: the statement of
`create_cf_justified_under_repair` fails for it (`old_creator_not_justified`). -/
theorem old_creator_cf_on_still_deleted_key :
    let g1 := run gOld pre
    let g := run g1 race
    g.done.map (fun d => (d.id, d.res)) = [(1, .ok 1), (2, .error .uncertain), (3, .condFailed 4 none)] ∧
    (∀ i, i ≤ race.length → readAt (run g1 (race.take i)) k = none) ∧
    g.wlog.map (fun w => (w.rev, w.val, w.exp)) = [(1, some [1], .absent), (2, none, .rev 1), (3, none, .rev 2)] ∧
    g.spans = [⟨1, 1, 0, 1⟩, ⟨2, 2, 1, 2⟩, ⟨3, 4, 2, 3⟩] := by
  decide

set_option maxRecDepth 1000000 in
/-- ... in the vocabulary of the theorem: no moment of the request's span refuses the create, and one write (not 4)
was applied meanwhile. -/
theorem old_creator_not_justified :
    let g := run gOld (pre ++ race)
    ∀ s ∈ g.spans, s.id = 3 → s.rev = 4 →
      ¬ ((∃ n, s.beginLog ≤ n ∧ n ≤ s.endLog ∧ Refuses (keyState gOld (g.wlog.take n) k) 4) ∨
         4 ≤ rewrites k ((g.wlog.take s.endLog).drop s.beginLog)) := by
  intro g s hs hid hrev
  have hsp : g.spans = [⟨1, 1, 0, 1⟩, ⟨2, 2, 1, 2⟩, ⟨3, 4, 2, 3⟩] := by decide
  rw [hsp] at hs
  simp only [List.mem_cons, List.not_mem_nil, or_false] at hs
  rcases hs with rfl | rfl | rfl
  · simp at hid
  · simp at hid
  · rintro (⟨n, h1, h2, h3⟩ | h4)
    · have : n = 2 ∨ n = 3 := by simp only at h1 h2; omega
      rcases this with rfl | rfl
      · exact absurd h3 (by decide)
      · exact absurd h3 (by decide)
    · exact absurd h4 (by decide)

set_option maxRecDepth 1000000 in
/-- **When the repair was dealt its revision after the create (C = 3 < M = 4)** the rewritten record is a deletion
ABOVE the create's revision: nothing can be written below it (the per-key revision order, C02), but the key is absent
and stays so — since /repo 42e5238 the create is answered with an ERROR (the client tries again and is dealt a fresh
revision), not with "condition failed". Nothing is applied by it, its revision 3 is still reported to the sequencer
(an invalid, not uncertain, slot: the read revision passes it), and the key reads "absent" in every state of the run. -/
theorem create_error_when_repair_is_later :
    let g1 := run {} pre
    let g := run g1 raceLate
    g.done.map (fun d => (d.id, d.res)) = [(1, .ok 1), (2, .error .uncertain), (3, .error .other)] ∧
    g.wlog.map (fun w => (w.rev, w.val, w.exp)) = [(1, some [1], .absent), (2, none, .rev 1), (4, none, .rev 2)] ∧
    g.slots.map (fun w => (w.rev, w.valid, w.uncertain)) = [(4, true, false), (3, false, false)] ∧
    (run g [.seq, .seq]).committed = 4 ∧ (run g [.seq, .seq]).retryQ = [] ∧ (run g [.seq, .seq]).slots = [] ∧
    (∀ i, i ≤ raceLate.length → readAt (run g1 (raceLate.take i)) k = none) := by
  decide

set_option maxRecDepth 1000000 in
/-- **Refutation for the creator before 42e5238** (`gMid`). Same schedule: "condition failed" at revision 3 although the
key reads "absent" in every state of the run and only the delete and its rewrite were ever applied to it: at no moment
of the request's span was the key live, and one write (not 4) was applied meanwhile — the conclusion of
`create_cf_justified_under_repair` fails for it (only the weaker `create_cf_justified_before_42e5238` holds: deleted
at 4 ≥ 3 at the moment after the rewrite). -/
theorem old_creator_cf_when_repair_is_later :
    let g1 := run gMid pre
    let g := run g1 raceLate
    g.done.map (fun d => (d.id, d.res)) = [(1, .ok 1), (2, .error .uncertain), (3, .condFailed 3 none)] ∧
    (∀ i, i ≤ raceLate.length → readAt (run g1 (raceLate.take i)) k = none) ∧
    g.wlog.map (fun w => (w.rev, w.val, w.exp)) = [(1, some [1], .absent), (2, none, .rev 1), (4, none, .rev 2)] ∧
    g.spans = [⟨1, 1, 0, 1⟩, ⟨2, 2, 1, 2⟩, ⟨3, 3, 2, 3⟩] ∧
    ¬ Live (keyState gMid (g.wlog.take 2) k) ∧ ¬ Live (keyState gMid (g.wlog.take 3) k) ∧
    rewrites k ((g.wlog.take 3).drop 2) = 1 ∧
    keyState gMid (g.wlog.take 3) k = some (4, true) ∧ Refuses (keyState gMid (g.wlog.take 3) k) 3 := by
  decide

/-! Non-vacuity of the implications: the hypotheses of `create_cf_justified_under_repair` /
`create_cf_names_the_interferer` hold of a run in which a live key is created again (a reachable state with a create
answered "condition failed", the repaired creator); those of `create_cf_justified_before_42e5238` of the late-repair
run of the creator before 42e5238; those of `recreate_branch_needs_compaction` of a state with a request in flight. -/
set_option maxRecDepth 1000000 in
example : ∃ (g0 g : G) (d : Done) (k' v : Bytes) (hdr : Nat) (kv : Option (Bytes × Bytes × Nat)),
    C02.Init g0 ∧ C02.StoreOK g0 ∧ Reachable g0 g ∧ g.dealt < 2 ^ 64 ∧ g0.cfg.creatorNoReeval = false ∧
      g0.cfg.creatorTombAboveIsCf = false ∧ d ∈ g.done ∧ d.kind = .create k' v ∧ d.res = .condFailed hdr kv :=
  ⟨{}, run {} overLive, ⟨3, .create k [2], .condFailed 2 none, 2, 1, 2⟩, k, [2], 2, none,
    init_empty.1, init_empty.2, ⟨_, rfl⟩, by decide, rfl, rfl, by decide, rfl, rfl⟩

set_option maxRecDepth 1000000 in
example : ∃ (g0 g : G) (d : Done) (k' v : Bytes) (hdr : Nat) (kv : Option (Bytes × Bytes × Nat)),
    C02.Init g0 ∧ C02.StoreOK g0 ∧ Reachable g0 g ∧ g.dealt < 2 ^ 64 ∧ g0.cfg.creatorNoReeval = false ∧
      g0.cfg.creatorTombAboveIsCf = true ∧ d ∈ g.done ∧ d.kind = .create k' v ∧ d.res = .condFailed hdr kv :=
  ⟨gMid, run gMid (pre ++ raceLate), ⟨3, .create k [2], .condFailed 3 none, 3, 2, 4⟩, k, [2], 3, none,
    ⟨⟨rfl, rfl, rfl, rfl, rfl⟩, rfl, rfl, rfl⟩, ⟨[], rfl, List.Pairwise.nil, by simp, by decide⟩, ⟨_, rfl⟩, by decide,
    rfl, rfl, by decide, rfl, rfl⟩

set_option maxRecDepth 1000000 in
example : ∃ (g0 g : G) (c : Client), C02.Init g0 ∧ C02.StoreOK g0 ∧ Reachable g0 g ∧ g.dealt < 2 ^ 64 ∧
    g0.cfg.creatorNoReeval = false ∧ c ∈ g.clients ∧ c.pc = .createRecheck 4 0 :=
  ⟨{}, run {} (pre ++ race.take 6), ⟨3, .create k [2], .createRecheck 4 0, 3⟩,
    init_empty.1, init_empty.2, ⟨_, rfl⟩, by decide, rfl, by decide, rfl⟩

#print axioms create_cf_justified_under_repair
#print axioms create_cf_names_the_interferer
#print axioms recreate_branch_needs_compaction
#print axioms sequential_creator_is_one_shot
#print axioms init_empty
#print axioms create_over_repaired_deletion_succeeds
#print axioms old_creator_cf_on_still_deleted_key
#print axioms old_creator_not_justified
#print axioms create_cf_justified_before_42e5238
#print axioms create_error_when_repair_is_later
#print axioms old_creator_cf_when_repair_is_later

end KB.C01Repair
