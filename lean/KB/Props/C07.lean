/-
  C07 — Compaction never changes what a read at or above the compaction revision sees.
  Model: the worker loop with `compact = true` (KB.Scan.workerActs) and the execution of its delete
  actions against the live store under an arbitrary failure mask (KB.Scan.runDeletes). A crash after
  n deletions is the mask that fails every call from n on. The mask is arbitrary: every delete call —
  plain (`compactKey`) or compare-and-delete (`compactCurrent`) — may succeed, fail, or fail with an
  error of the failed-condition class (`storage.ErrCASFailed`; the TiKV adapter reports a write
  conflict that way, for a plain delete too).
  This file: the pass WITHOUT a timeout revision (`workerActs` is the whole loop then: `KB.passRun_expiry_off`).
  The pass with the ttl pass riding on it (engine without native ttl, `timeoutRevision ≠ 0`): `KB.Props.C07Expire`.
-/
import KB.Lemmas.Compact
namespace KB.C07
open KB KB.Compact Generated

/-- The internal keys successfully removed by a compaction pass at `R` over `recs` under `mask`
(expiry off). -/
def deleted (R : Nat) (mask : Nat → DelOutcome) (recs : List Rec) : List Bytes :=
  let st := runDeletes mask { store := encodeStore recs } (workerActs { R := R, compact := true } recs)
  (recs.filter (fun r => (st.store.get r.ik).isNone)).map (·.ik)

/-- The decoded store after the pass. -/
def after (R : Nat) (mask : Nat → DelOutcome) (recs : List Rec) : List Rec :=
  recs.filter (fun r => !(deleted R mask recs).contains r.ik)


/-- the store after the pass -/
def finalStore (R : Nat) (mask : Nat → DelOutcome) (recs : List Rec) : Store :=
  (runDeletes mask { store := encodeStore recs } (workerActs { R := R, compact := true } recs)).store

theorem mem_deleted_iff {R : Nat} {mask : Nat → DelOutcome} {recs : List Rec} {ik : Bytes} :
    ik ∈ deleted R mask recs ↔ (∃ r ∈ recs, r.ik = ik) ∧ (finalStore R mask recs).get ik = none := by
  simp only [deleted, finalStore, List.mem_map, List.mem_filter, Option.isNone_iff_eq_none]
  constructor
  · rintro ⟨r, ⟨hr, hn⟩, rfl⟩; exact ⟨⟨r, hr, rfl⟩, hn⟩
  · rintro ⟨⟨r, hr, rfl⟩, hn⟩; exact ⟨r, ⟨hr, hn⟩, rfl⟩

theorem deleted_deletable {recs : List Rec} (hs : SortedRecs recs) (hw : WellKeyed recs)
    (hk : ∀ r ∈ recs, Alphabet r.key ∧ r.rev < 2 ^ 64)
    (R : Nat) (mask : Nat → DelOutcome) (r : Rec) (hr : r ∈ recs) (hd : r.ik ∈ deleted R mask recs) :
    Deletable R recs r :=
  compact_deletable hs hw hk R mask hr (mem_deleted_iff.1 hd).2

/-- Without `hne` the two theorems below are false: the empty raw
key is (vacuously) over the alphabet, and `lastFailed.length > 0` disables the skip for it. -/
theorem empty_key_resurrects :
    let recs : List Rec :=
      [ { key := [], rev := 3, val := [1], ik := encode [] 3 },
        { key := [], rev := 7, val := tombstone, ik := encode [] 7 } ]
    let mask : Nat → DelOutcome := fun i => if i = 0 then .fail else .ok
    SortedRecs recs ∧ WellKeyed recs ∧ (∀ r ∈ recs, Alphabet r.key ∧ r.rev < 2 ^ 64) ∧
    readAt 9 recs [] = none ∧ readAt 9 (after 8 mask recs) [] = some ([1], 3) ∧
    scanRecs 9 recs = [] ∧ scanRecs 9 (after 8 mask recs) = [([], [1], 3)] := by
  decide

/-- Main theorem: whatever deletions succeed, fail (with whatever class of error, on whichever kind of
delete call — `mask` is arbitrary), or are cut short, every read at every
revision ≥ R of every key returns exactly what it returned before. (`hne`: raw keys are non-empty —
for the empty raw key the statement is FALSE, see `empty_key_resurrects`: the
`len(lastCompactFailedRawKey) > 0` guard never fires for it.) -/
theorem compact_preserves_reads {recs : List Rec} (hs : SortedRecs recs) (hw : WellKeyed recs)
    (hk : ∀ r ∈ recs, Alphabet r.key ∧ r.rev < 2 ^ 64) (hne : ∀ r ∈ recs, r.key ≠ [])
    (R : Nat) (mask : Nat → DelOutcome) (R' : Nat) (hR : R ≤ R') (k : Bytes) :
    readAt R' (after R mask recs) k = readAt R' recs k := by
  have hkeep : ∀ d ∈ recs, (!(deleted R mask recs).contains d.ik) = false ↔
      (finalStore R mask recs).get d.ik = none := by
    intro d hd
    simp only [Bool.not_eq_false', List.contains_iff_mem, mem_deleted_iff]
    exact ⟨fun h => h.2, fun h => ⟨⟨d, hd, rfl⟩, h⟩⟩
  unfold after
  apply readAt_filter hs _ R R' hR
  · intro d hd hkd
    exact compact_deletable hs hw hk R mask hd ((hkeep d hd).1 hkd)
  · intro t ht hkt htomb hpos w hw' hwk h0 hlt
    rw [hkeep w hw']
    exact compact_tombClosed hs hw hk hne R mask t ht ((hkeep t ht).1 hkt) htomb hpos w hw' hwk h0 hlt

/-- Range form of the same statement. -/
theorem compact_preserves_scan {recs : List Rec} (hs : SortedRecs recs) (hw : WellKeyed recs)
    (hk : ∀ r ∈ recs, Alphabet r.key ∧ r.rev < 2 ^ 64) (hne : ∀ r ∈ recs, r.key ≠ [])
    (R : Nat) (mask : Nat → DelOutcome) (R' : Nat) (hR : R ≤ R') :
    scanRecs R' (after R mask recs) = scanRecs R' recs :=
  scan_filter_of_readAt hs _ R'
    (fun k => compact_preserves_reads hs hw hk hne R mask R' hR k)

/-- Only records at or below R are ever removed, and a removed version is either superseded by a
newer version ≤ R of the same key or is a deletion marker / a deleted key's index record. -/
theorem deleted_only_le_R {recs : List Rec} (hs : SortedRecs recs) (hw : WellKeyed recs)
    (hk : ∀ r ∈ recs, Alphabet r.key ∧ r.rev < 2 ^ 64)
    (R : Nat) (mask : Nat → DelOutcome) (r : Rec) (hr : r ∈ recs) (hd : r.ik ∈ deleted R mask recs) :
    r.rev ≤ R :=
  (deleted_deletable hs hw hk R mask r hr hd).1

/-- A live key (index record of 8 bytes, newest version not a tombstone) keeps its index record and
its newest version: it stays writable with normal compare-and-swap semantics. -/
theorem live_key_untouched {recs : List Rec} (hs : SortedRecs recs) (hw : WellKeyed recs)
    (hk : ∀ r ∈ recs, Alphabet r.key ∧ r.rev < 2 ^ 64)
    (R : Nat) (mask : Nat → DelOutcome) (r : Rec) (hr : r ∈ recs)
    (hlive : (r.rev = 0 ∧ r.val.length = 8) ∨
             (0 < r.rev ∧ ¬ isTomb r.val = true ∧ ∀ r' ∈ recs, r'.key = r.key → r'.rev ≤ r.rev)) :
    r.ik ∉ deleted R mask recs := by
  intro hd
  obtain ⟨_, h0, hpos⟩ := deleted_deletable hs hw hk R mask r hr hd
  rcases hlive with ⟨h1, h2⟩ | ⟨h1, h2, h3⟩
  · have := h0 h1; omega
  · rcases hpos h1 with h | ⟨r', hr', hkey, hlt, _⟩
    · exact h2 h
    · have := h3 r' hr' hkey; omega

/-! ### the pre-fix behaviour (before "fix: a failed delete of a version always stops the compaction
of that key"): `compactKey` went through `updateSkippedRawKey` like `compactCurrent` does -/

/-- `runDelete` as the code was BEFORE the fix: a plain delete failing with an error of the
failed-condition class is not applied and its raw key is NOT remembered. Every other arm is
`runDelete`'s. -/
def runDeleteOld (mask : Nat → DelOutcome) (st : CompState) : Act → CompState
  | .del ik raw =>
    if st.lastFailed.length > 0 && st.lastFailed == raw then st
    else match mask st.calls with
      | .failCas => { st with calls := st.calls + 1, trace := st.trace ++ [.del ik] }
      | _ => runDelete mask st (.del ik raw)
  | a => runDelete mask st a

/-- the decoded store after a pass executed with `runDeleteOld` -/
def afterOld (R : Nat) (mask : Nat → DelOutcome) (recs : List Rec) : List Rec :=
  let st := (workerActs { R := R, compact := true } recs).foldl (runDeleteOld mask) { store := encodeStore recs }
  recs.filter (fun r => (st.store.get r.ik).isSome)

/-- the two executions differ in nothing but the `.del` / `.failCas` arm -/
theorem runDeleteOld_eq {mask : Nat → DelOutcome} {st : CompState} {a : Act}
    (h : mask st.calls ≠ .failCas ∨ ∀ ik raw, a ≠ .del ik raw) :
    runDeleteOld mask st a = runDelete mask st a := by
  cases a with
  | del ik raw =>
    rcases h with h | h
    · simp only [runDeleteOld, runDelete]
      split
      · rfl
      · cases hmc : mask st.calls <;> simp_all
    · exact absurd rfl (h ik raw)
  | emit k v r => rfl
  | delcur ik v raw => rfl
  | expire ik v vers raw => rfl
  | panic => rfl

/-- Witness for the fix. The plain delete of the older version fails with a failed-condition error (a
TiKV write conflict). Pre-fix (`runDeleteOld`): the failure is not remembered, the deletion marker above
goes, and the deleted key REAPPEARS — in the point read and in the range read. With `runDelete` (the code
as it is) the same mask stops the compaction of that key: nothing of it is removed, reads are unchanged. -/
theorem cas_on_del_resurrected_before_fix :
    let recs : List Rec :=
      [ { key := [47, 97], rev := 3, val := [1], ik := encode [47, 97] 3 },
        { key := [47, 97], rev := 7, val := tombstone, ik := encode [47, 97] 7 } ]
    let mask : Nat → DelOutcome := fun i => if i = 0 then .failCas else .ok
    SortedRecs recs ∧ WellKeyed recs ∧ (∀ r ∈ recs, Alphabet r.key ∧ r.rev < 2 ^ 64) ∧
    (∀ r ∈ recs, r.key ≠ []) ∧
    -- before the pass: the key is deleted
    readAt 9 recs [47, 97] = none ∧ scanRecs 9 recs = [] ∧
    -- pre-fix: it reappears
    readAt 9 (afterOld 8 mask recs) [47, 97] = some ([1], 3) ∧
    scanRecs 9 (afterOld 8 mask recs) = [([47, 97], [1], 3)] ∧
    -- now: unchanged (and nothing of the key was removed)
    readAt 9 (after 8 mask recs) [47, 97] = none ∧ scanRecs 9 (after 8 mask recs) = [] ∧
    after 8 mask recs = recs := by
  decide

/-! Non-vacuity -/
def exRecs : List Rec :=
  [ { key := [47, 97], rev := 0, val := be64 7 ++ [0], ik := encode [47, 97] 0 },
    { key := [47, 97], rev := 3, val := [1], ik := encode [47, 97] 3 },
    { key := [47, 97], rev := 7, val := tombstone, ik := encode [47, 97] 7 },
    { key := [47, 98], rev := 0, val := be64 5, ik := encode [47, 98] 0 },
    { key := [47, 98], rev := 4, val := [2], ik := encode [47, 98] 4 },
    { key := [47, 98], rev := 5, val := [3], ik := encode [47, 98] 5 } ]
example : SortedRecs exRecs ∧ WellKeyed exRecs := by decide
example : (after 8 (fun _ => .ok) exRecs).map (fun r => (r.key, r.rev)) = [([47, 98], 0), ([47, 98], 5)] := by decide
example : (after 8 (fun i => if i = 0 then .fail else .ok) exRecs).length = 5 := by decide
/-- a mask mixing all three outcomes on both kinds of delete call: the compare-and-delete of `/a`'s index
record (call 0) and the plain delete of `/b`'s superseded version (call 3) fail with a failed-condition
error, the plain delete of `/a`'s marker (call 2) fails otherwise -/
def mixedMask : Nat → DelOutcome := fun i => if i = 0 ∨ i = 3 then .failCas else if i = 2 then .fail else .ok
example : (runDeletes mixedMask { store := encodeStore exRecs } (workerActs { R := 8, compact := true } exRecs)).trace.map
      (fun t => match t with | .delcur _ => true | _ => false)
    = [true, false, false, false] := by decide
example : (after 8 mixedMask exRecs).map (fun r => (r.key, r.rev)) =
    [([47, 97], 0), ([47, 97], 7), ([47, 98], 0), ([47, 98], 4), ([47, 98], 5)] := by decide
example (R' : Nat) (hR : 8 ≤ R') (k : Bytes) : readAt R' (after 8 mixedMask exRecs) k = readAt R' exRecs k :=
  compact_preserves_reads (by decide) (by decide) (by decide) (by decide) 8 mixedMask R' hR k

end KB.C07
