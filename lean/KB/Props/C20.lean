/-
  C20 — "No request can crash or wedge a node, with production metrics enabled".
  This file states the top-level theorems of the property.  At present it carries the METRICS part
  (KB.Props.C20Metrics: every emission call site of the program, regenerated from /repo on every run);
  the request-level parts (totality of the handlers, serves-after-any-request) are added here by the
  slices that own the handler model.
-/
import KB.Props.C20Metrics
namespace KB.C20
open KB KB.Metrics KB.Generated

/-- Metric emission cannot panic because of a metric NAME, a KIND or a LABEL-NAME set, for any sequence
of executions of the program's emission call sites; the remaining condition is that run-time label
VALUES (watch key prefix, leader address) are valid UTF-8. -/
theorem metric_emission_never_panics_partial (g : List Name) (hg : g ∈ metricGlobalLabels)
    (seq : List Emission) (hs : ∀ e ∈ seq, Admissible metricSites e)
    (hdyn : ∀ e ∈ seq, e.site.dynamicLabels ≠ [] → e.valuesValid = true) :
    (run g Registry.empty seq).isSome = true :=
  KB.C20Metrics.metrics_never_panic_partial g hg seq hs hdyn

/-- The unconditional statement (`KB.C20Metrics.MetricsNeverPanic`) is false on the current tree: the key
of a Watch request is passed verbatim as a label value (finding "metric-label-value-not-utf8"). -/
theorem metric_emission_full_statement_false : ¬ KB.C20Metrics.MetricsNeverPanic :=
  KB.C20Metrics.metrics_panic_witness

end KB.C20
