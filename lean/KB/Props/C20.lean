/-
  C20 — "No request can crash or wedge a node, with production metrics enabled".
  This file states the top-level theorems of the METRICS part (KB.Props.C20Metrics: every emission call site of
  the program, regenerated from /repo on every run); the request-level part (totality of the handlers,
  serves-after-any-request) lives in KB.Props.C20Requests.
-/
import KB.Props.C20Metrics
namespace KB.C20
open KB KB.Metrics KB.Generated

/-- Metric emission cannot panic — because of a metric NAME, a KIND, a LABEL-NAME set or a label VALUE — for any
sequence of executions of the program's emission call sites and arbitrary client data; the one environment
hypothesis is that the leader address (operator configuration, `KB.C20Metrics.metric_dynamic_label_sites`)
is valid UTF-8. -/
theorem metric_emission_never_panics (g : List Name) (hg : g ∈ metricGlobalLabels)
    (seq : List Emission) (hs : ∀ e ∈ seq, Admissible metricSites e)
    (hleader : KB.C20Metrics.LeaderAddressValid seq) :
    (run g Registry.empty seq).isSome = true :=
  KB.C20Metrics.metrics_never_panic g hg seq hs hleader

/-- Without any hypothesis for executions that stay outside the election / follower-revision code. -/
theorem metric_emission_never_panics_request_paths (g : List Name) (hg : g ∈ metricGlobalLabels)
    (seq : List Emission) (hs : ∀ e ∈ seq, Admissible metricSites e)
    (hpath : ∀ e ∈ seq, e.site.file ≠ "pkg/server/service/leader/leader.go" ∧
      e.site.file ≠ "pkg/server/service/revision/revision.go") :
    (run g Registry.empty seq).isSome = true :=
  KB.C20Metrics.metrics_never_panic_request_paths g hg seq hs hpath

end KB.C20
