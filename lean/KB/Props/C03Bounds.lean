/-
  C03 / C16 — ARBITRARY range bounds: bounds of the form `K ++ [0]` ("just after K": the continue key of a
  paginated list, the end of a single-key range; /repo 146f0bb) and, since /repo 23c8b93, every byte string
  (`backend.encodeRangeBound` cuts a bound at its first byte at or below the key/revision separator; model
  `KB.encodeBound`).
  Property theorems only. The order facts on internal keys are in KB.Props.C10 (`versions_before_succ_bound`,
  `versions_before_low_bound`, `succ_bound_before_greater`, `range_bounds_exact'`, `bounds_ordered`,
  `old_bound_encoding_defect`, `bound_146f0bb_defect`); here they are lifted to the range read: `Backend.List` /
  `Backend.Count` over `[a, b)` with `a`, `b` ANY byte strings with `a < b` return exactly the snapshot
  restricted to the RAW keys `k` with `a ≤ k < b` (`bytes.Compare` on raw keys — what the etcd reference's range
  does, `KB.Etcd.inInterval`).
-/
import KB.Lemmas.EtcdRange
namespace KB.C03Bounds
open KB KB.Etcd Generated

/-- `C03.list_spec` for ARBITRARY bounds (one partition): the kvs are the scan of
exactly the records of the raw keys in `[a, b)`; with a limit the first `n`, `more` iff the limit cut. -/
theorem list_spec_bounds (c : Cfg) (hsplit : c.splits = []) (s : BState) {recs : List Rec}
    (hstore : s.store = encodeStore recs) (hk : ∀ r ∈ recs, Alphabet r.key ∧ r.rev < 2 ^ 64)
    (a b : Bytes) (hab : cmp a b = .lt) (R n : Nat) :
    let full := scanRecs (C03.readRev R s.committed) (recs.filter (fun r => ble a r.key && blt r.key b))
    ∃ res, doList c s a b R n = .ok res ∧ res.hdr = hdrOf s.committed res.kvs ∧
      res.kvs = (if n = 0 then full else full.take n) ∧ (res.more = true ↔ (0 < n ∧ n < full.length)) :=
  doList_bounds_spec c hsplit s hstore hk a b hab R n

/-- `C03.count_spec` for the same bounds. -/
theorem count_spec_bounds (c : Cfg) (hsplit : c.splits = []) (hcompat : c.etcdCompat = true) (s : BState)
    {recs : List Rec} (hstore : s.store = encodeStore recs) (hk : ∀ r ∈ recs, Alphabet r.key ∧ r.rev < 2 ^ 64)
    (a b : Bytes) (hab : cmp a b = .lt) :
    doCount c s a b = .ok (s.committed,
      (scanRecs s.committed (recs.filter (fun r => ble a r.key && blt r.key b))).length) :=
  doCount_bounds c hsplit hcompat s hstore hk hab

/-- The unlimited range read is the snapshot at the read revision restricted to the raw keys in `[a, b)`:
the answer of the reference's range on raw keys. -/
theorem list_is_snapshot_range (c : Cfg) (hsplit : c.splits = []) (s : BState) {recs : List Rec}
    (hstore : s.store = encodeStore recs) (hs : SortedRecs recs)
    (hk : ∀ r ∈ recs, Alphabet r.key ∧ r.rev < 2 ^ 64)
    (a b : Bytes) (hab : cmp a b = .lt) (R : Nat) :
    ∃ res, doList c s a b R 0 = .ok res ∧
      res.kvs = (scanRecs (C03.readRev R s.committed) recs).filter (fun e => ble a e.1 && blt e.1 b) := by
  refine ⟨_, doList_bounds_unlimited c hsplit s hstore hk hab R, ?_⟩
  exact scan_filter_key hs _ (fun k => ble a k && blt k b)

/-- START `K ++ [0]` EXCLUDES `K`: every key of a range read that starts just after `K` is strictly greater
than `K` (before the fix the read started with `K` again). -/
theorem list_from_succ_excludes (c : Cfg) (hsplit : c.splits = []) (s : BState) {recs : List Rec}
    (hstore : s.store = encodeStore recs) (hs : SortedRecs recs)
    (hk : ∀ r ∈ recs, Alphabet r.key ∧ r.rev < 2 ^ 64)
    (K b : Bytes) (hab : cmp (K ++ [0]) b = .lt) (R n : Nat) :
    ∃ res, doList c s (K ++ [0]) b R n = .ok res ∧ ∀ kv ∈ res.kvs, blt K kv.1 = true ∧ kv.1 ≠ K := by
  obtain ⟨res, hres, _, hkvs, _⟩ := list_spec_bounds c hsplit s hstore hk (K ++ [0]) b hab R n
  refine ⟨res, hres, ?_⟩
  intro kv hkv
  have hmem : kv ∈ scanRecs (C03.readRev R s.committed)
      (recs.filter (fun r => ble (K ++ [0]) r.key && blt r.key b)) := by
    rw [hkvs] at hkv
    by_cases hn : n = 0
    · simpa [hn] using hkv
    · simp only [hn, if_false] at hkv
      exact List.mem_of_mem_take hkv
  rw [scan_filter_key hs _ (fun k => ble (K ++ [0]) k && blt k b), List.mem_filter] at hmem
  have h1 : ble (K ++ [0]) kv.1 = true := by
    have := hmem.2
    simp only [Bool.and_eq_true] at this
    exact this.1
  have hlt : blt K kv.1 = true := (ble_succ_iff kv.1 K).mp h1
  refine ⟨hlt, ?_⟩
  intro he
  rw [he, blt_iff, cmp_refl] at hlt
  cases hlt

/-- END `K ++ [0]` INCLUDES `K`: a key `K ≥ a` that is live at the read revision is in the range read that
ends just after `K` (before the fix it was missing: `[K, K ++ [0])` was empty). -/
theorem list_to_succ_includes (c : Cfg) (hsplit : c.splits = []) (s : BState) {recs : List Rec}
    (hstore : s.store = encodeStore recs) (hs : SortedRecs recs)
    (hk : ∀ r ∈ recs, Alphabet r.key ∧ r.rev < 2 ^ 64)
    (a K : Bytes) (haK : ble a K = true) (R : Nat) (v : Bytes) (m : Nat)
    (hlive : readAt (C03.readRev R s.committed) recs K = some (v, m)) :
    ∃ res, doList c s a (K ++ [0]) R 0 = .ok res ∧ (K, v, m) ∈ res.kvs := by
  have hab : cmp a (K ++ [0]) = .lt := blt_iff.mp ((blt_succ_iff a K).mpr haK)
  obtain ⟨res, hres, hkvs⟩ := list_is_snapshot_range c hsplit s hstore hs hk a (K ++ [0]) hab R
  refine ⟨res, hres, ?_⟩
  rw [hkvs, List.mem_filter, mem_scanRecs_iff hs]
  refine ⟨hlive, ?_⟩
  have : blt K (K ++ [0]) = true := (blt_succ_iff K K).mpr (by simp [ble])
  simp [haK, this]

/-- THE SINGLE-KEY RANGE `[K, K ++ [0])` is the point read of `K`. -/
theorem single_key_range (c : Cfg) (hsplit : c.splits = []) (s : BState) {recs : List Rec}
    (hstore : s.store = encodeStore recs) (hs : SortedRecs recs)
    (hk : ∀ r ∈ recs, Alphabet r.key ∧ r.rev < 2 ^ 64) (K : Bytes) (R : Nat) :
    ∃ res, doList c s K (K ++ [0]) R 0 = .ok res ∧
      res.kvs = match readAt (C03.readRev R s.committed) recs K with
        | none => []
        | some (v, m) => [(K, v, m)] := by
  have hab : cmp K (K ++ [0]) = .lt := blt_iff.mp ((blt_succ_iff K K).mpr (by simp [ble]))
  obtain ⟨res, hres, hkvs⟩ := list_is_snapshot_range c hsplit s hstore hs hk K (K ++ [0]) hab R
  refine ⟨res, hres, ?_⟩
  rw [hkvs]
  refine Eq.trans (List.filter_congr ?_) (scan_point hs (C03.readRev R s.committed) K)
  intro e _
  -- K ≤ k < K ++ [0]  iff  k = K
  have h2 : blt e.1 (K ++ [0]) = ble e.1 K := by
    rw [Bool.eq_iff_iff]; exact blt_succ_iff e.1 K
  rw [h2, Bool.eq_iff_iff, Bool.and_eq_true, beq_iff_eq]
  constructor
  · rintro ⟨h1, h3⟩
    rw [ble_iff_lt_or_eq] at h1 h3
    rcases h1 with h1 | h1
    · rcases h3 with h3 | h3
      · exact absurd (cmp_lt_trans h1 h3) (by simp)
      · exact h3
    · exact h1.symm
  · intro he
    rw [he]
    simp [ble]

/-! ### bounds with ANY byte at or below the split byte (/repo 23c8b93) -/

/-- the keys a range read returns are keys of the store -/
theorem kvs_keys_alphabet {recs : List Rec} (hs : SortedRecs recs) (hk : ∀ r ∈ recs, Alphabet r.key ∧ r.rev < 2 ^ 64)
    (R : Nat) {kv : Bytes × Bytes × Nat} (h : kv ∈ scanRecs R recs) : Alphabet kv.1 := by
  obtain ⟨k, v, m⟩ := kv
  have h1 := (mem_scanRecs_iff hs R k v m).mp h
  rw [readAt_def] at h1
  cases hv : visible R recs k with
  | none => rw [hv] at h1; simp [readOne] at h1
  | some x =>
    obtain ⟨hx, hvis⟩ := visible_some_mem hv
    have := (vis_iff.mp hvis).1
    simp only
    rw [← this]
    exact (hk x hx).1

/-- START `P ++ c :: rest` (`c` at or below the split byte: `P ++ "\x01"`, `P ++ "#"`, `P ++ "\0\0"`, ...)
EXCLUDES `P`: every key of a range read that starts there is strictly greater than `P` (with the 146f0bb
version the read started with `P`: `C10.bound_146f0bb_defect`). -/
theorem list_from_low_bound_excludes (c : Cfg) (hsplit : c.splits = []) (s : BState) {recs : List Rec}
    (hstore : s.store = encodeStore recs) (hs : SortedRecs recs)
    (hk : ∀ r ∈ recs, Alphabet r.key ∧ r.rev < 2 ^ 64)
    (P rest b : Bytes) (x : Nat) (hx : x ≤ splitByte) (hab : cmp (P ++ x :: rest) b = .lt) (R n : Nat) :
    ∃ res, doList c s (P ++ x :: rest) b R n = .ok res ∧ ∀ kv ∈ res.kvs, blt P kv.1 = true := by
  obtain ⟨res, hres, _, hkvs, _⟩ := list_spec_bounds c hsplit s hstore hk (P ++ x :: rest) b hab R n
  refine ⟨res, hres, ?_⟩
  intro kv hkv
  have hmem : kv ∈ scanRecs (C03.readRev R s.committed)
      (recs.filter (fun r => ble (P ++ x :: rest) r.key && blt r.key b)) := by
    rw [hkvs] at hkv
    by_cases hn : n = 0
    · simpa [hn] using hkv
    · simp only [hn, if_false] at hkv
      exact List.mem_of_mem_take hkv
  rw [scan_filter_key hs _ (fun k => ble (P ++ x :: rest) k && blt k b), List.mem_filter] at hmem
  have hal := kvs_keys_alphabet hs hk _ hmem.1
  have h1 : ble (P ++ x :: rest) kv.1 = true := by
    have := hmem.2
    simp only [Bool.and_eq_true] at this
    exact this.1
  -- not (kv.1 < bound), i.e. not (kv.1 ≤ P)
  rw [← not_blt_iff_ble] at h1
  cases h2 : ble kv.1 P
  · cases h3 : blt P kv.1
    · rw [not_blt_iff_ble.mp h3] at h2; cases h2
    · rfl
  · rw [(C10.low_bound_is_after kv.1 P hal hx rest).mpr h2] at h1; cases h1

/-- END `K ++ c :: rest` (`c` at or below the split byte) INCLUDES `K`: a key `K ≥ a` over the alphabet that is
live at the read revision is in the range read that ends there (with the 146f0bb version it was missing:
`[K, K ++ "\x01")` was empty). -/
theorem list_to_low_bound_includes (c : Cfg) (hsplit : c.splits = []) (s : BState) {recs : List Rec}
    (hstore : s.store = encodeStore recs) (hs : SortedRecs recs)
    (hk : ∀ r ∈ recs, Alphabet r.key ∧ r.rev < 2 ^ 64)
    (a K rest : Bytes) (x : Nat) (hx : x ≤ splitByte) (hK : Alphabet K) (haK : ble a K = true)
    (R : Nat) (v : Bytes) (m : Nat) (hlive : readAt (C03.readRev R s.committed) recs K = some (v, m)) :
    ∃ res, doList c s a (K ++ x :: rest) R 0 = .ok res ∧ (K, v, m) ∈ res.kvs := by
  have hKb : blt K (K ++ x :: rest) = true := (C10.low_bound_is_after K K hK hx rest).mpr (by simp [ble])
  have hab : cmp a (K ++ x :: rest) = .lt := blt_iff.mp (blt_of_ble_of_blt haK hKb)
  obtain ⟨res, hres, hkvs⟩ := list_is_snapshot_range c hsplit s hstore hs hk a (K ++ x :: rest) hab R
  refine ⟨res, hres, ?_⟩
  rw [hkvs, List.mem_filter, mem_scanRecs_iff hs]
  refine ⟨hlive, ?_⟩
  simp [haK, hKb]

/-- TWO BOUNDS CUT BEHIND THE SAME KEY (`P ++ "\x01"`, `P ++ "\x02"`: encoded alike, `C10.bounds_ordered_strong`)
enclose nothing — and nothing is what lies between them: the range read is empty, as the reference's. -/
theorem list_between_low_bounds_empty (c : Cfg) (hsplit : c.splits = []) (s : BState) {recs : List Rec}
    (hstore : s.store = encodeStore recs) (hs : SortedRecs recs)
    (hk : ∀ r ∈ recs, Alphabet r.key ∧ r.rev < 2 ^ 64)
    (a b : Bytes) (hab : cmp a b = .lt) (henc : encodeBound a = encodeBound b) (R : Nat) :
    ∃ res, doList c s a b R 0 = .ok res ∧ res.kvs = [] ∧
      (scanRecs (C03.readRev R s.committed) recs).filter (fun e => ble a e.1 && blt e.1 b) = [] := by
  obtain ⟨res, hres, hkvs⟩ := list_is_snapshot_range c hsplit s hstore hs hk a b hab R
  have hempty : (scanRecs (C03.readRev R s.committed) recs).filter (fun e => ble a e.1 && blt e.1 b) = [] := by
    rw [List.filter_eq_nil_iff]
    intro e he
    have hal := kvs_keys_alphabet hs hk _ he
    have := C10.encodeBound_eq_no_key_between henc e.1 hal
    simpa [Bool.and_eq_true] using this
  exact ⟨res, hres, by rw [hkvs, hempty], hempty⟩

/-! ### pagination: the page after `last` continues from `last ++ [0]` -/

/-- in a list strictly sorted by key, what follows position `i` is what is greater than the key at `i` -/
theorem drop_eq_filter_gt : ∀ (l : List (Bytes × Bytes × Nat)), l.Pairwise (fun a b => cmp a.1 b.1 = .lt) →
    ∀ (i : Nat) (h : i < l.length), l.drop (i + 1) = l.filter (fun e => blt (l[i]).1 e.1)
  | [], _, i, h => by simp at h
  | x :: xs, hp, 0, _ => by
    rw [List.pairwise_cons] at hp
    have hx : blt x.1 x.1 = false := by simp [blt]
    simp only [List.drop_succ_cons, List.drop_zero, List.getElem_cons_zero, List.filter_cons, hx]
    symm
    apply List.filter_eq_self.mpr
    intro e he
    exact blt_iff.mpr (hp.1 e he)
  | x :: xs, hp, i + 1, h => by
    rw [List.pairwise_cons] at hp
    have hi : i < xs.length := by simpa using h
    have hlt : cmp x.1 (xs[i]).1 = .lt := hp.1 _ (List.getElem_mem hi)
    have hx : blt (xs[i]).1 x.1 = false := by
      rw [not_blt_iff_ble, ble_iff, hlt]; decide
    simp only [List.drop_succ_cons, List.getElem_cons_succ, List.filter_cons, hx]
    exact drop_eq_filter_gt xs hp.2 i hi

/-- PAGINATION: a page of `n` keys of `[a, b)` with more to come, continued from `lastKey ++ [0]`, gives
exactly the rest of the unpaginated list — nothing twice (before the fix: `lastKey` again), nothing
missing. By induction, the concatenation of the pages is the unpaginated list. -/
theorem next_page (c : Cfg) (hsplit : c.splits = []) (s : BState) {recs : List Rec}
    (hstore : s.store = encodeStore recs) (hs : SortedRecs recs)
    (hk : ∀ r ∈ recs, Alphabet r.key ∧ r.rev < 2 ^ 64)
    (a b : Bytes) (hab : cmp a b = .lt) (R n : Nat) :
    ∃ page all, doList c s a b R n = .ok page ∧ doList c s a b R 0 = .ok all ∧
      (page.more = true → ∃ last rest, page.kvs.getLast? = some last ∧
        doList c s (last.1 ++ [0]) b R 0 = .ok rest ∧ all.kvs = page.kvs ++ rest.kvs) := by
  obtain ⟨page, hpage, _, hpk, hpm⟩ := list_spec_bounds c hsplit s hstore hk a b hab R n
  obtain ⟨all, hall, hak⟩ := list_is_snapshot_range c hsplit s hstore hs hk a b hab R
  refine ⟨page, all, hpage, hall, ?_⟩
  intro hmore
  obtain ⟨hn, hlen⟩ := hpm.mp hmore
  -- the unpaginated list, as the filtered snapshot
  have hfull : scanRecs (C03.readRev R s.committed) (recs.filter (fun r => ble a r.key && blt r.key b)) = all.kvs := by
    rw [hak]; exact scan_filter_key hs _ (fun k => ble a k && blt k b)
  rw [hfull] at hpk hlen
  have hn0 : ¬ n = 0 := by omega
  simp only [hn0, if_false] at hpk
  generalize hR : C03.readRev R s.committed = R' at hak
  have hsorted : all.kvs.Pairwise (fun x y => cmp x.1 y.1 = .lt) := by
    rw [hak]; exact List.Pairwise.filter _ (scanRecs_sorted hs R')
  -- the last key of the page
  have hi : n - 1 < all.kvs.length := by omega
  have hlast : page.kvs.getLast? = some (all.kvs[n - 1]) := by
    rw [hpk, List.getLast?_eq_getElem?]
    simp only [List.length_take]
    have hm : min n all.kvs.length = n := by omega
    rw [hm, List.getElem?_take_of_lt (by omega), List.getElem?_eq_getElem hi]
  have hmemK : all.kvs[n - 1] ∈ all.kvs := List.getElem_mem hi
  have hnext : all.kvs[n] ∈ all.kvs := List.getElem_mem hlen
  generalize hK : all.kvs[n - 1] = last at hlast hmemK
  -- its key is a key of the store (over the alphabet), inside [a, b)
  have hKin : last ∈ (scanRecs R' recs).filter (fun e => ble a e.1 && blt e.1 b) := by rw [← hak]; exact hmemK
  rw [List.mem_filter] at hKin
  obtain ⟨k, v, m⟩ := last
  have hKa : Alphabet k := by
    have h1 := (mem_scanRecs_iff hs R' k v m).mp hKin.1
    rw [readAt_def] at h1
    cases hv : visible R' recs k with
    | none => rw [hv] at h1; simp [readOne] at h1
    | some x =>
      obtain ⟨hx, hvis⟩ := visible_some_mem hv
      have := (vis_iff.mp hvis).1
      rw [← this]
      exact (hk x hx).1
  have haK : ble a k = true := by
    have := hKin.2; simp only [Bool.and_eq_true] at this; exact this.1
  -- the continuation bound is below b: the next key lies between
  have hnextin : all.kvs[n] ∈ (scanRecs R' recs).filter (fun e => ble a e.1 && blt e.1 b) := by rw [← hak]; exact hnext
  have hKnext : cmp k (all.kvs[n]).1 = .lt := by
    have := (List.pairwise_iff_getElem.mp hsorted) (n - 1) n hi hlen (by omega)
    rw [hK] at this
    exact this
  have hsb : cmp (k ++ [0]) b = .lt := by
    have h1 : ble (k ++ [0]) (all.kvs[n]).1 = true := (ble_succ_iff _ _).mpr (blt_iff.mpr hKnext)
    have h2 : blt (all.kvs[n]).1 b = true := by
      have := (List.mem_filter.mp hnextin).2; simp only [Bool.and_eq_true] at this; exact this.2
    exact blt_iff.mp (blt_of_ble_of_blt h1 h2)
  obtain ⟨rest, hrest, hrk⟩ := list_is_snapshot_range c hsplit s hstore hs hk (k ++ [0]) b hsb R
  rw [hR] at hrk
  refine ⟨(k, v, m), rest, hlast, hrest, ?_⟩
  -- all = take n ++ drop n, and drop n = what is greater than the last key of the page
  have hdrop : all.kvs.drop n = all.kvs.filter (fun e => blt k e.1) := by
    have := drop_eq_filter_gt all.kvs hsorted (n - 1) hi
    rw [hK] at this
    have hn1 : n - 1 + 1 = n := by omega
    rw [hn1] at this
    exact this
  rw [hpk, hrk]
  conv => lhs; rw [← List.take_append_drop n all.kvs]
  congr 1
  rw [hdrop, hak, List.filter_filter]
  apply List.filter_congr
  intro e _
  have h1 : ble (k ++ [0]) e.1 = blt k e.1 := by rw [Bool.eq_iff_iff]; exact ble_succ_iff e.1 k
  rw [h1]
  cases hke : blt k e.1
  · simp
  · have : ble a e.1 = true := by
      have := blt_of_ble_of_blt haK hke
      rw [blt_iff] at this
      rw [ble_iff, this]; decide
    simp [this]

/-! Non-vacuity: a sorted store with prefix-related keys; the page after "/a" starts at "/a/b". -/
example : SortedRecs C03.exRecs ∧ (∀ r ∈ C03.exRecs, Alphabet r.key ∧ r.rev < 2 ^ 64) ∧
    cmp ([47, 97] ++ [0]) [48] = .lt := by
  refine ⟨by decide, by decide, by decide⟩
-- bounds with other low bytes: a proper interval, a cut bound, two bounds encoded alike
example : cmp ([47, 97] ++ 1 :: []) [48] = .lt ∧ (1 : Nat) ≤ splitByte ∧ Alphabet [47, 97] ∧
    ble [47] [47, 97] = true := by decide
-- list_to_low_bound_includes / list_to_succ_includes: a key that is live at the read revision
example : readAt 6 C03.exRecs [47, 97, 47, 98] = some ([2], 5) := by decide
example : cmp ([47, 97] ++ [1]) ([47, 97] ++ [2]) = .lt ∧
    encodeBound ([47, 97] ++ [1]) = encodeBound ([47, 97] ++ [2]) := by decide
example : (scanRecs 6 C03.exRecs).filter (fun e => ble ([47, 97] ++ [1]) e.1 && blt e.1 [48]) =
    [([47, 97, 47, 98], [2], 5)] := by decide
example : (scanRecs 6 C03.exRecs).filter (fun e => ble ([47, 97] ++ [0]) e.1 && blt e.1 [48]) =
    [([47, 97, 47, 98], [2], 5)] := by decide

end KB.C03Bounds
