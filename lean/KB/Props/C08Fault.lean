/-
  C08Fault — the compaction floor only rises also when the scanner cannot read the compaction record.

  Model: KB.CompactFault.doCompactRF (Backend.Compact → setCompactRecord → scanner.Compact per border pair, the
  read of the record in `checkCompactRace(compact = true)` failing with a transient engine error in pair `k`).
  * `floor_recfault` / `floor_monotone_recfault` / `floor_ge_accepted_recfault`: whatever the store, the request's
    revision (older ones included), the failing pair, the delete-failure mask and the engine: the floor afterwards is
    max(floor before, accepted revision) — exactly what it is without the fault (KB.C08.floor_monotone).
  * `recfault_old_lowers_floor`: the code before the fix (a failed read fell through to the unconditional Put) is
    refuted by a decided witness — compact(1009), then compact(1002) with the failed read: floor 1002 — kept as the
    witness of the repaired defect; `recfault_old_reopens_read`: a List at 1005, refused before, is answered again.
-/
import KB.CompactFault
import KB.Lemmas.FloorFault
namespace KB.C08Fault
open KB Generated

/-- The floor after a compaction whose scanner-side read of the record failed in pair `k`. -/
theorem floor_recfault (c : Cfg) (s : BState) (rev : Nat) (mask : Nat → DelOutcome) (k : Nat)
    (hrev : clampRev s rev < 2 ^ 64) :
    floorOf c (doCompactRF c s rev mask k).2.store = max (floorOf c s.store) (clampRev s rev) :=
  doCompactRF_floor c s rev mask k hrev

/-- No compaction request — in particular an older one whose read of the record fails — lowers the floor. -/
theorem floor_monotone_recfault (c : Cfg) (s : BState) (rev : Nat) (mask : Nat → DelOutcome) (k : Nat)
    (hc : s.committed < 2 ^ 64) :
    floorOf c s.store ≤ floorOf c (doCompactRF c s rev mask k).2.store := by
  have hrev : clampRev s rev < 2 ^ 64 := Nat.lt_of_le_of_lt (clampRev_le s rev) hc
  rw [floor_recfault c s rev mask k hrev]
  exact Nat.le_max_left _ _

/-- Once such a compaction at R has been accepted (answered with header R), the floor is at least R. -/
theorem floor_ge_accepted_recfault (c : Cfg) (s : BState) (rev : Nat) (mask : Nat → DelOutcome) (k R : Nat)
    (h : (doCompactRF c s rev mask k).1 = .ok R) (hR : R < 2 ^ 64) :
    R ≤ floorOf c (doCompactRF c s rev mask k).2.store := by
  have hR' := doCompactRF_fst c s rev mask k R h
  subst hR'
  rw [floor_recfault c s rev mask k hR]
  exact Nat.le_max_right _ _

/-- The failed read only costs the compaction of that pair: with a single border pair (no skipped prefixes) the
store afterwards is the store after `setCompactRecord` — nothing is deleted, nothing else is written. -/
theorem recfault_single_pair_store (c : Cfg) (s : BState) (rev : Nat) (mask : Nat → DelOutcome)
    (h1 : (pairs (compactBorders c)).length = 1) :
    (doCompactRF c s rev mask 0).2.store = setRecord c s.store (clampRev s rev) :=
  doCompactRF_single c s rev mask h1

def ex0 : BState := { ring := Ring.new 4, dealt := 1010, committed := 1010 }
def exCfg : Cfg := { pfx := [47, 114] }

/-- Non-vacuity and the repaired behaviour on the witness schedule: the floor stays at 1009. -/
theorem recfault_keeps_floor_witness :
    floorOf exCfg (doCompactRF exCfg (doCompact exCfg ex0 1009 (fun _ => .ok)).2 1002 (fun _ => .ok) 0).2.store = 1009 := by
  decide

/-- THE REPAIRED DEFECT: before the fix the same schedule lowered the floor to 1002. -/
theorem recfault_old_lowers_floor :
    floorOf exCfg (doCompactRF exCfg (doCompact exCfg ex0 1009 (fun _ => .ok)).2 1002 (fun _ => .ok) 0 true).2.store = 1002 := by
  decide

/-- … and a read at 1005, below the accepted floor 1009, was no longer refused. -/
theorem recfault_old_reopens_read :
    belowFloor exCfg (doCompact exCfg ex0 1009 (fun _ => .ok)).2.store 1005 = true ∧
    belowFloor exCfg (doCompactRF exCfg (doCompact exCfg ex0 1009 (fun _ => .ok)).2 1002 (fun _ => .ok) 0 true).2.store 1005 = false := by
  decide

end KB.C08Fault
