/-
  C07Race — compaction racing concurrent writers: C07's quantifier "all interleavings with concurrent
  writes to the keys being compacted".

  Model. The compactor computes its delete actions from a SNAPSHOT `recs0` of the store (all three engines
  iterate over a snapshot: tikv's iterator reads at the fixed timestamp `w.tso`, scanner.go:402; memkv's
  `iter.init` copies the range under the store mutex; Badger's iterator lives in a read transaction) and
  executes them one call at a
  time (`compactKey` = unconditional `Del`, `compactCurrent` = compare-and-delete `DelCurrent`,
  scanner.go:545-571) against the LIVE store. Between any two calls writers commit atomic batches of the
  shapes of creator/naive.go (`create`, `update`) and txn.go (update, delete, retry), each at a freshly
  dealt revision, hence above the compaction revision `R` (compact.go:33 clamps `R` to the committed
  revision). `Step.compDel` is one `KB.runDelete`; `Step.write ops` is one `KB.commit` (a failed commit
  changes nothing).

  Results (all for every interleaving, EVERY failure mask — any mix of ok / error / failed-condition error
  on plain deletes and compare-and-deletes, hence every crash point —, every engine quirk set):
    * `compDel_invisible`     one more compactor call changes no read at any R' ≥ R and no key's logical
                              index (absent / live at rev): deleted keys do not reappear, live keys do not
                              vanish, every key stays writable with normal semantics;
    * `race_equals_restored`  in the final state of any run, reads at R' ≥ R equal the reads of the store
                              with every removed snapshot version put back;
    * `race_equals_keep`      ... and equal the reads of the SAME run executed by a compactor that never
                              deletes a version (it only collects flagged index records); in that run every
                              writer commit has the same outcome and every key the same logical index;
    * `Inv`, `inv_init`, `writer_batch_preserves_wf`, `compDel_preserves_wf`: the invariant, explicitly.

  Hypotheses beyond `compact_preserves_reads`: `IdxWF recs0` — no index record of the snapshot has the
  deletion MARKER ("tombstone") as its value. The backend only ever writes `be8 rev` / `be8 rev ++ [0]`
  there; without it the logical-index half is false (`idx_marker_value_breaks`), because the worker's
  "delete tombstone data" branch (scanner.go:478) does not look at the revision and would `Del` such an
  index record unconditionally.

  FINDING, since repaired in the code (`recreate_after_index_gc_conflicts` is the batch-level fact):
  creator/naive.go `CreateWithTTL` first commits `PutIfNotExist(index)`; on a conflict it takes the old
  index value and, if that carries the deletion flag, commits `CAS(index, new, old)`. If the compactor's
  `DelCurrent` removes the flagged index record BETWEEN those two commits, the CAS is refused although the
  key is absent. Before the fix ("fix: a create over a deleted key whose revision record is compacted
  mid-request creates the key") the create was then answered `Succeeded: false` — an unjustified failed
  condition (property C01, last clause; replayed on the real code by the gated harness). Now the creator
  re-reads the index after the refused CAS and, finding it gone, commits the plain create again
  (`Pc.createRecheck` in KB.Sys). Nothing is written by the refused commit and the store stays consistent.
-/
import KB.Lemmas.CompactRace
import KB.Props.C07
namespace KB.C07Race
open KB KB.Compact KB.Race KB.C07 Generated

/-! ### the race LTS -/

inductive Step where
  /-- the compactor performs its next action (one `runDelete`: a delete call, or a no-op for `emit`) -/
  | compDel
  /-- a writer's batch commit (atomic; a failed commit changes nothing) -/
  | write (ops : List BOp)
  deriving Repr, DecidableEq

structure RState where
  /-- live store + `lastFailed` + call counter + ghost trace of the delete calls -/
  comp : CompState
  /-- the compactor's remaining actions, computed from the snapshot -/
  pending : List Act
  deriving Repr

def step (q : Quirks) (mask : Nat → DelOutcome) (s : RState) : Step → RState
  | .compDel =>
    match s.pending with
    | [] => s
    | a :: rest => { comp := runDelete mask s.comp a, pending := rest }
  | .write ops =>
    match commit q s.comp.store ops with
    | .ok st' => { s with comp := { s.comp with store := st' } }
    | .error _ => s

theorem step_compDel_nil {q : Quirks} {mask : Nat → DelOutcome} {s : RState} (h : s.pending = []) :
    step q mask s .compDel = s := by simp [step, h]

theorem step_compDel_cons {q : Quirks} {mask : Nat → DelOutcome} {s : RState} {a : Act} {rest : List Act}
    (h : s.pending = a :: rest) :
    step q mask s .compDel = { comp := runDelete mask s.comp a, pending := rest } := by simp [step, h]

theorem step_write_ok {q : Quirks} {mask : Nat → DelOutcome} {s : RState} {ops : List BOp} {st' : Store}
    (h : commit q s.comp.store ops = .ok st') :
    step q mask s (.write ops) = { s with comp := { s.comp with store := st' } } := by simp [step, h]

theorem step_write_error {q : Quirks} {mask : Nat → DelOutcome} {s : RState} {ops : List BOp} {e : CommitErr}
    (h : commit q s.comp.store ops = .error e) : step q mask s (.write ops) = s := by simp [step, h]

def run (q : Quirks) (mask : Nat → DelOutcome) (s : RState) (steps : List Step) : RState :=
  steps.foldl (step q mask) s

/-- the compactor has taken its snapshot `recs0` at revision `R` and made no call yet -/
def init (R : Nat) (recs0 : List Rec) : RState :=
  { comp := { store := encodeStore recs0 }, pending := workerActs { R := R, compact := true } recs0 }

/-! ### disciplined writers -/

/-- the revisions of all records of raw key `k` in the store: every version's revision and the revision
carried by the index record's value -/
def revsOf (st : Store) (k : Bytes) : List Nat :=
  st.filterMap (fun kv =>
    match decode kv.1 with
    | .ok k' n => if k' = k then (if n = 0 then (parseRevision kv.2).map (·.1) else some n) else none
    | _ => none)

/-- `rev` is a freshly dealt revision for a write to `k`: above the compaction revision and above every
revision of `k` in the store (what `tso.Deal` gives, backend.go) -/
def Fresh (R : Nat) (st : Store) (k : Bytes) (rev : Nat) : Prop :=
  Alphabet k ∧ k ≠ [] ∧ R < rev ∧ rev < 2 ^ 64 ∧ ∀ n ∈ revsOf st k, n < rev

instance (R : Nat) (st : Store) (k : Bytes) (rev : Nat) : Decidable (Fresh R st k rev) := by
  unfold Fresh; infer_instance

/-- The batches writers commit (`KB.Backend.creatorCreate`, `doUpdate`, `doDelete`, `doRetry`). -/
inductive WriterBatch (R : Nat) (st : Store) : List BOp → Prop
  /-- naive.go `create` -/
  | create (k v : Bytes) (rev : Nat) (h : Fresh R st k rev) :
      WriterBatch R st [.pine (idxKey k) (be8 rev), .put (encode k rev) v]
  /-- naive.go `update` after a conflict on a deleted key; `old` = the flagged index value it read -/
  | recreate (k v old : Bytes) (rev : Nat) (h : Fresh R st k rev) :
      WriterBatch R st [.cas (idxKey k) (be8 rev) old, .put (encode k rev) v]
  /-- txn.go update -/
  | update (k v : Bytes) (rev exp : Nat) (h : Fresh R st k rev) :
      WriterBatch R st [.cas (idxKey k) (be8 rev) (be8 exp), .put (encode k rev) v]
  /-- txn.go delete -/
  | delete (k : Bytes) (rev modRev : Nat) (h : Fresh R st k rev) :
      WriterBatch R st [.cas (idxKey k) (be8 rev ++ [0]) (be8 modRev), .put (encode k rev) tombstone]
  /-- retry.go: rewrite of an uncertain write at a new revision (`flag` = `[]` or `[0]`) -/
  | retry (k v flag : Bytes) (rev old : Nat) (h : Fresh R st k rev) :
      WriterBatch R st [.cas (idxKey k) (be8 rev ++ flag) (be8 old ++ flag), .put (encode k rev) v]

/-- every `write` step of the run is a `WriterBatch` for the store at the moment it is taken -/
def Disciplined (q : Quirks) (mask : Nat → DelOutcome) (R : Nat) : RState → List Step → Prop
  | _, [] => True
  | s, .compDel :: rest => Disciplined q mask R (step q mask s .compDel) rest
  | s, .write ops :: rest =>
    WriterBatch R s.comp.store ops ∧ Disciplined q mask R (step q mask s (.write ops)) rest

/-- The proofs use less than `WriterBatch`: only the shape and `R < rev < 2^64` over the alphabet
(`KB.Race.RaceBatch`); freshness w.r.t. the key's own records and `k ≠ []` are not needed. -/
theorem WriterBatch.raceBatch {R : Nat} {st : Store} {ops : List BOp} (h : WriterBatch R st ops) :
    RaceBatch R ops := by
  cases h with
  | create k v rev h => exact ⟨k, rev, v, _, h.1, h.2.2.1, h.2.2.2.1, .inl rfl⟩
  | recreate k v old rev h => exact ⟨k, rev, v, _, h.1, h.2.2.1, h.2.2.2.1, .inr ⟨_, rfl⟩⟩
  | update k v rev exp h => exact ⟨k, rev, v, _, h.1, h.2.2.1, h.2.2.2.1, .inr ⟨_, rfl⟩⟩
  | delete k rev modRev h => exact ⟨k, rev, _, _, h.1, h.2.2.1, h.2.2.2.1, .inr ⟨_, rfl⟩⟩
  | retry k v flag rev old h => exact ⟨k, rev, v, _, h.1, h.2.2.1, h.2.2.2.1, .inr ⟨_, rfl⟩⟩

/-! ### the invariant -/

/-- The invariant of reachable states:
* the live store is a sorted association list (`Store.Sorted`) whose keys are all `encode k n` with `k`
  over the alphabet and `n < 2^64` (`GoodKeys`: it decodes without panic to a sorted record list);
* every version record `≤ R` in it is a record of the snapshot with its snapshot value
  (`OldFromSnapshot`: writers add only versions `> R`);
* the compactor is in step with its *shadow* (`Tracks`): for the prefix `done` of the pass already
  executed (`workerActs = done ++ pending`), `lastFailed` and the call counter equal those of `done`
  executed against the quiescent snapshot, and a snapshot version is missing from the live store iff it is
  missing from the shadow store. -/
def Inv (R : Nat) (recs0 : List Rec) (mask : Nat → DelOutcome) (s : RState) : Prop :=
  Store.Sorted s.comp.store ∧ GoodKeys s.comp.store ∧ OldFromSnapshot R recs0 s.comp.store ∧
    Tracks R recs0 mask s.comp s.pending

theorem run_append (q : Quirks) (mask : Nat → DelOutcome) (s : RState) (l1 l2 : List Step) :
    run q mask s (l1 ++ l2) = run q mask (run q mask s l1) l2 := by
  simp [run, List.foldl_append]

theorem disciplined_append {q : Quirks} {mask : Nat → DelOutcome} {R : Nat} {s : RState} {l1 l2 : List Step}
    (h1 : Disciplined q mask R s l1) (h2 : Disciplined q mask R (run q mask s l1) l2) :
    Disciplined q mask R s (l1 ++ l2) := by
  induction l1 generalizing s with
  | nil => exact h2
  | cons st rest ih =>
    cases st with
    | compDel => exact ih h1 h2
    | write ops => exact ⟨h1.1, ih h1.2 h2⟩

theorem inv_init {recs0 : List Rec} (hs : SortedRecs recs0)
    (hk : ∀ r ∈ recs0, Alphabet r.key ∧ r.rev < 2 ^ 64) (R : Nat) (mask : Nat → DelOutcome) :
    Inv R recs0 mask (init R recs0) :=
  ⟨encodeStore_sorted hs hk, goodKeys_init hk, oldFromSnapshot_init hk R, tracks_init R recs0 mask⟩

section main
variable {recs0 : List Rec} (hs : SortedRecs recs0) (hw : WellKeyed recs0)
  (hk : ∀ r ∈ recs0, Alphabet r.key ∧ r.rev < 2 ^ 64)

include hs hw hk

/-- **3a.** A writer batch (committed or refused) preserves the invariant. -/
theorem writer_batch_preserves_wf {R : Nat} {mask : Nat → DelOutcome} (q : Quirks) {s : RState}
    {ops : List BOp} (hI : Inv R recs0 mask s) (hb : WriterBatch R s.comp.store ops) :
    Inv R recs0 mask (step q mask s (.write ops)) := by
  cases hc : commit q s.comp.store ops with
  | error e => rw [step_write_error hc]; exact hI
  | ok st' =>
    rw [step_write_ok hc]
    exact write_preserves hs hw hk hb.raceBatch hc hI.1 hI.2.1 hI.2.2.1 hI.2.2.2

/-- **3b.** A compactor call preserves the invariant. -/
theorem compDel_preserves_wf (hidx : IdxWF recs0) {R : Nat} {mask : Nat → DelOutcome} (q : Quirks)
    {s : RState} (hI : Inv R recs0 mask s) : Inv R recs0 mask (step q mask s .compDel) := by
  cases hp : s.pending with
  | nil => rw [step_compDel_nil hp]; exact hI
  | cons a rest =>
    have htr := hI.2.2.2
    rw [hp] at htr
    rw [step_compDel_cons hp]
    exact compDel_preserves hs hw hk hidx hI.1 hI.2.1 hI.2.2.1 htr

theorem inv_run (hidx : IdxWF recs0) {R : Nat} {mask : Nat → DelOutcome} {q : Quirks} {s : RState}
    (steps : List Step) (hI : Inv R recs0 mask s) (hd : Disciplined q mask R s steps) :
    Inv R recs0 mask (run q mask s steps) := by
  induction steps generalizing s with
  | nil => exact hI
  | cons st rest ih =>
    cases st with
    | compDel => exact ih (compDel_preserves_wf hs hw hk hidx q hI) hd
    | write ops => exact ih (writer_batch_preserves_wf hs hw hk q hI hd.1) hd.2

/-- every state reachable by a disciplined run satisfies the invariant -/
theorem inv_reachable (hidx : IdxWF recs0) (R : Nat) (q : Quirks) (mask : Nat → DelOutcome)
    (steps : List Step) (hd : Disciplined q mask R (init R recs0) steps) :
    Inv R recs0 mask (run q mask (init R recs0) steps) :=
  inv_run hs hw hk hidx steps (inv_init hs hk R mask) hd

/-- the live store of a reachable state always decodes (the worker's `Decode` never panics on it), to a
sorted, well-keyed record list -/
theorem reachable_decodes (hidx : IdxWF recs0) (R : Nat) (q : Quirks) (mask : Nat → DelOutcome)
    (steps : List Step) (hd : Disciplined q mask R (init R recs0) steps) :
    let st := (run q mask (init R recs0) steps).comp.store
    decodeRecs st = some (storeRecs st) ∧ SortedRecs (storeRecs st) ∧ WellKeyed (storeRecs st) := by
  have hI := inv_reachable hs hw hk hidx R q mask steps hd
  refine ⟨?_, storeRecs_sorted hI.1 hI.2.1, storeRecs_wellKeyed hI.1 hI.2.1⟩
  rw [storeRecs_eq hI.2.1, decodeRecs_good hI.2.1]

/-- **2. Whole run.** In the final state of any disciplined run — any interleaving of compactor calls and
writer batches, any failure mask — every read at every
revision `R' ≥ R` equals the read of the store in which every version record of the snapshot that is
missing (only the compactor removes versions; writers only add versions `> R`) is put back. -/
theorem race_equals_restored (hne : ∀ r ∈ recs0, r.key ≠ []) (hidx : IdxWF recs0)
    (R : Nat) (q : Quirks) (mask : Nat → DelOutcome)
    (steps : List Step) (hd : Disciplined q mask R (init R recs0) steps)
    (R' : Nat) (hR : R ≤ R') (k : Bytes) :
    readS R' (run q mask (init R recs0) steps).comp.store k =
      readS R' (restored recs0 (run q mask (init R recs0) steps).comp.store) k := by
  have hI := inv_reachable hs hw hk hidx R q mask steps hd
  exact read_restored hs hw hk hne hI.1 hI.2.1 hI.2.2.1 hI.2.2.2 R' hR k

/-- **1. One compactor call is invisible.** In every state reachable by a disciplined run, one more
compactor call leaves every read at every revision `R' ≥ R` of every key unchanged, and leaves the logical
index of every key (absent-or-flagged / live at `rev` — what every writer's conditional commit tests)
unchanged. -/
theorem compDel_invisible (hne : ∀ r ∈ recs0, r.key ≠ []) (hidx : IdxWF recs0)
    (R : Nat) (q : Quirks) (mask : Nat → DelOutcome)
    (steps : List Step) (hd : Disciplined q mask R (init R recs0) steps) :
    let s := run q mask (init R recs0) steps
    let s' := step q mask s .compDel
    (∀ R', R ≤ R' → ∀ k, readS R' s'.comp.store k = readS R' s.comp.store k) ∧
    (∀ k, logicalIdx s'.comp.store k = logicalIdx s.comp.store k) := by
  intro s s'
  have hI : Inv R recs0 mask s := inv_reachable hs hw hk hidx R q mask steps hd
  have hI' : Inv R recs0 mask s' := compDel_preserves_wf hs hw hk hidx q hI
  constructor
  · intro R' hR k
    rw [read_restored hs hw hk hne hI'.1 hI'.2.1 hI'.2.2.1 hI'.2.2.2 R' hR k,
      read_restored hs hw hk hne hI.1 hI.2.1 hI.2.2.1 hI.2.2.2 R' hR k]
    show readS R' (restored recs0 (step q mask s .compDel).comp.store) k = _
    cases hp : s.pending with
    | nil => rw [step_compDel_nil hp]
    | cons a rest =>
      have htr := hI.2.2.2
      rw [hp] at htr
      rw [step_compDel_cons hp]
      have hsorted' : Store.Sorted (runDelete mask s.comp a).store :=
        (compDel_preserves hs hw hk hidx hI.1 hI.2.1 hI.2.2.1 htr).1
      have hgood' : GoodKeys (runDelete mask s.comp a).store :=
        (compDel_preserves hs hw hk hidx hI.1 hI.2.1 hI.2.2.1 htr).2.1
      exact readAt_congr
        (storeRecs_sorted (restored_sorted recs0 hsorted') (restored_goodKeys hw hk hgood'))
        (storeRecs_sorted (restored_sorted recs0 hI.1) (restored_goodKeys hw hk hI.2.1))
        (fun x hx => restored_compDel hs hw hk hidx hI.1 hI.2.1 hI.2.2.1 htr x hx) R' k
  · intro k
    show logicalIdx (step q mask s .compDel).comp.store k = _
    cases hp : s.pending with
    | nil => rw [step_compDel_nil hp]
    | cons a rest =>
      rw [step_compDel_cons hp]
      obtain ⟨done, hacts, _⟩ := hI.2.2.2
      have hmem : a ∈ workerActs (ccfg R) recs0 := by rw [hacts, hp]; simp
      exact logicalIdx_runDelete mask hI.1 (workerActs_shape (R := R) hw hk hidx hmem) k

end main

/-! ### the same schedule with a compactor that keeps all history -/

/-- the error of a refused commit (`none` = committed) -/
def commitErrOf (q : Quirks) (s : Store) (ops : List BOp) : Option CommitErr :=
  match commit q s ops with
  | .ok _ => none
  | .error e => some e


/-- The history-keeping compactor: an unconditional delete (always of a version record) makes its call —
same outcome from the mask, same skip rule, same trace — but removes nothing; a compare-and-delete (always
of an index record) acts as in `runDelete`. -/
def runDeleteKeep (mask : Nat → DelOutcome) (st : CompState) : Act → CompState
  | .del ik raw => { runDelete mask st (.del ik raw) with store := st.store }
  | a => runDelete mask st a

def stepKeep (q : Quirks) (mask : Nat → DelOutcome) (s : RState) : Step → RState
  | .compDel =>
    match s.pending with
    | [] => s
    | a :: rest => { comp := runDeleteKeep mask s.comp a, pending := rest }
  | .write ops => step q mask s (.write ops)

def runKeep (q : Quirks) (mask : Nat → DelOutcome) (s : RState) (steps : List Step) : RState :=
  steps.foldl (stepKeep q mask) s

/-- `u` is the history-keeping twin of `s`: same remaining actions, same control state and trace, and its
store is exactly the live store of `s` with the removed snapshot versions put back -/
def KeepSim (recs0 : List Rec) (s u : RState) : Prop :=
  u.pending = s.pending ∧ u.comp.lastFailed = s.comp.lastFailed ∧ u.comp.calls = s.comp.calls ∧
    u.comp.trace = s.comp.trace ∧ u.comp.store = restored recs0 s.comp.store

section keep
variable {recs0 : List Rec} (hs : SortedRecs recs0) (hw : WellKeyed recs0)
  (hk : ∀ r ∈ recs0, Alphabet r.key ∧ r.rev < 2 ^ 64)
include hs hw hk

theorem restored_idx {s : Store} (hsorted : s.Sorted) (k : Bytes) :
    (restored recs0 s).get (idxKey k) = s.get (idxKey k) :=
  get_restored_other (fun a ha b hb e => by rw [recs_ik_uniq hs hw hk a ha b hb e]) hsorted
    (fun _ hr h0 => ik_version_ne_idx hw hk hr h0 k)

theorem keepSim_step (hidx : IdxWF recs0) {R : Nat} {mask : Nat → DelOutcome} {q : Quirks} {s u : RState}
    (hI : Inv R recs0 mask s) (hsim : KeepSim recs0 s u) (st : Step)
    (hd : ∀ ops, st = .write ops → WriterBatch R s.comp.store ops) :
    KeepSim recs0 (step q mask s st) (stepKeep q mask u st) := by
  have huniq : ∀ a ∈ recs0, ∀ b ∈ recs0, a.ik = b.ik → a.val = b.val :=
    fun a ha b hb e => by rw [recs_ik_uniq hs hw hk a ha b hb e]
  obtain ⟨hp, hlf, hc, ht, hst⟩ := hsim
  obtain ⟨hsorted, hgood, hold, done, hacts, _⟩ := hI
  cases st with
  | compDel =>
    cases hps : s.pending with
    | nil =>
      rw [step_compDel_nil hps]
      have : stepKeep q mask u .compDel = u := by simp [stepKeep, hp, hps]
      rw [this]; exact ⟨hp, hlf, hc, ht, hst⟩
    | cons a rest =>
      rw [step_compDel_cons hps]
      have : stepKeep q mask u .compDel = { comp := runDeleteKeep mask u.comp a, pending := rest } := by
        simp [stepKeep, hp, hps]
      rw [this]
      have hmem : a ∈ workerActs (ccfg R) recs0 := by rw [hacts, hps]; simp
      have hshape := workerActs_shape (R := R) hw hk hidx hmem
      cases a with
      | emit _ _ _ => exact ⟨rfl, hlf, hc, ht, hst⟩
      | panic => exact ⟨rfl, hlf, hc, ht, hst⟩
      | expire _ _ _ _ => exact ⟨rfl, hlf, hc, ht, hst⟩
      | del ik raw =>
        obtain ⟨c1, c2, c3⟩ := runDelete_ctrl mask u.comp s.comp (.del ik raw) hlf hc ht
        refine ⟨rfl, c1, c2, c3, ?_⟩
        show u.comp.store = restored recs0 (runDelete mask s.comp (.del ik raw)).store
        obtain ⟨k', n, e1, h0, hle, hn⟩ := hshape
        rcases runDelete_store mask s.comp (.del ik raw) with e | ⟨ik', htg, e⟩
        · rw [e]; exact hst
        · simp only [actTarget, Option.some.injEq] at htg
          subst htg
          rw [e, e1, restored_erase_version huniq hw hsorted hold h0 hle hn]; exact hst
      | delcur ik v raw =>
        obtain ⟨c1, c2, c3⟩ := runDelete_ctrl mask u.comp s.comp (.delcur ik v raw) hlf hc ht
        refine ⟨rfl, c1, c2, c3, ?_⟩
        show (runDelete mask u.comp (.delcur ik v raw)).store =
          restored recs0 (runDelete mask s.comp (.delcur ik v raw)).store
        obtain ⟨_, k', e1⟩ := hshape
        have hno : ∀ r ∈ recs0, 0 < r.rev → r.ik ≠ ik :=
          fun _ hr h0 => e1 ▸ ik_version_ne_idx hw hk hr h0 k'
        have hg : u.comp.store.get ik = s.comp.store.get ik := by
          rw [hst]; exact get_restored_other huniq hsorted hno
        rcases runDelete_delcur_store mask u.comp s.comp ik v raw hlf hc hg with ⟨e2, e3⟩ | ⟨e2, e3⟩
        · rw [e2, e3]; exact hst
        · rw [e2, e3, hst, restored_erase_other huniq hsorted hno]
  | write ops =>
    have hb := (hd ops rfl).raceBatch
    have hidxeq : ∀ k, u.comp.store.get (idxKey k) = s.comp.store.get (idxKey k) := by
      intro k; rw [hst]; exact restored_idx hs hw hk hsorted k
    show KeepSim recs0 (step q mask s (.write ops)) (step q mask u (.write ops))
    rcases commit_sim (q := q) hb hidxeq with ⟨a, va, b, vb, e1, e2⟩ | ⟨e, e1, e2⟩
    · rw [step_write_ok e1, step_write_ok e2]
      refine ⟨hp, hlf, hc, ht, ?_⟩
      show (u.comp.store.put a va).put b vb = restored recs0 ((s.comp.store.put a va).put b vb)
      rw [restored_put_put huniq hsorted, hst]
    · rw [step_write_error e1, step_write_error e2]
      exact ⟨hp, hlf, hc, ht, hst⟩

theorem keepSim_run (hidx : IdxWF recs0) {R : Nat} {mask : Nat → DelOutcome} {q : Quirks} {s u : RState}
    (steps : List Step) (hI : Inv R recs0 mask s) (hsim : KeepSim recs0 s u)
    (hd : Disciplined q mask R s steps) :
    KeepSim recs0 (run q mask s steps) (runKeep q mask u steps) := by
  induction steps generalizing s u with
  | nil => exact hsim
  | cons st rest ih =>
    cases st with
    | compDel =>
      exact ih (compDel_preserves_wf hs hw hk hidx q hI)
        (keepSim_step hs hw hk hidx hI hsim .compDel (fun _ h => by cases h)) hd
    | write ops =>
      exact ih (writer_batch_preserves_wf hs hw hk q hI hd.1)
        (keepSim_step hs hw hk hidx hI hsim (.write ops) (fun _ h => by cases h; exact hd.1)) hd.2

/-- nothing is missing from the snapshot store, so restoring it changes nothing -/
theorem restored_init : restored recs0 (encodeStore recs0) = encodeStore recs0 := by
  have key : ∀ (l : List Rec) (s : Store), (∀ r ∈ l, 0 < r.rev → s.get r.ik ≠ none) → restored l s = s := by
    intro l
    induction l with
    | nil => intro s _; rfl
    | cons r rs ih =>
      intro s h
      have : restoreOne s r = s := by
        unfold restoreOne
        rw [if_neg]
        exact fun hc => h r (List.mem_cons_self ..) hc.1 hc.2
      show restored rs (restoreOne s r) = s
      rw [this]
      exact ih s (fun x hx => h x (List.mem_cons_of_mem _ hx))
  apply key
  intro r hr _
  rw [hw r hr, encodeStore_get hs hk hr]
  simp

/-- **2′. Whole run, against the history-keeping compactor.** Run the SAME schedule (same writer batches,
same compactor calls, same mask) with a compactor that never removes a version. Then, whatever the
interleaving:
* the store of that run is exactly `restored` of the racing run's store;
* every read at `R' ≥ R` is the same in both runs;
* every key has the same logical index in both, and any further writer batch has the same outcome (commits
  or is refused with the same error) in both — so the writers cannot tell the runs apart, and by induction
  over prefixes every commit of the schedule had the same outcome in both;
* the compactor made the same calls (trace) in both;
* in the history-keeping run every snapshot version `≤ R` is still there: it is the uncompacted history. -/
theorem race_equals_keep (hne : ∀ r ∈ recs0, r.key ≠ []) (hidx : IdxWF recs0)
    (R : Nat) (q : Quirks) (mask : Nat → DelOutcome)
    (steps : List Step) (hd : Disciplined q mask R (init R recs0) steps) :
    let s := run q mask (init R recs0) steps
    let u := runKeep q mask (init R recs0) steps
    u.comp.store = restored recs0 s.comp.store ∧
    (∀ R', R ≤ R' → ∀ k, readS R' s.comp.store k = readS R' u.comp.store k) ∧
    (∀ k, logicalIdx s.comp.store k = logicalIdx u.comp.store k) ∧
    (∀ ops, WriterBatch R s.comp.store ops →
      commitErrOf q s.comp.store ops = commitErrOf q u.comp.store ops) ∧
    u.comp.trace = s.comp.trace ∧ u.pending = s.pending ∧
    (∀ r ∈ recs0, 0 < r.rev → r.rev ≤ R → u.comp.store.get r.ik = some r.val) := by
  intro s u
  have hI : Inv R recs0 mask s := inv_reachable hs hw hk hidx R q mask steps hd
  have hsim0 : KeepSim recs0 (init R recs0) (init R recs0) :=
    ⟨rfl, rfl, rfl, rfl, (restored_init hs hw hk).symm⟩
  obtain ⟨hp, _, _, ht, hst⟩ : KeepSim recs0 s u :=
    keepSim_run hs hw hk hidx steps (inv_init hs hk R mask) hsim0 hd
  have hidxeq : ∀ k, u.comp.store.get (idxKey k) = s.comp.store.get (idxKey k) := by
    intro k; rw [hst]; exact restored_idx hs hw hk hI.1 k
  refine ⟨hst, ?_, ?_, ?_, ht, hp, ?_⟩
  · intro R' hR k
    rw [hst]
    exact read_restored hs hw hk hne hI.1 hI.2.1 hI.2.2.1 hI.2.2.2 R' hR k
  · intro k; exact (logicalIdx_congr (hidxeq k)).symm
  · intro ops hb
    unfold commitErrOf
    rcases commit_sim (q := q) hb.raceBatch hidxeq with ⟨a, va, b, vb, e1, e2⟩ | ⟨e, e1, e2⟩
    · rw [e1, e2]
    · rw [e1, e2]
  · intro r hr h0 hle
    rw [hst]
    exact get_restored_snapshot hs hw hk hI.1 hI.2.2.1 hr h0 hle

end keep

/-! ### non-vacuity: a deleted key is re-created in between the compactor's delete calls -/

def ka : Bytes := [47, 97]
def kb : Bytes := [47, 98]

/-- `ka` live with versions 4, 5; `kb` deleted: versions 3, deletion marker 7, index `(7, flag)` -/
def raceRecs : List Rec :=
  [ { key := ka, rev := 0, val := be64 5, ik := encode ka 0 },
    { key := ka, rev := 4, val := [2], ik := encode ka 4 },
    { key := ka, rev := 5, val := [3], ik := encode ka 5 },
    { key := kb, rev := 0, val := be64 7 ++ [0], ik := encode kb 0 },
    { key := kb, rev := 3, val := [1], ik := encode kb 3 },
    { key := kb, rev := 7, val := tombstone, ik := encode kb 7 } ]

theorem raceRecs_hyps :
    SortedRecs raceRecs ∧ WellKeyed raceRecs ∧ (∀ r ∈ raceRecs, Alphabet r.key ∧ r.rev < 2 ^ 64) ∧
      (∀ r ∈ raceRecs, r.key ≠ []) ∧ IdxWF raceRecs := by decide

/-- the pass at `R = 8`: 4 delete calls, the compare-and-delete of `kb`'s index record is the second -/
theorem raceRecs_acts :
    (init 8 raceRecs).pending =
      [.del (encode ka 4) ka, .emit ka [3] 5, .delcur (idxKey kb) (be64 7 ++ [0]) kb,
       .del (encode kb 3) kb, .del (encode kb 7) kb] := by decide

def okMask : Nat → DelOutcome := fun _ => .ok

/-- create of `kb` at revision 10: first attempt of naive.go -/
def createOps : List BOp := [.pine (idxKey kb) (be8 10), .put (encode kb 10) [9]]
/-- create of `kb` at revision 10: second attempt, over the flagged index value `(7, flag)` -/
def recreateOps : List BOp := [.cas (idxKey kb) (be8 10) (be64 7 ++ [0]), .put (encode kb 10) [9]]

def commitOk (q : Quirks) (s : Store) (ops : List BOp) : Bool :=
  match commit q s ops with
  | .ok _ => true
  | .error _ => false

/-- Order A: after the compactor's first delete call the writer re-creates `kb` (`PutIfNotExist` conflicts
with the flagged index record, the `CAS` over it succeeds); then the compactor goes on: its
compare-and-delete of `kb`'s index record FAILS (the value changed), its deletes of versions 3 and 7 go
through. -/
def runA : List Step :=
  [.compDel, .write createOps, .write recreateOps, .compDel, .compDel, .compDel, .compDel]

/-- Order B: the compactor's compare-and-delete removes `kb`'s index record and version 3 first; then the
writer re-creates `kb` (`PutIfNotExist` SUCCEEDS); then the compactor deletes the marker 7. -/
def runB : List Step :=
  [.compDel, .compDel, .compDel, .compDel, .write createOps, .compDel]

def sA : RState := run .tikv okMask (init 8 raceRecs) runA
def sB : RState := run .tikv okMask (init 8 raceRecs) runB

theorem runA_disciplined : Disciplined .tikv okMask 8 (init 8 raceRecs) runA :=
  ⟨.create kb [9] 10 (by decide), .recreate kb [9] (be64 7 ++ [0]) 10 (by decide), trivial⟩

theorem runB_disciplined : Disciplined .tikv okMask 8 (init 8 raceRecs) runB :=
  ⟨.create kb [9] 10 (by decide), trivial⟩

set_option maxRecDepth 100000 in
theorem runA_facts :
    -- the first create attempt conflicts, the second commits
    commitOk .tikv (run .tikv okMask (init 8 raceRecs) [.compDel]).comp.store createOps = false ∧
    commitOk .tikv (run .tikv okMask (init 8 raceRecs) [.compDel]).comp.store recreateOps = true ∧
    -- all four delete calls were made, the second is the compare-and-delete of `kb`'s index record ...
    sA.pending = [] ∧
    sA.comp.trace = [.del (encode ka 4), .delcur (idxKey kb), .del (encode kb 3), .del (encode kb 7)] ∧
    -- ... which failed: the index record is there, with the writer's value
    sA.comp.store.get (idxKey kb) = some (be8 10) ∧
    logicalIdx sA.comp.store kb = some 10 ∧ logicalIdx sA.comp.store ka = some 5 ∧
    -- the superseded version of `ka` and the old history of `kb` are gone
    sA.comp.store.get (encode ka 4) = none ∧
    sA.comp.store.get (encode kb 3) = none ∧ sA.comp.store.get (encode kb 7) = none ∧
    -- reads of `kb`: deleted at 8 and 9, the new object from 10 on
    readS 8 sA.comp.store kb = none ∧ readS 9 sA.comp.store kb = none ∧
    readS 10 sA.comp.store kb = some ([9], 10) ∧ readS (2 ^ 64 - 1) sA.comp.store kb = some ([9], 10) ∧
    -- reads of `ka`: untouched
    readS 8 sA.comp.store ka = some ([3], 5) ∧ readS (2 ^ 64 - 1) sA.comp.store ka = some ([3], 5) ∧
    -- the same reads on the restored store, which has the whole history again
    (storeRecs (restored raceRecs sA.comp.store)).map (fun r => (r.key, r.rev)) =
      [(ka, 0), (ka, 4), (ka, 5), (kb, 0), (kb, 3), (kb, 7), (kb, 10)] ∧
    readS 8 (restored raceRecs sA.comp.store) kb = none ∧
    readS 9 (restored raceRecs sA.comp.store) kb = none ∧
    readS 10 (restored raceRecs sA.comp.store) kb = some ([9], 10) := by
  decide

set_option maxRecDepth 100000 in
theorem runB_facts :
    -- the compare-and-delete removed the index record of `kb` ...
    (run .tikv okMask (init 8 raceRecs) [.compDel, .compDel, .compDel]).comp.store.get (idxKey kb) = none ∧
    -- ... so the first create attempt commits
    commitOk .tikv (run .tikv okMask (init 8 raceRecs) [.compDel, .compDel, .compDel, .compDel]).comp.store
      createOps = true ∧
    sB.pending = [] ∧
    sB.comp.trace = [.del (encode ka 4), .delcur (idxKey kb), .del (encode kb 3), .del (encode kb 7)] ∧
    sB.comp.store.get (idxKey kb) = some (be8 10) ∧
    logicalIdx sB.comp.store kb = some 10 ∧ logicalIdx sB.comp.store ka = some 5 ∧
    sB.comp.store.get (encode kb 3) = none ∧ sB.comp.store.get (encode kb 7) = none ∧
    readS 8 sB.comp.store kb = none ∧ readS 9 sB.comp.store kb = none ∧
    readS 10 sB.comp.store kb = some ([9], 10) ∧ readS (2 ^ 64 - 1) sB.comp.store kb = some ([9], 10) ∧
    readS 8 sB.comp.store ka = some ([3], 5) ∧ readS (2 ^ 64 - 1) sB.comp.store ka = some ([3], 5) ∧
    -- both orders end in the same store
    sB.comp.store = sA.comp.store := by
  decide

/-- the theorems apply to the two runs (their hypotheses are satisfiable) -/
example (R' : Nat) (hR : 8 ≤ R') (k : Bytes) :
    readS R' sA.comp.store k = readS R' (restored raceRecs sA.comp.store) k :=
  race_equals_restored raceRecs_hyps.1 raceRecs_hyps.2.1 raceRecs_hyps.2.2.1 raceRecs_hyps.2.2.2.1
    raceRecs_hyps.2.2.2.2 8 .tikv okMask runA runA_disciplined R' hR k

example := compDel_invisible raceRecs_hyps.1 raceRecs_hyps.2.1 raceRecs_hyps.2.2.1 raceRecs_hyps.2.2.2.1
    raceRecs_hyps.2.2.2.2 8 .tikv okMask [.compDel, .compDel, .compDel, .compDel, .write createOps]
    runB_disciplined

/-! ### failed-condition errors on delete calls (no hypothesis on the mask) -/

/-- the compare-and-delete of `kb`'s index record (call 1) AND the plain delete of `kb`'s version 3
(call 2) fail with an error of the failed-condition class -/
def casMask : Nat → DelOutcome := fun i => if i = 1 ∨ i = 2 then .failCas else .ok

def sC : RState := run .tikv casMask (init 8 raceRecs) runB

/-- with the flagged index record still there the writer's first attempt conflicts; it is a disciplined
batch all the same -/
theorem runC_disciplined : Disciplined .tikv casMask 8 (init 8 raceRecs) runB :=
  ⟨.create kb [9] 10 (by decide), trivial⟩

set_option maxRecDepth 100000 in
/-- the failed compare-and-delete is NOT remembered (the worker goes on to `kb`'s versions); the failed plain
delete IS: the marker above it is skipped, nothing of `kb`'s history is removed -/
theorem runC_facts :
    (run .tikv casMask (init 8 raceRecs) [.compDel, .compDel, .compDel]).comp.lastFailed = [] ∧
    sC.pending = [] ∧
    sC.comp.trace = [.del (encode ka 4), .delcur (idxKey kb), .del (encode kb 3)] ∧
    sC.comp.lastFailed = kb ∧
    sC.comp.store.get (idxKey kb) = some (be64 7 ++ [0]) ∧
    sC.comp.store.get (encode kb 3) = some [1] ∧ sC.comp.store.get (encode kb 7) = some tombstone ∧
    sC.comp.store.get (encode ka 4) = none ∧
    readS 8 sC.comp.store kb = none ∧ readS (2 ^ 64 - 1) sC.comp.store kb = none ∧
    readS 8 sC.comp.store ka = some ([3], 5) := by
  decide

example (R' : Nat) (hR : 8 ≤ R') (k : Bytes) :
    readS R' sC.comp.store k = readS R' (restored raceRecs sC.comp.store) k :=
  race_equals_restored raceRecs_hyps.1 raceRecs_hyps.2.1 raceRecs_hyps.2.2.1 raceRecs_hyps.2.2.2.1
    raceRecs_hyps.2.2.2.2 8 .tikv casMask runB runC_disciplined R' hR k

/-! ### what is not true -/

/-- Batch-level fact behind the repaired finding (see the header). The creator's second attempt — the `CAS` over the flagged index value it got
from the conflict of its first attempt — is refused when the compactor's compare-and-delete removed that
index record in between (the creator now re-reads the index and creates again). The refused commit changes
nothing (`kb` is absent before and after, and stays creatable: `runB`). -/
theorem recreate_after_index_gc_conflicts :
    let s0 := run .tikv okMask (init 8 raceRecs) [.compDel, .compDel]
    let s1 := step .tikv okMask s0 .compDel
    -- the creator's first attempt, before the compactor's call: conflict on the flagged index record
    commitErrOf .tikv s0.comp.store createOps = some (.conflict (some 1) (some (be64 7 ++ [0]))) ∧
    -- the compactor's compare-and-delete removes it
    s1.comp.store.get (idxKey kb) = none ∧
    -- the creator's second attempt is a disciplined batch, and is refused
    Fresh 8 s1.comp.store kb 10 ∧
    commitErrOf .tikv s1.comp.store recreateOps = some (.conflict (some 1) none) ∧
    commitErrOf .tikvOld s1.comp.store recreateOps = some .notFound ∧
    (step .tikv okMask s1 (.write recreateOps)).comp.store = s1.comp.store ∧
    -- although the key is absent, before and after
    logicalIdx s0.comp.store kb = none ∧ logicalIdx s1.comp.store kb = none ∧
    readS (2 ^ 64 - 1) s1.comp.store kb = none := by
  decide

/-- `IdxWF` is needed for the logical-index half of `compDel_invisible`: an index record whose VALUE is the
deletion marker is removed by the worker's unconditional "delete tombstone data" call whatever a writer has
put there since. (The backend never writes such an index value.) -/
theorem idx_marker_value_breaks :
    let recs0 : List Rec :=
      [ { key := ka, rev := 0, val := tombstone, ik := encode ka 0 },
        { key := ka, rev := 3, val := [1], ik := encode ka 3 } ]
    let rev := fromBE (tombstone.take 8) + 1
    let ops : List BOp := [.cas (idxKey ka) (be8 rev) tombstone, .put (encode ka rev) [9]]
    let s1 := step .tikv okMask (init 8 recs0) (.write ops)
    let s2 := step .tikv okMask s1 .compDel
    SortedRecs recs0 ∧ WellKeyed recs0 ∧ (∀ r ∈ recs0, Alphabet r.key ∧ r.rev < 2 ^ 64) ∧
      (∀ r ∈ recs0, r.key ≠ []) ∧ ¬ IdxWF recs0 ∧
      Fresh 8 (init 8 recs0).comp.store ka rev ∧
      logicalIdx s1.comp.store ka = some rev ∧ logicalIdx s2.comp.store ka = none := by
  decide

end KB.C07Race
