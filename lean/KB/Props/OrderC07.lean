/-
  Order / wiring facts for C07 — regenerated from the source (harness/cmd/kbextract/order.go →
  KB/Generated/OrderFacts.lean).
-/
import KB.Generated.OrderFacts
namespace KB.OrderC07
open KB.Generated

/-- C07 ("keys outside the configured compaction ranges are not touched", all skipped-prefix configurations): the
configuration reaches the backend as the list the operator wrote — `--skip-key-prefix` splits on commas
(`Cfg.skipped` in the model is that list). -/
theorem skip_prefix_flag_is_a_list : skipPrefixFlagSplitsOnCommas = true := by decide

end KB.OrderC07
