/-
  Order facts for C04 — statement-order / call-count facts regenerated from the source
  (harness/cmd/kbextract/order.go → KB/Generated/OrderFacts.lean). The models are atomic where the code is
  sequential; these `decide`d theorems are the tie for exactly those places: a reordering in the source
  stops them from checking.
-/
import KB.Generated.OrderFacts
namespace KB.OrderC04
open KB.Generated

/-- C04: every write handler reports its revision after its storage work. -/
theorem writes_notify_after_storage : writesNotifyAfterStorage = true := by decide

/-- C04: every slot index of the sequencer's ring is taken modulo the ring's own length (the model's slots
are indexed by the revision itself; `ring_window_injective` is why that is the same thing). -/
theorem ring_indices_use_ring_len : ringIndicesUseRingLen = true := by decide

/-- C04: the "buffer full" fail-stop in `notify` compares the backlog `revision - committed` with the ring's
length and comes before the slot is written: a slot is only ever written for a revision inside the window
`(committed, committed + len)`. -/
theorem notify_guard_matches_ring_len : notifyGuardMatchesRingLen = true := by decide

/-- C04: the sequencer empties a consumed slot before it looks at the event's validity, so the slot of an
invalid event (failed condition, error, drift, unknown outcome) is released as well and is empty again one
lap later. -/
theorem slot_cleared_before_validity_check : seqClearsSlotBeforeValidityCheck = true := by decide

/-- Two unconsumed revisions inside one window of the ring never share a slot: with the guard above, the
ring of `cap` slots indexed by `revision % cap` behaves as the model's map from revisions to slots. -/
theorem ring_window_injective (cap c r1 r2 : Nat) (h1 : c < r1) (h1' : r1 < c + cap) (h2 : c < r2) (h2' : r2 < c + cap)
    (h : r1 % cap = r2 % cap) : r1 = r2 := by
  rcases Nat.le_total r1 r2 with hle | hle
  · have hz : (r2 - r1) % cap = 0 := Nat.sub_mod_eq_zero_of_mod_eq h.symm
    have hlt : r2 - r1 < cap := by omega
    rw [Nat.mod_eq_of_lt hlt] at hz
    omega
  · have hz : (r1 - r2) % cap = 0 := Nat.sub_mod_eq_zero_of_mod_eq h
    have hlt : r1 - r2 < cap := by omega
    rw [Nat.mod_eq_of_lt hlt] at hz
    omega

/-- C04 / C20: on TiKV a batch whose transaction could not be started returns that error from `Commit` (the
deferred rollback is guarded): the write handler then reports the dealt revision as every other storage error —
the model's `Fault.err` — instead of panicking past the report. -/
theorem tikv_commit_guards_nil_txn : tikvCommitGuardsNilTxn = true := by decide

theorem order_facts_resolved : orderFactsUnresolved = [] := by decide

end KB.OrderC04
