/-
  Order facts for C04 — statement-order / call-count facts regenerated from the source
  (harness/cmd/kbextract/order.go → KB/Generated/OrderFacts.lean). The models are atomic where the code is
  sequential; these `decide`d theorems are the tie for exactly those places: a reordering in the source
  stops them from checking.
-/
import KB.Generated.OrderFacts
namespace KB.OrderC04
open KB.Generated

/-- C04: every write handler reports its revision after its storage work. -/
theorem writes_notify_after_storage : writesNotifyAfterStorage = true := by decide

theorem order_facts_resolved : orderFactsUnresolved = [] := by decide

end KB.OrderC04
