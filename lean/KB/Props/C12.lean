/-
  C12 — Client-visible behaviour does not depend on the storage engine.
  Model: KB.Backend parameterised by `Quirks` — everything the storage interface leaves open
  (conflict carries the old value or not and at which index, limit honoured / ignored / off by one,
  reverse iterator checking its first element or not, bare vs wrapped CAS errors on compare-and-delete).
  The theorems say each request's response and successor state are the same for any two contractual
  engines, on every well-formed store.
-/
import KB.Lemmas.Indep
namespace KB.C12
open KB

/-- An engine honours the part of the contract the backend depends on: a compare-and-swap on a
missing key is a failed condition (C11). Everything else in `Quirks` is left open. -/
def Contractual (q : Quirks) : Prop := q.casMissingNotFound = false

/-- Two configurations that differ only in the engine's open choices (`creatorTombAboveIsCf` is not one of them: it
selects the creator of before /repo 42e5238, for refutations). -/
def SameButEngine (c1 c2 : Cfg) : Prop :=
  c1.pfx = c2.pfx ∧ c1.skipped = c2.skipped ∧ c1.cacheSize = c2.cacheSize ∧ c1.splits = c2.splits ∧
  c1.etcdCompat = c2.etcdCompat ∧ c1.ttl = c2.ttl ∧ c1.q.supportTTL = c2.q.supportTTL ∧
  c1.creatorTombAboveIsCf = c2.creatorTombAboveIsCf

/-- A well-formed backend store: encoded records of keys over the alphabet (sorted), whose index
records parse. -/
def StoreWF (st : Store) : Prop :=
  ∃ recs : List Rec, st = encodeStore recs ∧ SortedRecs recs ∧ (∀ r ∈ recs, Alphabet r.key ∧ r.rev < 2 ^ 64)

theorem get_indep (c1 c2 : Cfg) (s : BState) (hwf : StoreWF s.store)
    (k : Bytes) (hk : Alphabet k) (R : Nat) (hR : R < 2 ^ 64) : doGet c1 s k R = doGet c2 s k R := by
  obtain ⟨recs, hst, hs, hr⟩ := hwf
  exact doGet_encodeStore_indep c1 c2 s hst hs hr k hk R hR

theorem create_indep (c1 c2 : Cfg) (h : SameButEngine c1 c2) (h1 : Contractual c1.q) (h2 : Contractual c2.q)
    (s : BState) (hwf : StoreWF s.store) (hd : s.dealt + 1 < 2 ^ 64)
    (k v : Bytes) (hk : Alphabet k) (fs : List Fault) : doCreate c1 s k v fs = doCreate c2 s k v fs := by
  -- holds on every store, for every key: `hwf`, `hd`, `hk` are not needed
  have _ := hwf; have _ := hd; have _ := hk
  exact doCreate_indep h1 h2 h.2.2.2.2.2.2.2 s k v fs

theorem update_indep (c1 c2 : Cfg) (h : SameButEngine c1 c2) (h1 : Contractual c1.q) (h2 : Contractual c2.q)
    (s : BState) (hwf : StoreWF s.store) (hd : s.dealt + 1 < 2 ^ 64)
    (k v : Bytes) (hk : Alphabet k) (e : Nat) (fs : List Fault) :
    doUpdate c1 s k v e fs = doUpdate c2 s k v e fs := by
  have _ := hd
  obtain ⟨recs, hst, hs, hr⟩ := hwf
  refine doUpdate_indep h1 h2 h.2.2.2.2.2.2.2 s k v ?_ e fs
  rw [hst]
  exact bget_encodeStore_indep c1 c2 hs hr k hk 0 (by decide)

theorem delete_indep (c1 c2 : Cfg) (h : SameButEngine c1 c2) (h1 : Contractual c1.q) (h2 : Contractual c2.q)
    (s : BState) (hwf : StoreWF s.store) (hd : s.dealt + 1 < 2 ^ 64)
    (k : Bytes) (hk : Alphabet k) (e : Nat) (fs : List Fault) :
    doDelete c1 s k e fs = doDelete c2 s k e fs := by
  have _ := h; have _ := hd
  obtain ⟨recs, hst, hs, hr⟩ := hwf
  refine doDelete_indep h1 h2 s k ?_ e fs
  rw [hst]
  exact bget_encodeStore_indep c1 c2 hs hr k hk 0 (by decide)

/-- Range reads: two engines whose reverse iterators honour the end bound on their first element
(the iterator contract, C11) give the same `List` response — on ANY store, for ANY bounds and ANY
partitioning, whatever their other open choices. Up to /repo 23c8b93 the statement was FALSE without that
hypothesis even on a single partition: `doList` only checks `cmp a b = .lt` on the RAW keys; when `a` is a
proper prefix of `b` and the next byte of `b` is below the split byte (outside the documented alphabet) the
bounds as encoded THEN were descending, the engine iterated backwards and `revFirstUnchecked` became visible
(`former_counterexample_was_descending`). Since 23c8b93 the encoded bounds of a proper raw interval never run
backwards (`KB.C10.bounds_ordered`) and the hypothesis is needed for backward-running PARTITIONS only
(`list_indep_any_bounds`, `list_indep_ascending_any_bounds`). -/
theorem list_indep (c1 c2 : Cfg) (h : SameButEngine c1 c2)
    (hr1 : c1.q.revFirstUnchecked = false) (hr2 : c2.q.revFirstUnchecked = false)
    (s : BState) (a b : Bytes) (R n : Nat) :
    (match doList c1 s a b R n, doList c2 s a b R n with
     | .ok r1, .ok r2 => r1.hdr = r2.hdr ∧ r1.more = r2.more ∧ r1.kvs = r2.kvs
     | .error e1, .error e2 => e1 = e2
     | .panic, .panic => True
     | _, _ => False) := by
  obtain ⟨hp, _, _, hs, _, _, ht, _⟩ := h
  rw [doList_indep_of_rev hp hs ht (by rw [hr1, hr2]) s a b R n]
  exact listRes_match_self _

/-! #### counterexample to `list_indep` -/

/-- a well-formed store holding one live record of key `(` (below the range asked for) -/
def cexState : BState :=
  { ring := Ring.new 1, dealt := 10, committed := 10, store := [(encode [40] 5, [1])] }
/-- reverse iterator does not bound-check its first element; everything else default -/
def cexUnchecked : Cfg := { q := { revFirstUnchecked := true } }
def cexChecked : Cfg := {}

def kvsOf : ScanRes ListRes → Option (List (Bytes × Bytes × Nat))
  | .ok r => some r.kvs
  | _ => none

/-- THE FORMER COUNTEREXAMPLE, range `["2", "2\x01")` (the two engines differ only in `revFirstUnchecked`, both
are contractual, the store is well-formed): with the bound encoding of /repo 146f0bb (`encodeBoundOld`) — and
the one before it — the encoded bounds were DESCENDING although the raw bounds ascend, and on such bounds the
unchecked engine's iterator yields a key that is not in the range, the checked one nothing. -/
theorem former_counterexample_was_descending :
    SameButEngine cexUnchecked cexChecked ∧ Contractual cexUnchecked.q ∧ Contractual cexChecked.q ∧
    StoreWF cexState.store ∧ cmp [50] [50, 1] = .lt ∧
    cmp (encodeBoundOld [50]) (encodeBoundOld [50, 1]) = .gt ∧
    cmp (encodeBoundOldest [50]) (encodeBoundOldest [50, 1]) = .gt ∧
    iterate cexUnchecked.q cexState.store (encodeBoundOld [50]) (encodeBoundOld [50, 1]) 0 = [(encode [40] 5, [1])] ∧
    iterate cexChecked.q cexState.store (encodeBoundOld [50]) (encodeBoundOld [50, 1]) 0 = [] := by
  refine ⟨⟨rfl, rfl, rfl, rfl, rfl, rfl, rfl, rfl⟩, rfl, rfl, ?_, by decide, by decide, by decide, by decide, by decide⟩
  exact ⟨[{ key := [40], rev := 5, val := [1], ik := encode [40] 5 }], rfl, by decide, by decide⟩

/-- ... REPAIRED (/repo 23c8b93): the bound `"2\x01"` is encoded just after every version of `"2"`, the scan
ascends, and the two engines give the same — correct, empty — answer, with and without a limit. -/
theorem former_counterexample_repaired :
    cmp (encodeBound [50]) (encodeBound [50, 1]) = .lt ∧
    kvsOf (doList cexUnchecked cexState [50] [50, 1] 0 0) = some [] ∧
    kvsOf (doList cexChecked cexState [50] [50, 1] 0 0) = some [] ∧
    kvsOf (doList cexUnchecked cexState [50] [50, 1] 0 3) = some [] ∧
    kvsOf (doList cexChecked cexState [50] [50, 1] 0 3) = some [] := by
  refine ⟨by decide, by decide, by decide, by decide, by decide⟩

/-! #### corrected statements -/

/-- Corrected (1): two engines that agree on whether the reverse iterator bound-checks its first
element give the same range read — on ANY store and for ANY bounds; all other open choices
(limit mode, conflict shape, index offset, CAS-on-missing) are irrelevant. -/
theorem list_indep_corrected (c1 c2 : Cfg) (h : SameButEngine c1 c2)
    (hrev : c1.q.revFirstUnchecked = c2.q.revFirstUnchecked) (s : BState) (a b : Bytes) (R n : Nat) :
    (match doList c1 s a b R n, doList c2 s a b R n with
     | .ok r1, .ok r2 => r1.hdr = r2.hdr ∧ r1.more = r2.more ∧ r1.kvs = r2.kvs
     | .error e1, .error e2 => e1 = e2
     | .panic, .panic => True
     | _, _ => False) := by
  obtain ⟨hp, _, _, hs, _, _, ht, _⟩ := h
  rw [doList_indep_of_rev hp hs ht hrev s a b R n]
  exact listRes_match_self _

/-- Corrected (2): for bounds over the documented alphabet the scan is ascending and NO open choice
of the engine is visible (single-partition engine; any store). -/
theorem list_indep_alphabet (c1 c2 : Cfg) (h : SameButEngine c1 c2) (hsplit : c1.splits = [])
    (s : BState) (a b : Bytes) (ha : Alphabet a) (hb : Alphabet b) (R n : Nat) :
    (match doList c1 s a b R n, doList c2 s a b R n with
     | .ok r1, .ok r2 => r1.hdr = r2.hdr ∧ r1.more = r2.more ∧ r1.kvs = r2.kvs
     | .error e1, .error e2 => e1 = e2
     | .panic, .panic => True
     | _, _ => False) := by
  obtain ⟨hp, _, _, hs, _, _, ht, _⟩ := h
  rw [doList_indep_single hp hs ht hsplit s ha hb R n]
  exact listRes_match_self _

/-- Corrected (2), since /repo 23c8b93 for ARBITRARY bounds (any byte strings, low bytes included): on a
single-partition engine NO open choice of the engine is visible in a range read, on any store. -/
theorem list_indep_any_bounds (c1 c2 : Cfg) (h : SameButEngine c1 c2) (hsplit : c1.splits = [])
    (s : BState) (a b : Bytes) (R n : Nat) :
    (match doList c1 s a b R n, doList c2 s a b R n with
     | .ok r1, .ok r2 => r1.hdr = r2.hdr ∧ r1.more = r2.more ∧ r1.kvs = r2.kvs
     | .error e1, .error e2 => e1 = e2
     | .panic, .panic => True
     | _, _ => False) := by
  obtain ⟨hp, _, _, hs, _, _, ht, _⟩ := h
  rw [doList_indep_single' hp hs ht hsplit s a b R n]
  exact listRes_match_self _

/-- ... and with any partitioning, provided no adjusted partition runs backwards. -/
theorem list_indep_ascending_any_bounds (c1 c2 : Cfg) (h : SameButEngine c1 c2)
    (s : BState) (a b : Bytes)
    (hasc : ∀ parts, scanPartitions c1 (encodeBound a) (encodeBound b) = some parts → ∀ p ∈ parts, cmp p.1 p.2 ≠ .gt)
    (R n : Nat) :
    (match doList c1 s a b R n, doList c2 s a b R n with
     | .ok r1, .ok r2 => r1.hdr = r2.hdr ∧ r1.more = r2.more ∧ r1.kvs = r2.kvs
     | .error e1, .error e2 => e1 = e2
     | .panic, .panic => True
     | _, _ => False) := by
  obtain ⟨hp, _, _, hs, _, _, ht, _⟩ := h
  rw [doList_indep_of_ascending' hp hs ht s a b hasc R n]
  exact listRes_match_self _

/-- Corrected (2'): the same with any partitioning, provided no adjusted partition runs backwards
(true of sorted well-formed borders: KB.C13). -/
theorem list_indep_ascending (c1 c2 : Cfg) (h : SameButEngine c1 c2)
    (s : BState) (a b : Bytes) (ha : Alphabet a) (hb : Alphabet b)
    (hasc : ∀ parts, scanPartitions c1 (encode a 0) (encode b 0) = some parts → ∀ p ∈ parts, cmp p.1 p.2 ≠ .gt)
    (R n : Nat) :
    (match doList c1 s a b R n, doList c2 s a b R n with
     | .ok r1, .ok r2 => r1.hdr = r2.hdr ∧ r1.more = r2.more ∧ r1.kvs = r2.kvs
     | .error e1, .error e2 => e1 = e2
     | .panic, .panic => True
     | _, _ => False) := by
  obtain ⟨hp, _, _, hs, _, _, ht, _⟩ := h
  rw [doList_indep_of_ascending hp hs ht s ha hb hasc R n]
  exact listRes_match_self _

/-- Without the contract the property is FALSE: the pre-fix tikv adapter (compare-and-swap on a
missing key answers not-found) makes a guarded update of a missing key an RPC error where the other
engines answer "condition failed". -/
theorem noncontractual_differs :
    let s : BState := { ring := Ring.new 1, dealt := 1000, committed := 1000 }
    (doUpdate { q := Quirks.tikvOld } s [47, 97] [1] 7 []).1 = .error .notFound ∧
    (doUpdate { q := Quirks.memkv } s [47, 97] [1] 7 []).1 = .condFailed 1001 none := by
  decide

/-! Non-vacuity of the implications added with /repo 23c8b93: two configurations that differ in the engine only, on
a single partition (every adjusted partition of which ascends), bounds with a low byte. -/
example : SameButEngine cexUnchecked cexChecked ∧ cexUnchecked.splits = [] ∧ cmp [50] [50, 1] = .lt := ⟨⟨rfl, rfl, rfl, rfl, rfl, rfl, rfl, rfl⟩, rfl, by decide⟩
example : ∀ parts, scanPartitions cexUnchecked (encodeBound [50]) (encodeBound [50, 1]) = some parts →
    ∀ p ∈ parts, cmp p.1 p.2 ≠ .gt := by decide

end KB.C12
