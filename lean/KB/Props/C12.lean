/-
  C12 — Client-visible behaviour does not depend on the storage engine.
  Model: KB.Backend parameterised by `Quirks` — everything the storage interface leaves open
  (conflict carries the old value or not and at which index, limit honoured / ignored / off by one,
  reverse iterator checking its first element or not, bare vs wrapped CAS errors on compare-and-delete).
  The theorems say each request's response and successor state are the same for any two contractual
  engines, on every well-formed store.
-/
import KB.Lemmas.Indep
namespace KB.C12
open KB

/-- An engine honours the part of the contract the backend depends on: a compare-and-swap on a
missing key is a failed condition (C11). Everything else in `Quirks` is left open. -/
def Contractual (q : Quirks) : Prop := q.casMissingNotFound = false

/-- Two configurations that differ only in the engine's open choices. -/
def SameButEngine (c1 c2 : Cfg) : Prop :=
  c1.pfx = c2.pfx ∧ c1.skipped = c2.skipped ∧ c1.cacheSize = c2.cacheSize ∧ c1.splits = c2.splits ∧
  c1.etcdCompat = c2.etcdCompat ∧ c1.ttl = c2.ttl ∧ c1.q.supportTTL = c2.q.supportTTL

/-- A well-formed backend store: encoded records of keys over the alphabet (sorted), whose index
records parse. -/
def StoreWF (st : Store) : Prop :=
  ∃ recs : List Rec, st = encodeStore recs ∧ SortedRecs recs ∧ (∀ r ∈ recs, Alphabet r.key ∧ r.rev < 2 ^ 64)

theorem get_indep (c1 c2 : Cfg) (s : BState) (hwf : StoreWF s.store)
    (k : Bytes) (hk : Alphabet k) (R : Nat) (hR : R < 2 ^ 64) : doGet c1 s k R = doGet c2 s k R := by
  sorry

theorem create_indep (c1 c2 : Cfg) (h : SameButEngine c1 c2) (h1 : Contractual c1.q) (h2 : Contractual c2.q)
    (s : BState) (hwf : StoreWF s.store) (hd : s.dealt + 1 < 2 ^ 64)
    (k v : Bytes) (hk : Alphabet k) (fs : List Fault) : doCreate c1 s k v fs = doCreate c2 s k v fs := by
  sorry

theorem update_indep (c1 c2 : Cfg) (h : SameButEngine c1 c2) (h1 : Contractual c1.q) (h2 : Contractual c2.q)
    (s : BState) (hwf : StoreWF s.store) (hd : s.dealt + 1 < 2 ^ 64)
    (k v : Bytes) (hk : Alphabet k) (e : Nat) (fs : List Fault) :
    doUpdate c1 s k v e fs = doUpdate c2 s k v e fs := by
  sorry

theorem delete_indep (c1 c2 : Cfg) (h : SameButEngine c1 c2) (h1 : Contractual c1.q) (h2 : Contractual c2.q)
    (s : BState) (hwf : StoreWF s.store) (hd : s.dealt + 1 < 2 ^ 64)
    (k : Bytes) (hk : Alphabet k) (e : Nat) (fs : List Fault) :
    doDelete c1 s k e fs = doDelete c2 s k e fs := by
  sorry

theorem list_indep (c1 c2 : Cfg) (h : SameButEngine c1 c2) (s : BState) (a b : Bytes) (R n : Nat) :
    (match doList c1 s a b R n, doList c2 s a b R n with
     | .ok r1, .ok r2 => r1.hdr = r2.hdr ∧ r1.more = r2.more ∧ r1.kvs = r2.kvs
     | .error e1, .error e2 => e1 = e2
     | .panic, .panic => True
     | _, _ => False) := by
  sorry

/-- Without the contract the property is FALSE: the pre-fix tikv adapter (compare-and-swap on a
missing key answers not-found) makes a guarded update of a missing key an RPC error where the other
engines answer "condition failed". -/
theorem noncontractual_differs :
    let s : BState := { ring := Ring.new 1, dealt := 1000, committed := 1000 }
    (doUpdate { q := Quirks.tikvOld } s [47, 97] [1] 7 []).1 = .error .notFound ∧
    (doUpdate { q := Quirks.memkv } s [47, 97] [1] 7 []).1 = .condFailed 1001 none := by
  decide

end KB.C12
