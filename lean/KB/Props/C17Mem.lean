/-
  C17 (in-memory engine part) — the ttl timers of pkg/storage/memkv expire the VALUE a ttl was given to.

  Model: KB.MemTTL (batch.go Commit / asyncRemove / the time.AfterFunc closure, skiplist.go store.expireAt), tied
  to the real code by the `engine` correspondence suite (batch lines with a ttl per put, `sleep`; kbcheck/props/c17.py
  `engine_ttl_case`). On memkv the backend writes an Event's index record and its version record in ONE batch with
  the same ttl (C17's `ttl_only_for_event_keys`, `native_oracle`), so the statements below, which are per engine key,
  give C17's three clauses for that engine:
    * "never removes an Event whose newest change is younger than the TTL"   → `young_value_survives`
    * "never removes keys written without a TTL"                            → `no_ttl_never_expires`
    * "removes an expired key's index and versions together"                → `expired_is_removed`,
                                                                              `same_batch_expires_together`
  All theorems quantify over ALL histories: any list of operations (batches, clock advances, timer firings in any
  order and with any delay) run from the empty store. A history is cut at the LAST batch that writes the key:
  `pre ++ .commit ws :: post` with `lastWrite ws k = some w` and no operation of `post` writing `k`; `(run pre).now`
  is the clock at that write. Since `post` is arbitrary, "the final state" is every state after that write.

  The mechanism before commit 8c76399 (`fireOld`: the timer deletes by key name) is refuted by a concrete history.
-/
import KB.Lemmas.MemTTL
namespace KB.C17Mem
open KB KB.MemTTL

/-! ### the invariant -/

/-- Every state reachable from the empty store: the skip list is sorted, a deadline is remembered only for a key
that has a value, and the timer of every remembered deadline is still armed. -/
theorem invariant (ops : List Op) : TTLInv (run ops) := TTLInv.init.runFrom ops

/-- the clock never runs backwards -/
theorem clock_monotone (pre post : List Op) : (run pre).now ≤ (run (pre ++ post)).now := by
  have := runFrom_now_mono (run pre) post
  rwa [run, ← runFrom_append] at this

/-! ### 1. a value younger than its ttl is there -/

/-- If the last write of `k` was `put v ttl` at clock `t`, then in every later state with `now < t + ttl` the store
maps `k` to `v` — whatever timers (of older writes of `k`, of other keys) have fired in between. -/
theorem young_value_survives (pre post : List Op) (ws : List (Bytes × Write)) (k v : Bytes) (ttl : Nat)
    (hlast : lastWrite ws k = some (.put v ttl))
    (hpost : ∀ op ∈ post, op.writes k = false)
    (hyoung : (run (pre ++ .commit ws :: post)).now < (run pre).now + ttl) :
    (run (pre ++ .commit ws :: post)).store.get k = some v := by
  rcases view_after_last_write pre post ws k _ hlast hpost with h | ⟨d, h1, h2, _⟩
  · exact congrArg Prod.fst h
  · by_cases ht : ttl = 0
    · simp [effectOf, ht] at h1
    · simp only [effectOf, ht, if_false, Option.some.injEq] at h1
      omega

example : ∃ (pre post : List Op) (ws : List (Bytes × Write)) (k v : Bytes) (ttl : Nat),
    lastWrite ws k = some (.put v ttl) ∧ (∀ op ∈ post, op.writes k = false) ∧
    (run (pre ++ .commit ws :: post)).now < (run pre).now + ttl :=
  ⟨[.commit [([107], .put [1] 2)], .advance 1], [.advance 1, .fire 0], [([107], .put [2] 2)], [107], [2], 2,
    by decide⟩

/-! ### 2. a value without a ttl never vanishes -/

/-- If the last write of `k` was `put v 0`, the store maps `k` to `v` in every later state, whatever timers fire. -/
theorem no_ttl_never_expires (pre post : List Op) (ws : List (Bytes × Write)) (k v : Bytes)
    (hlast : lastWrite ws k = some (.put v 0))
    (hpost : ∀ op ∈ post, op.writes k = false) :
    (run (pre ++ .commit ws :: post)).store.get k = some v := by
  rcases view_after_last_write pre post ws k _ hlast hpost with h | ⟨d, h1, _, _⟩
  · exact congrArg Prod.fst h
  · simp [effectOf] at h1

example : ∃ (post : List Op) (ws : List (Bytes × Write)) (k v : Bytes),
    lastWrite ws k = some (.put v 0) ∧ (∀ op ∈ post, op.writes k = false) :=
  ⟨[.advance 5, .fire 0], [([107], .put [2] 0)], [107], [2], by decide⟩

/-! ### 3. an expired value is removed (liveness modulo the timers firing) -/

/-- If the last write of `k` was `put v ttl` (`ttl > 0`) at clock `t`, a state with `now ≥ t + ttl` in which every
timer that is due has fired (all armed timers have their deadline ahead) does not contain `k` — neither its value
nor a remembered deadline. -/
theorem expired_is_removed (pre post : List Op) (ws : List (Bytes × Write)) (k v : Bytes) (ttl : Nat)
    (hlast : lastWrite ws k = some (.put v ttl)) (httl : 0 < ttl)
    (hpost : ∀ op ∈ post, op.writes k = false)
    (hexpired : (run pre).now + ttl ≤ (run (pre ++ .commit ws :: post)).now)
    (hfired : ∀ x ∈ (run (pre ++ .commit ws :: post)).timers, (run (pre ++ .commit ws :: post)).now < x.2) :
    (run (pre ++ .commit ws :: post)).store.get k = none ∧
    alookup (run (pre ++ .commit ws :: post)).expireAt k = none := by
  have ht : ttl ≠ 0 := by omega
  rcases view_after_last_write pre post ws k _ hlast hpost with h | ⟨d, _, _, h3⟩
  · have h2 : alookup (run (pre ++ .commit ws :: post)).expireAt k = some ((run pre).now + ttl) := by
      have := congrArg Prod.snd h
      simpa [view, effectOf, ht] using this
    have := hfired _ ((invariant _).armed k _ h2)
    simp only at this
    omega
  · exact ⟨congrArg Prod.fst h3, congrArg Prod.snd h3⟩

example : ∃ (pre post : List Op) (ws : List (Bytes × Write)) (k v : Bytes) (ttl : Nat),
    lastWrite ws k = some (.put v ttl) ∧ 0 < ttl ∧ (∀ op ∈ post, op.writes k = false) ∧
    (run pre).now + ttl ≤ (run (pre ++ .commit ws :: post)).now ∧
    (∀ x ∈ (run (pre ++ .commit ws :: post)).timers, (run (pre ++ .commit ws :: post)).now < x.2) :=
  ⟨[], [.advance 3, .fire 0], [([107], .put [1] 2)], [107], [1], 2, by decide⟩

/-- The same, one timer at a time: once `now ≥ t + ttl`, firing the timer `(k, t + ttl)` leaves `k` absent. -/
theorem expired_removed_by_its_timer (pre post : List Op) (ws : List (Bytes × Write)) (k v : Bytes) (ttl i : Nat)
    (hlast : lastWrite ws k = some (.put v ttl)) (httl : 0 < ttl)
    (hpost : ∀ op ∈ post, op.writes k = false)
    (hexpired : (run pre).now + ttl ≤ (run (pre ++ .commit ws :: post)).now)
    (htimer : (run (pre ++ .commit ws :: post)).timers[i]? = some (k, (run pre).now + ttl)) :
    (run (pre ++ .commit ws :: post ++ [.fire i])).store.get k = none := by
  have ht : ttl ≠ 0 := by omega
  have hrun : run (pre ++ .commit ws :: post ++ [.fire i]) = fire (run (pre ++ .commit ws :: post)) i := by
    rw [show pre ++ Op.commit ws :: post ++ [Op.fire i] = (pre ++ Op.commit ws :: post) ++ [Op.fire i] by simp]
    simp [run, runFrom, List.foldl_append, step]
  rw [hrun]
  apply fire_own_timer _ (invariant _).sorted i k _ htimer hexpired
  rcases view_after_last_write pre post ws k _ hlast hpost with h | ⟨d, _, _, h3⟩
  · right
    have := congrArg Prod.snd h
    simpa [view, effectOf, ht] using this
  · exact .inl h3

/-- … and that timer IS armed as long as the key is there: an expired key is gone or removable right now. -/
theorem expired_is_removable (pre post : List Op) (ws : List (Bytes × Write)) (k v : Bytes) (ttl : Nat)
    (hlast : lastWrite ws k = some (.put v ttl)) (httl : 0 < ttl)
    (hpost : ∀ op ∈ post, op.writes k = false)
    (hexpired : (run pre).now + ttl ≤ (run (pre ++ .commit ws :: post)).now) :
    (run (pre ++ .commit ws :: post)).store.get k = none ∨
    ∃ i, (run (pre ++ .commit ws :: post)).timers[i]? = some (k, (run pre).now + ttl) ∧
      (run (pre ++ .commit ws :: post ++ [.fire i])).store.get k = none := by
  have ht : ttl ≠ 0 := by omega
  rcases view_after_last_write pre post ws k _ hlast hpost with h | ⟨d, _, _, h3⟩
  · right
    have h2 : alookup (run (pre ++ .commit ws :: post)).expireAt k = some ((run pre).now + ttl) := by
      have := congrArg Prod.snd h
      simpa [view, effectOf, ht] using this
    obtain ⟨i, hi⟩ := List.getElem?_of_mem ((invariant _).armed k _ h2)
    exact ⟨i, hi, expired_removed_by_its_timer pre post ws k v ttl i hlast httl hpost hexpired hi⟩
  · exact .inl (congrArg Prod.fst h3)

example : ∃ (pre post : List Op) (ws : List (Bytes × Write)) (k v : Bytes) (ttl i : Nat),
    lastWrite ws k = some (.put v ttl) ∧ 0 < ttl ∧ (∀ op ∈ post, op.writes k = false) ∧
    (run pre).now + ttl ≤ (run (pre ++ .commit ws :: post)).now ∧
    (run (pre ++ .commit ws :: post)).timers[i]? = some (k, (run pre).now + ttl) :=
  ⟨[], [.advance 3], [([107], .put [1] 2)], [107], [1], 2, 0, by decide⟩

/-! ### 4. records written in one batch with one ttl expire together -/

/-- Two keys written in ONE commit with the same ttl (an Event's index record and its version record) have the
same deadline `D`: before `D` both are there; from `D` on each of them is gone or can be removed at once by its own
armed timer; and once neither of the two timers is armed any more both are gone.
The two removals are two timer callbacks (two `time.AfterFunc` closures, each taking the store mutex on its own),
NOT one atomic step — that is what the code does; `same_batch_removal_is_two_steps` shows the state in between. -/
theorem same_batch_expires_together (pre post : List Op) (ws : List (Bytes × Write)) (k1 k2 v1 v2 : Bytes) (ttl : Nat)
    (h1 : lastWrite ws k1 = some (.put v1 ttl)) (h2 : lastWrite ws k2 = some (.put v2 ttl)) (httl : 0 < ttl)
    (hpost : ∀ op ∈ post, op.writes k1 = false ∧ op.writes k2 = false) :
    ((run (pre ++ .commit ws :: post)).now < (run pre).now + ttl →
      (run (pre ++ .commit ws :: post)).store.get k1 = some v1 ∧
      (run (pre ++ .commit ws :: post)).store.get k2 = some v2) ∧
    ((run pre).now + ttl ≤ (run (pre ++ .commit ws :: post)).now →
      ∀ k ∈ [k1, k2], (run (pre ++ .commit ws :: post)).store.get k = none ∨
        ∃ i, (run (pre ++ .commit ws :: post)).timers[i]? = some (k, (run pre).now + ttl) ∧
          (run (pre ++ .commit ws :: post ++ [.fire i])).store.get k = none) ∧
    (∀ k ∈ [k1, k2], (k, (run pre).now + ttl) ∉ (run (pre ++ .commit ws :: post)).timers →
      (run (pre ++ .commit ws :: post)).store.get k = none) := by
  have hp1 : ∀ op ∈ post, op.writes k1 = false := fun op h => (hpost op h).1
  have hp2 : ∀ op ∈ post, op.writes k2 = false := fun op h => (hpost op h).2
  have ht : ttl ≠ 0 := by omega
  refine ⟨fun hy => ⟨young_value_survives pre post ws k1 v1 ttl h1 hp1 hy,
                      young_value_survives pre post ws k2 v2 ttl h2 hp2 hy⟩, ?_, ?_⟩
  · intro hexp k hk
    simp only [List.mem_cons, List.not_mem_nil, or_false] at hk
    rcases hk with rfl | rfl
    · exact expired_is_removable pre post ws _ v1 ttl h1 httl hp1 hexp
    · exact expired_is_removable pre post ws _ v2 ttl h2 httl hp2 hexp
  · intro k hk hnot
    have key : ∀ (k v : Bytes), lastWrite ws k = some (.put v ttl) → (∀ op ∈ post, op.writes k = false) →
        (k, (run pre).now + ttl) ∉ (run (pre ++ .commit ws :: post)).timers →
        (run (pre ++ .commit ws :: post)).store.get k = none := by
      intro k v hl hp hn
      rcases view_after_last_write pre post ws k _ hl hp with h | ⟨d, _, _, h3⟩
      · have h2 : alookup (run (pre ++ .commit ws :: post)).expireAt k = some ((run pre).now + ttl) := by
          have := congrArg Prod.snd h
          simpa [view, effectOf, ht] using this
        exact absurd ((invariant _).armed k _ h2) hn
      · exact congrArg Prod.fst h3
    simp only [List.mem_cons, List.not_mem_nil, or_false] at hk
    rcases hk with rfl | rfl
    · exact key _ v1 h1 hp1 hnot
    · exact key _ v2 h2 hp2 hnot

example : ∃ (post : List Op) (ws : List (Bytes × Write)) (k1 k2 v1 v2 : Bytes) (ttl : Nat),
    lastWrite ws k1 = some (.put v1 ttl) ∧ lastWrite ws k2 = some (.put v2 ttl) ∧ 0 < ttl ∧ k1 ≠ k2 ∧
    (∀ op ∈ post, op.writes k1 = false ∧ op.writes k2 = false) :=
  ⟨[.advance 3, .fire 1], [([105], .put [1] 2), ([118], .put [2] 2)], [105], [118], [1], [2], 2, by decide⟩

/-- Between the two callbacks one record of the pair is gone and the other is still there (a reader that comes
between the two closures sees it; nothing in memkv groups the timers of one batch). -/
theorem same_batch_removal_is_two_steps :
    let s := run [.commit [([105], .put [1] 2), ([118], .put [2] 2)], .advance 3, .fire 1]
    s.store.get [118] = none ∧ s.store.get [105] = some [1] := by decide

/-! ### 5. a deleted key stays deleted until it is written again -/

/-- If the last write of `k` was a delete, `k` is absent in every later state and no deadline is remembered for it
(the `delete(b.store.expireAt, k)` of Commit's delete branch): timers neither resurrect nor remove anything. -/
theorem deleted_stays_deleted_until_rewritten (pre post : List Op) (ws : List (Bytes × Write)) (k : Bytes)
    (hlast : lastWrite ws k = some .del)
    (hpost : ∀ op ∈ post, op.writes k = false) :
    (run (pre ++ .commit ws :: post)).store.get k = none ∧
    alookup (run (pre ++ .commit ws :: post)).expireAt k = none := by
  rcases view_after_last_write pre post ws k _ hlast hpost with h | ⟨d, h1, _, _⟩
  · exact ⟨congrArg Prod.fst h, congrArg Prod.snd h⟩
  · simp [effectOf] at h1

example : ∃ (post : List Op) (ws : List (Bytes × Write)) (k : Bytes),
    lastWrite ws k = some .del ∧ (∀ op ∈ post, op.writes k = false) :=
  ⟨[.advance 5, .fire 0], [([107], .del)], [107], by decide⟩

/-- A key that no batch ever wrote is absent (timers create nothing). -/
theorem never_written_absent (ops : List Op) (k : Bytes) (h : ∀ op ∈ ops, op.writes k = false) :
    (run ops).store.get k = none := by
  rcases view_runFrom_nowrite {} TTLInv.init ops k h with h1 | ⟨d, h1, _, _⟩
  · exact congrArg Prod.fst h1
  · simp [view, alookup] at h1

/-! ### 6. the mechanism before commit 8c76399 -/

/-- put k v1 ttl=2 at 0; advance 1; put k v2 ttl=2; advance 1; the first write's timer (deadline 2) fires. -/
def renewHistory : List Op :=
  [.commit [([107], .put [1] 2)], .advance 1, .commit [([107], .put [2] 2)], .advance 1, .fire 0]

/-- OLD mechanism (the timer deletes by key name): after `renewHistory` the key is absent although its newest write
is 1 unit old and carries a ttl of 2. -/
theorem old_timer_removes_young_value :
    (runOld renewHistory).store.get [107] = none ∧ (runOld renewHistory).now = 2 := by decide

/-- The same history under the mechanism as it is now keeps the newer value. -/
theorem new_timer_keeps_young_value : (run renewHistory).store.get [107] = some [2] := by decide

/-- Hence `young_value_survives` is FALSE for the old mechanism. -/
theorem old_mechanism_refutes_young_value_survives :
    ¬ (∀ (pre post : List Op) (ws : List (Bytes × Write)) (k v : Bytes) (ttl : Nat),
        lastWrite ws k = some (.put v ttl) → (∀ op ∈ post, op.writes k = false) →
        (runOld (pre ++ .commit ws :: post)).now < (runOld pre).now + ttl →
        (runOld (pre ++ .commit ws :: post)).store.get k = some v) := by
  intro h
  have := h [.commit [([107], .put [1] 2)], .advance 1] [.advance 1, .fire 0] [([107], .put [2] 2)] [107] [2] 2
    (by decide) (by decide) (by decide)
  revert this
  decide

/-! ### the batch conditions are KB.Engine's: a batch that passes leaves the same store in both models -/

/-- A batch whose conditions hold in the reference engine (`KB.commit … = .ok s'`, C11) and the TTL model's Commit
loop over the batch's cache leave the same value for every key: the TTL model adds bookkeeping, it does not change
what a batch does to the store. (`ops` pairs every operation with the ttl handed to it.) -/
theorem commit_agrees_with_engine (q : Quirks) (st : State) (hinv : TTLInv st) (ops : List (BOp × Nat)) (s' : Store)
    (h : KB.commit q st.store (ops.map (·.1)) = .ok s') (k : Bytes) :
    (step st (.commit (ops.map (fun o => writeOf o.2 o.1)))).store.get k = s'.get k := by
  have he := C11.commit_effect q st.store s' _ h
  have h1 := (get_foldl_effect st.store hinv.sorted ops k).2
  have h2 := view_commitWrites st hinv (ops.map (fun o => writeOf o.2 o.1)) k
  have h3 : (commitWrites st (ops.map (fun o => writeOf o.2 o.1))).store.get k =
      (view (commitWrites st (ops.map (fun o => writeOf o.2 o.1))) k).1 := rfl
  simp only [step]
  rw [h3, h2, he, h1]
  cases lastWrite (ops.map (fun o => writeOf o.2 o.1)) k with
  | none => rfl
  | some w => cases w <;> rfl

example : ∃ (q : Quirks) (st : State) (ops : List (BOp × Nat)) (s' : Store),
    TTLInv st ∧ KB.commit q st.store (ops.map (·.1)) = .ok s' :=
  ⟨Quirks.memkv, {}, [(.pine [107] [1], 1), (.cas [107] [2] [1], 0)], [([107], [2])], TTLInv.init, rfl⟩

end KB.C17Mem
