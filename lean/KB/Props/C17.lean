/-
  C17 — Expiry removes only event keys, wholly, and only after the TTL.
  Model: `expiry` / `expireStep` (scanner.compactIfExpired, with the event key the worker remembers as alive:
  `liveEventRawKey`) inside the worker loop `passLoop`, `timeoutRev`
  (scanner.getTimeoutRevision over the compaction marks) with a model clock, `createHasTTL`
  (backend.create). The event-key tests are DEFINED through facts regenerated from the source
  (`Generated.eventsMatchScanner`, `eventsMatchTxn`, `eventsPrefixShape`, `eventsPattern`): if the code
  goes back to a substring match these theorems stop checking.
-/
import KB.Lemmas.Expire
import KB.Lemmas.Pass
namespace KB.C17
open KB Generated

/-- The events resource directory directly under the configured prefix: `<prefix>/events/`. -/
def eventsDir (pfx : Bytes) : Bytes := pfx ++ [47, 101, 118, 101, 110, 116, 115, 47]

/-- Only event keys: whatever expiry removes lies in the events directory (engine without native TTL) — whatever
the worker remembers. -/
theorem only_event_keys (c : WCfg) (live : Bytes) (r : Rec) (acts : List Act) (h : expireStep c live r = some acts) :
    hasPrefix r.key c.eventsPfx = true ∧ c.eventsPfx ≠ [] := by
  unfold expireStep expiry at h
  rw [isEventKey_eq] at h
  by_cases h1 : (c.supportTTL || c.timeout == 0) = true
  · rw [if_pos h1] at h; exact absurd h (by simp)
  · rw [if_neg h1] at h
    by_cases h2 : (decide (c.eventsPfx.length > 0) && hasPrefix r.key c.eventsPfx) = true
    · simp only [Bool.and_eq_true, decide_eq_true_eq] at h2
      refine ⟨h2.2, ?_⟩
      intro he; rw [he] at h2; simp at h2
    · rw [if_neg h2] at h; exact absurd h (by simp)

/-- ... and the directory the backend configures is exactly `<prefix>/events/`. -/
theorem events_prefix_is_dir (c : Cfg) : eventsPrefixOf c = eventsDir c.pfx := by
  rw [eventsPrefixOf_eq]; rfl

/-- Engines with native TTL: the TTL is passed on create exactly for keys in the events directory. -/
theorem ttl_only_for_event_keys (c : Cfg) (key : Bytes) :
    createHasTTL c key = true ↔ hasPrefix key (eventsDir c.pfx) = true := by
  rw [createHasTTL_eq]; exact Iff.rfl

/-- A pod in a namespace called `events` is not an Event: `/registry/pods/events/p1` never expires. -/
theorem lookalike_never_expires :
    let pfx : Bytes := [47, 114, 101, 103, 105, 115, 116, 114, 121]               -- "/registry"
    let key : Bytes := pfx ++ [47, 112, 111, 100, 115, 47, 101, 118, 101, 110, 116, 115, 47, 112, 49]  -- "/pods/events/p1"
    ∀ (cw : WCfg) (live : Bytes) (r : Rec), cw.eventsPfx = eventsDir pfx → r.key = key →
      expireStep cw live r = none := by
  intro pfx key cw live r hpfx hkey
  have hk : hasPrefix r.key cw.eventsPfx = false := by
    rw [hpfx, hkey]; decide
  unfold expireStep expiry
  rw [isEventKey_eq, hk]
  simp

/-- The timeout revision is the revision of a compaction mark that is at least TTL old. -/
theorem timeout_rev_old (c : Cfg) (marks : List (Nat × Nat)) (now : Nat) (T : Nat)
    (h : (timeoutRev c marks now).1 = T) (hT : T ≠ 0) : ∃ t, (T, t) ∈ marks ∧ c.ttl ≤ now - t := by
  unfold timeoutRev at h
  by_cases hs : c.q.supportTTL = true
  · rw [if_pos hs] at h; exact absurd h.symm hT
  · rw [if_neg hs] at h
    simp only at h
    cases hl : (marks.takeWhile (fun m => decide (now - m.2 ≥ c.ttl))).getLast? with
    | none => rw [hl] at h; exact absurd h.symm hT
    | some x =>
      rw [hl] at h
      simp only [Option.map_some, Option.getD_some] at h
      have hmem := mem_takeWhile_imp' (List.mem_of_getLast? hl)
      refine ⟨x.2, ?_, ?_⟩
      · rw [← h]; exact hmem.1
      · simpa using hmem.2

/-- Never before the TTL: a record expires only if its (index) revision is at or below the timeout
revision — i.e. at or below a revision that was already committed when a mark at least TTL old was
taken; a key whose newest change is younger than that survives — and a version expires only if its key is not
the one the worker remembers as alive. -/
theorem young_survive (c : WCfg) (live : Bytes) (r : Rec) (acts : List Act) (h : expireStep c live r = some acts)
    (hnp : acts ≠ [.panic]) :
    (r.rev = 0 → fromBE (r.val.take 8) ≤ c.timeout) ∧ (r.rev ≠ 0 → r.rev ≤ c.timeout ∧ r.key ≠ live) := by
  unfold expireStep at h
  rcases expiry_cases c live r with h0 | ⟨_, _, _, ⟨h0, _, _⟩ | ⟨h0, hr, _, h5⟩ | ⟨h0, _, _, _⟩ | ⟨h0, hr, h5, h6⟩⟩
  · rw [h0] at h; cases h
  · rw [h0] at h; exact absurd (Option.some.inj h).symm hnp
  · exact ⟨fun _ => h5, fun hne => absurd hr hne⟩
  · rw [h0] at h; cases h
  · exact ⟨fun h0 => absurd h0 hr, fun _ => ⟨h5, h6⟩⟩

/-- An Event whose newest change is younger than the TTL keeps ALL its versions: when its revision record `i` names
a revision above the timeout revision, the expiry step does nothing to `i` whatever the worker remembered before,
the worker then remembers the key (`expiry … = .noLive`: `passLoop` goes on with `live = i.key`), and with the
key remembered the expiry step produces no action for any version of that key — whatever the version's revision,
at or below the timeout revision included. -/
theorem young_event_keeps_all_versions (c : WCfg) (i : Rec) (hi0 : i.rev = 0) (h8 : 8 ≤ i.val.length)
    (hy : c.timeout < fromBE (i.val.take 8)) :
    (∀ live, expireStep c live i = none) ∧
    (c.supportTTL = false → c.timeout ≠ 0 → isEventKey c i.key = true → ∀ live, expiry c live i = .noLive) ∧
    (∀ r : Rec, r.key = i.key → r.rev ≠ 0 → expireStep c i.key r = none) := by
  refine ⟨?_, ?_, ?_⟩
  · intro live
    unfold expireStep
    rcases expiry_cases c live i with h0 | ⟨_, _, _, ⟨h0, _, h⟩ | ⟨h0, _, _, h⟩ | ⟨h0, _, _, _⟩ | ⟨h0, h, _, _⟩⟩
    · rw [h0]
    · omega
    · omega
    · rw [h0]
    · exact absurd hi0 h
  · intro hs hT hk live
    unfold expiry
    rw [if_neg (by simp [hs, hT]), if_pos hk, if_pos (by simp [hi0]), if_neg (by omega), if_neg (by omega)]
  · intro r hk hr
    unfold expireStep
    rcases expiry_cases c i.key r with h0 | ⟨_, _, _, ⟨h0, h, _⟩ | ⟨h0, h, _, _⟩ | ⟨h0, h, _, _⟩ | ⟨h0, _, _, h⟩⟩
    · rw [h0]
    · exact absurd h hr
    · exact absurd h hr
    · exact absurd h hr
    · exact absurd hk h

/-- Wholly: for an event key whose index record says "newest change at m ≤ timeout" and all of whose
versions are ≤ m, one pass issues a delete for the index record and — unless the worker remembers the key as alive,
which it does exactly when that delete of the index record returned an error
(`KB.C07Expire.expired_index_failure_spares_versions`) — for every version. -/
theorem expire_whole (c : WCfg) (hc : c.supportTTL = false) (hT : c.timeout ≠ 0) (live : Bytes)
    (r : Rec) (hk : isEventKey c r.key = true) (m : Nat)
    (hidx : r.rev = 0 → 8 ≤ r.val.length ∧ fromBE (r.val.take 8) = m) (hver : r.rev ≠ 0 → r.rev ≤ m)
    (hm : m ≤ c.timeout) :
    (r.rev = 0 → expireStep c live r = some [.delcur r.ik r.val r.key]) ∧
    (r.rev ≠ 0 → r.key ≠ live → expireStep c live r = some [.del r.ik r.key]) := by
  have h1 : ¬ (c.supportTTL || c.timeout == 0) = true := by
    simp [hc, hT]
  constructor
  · intro hr
    obtain ⟨hl, hv⟩ := hidx hr
    unfold expireStep expiry
    rw [if_neg h1, if_pos hk, if_pos (by simp [hr]), if_neg (by omega), if_pos (by omega)]
  · intro hr hl
    have := hver hr
    unfold expireStep expiry
    rw [if_neg h1, if_pos hk, if_neg (by simp [hr]), if_pos (by simp [hl]; omega)]

/-- Expired records produce no read result and no other action: the worker performs the delete call(s) `acts` and
`continue`s with `prev` unchanged (the record is neither emitted nor carried as `prev`). -/
theorem expired_not_emitted (c : WCfg) (mask : Nat → DelOutcome) (p : Prev) (live : Bytes) (st : CompState)
    (r : Rec) (rs : List Rec) (acts : List Act) (h : expireStep c live r = some acts) :
    ∃ live', passLoop c mask p live st (r :: rs) =
      (acts ++ (passLoop c mask p live' (runDeletes mask st acts) rs).1,
       (passLoop c mask p live' (runDeletes mask st acts) rs).2) := by
  unfold expireStep at h
  rw [passLoop_cons]
  cases he : expiry c live r with
  | panic => rw [he] at h; cases h; exact ⟨live, rfl⟩
  | idx => rw [he] at h; cases h; exact ⟨_, rfl⟩
  | ver => rw [he] at h; cases h; exact ⟨live, rfl⟩
  | noLive => rw [he] at h; cases h
  | no => rw [he] at h; cases h

/-! Non-vacuity: an event key under `/registry/events/` with timeout revision 5. -/
def exCfg : WCfg := { R := 7, compact := true, timeout := 5, supportTTL := false,
                      eventsPfx := eventsDir [47, 114, 101, 103, 105, 115, 116, 114, 121] }
def exKey : Bytes := eventsDir [47, 114, 101, 103, 105, 115, 116, 114, 121] ++ [101]
/-- expired revision record (newest change at 4), its version at 3, and a young revision record (newest change at 9) -/
def exIdxOld : Rec := { key := exKey, rev := 0, val := be64 4, ik := encode exKey 0 }
def exVer : Rec := { key := exKey, rev := 3, val := [1], ik := encode exKey 3 }
def exIdxYoung : Rec := { key := exKey, rev := 0, val := be64 9, ik := encode exKey 0 }
example : expireStep exCfg [] exIdxOld = some [.delcur exIdxOld.ik exIdxOld.val exKey] := by decide
example : expireStep exCfg [] exVer = some [.del exVer.ik exKey] := by decide
example : expireStep exCfg exKey exVer = none := by decide
example : exIdxYoung.rev = 0 ∧ 8 ≤ exIdxYoung.val.length ∧ exCfg.timeout < fromBE (exIdxYoung.val.take 8) ∧
    exCfg.supportTTL = false ∧ exCfg.timeout ≠ 0 ∧ isEventKey exCfg exIdxYoung.key = true := by decide
example : isEventKey exCfg exVer.key = true ∧ (exVer.rev ≠ 0 → exVer.rev ≤ 4) ∧ 4 ≤ exCfg.timeout := by decide

end KB.C17

#print axioms KB.C17.only_event_keys
#print axioms KB.C17.events_prefix_is_dir
#print axioms KB.C17.ttl_only_for_event_keys
#print axioms KB.C17.lookalike_never_expires
#print axioms KB.C17.timeout_rev_old
#print axioms KB.C17.young_survive
#print axioms KB.C17.young_event_keeps_all_versions
#print axioms KB.C17.expire_whole
#print axioms KB.C17.expired_not_emitted
