/-
  C17 — Expiry removes only event keys, wholly, and only after the TTL.
  Model: `expiry` / `expireStep` (scanner.compactIfExpired, with the event key the worker remembers as alive,
  `liveEventRawKey`, and the one it removed as a whole, `goneEventRawKey`; the removal of an expired Event is ONE write
  batch, `Act.expire`, since /repo 74218cc) inside the worker loop `passLoop`, `timeoutRev`
  (scanner.getTimeoutRevision over the compaction marks) with a model clock, `createHasTTL`
  (backend.create). The event-key tests are DEFINED through facts regenerated from the source
  (`Generated.eventsMatchScanner`, `eventsMatchTxn`, `eventsPrefixShape`, `eventsPattern`): if the code
  goes back to a substring match these theorems stop checking.
-/
import KB.Lemmas.Expire
import KB.Lemmas.Pass
namespace KB.C17
open KB Generated

/-- The events resource directory directly under the configured prefix: `<prefix>/events/`. -/
def eventsDir (pfx : Bytes) : Bytes := pfx ++ [47, 101, 118, 101, 110, 116, 115, 47]

/-- Only event keys: whatever expiry removes lies in the events directory (engine without native TTL) — whatever
the worker remembers. -/
theorem only_event_keys (c : WCfg) (live gone : Bytes) (snap : List Rec) (r : Rec) (acts : List Act)
    (h : expireStep c live gone snap r = some acts) :
    hasPrefix r.key c.eventsPfx = true ∧ c.eventsPfx ≠ [] := by
  unfold expireStep expiry at h
  rw [isEventKey_eq] at h
  by_cases h1 : (c.supportTTL || c.timeout == 0) = true
  · rw [if_pos h1] at h; exact absurd h (by simp)
  · rw [if_neg h1] at h
    by_cases h2 : (decide (c.eventsPfx.length > 0) && hasPrefix r.key c.eventsPfx) = true
    · simp only [Bool.and_eq_true, decide_eq_true_eq] at h2
      refine ⟨h2.2, ?_⟩
      intro he; rw [he] at h2; simp at h2
    · rw [if_neg h2] at h; exact absurd h (by simp)

/-- ... and the directory the backend configures is exactly `<prefix>/events/`. -/
theorem events_prefix_is_dir (c : Cfg) : eventsPrefixOf c = eventsDir c.pfx := by
  rw [eventsPrefixOf_eq]; rfl

/-- Engines with native TTL: the TTL is passed on create exactly for keys in the events directory. -/
theorem ttl_only_for_event_keys (c : Cfg) (key : Bytes) :
    createHasTTL c key = true ↔ hasPrefix key (eventsDir c.pfx) = true := by
  rw [createHasTTL_eq]; exact Iff.rfl

/-- A pod in a namespace called `events` is not an Event: `/registry/pods/events/p1` never expires. -/
theorem lookalike_never_expires :
    let pfx : Bytes := [47, 114, 101, 103, 105, 115, 116, 114, 121]               -- "/registry"
    let key : Bytes := pfx ++ [47, 112, 111, 100, 115, 47, 101, 118, 101, 110, 116, 115, 47, 112, 49]  -- "/pods/events/p1"
    ∀ (cw : WCfg) (live gone : Bytes) (snap : List Rec) (r : Rec), cw.eventsPfx = eventsDir pfx → r.key = key →
      expireStep cw live gone snap r = none := by
  intro pfx key cw live gone snap r hpfx hkey
  have hk : hasPrefix r.key cw.eventsPfx = false := by
    rw [hpfx, hkey]; decide
  unfold expireStep expiry
  rw [isEventKey_eq, hk]
  simp

/-- The timeout revision is the revision of a compaction mark that is at least TTL old. -/
theorem timeout_rev_old (c : Cfg) (marks : List (Nat × Nat)) (now : Nat) (T : Nat)
    (h : (timeoutRev c marks now).1 = T) (hT : T ≠ 0) : ∃ t, (T, t) ∈ marks ∧ c.ttl ≤ now - t := by
  unfold timeoutRev at h
  by_cases hs : c.q.supportTTL = true
  · rw [if_pos hs] at h; exact absurd h.symm hT
  · rw [if_neg hs] at h
    simp only at h
    cases hl : (marks.takeWhile (fun m => decide (now - m.2 ≥ c.ttl))).getLast? with
    | none => rw [hl] at h; exact absurd h.symm hT
    | some x =>
      rw [hl] at h
      simp only [Option.map_some, Option.getD_some] at h
      have hmem := mem_takeWhile_imp' (List.mem_of_getLast? hl)
      refine ⟨x.2, ?_, ?_⟩
      · rw [← h]; exact hmem.1
      · simpa using hmem.2

/-- Never before the TTL: a revision record expires only if the revision it names is at or below the timeout
revision — i.e. at or below a revision that was already committed when a mark at least TTL old was taken; a key whose
newest change is younger than that survives. A version expires on its own (`compactKey`) only at or below the timeout
revision and only if its key is not the one the worker remembers as alive; the only other way a version goes is as a
part of the batch that removed its key's EXPIRED revision record (`expire_batch_only_own_versions`): then the worker
remembers the key as gone and makes no call for the version. -/
theorem young_survive (c : WCfg) (live gone : Bytes) (snap : List Rec) (r : Rec) (acts : List Act)
    (h : expireStep c live gone snap r = some acts) (hnp : acts ≠ [.panic]) :
    (r.rev = 0 → fromBE (r.val.take 8) ≤ c.timeout) ∧
    (r.rev ≠ 0 → (r.key = gone ∧ acts = []) ∨ (r.rev ≤ c.timeout ∧ r.key ≠ live ∧ acts = [.del r.ik r.key])) := by
  unfold expireStep at h
  rcases expiry_cases c live gone r with h0 | ⟨_, _, _, ⟨h0, _, _⟩ | ⟨h0, hr, _, h5⟩ | ⟨h0, _, _, _⟩ | ⟨h0, hr, h5⟩ |
      ⟨h0, hr, h5, h6, _⟩⟩
  · rw [h0] at h; cases h
  · rw [h0] at h; exact absurd (Option.some.inj h).symm hnp
  · exact ⟨fun _ => h5, fun hne => absurd hr hne⟩
  · rw [h0] at h; cases h
  · rw [h0] at h; exact ⟨fun h0 => absurd h0 hr, fun _ => .inl ⟨h5, (Option.some.inj h).symm⟩⟩
  · rw [h0] at h; exact ⟨fun h0 => absurd h0 hr, fun _ => .inr ⟨h5, h6, (Option.some.inj h).symm⟩⟩

/-- The expiry batch is made only at a revision record that names a revision at or below the timeout revision, and
it names nothing but that record and versions of the SAME raw key the snapshot shows. -/
theorem expire_batch_only_own_versions (c : WCfg) (live gone : Bytes) (snap : List Rec) (r : Rec)
    (ik v : Bytes) (vers : List Bytes) (raw : Bytes) (acts : List Act)
    (h : expireStep c live gone snap r = some acts) (ha : .expire ik v vers raw ∈ acts) :
    r.rev = 0 ∧ fromBE (r.val.take 8) ≤ c.timeout ∧ isEventKey c r.key = true ∧
    ik = r.ik ∧ v = r.val ∧ raw = r.key ∧
    ∀ x ∈ vers, ∃ w ∈ snap, w.key = r.key ∧ w.rev ≠ 0 ∧ w.ik = x := by
  unfold expireStep at h
  rcases expiry_cases c live gone r with h0 | ⟨_, _, hev, ⟨h0, _, _⟩ | ⟨h0, hr, _, h5⟩ | ⟨h0, _, _, _⟩ | ⟨h0, hr, h5⟩ |
      ⟨h0, hr, h5, h6, _⟩⟩
  · rw [h0] at h; cases h
  · rw [h0] at h; cases h; simp at ha
  · rw [h0] at h; cases h
    simp only [List.mem_singleton, Act.expire.injEq] at ha
    obtain ⟨e1, e2, e3, e4⟩ := ha
    refine ⟨hr, h5, hev, e1, e2, e4, fun x hx => ?_⟩
    rw [e3] at hx
    obtain ⟨w, hw, hk, h0', _, e⟩ := mem_versionsOf.1 hx
    exact ⟨w, hw, hk, h0', e⟩
  · rw [h0] at h; cases h
  · rw [h0] at h; cases h; simp at ha
  · rw [h0] at h; cases h; simp at ha

/-- An Event whose newest change is younger than the TTL keeps ALL its versions: when its revision record `i` names
a revision above the timeout revision, the expiry step does nothing to `i` whatever the worker remembered before,
the worker then remembers the key (`expiry … = .noLive`: `passLoop` goes on with `live = i.key`), and with the
key remembered (and not the gone one: `goneEventRawKey` is only ever set at a revision record whose batch went
through) the expiry step produces no action for any version of that key — whatever the version's revision, at or
below the timeout revision included. -/
theorem young_event_keeps_all_versions (c : WCfg) (i : Rec) (hi0 : i.rev = 0) (h8 : 8 ≤ i.val.length)
    (hy : c.timeout < fromBE (i.val.take 8)) (snap : List Rec) :
    (∀ live gone, expireStep c live gone snap i = none) ∧
    (c.supportTTL = false → c.timeout ≠ 0 → isEventKey c i.key = true → ∀ live gone, expiry c live gone i = .noLive) ∧
    (∀ r : Rec, r.key = i.key → r.rev ≠ 0 → ∀ gone, gone ≠ i.key → expireStep c i.key gone snap r = none) := by
  refine ⟨?_, ?_, ?_⟩
  · intro live gone
    unfold expireStep
    rcases expiry_cases c live gone i with h0 | ⟨_, _, _, ⟨h0, _, h⟩ | ⟨h0, _, _, h⟩ | ⟨h0, _, _, _⟩ | ⟨h0, h, _⟩ |
        ⟨h0, h, _, _⟩⟩
    · rw [h0]
    · omega
    · omega
    · rw [h0]
    · exact absurd hi0 h
    · exact absurd hi0 h
  · intro hs hT hk live gone
    unfold expiry
    rw [if_neg (by simp [hs, hT]), if_pos hk, if_pos (by simp [hi0]), if_neg (by omega), if_neg (by omega)]
  · intro r hk hr gone hg
    unfold expireStep
    rcases expiry_cases c i.key gone r with h0 | ⟨_, _, _, ⟨h0, h, _⟩ | ⟨h0, h, _, _⟩ | ⟨h0, h, _, _⟩ | ⟨h0, _, h⟩ |
        ⟨h0, _, _, h, _⟩⟩
    · rw [h0]
    · exact absurd h hr
    · exact absurd h hr
    · exact absurd h hr
    · exact absurd (hk ▸ h).symm hg
    · exact absurd hk h

/-- Wholly: for an event key whose index record says "newest change at m ≤ timeout", one pass makes ONE call at the
index record — a write batch naming the record (compare-and-delete) and every version of the key the snapshot shows —
and no further call for the versions when that batch went through (the key is the gone one); when it returned an
error the worker remembers the key as alive and none of its versions expires
(`KB.C07Expire.expired_index_failure_spares_versions`). A version of an event key that is neither gone nor alive
(its revision record was not seen by this worker) and lies at or below `m` is deleted on its own, as before. -/
theorem expire_whole (c : WCfg) (hc : c.supportTTL = false) (hT : c.timeout ≠ 0) (live gone : Bytes)
    (snap : List Rec) (r : Rec) (hk : isEventKey c r.key = true) (m : Nat)
    (hidx : r.rev = 0 → 8 ≤ r.val.length ∧ fromBE (r.val.take 8) = m) (hver : r.rev ≠ 0 → r.rev ≤ m)
    (hm : m ≤ c.timeout) :
    (r.rev = 0 → expireStep c live gone snap r = some [.expire r.ik r.val (versionsOf r.key snap) r.key] ∧
      ∀ w ∈ snap, w.key = r.key → w.rev ≠ 0 → w.rev < 2 ^ 64 - 1 → w.ik ∈ versionsOf r.key snap) ∧
    (r.rev ≠ 0 → r.key = gone → expireStep c live gone snap r = some []) ∧
    (r.rev ≠ 0 → r.key ≠ gone → r.key ≠ live → expireStep c live gone snap r = some [.del r.ik r.key]) := by
  have h1 : ¬ (c.supportTTL || c.timeout == 0) = true := by
    simp [hc, hT]
  refine ⟨?_, ?_, ?_⟩
  · intro hr
    obtain ⟨hl, hv⟩ := hidx hr
    refine ⟨?_, fun w hw h1' h2 h3 => mem_versionsOf.2 ⟨w, hw, h1', h2, h3, rfl⟩⟩
    unfold expireStep expiry
    rw [if_neg h1, if_pos hk, if_pos (by simp [hr]), if_neg (by omega), if_pos (by omega)]
  · intro hr hg
    unfold expireStep expiry
    rw [if_neg h1, if_pos hk, if_neg (by simp [hr]), if_pos (by simp [hg])]
  · intro hr hg hl
    have := hver hr
    unfold expireStep expiry
    rw [if_neg h1, if_pos hk, if_neg (by simp [hr]), if_neg (by simp [hg]), if_pos (by simp [hl]; omega)]

/-- Expired records produce no read result and no other action: the worker performs the call `acts` (none for a
version of the gone key) and `continue`s with `prev` unchanged (the record is neither emitted nor carried as `prev`). -/
theorem expired_not_emitted (c : WCfg) (mask : Nat → DelOutcome) (snap : List Rec) (p : Prev) (live gone : Bytes)
    (st : CompState) (r : Rec) (rs : List Rec) (acts : List Act) (h : expireStep c live gone snap r = some acts) :
    ∃ live' gone', passLoop c mask snap p live gone st (r :: rs) =
      (acts ++ (passLoop c mask snap p live' gone' (runActs mask st acts) rs).1,
       (passLoop c mask snap p live' gone' (runActs mask st acts) rs).2) := by
  unfold expireStep at h
  rw [passLoop_cons]
  cases he : expiry c live gone r with
  | panic => rw [he] at h; cases h; exact ⟨live, gone, rfl⟩
  | idx => rw [he] at h; cases h; exact ⟨_, _, rfl⟩
  | gone => rw [he] at h; cases h; exact ⟨live, gone, rfl⟩
  | ver => rw [he] at h; cases h; exact ⟨live, gone, rfl⟩
  | noLive => rw [he] at h; cases h
  | no => rw [he] at h; cases h

/-! Non-vacuity: an event key under `/registry/events/` with timeout revision 5. -/
def exCfg : WCfg := { R := 7, compact := true, timeout := 5, supportTTL := false,
                      eventsPfx := eventsDir [47, 114, 101, 103, 105, 115, 116, 114, 121] }
def exKey : Bytes := eventsDir [47, 114, 101, 103, 105, 115, 116, 114, 121] ++ [101]
/-- expired revision record (newest change at 4), its version at 3, and a young revision record (newest change at 9) -/
def exIdxOld : Rec := { key := exKey, rev := 0, val := be64 4, ik := encode exKey 0 }
def exVer : Rec := { key := exKey, rev := 3, val := [1], ik := encode exKey 3 }
def exIdxYoung : Rec := { key := exKey, rev := 0, val := be64 9, ik := encode exKey 0 }
/-- the batch at the expired revision record names the record and the version the snapshot shows -/
example : expireStep exCfg [] [] [exIdxOld, exVer] exIdxOld =
    some [.expire exIdxOld.ik exIdxOld.val [exVer.ik] exKey] := by decide
/-- the version: no call when the key went as a whole, left alone when the key is remembered as alive, deleted on its
own when the worker remembers neither -/
example : expireStep exCfg [] exKey [exIdxOld, exVer] exVer = some [] := by decide
example : expireStep exCfg [] [] [exIdxOld, exVer] exVer = some [.del exVer.ik exKey] := by decide
example : expireStep exCfg exKey [] [exIdxOld, exVer] exVer = none := by decide
example : exIdxYoung.rev = 0 ∧ 8 ≤ exIdxYoung.val.length ∧ exCfg.timeout < fromBE (exIdxYoung.val.take 8) ∧
    exCfg.supportTTL = false ∧ exCfg.timeout ≠ 0 ∧ isEventKey exCfg exIdxYoung.key = true := by decide
example : isEventKey exCfg exVer.key = true ∧ (exVer.rev ≠ 0 → exVer.rev ≤ 4) ∧ 4 ≤ exCfg.timeout := by decide

end KB.C17

#print axioms KB.C17.only_event_keys
#print axioms KB.C17.events_prefix_is_dir
#print axioms KB.C17.ttl_only_for_event_keys
#print axioms KB.C17.lookalike_never_expires
#print axioms KB.C17.timeout_rev_old
#print axioms KB.C17.young_survive
#print axioms KB.C17.expire_batch_only_own_versions
#print axioms KB.C17.young_event_keeps_all_versions
#print axioms KB.C17.expire_whole
#print axioms KB.C17.expired_not_emitted
